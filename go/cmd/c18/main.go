// C18 correspondence + fuzzing harness (T3; this part of the check is TESTING, not proof).
//
// A REAL semadb node (cluster node + the production HTTP router) runs in a child process. The
// parent sends it structure-aware mutated requests over HTTP — every endpoint of API v1 and v2,
// JSON and MessagePack bodies, valid requests mutated field by field and malformed byte strings —
// and judges every answer by the property:
//
//	O1  the process must not die (a death is an oracle failure with the request as replay)
//	O2  no 5xx (judged only on collections whose stored vectors are finite and moderate)
//	O3  after a 4xx the state digest of ALL collections of ALL users is unchanged
//	O4  a body the decoder refuses, a missing header, an unknown route must be answered 4xx
//	O5  every stored vector under an indexed path has the index dimension (seen through search)
//	O6  a search that is answered 2xx holds, in the part of its query that is executed (the list that goes
//	    with `_and` / `_or`, the filter of every vector / text leaf, at any depth), no vector whose length
//	    differs from the dimension of the index it is run on
//
// For every request whose body the real decoder accepts (or refuses), the decoded request is
// rendered into the model's abstract JSON syntax and written as an `h` op line together with the
// context (plan, collection schema, counts); the Lean model driver answers the same lines and the
// runner compares the HTTP status with the model's decision.
package main

import (
	"bufio"
	"bytes"
	"encoding/hex"
	"encoding/json"
	"errors"
	"flag"
	"fmt"
	"io"
	"math"
	"net/http"
	"os"
	"os/exec"
	"path/filepath"
	"sort"
	"strconv"
	"strings"
	"time"

	"github.com/google/uuid"
	v1 "github.com/semafind/semadb/httpapi/v1"
	v2 "github.com/semafind/semadb/httpapi/v2"
	"github.com/semafind/semadb/models"
	"github.com/vmihailenco/msgpack/v5"
	"verifharness/vh"
)

// ---------------------------------------------------------------------------- child process

type child struct {
	cmd   *exec.Cmd
	stdin io.WriteCloser
	port  int
	dir   string
	dead  chan struct{}
	log   *bytes.Buffer
}

func startChild(root string, n int) (*child, error) {
	dir := filepath.Join(root, fmt.Sprintf("node%d", n))
	os.RemoveAll(dir)
	if err := os.MkdirAll(dir, 0o755); err != nil {
		return nil, err
	}
	self, err := os.Executable()
	if err != nil {
		return nil, err
	}
	for attempt := 0; attempt < 5; attempt++ {
		c := &child{dir: dir, dead: make(chan struct{}), log: &bytes.Buffer{}}
		c.cmd = exec.Command(self, "-serve", dir)
		c.cmd.Stderr = c.log
		out, _ := c.cmd.StdoutPipe()
		c.stdin, _ = c.cmd.StdinPipe()
		if err := c.cmd.Start(); err != nil {
			return nil, err
		}
		ready := make(chan int, 1)
		go func() {
			sc := bufio.NewScanner(out)
			sc.Buffer(make([]byte, 1<<20), 1<<20)
			for sc.Scan() {
				l := sc.Text()
				if strings.HasPrefix(l, "PORT ") {
					p, _ := strconv.Atoi(strings.TrimPrefix(l, "PORT "))
					ready <- p
				}
			}
		}()
		go func() { c.cmd.Wait(); close(c.dead) }()
		select {
		case p := <-ready:
			c.port = p
			// wait until it answers
			for i := 0; i < 200; i++ {
				req, _ := http.NewRequest("GET", fmt.Sprintf("http://127.0.0.1:%d/v2/ping", p), nil)
				req.Header.Set("X-User-Id", "ping")
				req.Header.Set("X-Plan-Id", "BASIC")
				if resp, err := httpClient.Do(req); err == nil {
					io.Copy(io.Discard, resp.Body)
					resp.Body.Close()
					if resp.StatusCode == 200 {
						return c, nil
					}
				}
				select {
				case <-c.dead:
					i = 1000
				case <-time.After(10 * time.Millisecond):
				}
			}
		case <-c.dead:
		case <-time.After(20 * time.Second):
		}
		c.kill()
	}
	return nil, fmt.Errorf("could not start the child server")
}

func (c *child) alive() bool {
	select {
	case <-c.dead:
		return false
	default:
		return true
	}
}

func (c *child) kill() {
	if c.cmd.Process != nil {
		c.cmd.Process.Kill()
	}
	<-c.dead
}

var httpClient = &http.Client{Timeout: 25 * time.Second, Transport: &http.Transport{MaxIdleConnsPerHost: 4, DisableCompression: true}}

// ---------------------------------------------------------------------------- requests

type request struct {
	user, plan   string // "" = header absent
	method, path string
	ctype        string // "" = header absent
	body         []byte
}

func (r request) line() string {
	f := func(s string) string {
		if s == "" {
			return "-"
		}
		return s
	}
	b := "-"
	if len(r.body) > 0 {
		b = hex.EncodeToString(r.body)
	}
	return fmt.Sprintf("http %s %s %s %s %s %s", f(r.user), f(r.plan), r.method, f(r.path), f(r.ctype), b)
}

func parseLine(l string) (request, bool) {
	p := strings.Fields(l)
	if len(p) != 7 || p[0] != "http" {
		return request{}, false
	}
	f := func(s string) string {
		if s == "-" {
			return ""
		}
		return s
	}
	var body []byte
	if p[6] != "-" {
		body, _ = hex.DecodeString(p[6])
	}
	return request{f(p[1]), f(p[2]), p[3], f(p[4]), f(p[5]), body}, true
}

type response struct {
	status int
	body   []byte
	err    error
}

var slowClient = &http.Client{Timeout: 60 * time.Second, Transport: &http.Transport{DisableCompression: true}}

func isTimeout(err error) bool {
	type timeout interface{ Timeout() bool }
	var t timeout
	return errors.As(err, &t) && t.Timeout()
}

// waitPing: does the server answer a ping within d?
func (c *child) waitPing(d time.Duration) bool {
	deadline := time.Now().Add(d)
	for time.Now().Before(deadline) && c.alive() {
		r := c.doWith(slowClient, request{"ping", "BASIC", "GET", "/v2/ping", "", nil})
		if r.err == nil && r.status == 200 {
			return true
		}
		time.Sleep(200 * time.Millisecond)
	}
	return false
}

func (c *child) do(r request) response { return c.doWith(httpClient, r) }

// doPatient: for the harness' own idempotent reads (state digest): a time-out while the process lives is
// retried once with the long time-out after the server answered a ping (a stalled machine is not a finding)
func (c *child) doPatient(r request) response {
	resp := c.do(r)
	if resp.err != nil && isTimeout(resp.err) && c.alive() && c.waitPing(60*time.Second) {
		return c.doWith(slowClient, r)
	}
	return resp
}

func (c *child) doWith(client *http.Client, r request) response {
	req, err := http.NewRequest(r.method, fmt.Sprintf("http://127.0.0.1:%d%s", c.port, r.path), bytes.NewReader(r.body))
	if err != nil {
		return response{err: err}
	}
	if r.user != "" {
		req.Header.Set("X-User-Id", r.user)
	}
	if r.plan != "" {
		req.Header.Set("X-Plan-Id", r.plan)
	}
	if r.ctype != "" {
		req.Header.Set("Content-Type", r.ctype)
	}
	resp, err := client.Do(req)
	if err != nil {
		return response{err: err}
	}
	defer resp.Body.Close()
	b, _ := io.ReadAll(io.LimitReader(resp.Body, 64<<20))
	return response{status: resp.StatusCode, body: b}
}

// ---------------------------------------------------------------------------- state as seen through the API

type colInfo struct {
	ID     string
	Schema models.IndexSchema
	Shards []string
	Count  int64
	Points map[string]string // known id -> canonical JSON of the stored point (system fields removed)
}

type world struct {
	c      *child
	users  []struct{ user, plan string }
	known  map[string]map[string]bool // "user/col" -> ids the harness inserted (accepted)
	hist   map[string][]string        // "user/col" -> http lines of accepted writes (create first)
	taint  map[string]bool            // "user/col" -> holds non-finite / huge vectors: 5xx not judged
	broken map[string]string          // "user/col" -> cannot be read back any more (reported once); deleted at the next iteration
	// "user/col" -> the first write request of this server's life whose batch failed INSIDE a shard (a failed range
	// / failed point in a 2xx answer, a 5xx), as "<http line>\t<what the answer said>" (see hang.go)
	rejected map[string]string
	// first write of this server process whose batch failed inside a shard (never cleared while the process lives:
	// the goroutines such a batch leaves behind outlive the collection)
	rejectedEver string
	cols     map[string]map[string]*colInfo
	digest   string
	fails    *[]vh.OracleFailure
}

func canonJSON(v any) string {
	b, _ := json.Marshal(v) // maps are written with sorted keys
	return string(b)
}

// readState queries everything: list, collection info, the known points. Returns the canonical
// digest text. A failure to read (5xx / death) is reported through the returned error string.
func (w *world) readState() (map[string]map[string]*colInfo, string, string) {
	cols := map[string]map[string]*colInfo{}
	var sb strings.Builder
	for _, u := range w.users {
		cols[u.user] = map[string]*colInfo{}
		r := w.c.doPatient(request{u.user, u.plan, "GET", "/v2/collections", "", nil})
		if r.err != nil || r.status != 200 {
			return nil, "", fmt.Sprintf("list collections of %s: status %d err %v", u.user, r.status, r.err)
		}
		var lr struct {
			Collections []struct {
				Id string `json:"id"`
			} `json:"collections"`
		}
		if err := json.Unmarshal(r.body, &lr); err != nil {
			return nil, "", "list collections: " + err.Error()
		}
		ids := []string{}
		for _, c := range lr.Collections {
			ids = append(ids, c.Id)
		}
		sort.Strings(ids)
		fmt.Fprintf(&sb, "user %s: %v\n", u.user, ids)
		for _, id := range ids {
			key := u.user + "/" + id
			greq := request{u.user, u.plan, "GET", "/v2/collections/" + id, "", nil}
			r := w.c.doPatient(greq)
			if r.err != nil {
				return nil, "", fmt.Sprintf("get collection %s/%s: err %v", u.user, id, r.err)
			}
			if r.status != 200 {
				// the collection cannot be read back (a valid GET answered non-200): report once, keep going
				fmt.Fprintf(&sb, " col %s UNREADABLE\n", id)
				if w.broken[key] == "" {
					w.broken[key] = "get"
					*w.fails = append(*w.fails, vh.OracleFailure{
						Signature: fmt.Sprintf("5xx:v2Get:%d:%s", r.status, errClass(string(r.body))),
						What:      fmt.Sprintf("GET /v2/collections/%s (a valid request) answered %d %s", id, r.status, strings.TrimSpace(string(r.body))),
						Replay:    strings.Join(append(append([]string{}, w.hist[key]...), greq.line()), "\n"),
					})
				}
				continue
			}
			var gr struct {
				Id          string             `json:"id"`
				IndexSchema models.IndexSchema `json:"indexSchema"`
				Shards      []struct {
					Id         string `json:"id"`
					PointCount int64  `json:"pointCount"`
				} `json:"shards"`
			}
			if err := json.Unmarshal(r.body, &gr); err != nil {
				return nil, "", "get collection: " + err.Error()
			}
			ci := &colInfo{ID: id, Schema: gr.IndexSchema, Points: map[string]string{}}
			unreadable := false
			for _, s := range gr.Shards {
				ci.Shards = append(ci.Shards, fmt.Sprintf("%s=%d", s.Id, s.PointCount))
				ci.Count += s.PointCount
			}
			sort.Strings(ci.Shards)
			// the points the harness knows of, through an _id search, 40 at a time
			var idl []string
			for k := range w.known[u.user+"/"+id] {
				idl = append(idl, k)
			}
			sort.Strings(idl)
			for i := 0; i < len(idl); i += 40 {
				chunk := idl[i:min(i+40, len(idl))]
				vals := &N{K: 'a'}
				for _, x := range chunk {
					vals.A = append(vals.A, Str(x))
				}
				q := Obj("query", Obj("property", Str("_id"), "stringArray", Obj("value", vals, "operator", Str("containsAny"))), "select", Arr(Str("*")), "limit", Int(100))
				sreq := request{u.user, u.plan, "POST", "/v2/collections/" + id + "/points/search", "application/json", q.JSON()}
				r := w.c.doPatient(sreq)
				if r.err != nil {
					return nil, "", fmt.Sprintf("digest search %s/%s: err %v", u.user, id, r.err)
				}
				if r.status != 200 {
					unreadable = true
					if w.broken[key] == "" {
						w.broken[key] = "search"
						if !w.taint[key] {
							*w.fails = append(*w.fails, vh.OracleFailure{
								Signature: fmt.Sprintf("5xx:v2Search:%d:%s", r.status, errClass(string(r.body))),
								What:      fmt.Sprintf("an _id search with select * on %s (a valid request; no non-finite vector was stored there) answered %d %s", key, r.status, strings.TrimSpace(string(r.body))),
								Replay:    strings.Join(append(append([]string{}, w.hist[key]...), sreq.line()), "\n"),
							})
						}
					}
					break
				}
				var sr struct {
					Points []map[string]any `json:"points"`
				}
				dec := json.NewDecoder(bytes.NewReader(r.body))
				if err := dec.Decode(&sr); err != nil {
					// a 200 whose JSON this process cannot read (a stored point nested deeper than encoding/json's
					// 10000 levels, put there through MessagePack): not a failure of the server; the
					// collection is dropped at the next iteration
					unreadable = true
					if w.broken[key] == "" {
						w.broken[key] = "harness cannot decode: " + err.Error()
					}
					break
				}
				for _, p := range sr.Points {
					pid, _ := p["_id"].(string)
					delete(p, "_id")
					delete(p, "_distance")
					delete(p, "_score")
					delete(p, "_hybridScore")
					// the same id can live in two shards (an insert of an existing id that lands in another
					// shard is accepted): keep every copy, in a canonical order
					if prev, dup := ci.Points[pid]; dup {
						all := append(strings.Split(prev, " || "), canonJSON(p))
						sort.Strings(all)
						ci.Points[pid] = strings.Join(all, " || ")
					} else {
						ci.Points[pid] = canonJSON(p)
					}
					// O5: every stored vector under an indexed path has the index dimension
					for prop, sv := range gr.IndexSchema {
						dim := -1
						if sv.Type == models.IndexTypeVectorFlat && sv.VectorFlat != nil {
							dim = int(sv.VectorFlat.VectorSize)
						}
						if sv.Type == models.IndexTypeVectorVamana && sv.VectorVamana != nil {
							dim = int(sv.VectorVamana.VectorSize)
						}
						if dim < 0 {
							continue
						}
						var cur any = p
						okPath := true
						for _, part := range strings.Split(prop, ".") {
							m, ok := cur.(map[string]any)
							if !ok {
								okPath = false
								break
							}
							cur, ok = m[part]
							if !ok {
								okPath = false
								break
							}
						}
						if arr, ok := cur.([]any); okPath && ok && len(arr) != dim {
							allNum := true
							for _, e := range arr {
								if _, ok := e.(float64); !ok {
									allNum = false
								}
							}
							if allNum {
								*w.fails = append(*w.fails, vh.OracleFailure{
									Signature: fmt.Sprintf("stored-vector-dim:%s:dim=%d:len=%d", sv.Type, dim, len(arr)),
									What:      fmt.Sprintf("collection %s stores point %s whose indexed vector %q has length %d, index dimension %d: a vector of the wrong length reached the index", key, pid, prop, len(arr), dim),
									Replay:    strings.Join(w.hist[key], "\n"),
								})
							}
						}
					}
				}
			}
			pk := make([]string, 0, len(ci.Points))
			for k := range ci.Points {
				pk = append(pk, k)
			}
			sort.Strings(pk)
			fmt.Fprintf(&sb, " col %s schema=%s shards=%v count=%d unreadable=%v\n", id, canonJSON(gr.IndexSchema), ci.Shards, ci.Count, unreadable)
			for _, k := range pk {
				fmt.Fprintf(&sb, "  pt %s %s\n", k, ci.Points[k])
			}
			cols[u.user][id] = ci
		}
	}
	return cols, sb.String(), ""
}

// ---------------------------------------------------------------------------- in-harness decoding (the same decoders, the same struct types)

func decodeInto[T any](ctype string, body []byte) (v T, ok bool, perr string) {
	defer func() {
		if r := recover(); r != nil {
			ok = false
			perr = fmt.Sprint("decoder panic: ", r)
		}
	}()
	switch ctype {
	case "application/json":
		if err := json.NewDecoder(bytes.NewReader(body)).Decode(&v); err != nil {
			return v, false, ""
		}
	case "application/msgpack":
		// like DecodeValid: skip over the value first (also keeps THIS process from allocating
		// for a forged array header)
		if err := msgpack.NewDecoder(bytes.NewReader(body)).Skip(); err != nil {
			return v, false, ""
		}
		dec := msgpack.NewDecoder(bytes.NewReader(body))
		dec.SetCustomStructTag("json")
		if err := dec.Decode(&v); err != nil {
			return v, false, ""
		}
	default:
		return v, false, ""
	}
	return v, true, ""
}

// canonical body for the model: tokens, or "!" when the decoder refuses; exotic != "" = not modelled
func decodeBody(ep, ctype string, body []byte) (tokens string, exotic string) {
	render := func(v any, ok bool, perr string) (string, string) {
		if perr != "" {
			// the decoder panics on these bytes: for the server that must be a refusal (4xx) as well
			return "!", ""
		}
		if !ok {
			return "!", ""
		}
		return canonJ(v)
	}
	switch ep {
	case "v2Create":
		v, ok, p := decodeInto[v2.CreateCollectionRequest](ctype, body)
		return render(&v, ok, p)
	case "v2Insert":
		v, ok, p := decodeInto[v2.InsertPointsRequest](ctype, body)
		return render(&v, ok, p)
	case "v2Update":
		v, ok, p := decodeInto[v2.UpdatePointsRequest](ctype, body)
		return render(&v, ok, p)
	case "v2Delete":
		v, ok, p := decodeInto[v2.DeletePointsRequest](ctype, body)
		return render(&v, ok, p)
	case "v2Search":
		v, ok, p := decodeInto[models.SearchRequest](ctype, body)
		return render(&v, ok, p)
	case "v1Create":
		v, ok, p := decodeInto[v1.CreateCollectionRequest](ctype, body)
		return render(&v, ok, p)
	case "v1Insert":
		v, ok, p := decodeInto[v1.InsertPointsRequest](ctype, body)
		return render(&v, ok, p)
	case "v1Update":
		v, ok, p := decodeInto[v1.UpdatePointsRequest](ctype, body)
		return render(&v, ok, p)
	case "v1Delete":
		v, ok, p := decodeInto[v1.DeletePointsRequest](ctype, body)
		return render(&v, ok, p)
	case "v1Search":
		v, ok, p := decodeInto[v1.SearchPointsRequest](ctype, body)
		return render(&v, ok, p)
	}
	return "n", ""
}

func wildF(f float64) bool { return math.IsNaN(f) || math.IsInf(f, 0) || math.Abs(f) > 1e15 }

func wildVec(v any) bool {
	switch x := v.(type) {
	case []any:
		for _, e := range x {
			switch f := e.(type) {
			case float64:
				if wildF(f) {
					return true
				}
			case float32:
				if wildF(float64(f)) {
					return true
				}
			}
		}
	case []float32:
		for _, f := range x {
			if wildF(float64(f)) {
				return true
			}
		}
	}
	return false
}

// does an insert / update put wild numbers under a path that a vector index of the schema reads?
func writeTaints(ep, ctype string, raw []byte, schema models.IndexSchema) bool {
	var pts []map[string]any
	switch ep {
	case "v2Insert":
		if v, ok, _ := decodeInto[v2.InsertPointsRequest](ctype, raw); ok {
			for _, p := range v.Points {
				pts = append(pts, p)
			}
		}
	case "v2Update":
		if v, ok, _ := decodeInto[v2.UpdatePointsRequest](ctype, raw); ok {
			for _, p := range v.Points {
				pts = append(pts, p)
			}
		}
	case "v1Insert":
		if v, ok, _ := decodeInto[v1.InsertPointsRequest](ctype, raw); ok {
			for _, p := range v.Points {
				pts = append(pts, map[string]any{"vector": p.Vector, "metadata": p.Metadata})
			}
		}
	case "v1Update":
		if v, ok, _ := decodeInto[v1.UpdatePointsRequest](ctype, raw); ok {
			for _, p := range v.Points {
				pts = append(pts, map[string]any{"vector": p.Vector, "metadata": p.Metadata})
			}
		}
	}
	for _, p := range pts {
		for prop, sv := range schema {
			if sv.Type != models.IndexTypeVectorFlat && sv.Type != models.IndexTypeVectorVamana {
				continue
			}
			var cur any = p
			ok := true
			for _, part := range strings.Split(prop, ".") {
				m, isMap := cur.(map[string]any)
				if !isMap {
					ok = false
					break
				}
				if cur, ok = m[part]; !ok {
					break
				}
			}
			if ok && wildVec(cur) {
				return true
			}
		}
	}
	return false
}

// does the decoded request carry numbers that make distances non-finite or astronomically large?
// (the property judges valid requests only when distances stay finite)
func wild(tokens string) bool {
	for _, t := range strings.Fields(tokens) {
		if strings.HasPrefix(t, "#f32:") || strings.HasPrefix(t, "#f64:") {
			bits, _ := strconv.ParseUint(t[5:], 10, 64)
			f := math.Float64frombits(bits)
			if math.IsNaN(f) || math.IsInf(f, 0) || math.Abs(f) > 1e15 {
				return true
			}
		}
	}
	return false
}

// O6. reachMismatch walks a decoded query the way indexManager.Search (shard/index/search.go) dispatches
// it — by property name, then by the TYPE of the property's index — and returns the first vector leaf whose
// length differs from the dimension of the index it would be run on ("" if none). What is not executed
// (the other list of a composite node, option blocks of other types) is not looked at.
func reachMismatch(schema models.IndexSchema, q models.Query) string {
	switch q.Property {
	case "_and", "_or":
		subs := q.And
		if q.Property == "_or" {
			subs = q.Or
		}
		for _, s := range subs {
			if m := reachMismatch(schema, s); m != "" {
				return m
			}
		}
		return ""
	case "_id":
		return ""
	}
	sv, ok := schema[q.Property]
	if !ok {
		return ""
	}
	switch sv.Type {
	case models.IndexTypeVectorFlat:
		if q.VectorFlat == nil || sv.VectorFlat == nil {
			return ""
		}
		if q.VectorFlat.Filter != nil {
			if m := reachMismatch(schema, *q.VectorFlat.Filter); m != "" {
				return m
			}
		}
		if len(q.VectorFlat.Vector) != int(sv.VectorFlat.VectorSize) {
			return fmt.Sprintf("vectorFlat:dim=%d:len=%d", sv.VectorFlat.VectorSize, len(q.VectorFlat.Vector))
		}
	case models.IndexTypeVectorVamana:
		if q.VectorVamana == nil || sv.VectorVamana == nil {
			return ""
		}
		if q.VectorVamana.Filter != nil {
			if m := reachMismatch(schema, *q.VectorVamana.Filter); m != "" {
				return m
			}
		}
		if len(q.VectorVamana.Vector) != int(sv.VectorVamana.VectorSize) {
			return fmt.Sprintf("vectorVamana:dim=%d:len=%d", sv.VectorVamana.VectorSize, len(q.VectorVamana.Vector))
		}
	case models.IndexTypeText:
		if q.Text != nil && q.Text.Filter != nil {
			return reachMismatch(schema, *q.Text.Filter)
		}
	}
	return ""
}

// checkReach applies O6 to an answered search
func (rn *runner) checkReach(ep, ctype string, raw []byte, ci *colInfo, st int, key string, req request, hline string) {
	if ci == nil || st < 200 || st >= 300 {
		return
	}
	m := ""
	switch ep {
	case "v2Search":
		if v, ok, _ := decodeInto[models.SearchRequest](ctype, raw); ok {
			m = reachMismatch(ci.Schema, v.Query)
		}
	case "v1Search":
		if v, ok, _ := decodeInto[v1.SearchPointsRequest](ctype, raw); ok {
			// the v1 handler runs a vamana query on "vector"
			m = reachMismatch(ci.Schema, models.Query{Property: "vector", VectorVamana: &models.SearchVectorVamanaOptions{Vector: v.Vector}})
		}
	}
	if m != "" {
		rn.fail("vector-dim-reached:"+ep+":"+m, fmt.Sprintf("%s %s was answered %d although the executed part of its query runs a vector of the wrong length on an index (%s): the vector reached the distance computation", req.method, req.path, st, m), rn.replayFor(key, req, hline))
	}
}

// ---------------------------------------------------------------------------- main

type epDef struct {
	name, method, suffix string // suffix after /collections[/{id}]
	col, body            bool
}

var endpoints = []epDef{
	{"List", "GET", "", false, false},
	{"Create", "POST", "", false, true},
	{"Get", "GET", "", true, false},
	{"DeleteCol", "DELETE", "", true, false},
	{"Insert", "POST", "/points", true, true},
	{"Update", "PUT", "/points", true, true},
	{"Delete", "DELETE", "/points", true, true},
	{"Search", "POST", "/points/search", true, true},
}

var planNums = map[string][3]int{}
var noSweep bool

func main() {
	seed := flag.Uint64("seed", 1, "PRNG seed")
	n := flag.Int("n", 1200, "number of fuzzed requests")
	dir := flag.String("out", "", "output directory")
	replay := flag.String("replay", "", "replay the http lines of this file against a fresh child server")
	serve := flag.String("serve", "", "(internal) run the child server with this data directory")
	deep := flag.Int("deepmp", 0, "also send one MessagePack body nested this deep (0 = off)")
	flag.BoolVar(&noSweep, "nosweep", false, "skip the deterministic probes (to measure what the random generator finds on its own)")
	flag.Parse()
	if *serve != "" {
		serveMain(*serve)
		return
	}
	for k, p := range userPlans {
		planNums[k] = [3]int{p.MaxCollections, int(p.MaxCollectionPointCount), p.MaxPointSize}
	}
	if *replay != "" {
		doReplay(*replay)
		return
	}
	if *dir == "" {
		fmt.Fprintln(os.Stderr, "-out required")
		os.Exit(2)
	}
	run(*seed, *n, *dir, *deep)
}

func doReplay(path string) {
	data, err := os.ReadFile(path)
	if err != nil {
		fmt.Println(err)
		os.Exit(2)
	}
	tmp, _ := os.MkdirTemp("", "c18replay")
	defer os.RemoveAll(tmp)
	c, err := startChild(tmp, 0)
	if err != nil {
		fmt.Println(err)
		os.Exit(2)
	}
	defer c.kill()
	deadSaid := false
	for _, l := range strings.Split(string(data), "\n") {
		l = strings.TrimSpace(l)
		if l == "" || strings.HasPrefix(l, "#") {
			continue
		}
		r, ok := parseLine(l)
		if !ok {
			fmt.Println("-")
			continue
		}
		if !c.alive() {
			if !deadSaid {
				deadSaid = true
				fmt.Printf("status=none (the server process is dead: %s)\n", lastLines(c.log.String(), 3))
			} else {
				fmt.Println("status=none (the server process is dead)")
			}
			continue
		}
		resp := c.do(r)
		time.Sleep(30 * time.Millisecond)
		if resp.err != nil && !c.alive() {
			fmt.Printf("status=none SERVER PROCESS DIED: %s\n", lastLines(c.log.String(), 3))
			continue
		}
		if resp.err != nil && isTimeout(resp.err) {
			// a hang: the goroutines of the server (SIGQUIT), as in the run that reported it
			gs := parseDump(c.quitDump(20 * time.Second))
			fmt.Printf("status=none NO ANSWER within %v, the process lives; cache-lock-leak shape: %v; goroutines of the repository's code that wait for another goroutine:\n%s", httpClient.Timeout, cacheLockLeak(gs), hangDigest(gs))
			continue
		}
		body := string(resp.body)
		if len(body) > 160 {
			body = body[:160] + "..."
		}
		fmt.Printf("status=%d %s\n", resp.status, strings.TrimSpace(body))
		if resp.status >= 500 && os.Getenv("C18_SERVER_LOG") != "" {
			l := c.log.String()
			if i := strings.LastIndex(l, "panic recovered"); i >= 0 {
				fmt.Fprintln(os.Stderr, l[max(0, i-200):min(len(l), i+3000)])
			}
		}
	}
}

func lastLines(s string, n int) string {
	ls := strings.Split(strings.TrimSpace(s), "\n")
	var keep []string
	for _, l := range ls {
		if strings.HasPrefix(l, "panic:") || strings.HasPrefix(l, "fatal error:") || strings.Contains(l, "goroutine stack exceeds") {
			keep = append(keep, l)
		}
	}
	if len(keep) == 0 && len(ls) > n {
		keep = ls[len(ls)-n:]
	} else if len(keep) == 0 {
		keep = ls
	}
	return strings.Join(keep, " | ")
}

// panic / fatal message of the dead child, with numbers removed: a stable signature
// panickingGoroutine: the stack of the goroutine that brought the process down (the first goroutine block after the
// panic / fatal error line), at most 80 lines
func panickingGoroutine(log string) string {
	lines := strings.Split(log, "\n")
	start := -1
	for i, l := range lines {
		if strings.HasPrefix(l, "panic:") || strings.HasPrefix(l, "fatal error:") || strings.HasPrefix(l, "unexpected fault address") {
			start = i
			break
		}
	}
	if start < 0 {
		return ""
	}
	g := -1
	for i := start; i < len(lines); i++ {
		if strings.HasPrefix(lines[i], "goroutine ") {
			g = i
			break
		}
	}
	if g < 0 {
		return ""
	}
	end := g + 1
	for end < len(lines) && strings.TrimSpace(lines[end]) != "" && end-g < 80 {
		end++
	}
	return strings.Join(lines[g:end], "\n")
}

func deathSig(log string) string {
	for _, l := range strings.Split(log, "\n") {
		if strings.HasPrefix(l, "panic:") || strings.HasPrefix(l, "fatal error:") {
			var sb strings.Builder
			for _, r := range l {
				if r >= '0' && r <= '9' {
					continue
				}
				sb.WriteRune(r)
			}
			return strings.Join(strings.Fields(sb.String()), "-")
		}
	}
	return "no-panic-message"
}

type runner struct {
	w          *world
	g          *gen
	o          *vh.Out
	root       string
	nchild     int
	setup      []string // http lines that build the base collections
	specs      map[string]*colSpec
	replays    *bufio.Writer
	statusCt   map[string]int
	mutCt      map[string]int
	deaths     int
	restarts   int
	abort      bool // too many server deaths: stop generating, report what was found
	baseFailed map[string]bool
	judged     int
	unjudged   int
	// a time-out was confirmed by a ping + retry (see judge)
	hangConfirmed bool
	distinct      map[string]struct{}
	outDir        string // run directory (goroutine dumps of hung servers go there)
	hangs         int
	followUps     int
	// the slowest exchange of the run (evidence: a request that needs seconds on a quiet machine is worth a look)
	slowest     time.Duration
	slowestReq  string
	slowestLine string
}

func (rn *runner) restart() {
	if rn.w.c != nil {
		rn.w.c.kill()
	}
	rn.restarts++
	if rn.restarts > 8 {
		rn.abort = true
	}
	c, err := startChild(rn.root, rn.nchild)
	rn.nchild++
	if err != nil {
		fmt.Fprintln(os.Stderr, err)
		os.Exit(3)
	}
	rn.w.c = c
	rn.w.known = map[string]map[string]bool{}
	rn.w.hist = map[string][]string{}
	rn.w.taint = map[string]bool{}
	rn.w.broken = map[string]string{}
	rn.w.rejected = map[string]string{}
	rn.w.rejectedEver = ""
	rn.w.cols = map[string]map[string]*colInfo{}
	rn.w.digest = ""
	rn.setup = nil
	if rn.abort {
		return
	}
	gen := rn.restarts
	for i := range baseCols {
		if rn.restarts != gen || rn.abort {
			return // a setup request killed the server: the nested restart already rebuilt the state
		}
		rn.ensureBase(&baseCols[i])
	}
	rn.refresh()
}

func (rn *runner) ensureBase(cs *colSpec) {
	key := cs.user + "/" + cs.id
	api := "/v2"
	if cs.v1 {
		api = "/v1"
	}
	req := request{cs.user, cs.plan, "POST", api + "/collections", "application/json", cs.createBody().JSON()}
	if rn.baseFailed[key] {
		return
	}
	if len(rn.w.cols[cs.user]) >= planNums[cs.plan][0] {
		// the user's quota is used up by fuzz-created collections: make room
		for id := range rn.w.cols[cs.user] {
			if !isBase(id) {
				rn.w.c.do(request{cs.user, cs.plan, "DELETE", "/v2/collections/" + id, "", nil})
				delete(rn.w.hist, cs.user+"/"+id)
				delete(rn.w.rejected, cs.user+"/"+id)
				delete(rn.w.known, cs.user+"/"+id)
				delete(rn.specs, cs.user+"/"+id)
			}
		}
		rn.refresh()
	}
	// through the oracle and the model like any other request: a refused documented schema shows
	// up as a disagreement with a replay instead of stopping the run
	if st := rn.modelledReq(api[1:]+"Create", api[1:], cs.user, cs.plan, "POST", "", "", cs.createBody(), false, "setup", false); st != 200 {
		fmt.Fprintf(os.Stderr, "setup: creating %s answered %d\n", key, st)
		rn.baseFailed[key] = true
		return
	}
	rn.w.hist[key] = []string{req.line()}
	rn.w.known[key] = map[string]bool{}
	delete(rn.w.taint, key)
	rn.specs[key] = cs
	rn.refresh()
	// a few valid points so that searches have something to find (several shards for base1)
	npts := 12
	if cs.plan == "TINY" {
		npts = 2
	}
	if cs.plan == "BIG" {
		npts = 3
	}
	pts := &N{K: 'a'}
	for i := 0; i < npts; i++ {
		if cs.v1 {
			pts.A = append(pts.A, rn.g.v1Point(cs, true))
		} else {
			pts.A = append(pts.A, rn.g.point(cs, true))
		}
	}
	iapi := api[1:]
	if cs.id == "mixed" {
		iapi = "v2" // the second vector index must stay consistent: insert through v2 only
	}
	if st := rn.modelledReq(iapi+"Insert", iapi, cs.user, cs.plan, "POST", cs.id, "/points", Obj("points", pts), false, "setup", false); st != 200 {
		fmt.Fprintf(os.Stderr, "setup: inserting into %s answered %d\n", key, st)
		if st > 0 {
			rn.baseFailed[key] = true
		}
		return
	}
	for _, p := range pts.A {
		idn := p.Get("_id")
		if idn == nil {
			idn = p.Get("id")
		}
		rn.w.known[key][idn.S] = true
	}
	rn.refresh()
}

// refresh re-reads the whole state and makes it the new baseline
func (rn *runner) refresh() bool {
	cols, dg, errs := rn.w.readState()
	if errs != "" {
		fmt.Fprintln(os.Stderr, "refresh failed:", errs)
		return false
	}
	rn.w.cols, rn.w.digest = cols, dg
	return true
}

func hexOrDash(b []byte) string {
	if len(b) == 0 {
		return "-"
	}
	return hex.EncodeToString(b)
}

func run(seed uint64, n int, dir string, deepmp int) {
	o := vh.NewOut(dir)
	rf, _ := os.Create(filepath.Join(dir, "replays.txt"))
	defer rf.Close()
	root, _ := os.MkdirTemp("", "c18nodes")
	defer os.RemoveAll(root)
	var fails []vh.OracleFailure
	// vh.NewRng(k) and vh.NewRng(k+1) are the same splitmix stream one step apart, and a generator with
	// data dependent consumption re-synchronises on it within a few calls: hash the seed first
	rn := &runner{g: &gen{r: vh.NewRng(vh.NewRng(seed ^ 0xC18C18C18).U64())}, o: o, root: root, specs: map[string]*colSpec{}, replays: bufio.NewWriter(rf),
		statusCt: map[string]int{}, mutCt: map[string]int{}, distinct: map[string]struct{}{}, baseFailed: map[string]bool{}, outDir: dir}
	rn.w = &world{fails: &fails}
	rn.w.users = []struct{ user, plan string }{{"alice", "BASIC"}, {"bob", "TINY"}, {"carol", "BIG"}, {"dave", "BASIC"}}
	rn.restart()
	defer func() { rn.w.c.kill() }()

	t0 := time.Now()
	if !noSweep {
		rn.pagingProbe()
		rn.boundarySweep()
	}
	for i := 0; i < n && !rn.abort; i++ {
		func() {
			defer func() { // a bug of the harness must not end the run silently
				if r := recover(); r != nil {
					fmt.Fprintln(os.Stderr, "harness panic in iteration", i, r)
					rn.mutCt["harness-panic"]++
					rn.refresh()
				}
			}()
			rn.iteration(i)
		}()
	}
	rn.pureOps() // last: status disagreements come first in the diff
	if deepmp > 0 {
		rn.deepMsgpack(deepmp)
	}
	rn.replays.Flush()
	if rn.slowestLine != "" {
		os.WriteFile(filepath.Join(dir, "slowest.txt"), []byte(strings.Join(append(append([]string{}, rn.setup...), rn.slowestLine), "\n")+"\n"), 0o644)
	}
	for _, f := range fails {
		o.Fail(f.Signature, f.What, f.Replay)
	}
	dist := map[string]any{}
	for k, v := range rn.statusCt {
		dist["status:"+k] = v
	}
	for k, v := range rn.mutCt {
		dist["mutation:"+k] = v
	}
	for k, v := range o.Stats {
		dist[k] = v
	}
	o.Close(map[string]any{
		"rule":                "TESTING (fuzzing), not proof: distinct_nontrivial = number of distinct (endpoint, content type, mutation kind, mutated field path, HTTP status) tuples among the requests that reached a handler (status other than the header / routing refusals); evaluations = HTTP requests judged by the oracle O1-O6 plus pure op lines compared with the model",
		"distribution":        dist,
		"distinct_nontrivial": len(rn.distinct),
		"evaluations":         rn.judged + o.N,
		"http_requests":       rn.judged,
		"server_deaths":       rn.deaths,
		"fuzz_wall_s":         time.Since(t0).Seconds(),
		"slowest_request":     fmt.Sprintf("%.1fs %s", rn.slowest.Seconds(), rn.slowestReq),
		"seed":                seed,
	})
}

// deepMsgpack: one MessagePack insert whose point nests arrays `depth` deep (thorough tier)
func (rn *runner) deepMsgpack(depth int) {
	b := []byte{0x81, 0xa6, 'p', 'o', 'i', 'n', 't', 's', 0x91, 0x81, 0xa1, 'x'}
	b = append(b, bytes.Repeat([]byte{0x91}, depth)...)
	b = append(b, 0x01)
	req := request{"alice", "BASIC", "POST", "/v2/collections/base1/points", "application/msgpack", b}
	rn.judge(req, "v2Insert", "application/msgpack", "deep-msgpack", fmt.Sprintf("depth-%d", depth), "alice/base1", "")
}

func (rn *runner) fail(sig, what string, lines []string) {
	*rn.w.fails = append(*rn.w.fails, vh.OracleFailure{Signature: sig, What: what, Replay: strings.Join(lines, "\n")})
}

func (rn *runner) replayFor(key string, req request, hline string) []string {
	var lines []string
	h := rn.w.hist[key]
	if len(h) > 60 {
		h = append([]string{h[0]}, h[len(h)-59:]...)
	}
	lines = append(lines, h...)
	lines = append(lines, req.line())
	if hline != "" {
		lines = append(lines, hline)
	}
	return lines
}

// exchange sends one request. No answer within the client's time-out although the process lives: the machine
// is shared, a stall of the whole child looks the same as a hung handler. Before that is reported, the server
// gets a minute to answer a ping and the same request is sent once more with a long time-out: a handler that
// hangs on a lock hangs again (the caller reports it); a request that is answered now was slow, not lost
// (retried = true: the first attempt may have been carried out meanwhile, so the answer is not compared with
// the model). After one confirmed hang later time-outs of the run are reported at once.
func (rn *runner) exchange(req request) (resp response, retried bool) {
	c := rn.w.c
	t0 := time.Now()
	resp = c.do(req)
	if d := time.Since(t0); d > rn.slowest {
		rn.slowest, rn.slowestReq = d, req.method+" "+req.path+" "+req.ctype+" ("+strconv.Itoa(len(req.body))+" bytes)"
		if d > 5*time.Second {
			rn.slowestLine = req.line()
		}
	}
	if resp.err != nil && isTimeout(resp.err) && c.alive() && !rn.hangConfirmed {
		rn.statusCt["timeout-first-attempt"]++
		if c.waitPing(60 * time.Second) {
			if r2 := c.doWith(slowClient, req); r2.err == nil {
				rn.statusCt["answered-on-retry"]++
				return r2, true
			}
		}
		rn.hangConfirmed = true // a real hang
	}
	return resp, false
}

// noteRejected remembers the first write whose batch failed inside a shard (per collection)
func (rn *runner) noteRejected(ep, key string, req request, resp response) {
	if !isPointWrite(ep) || rn.w.rejected[key] != "" || (resp.status >= 300 && resp.status < 500) {
		return
	}
	if s := shardRejected(resp.status, resp.body); s != "" {
		rn.w.rejected[key] = req.line() + "\t" + s
		if rn.w.rejectedEver == "" {
			rn.w.rejectedEver = req.line() + "\t" + s
		}
		rn.statusCt["write-failed-in-shard"]++
	}
}

// noAnswer: the request got no HTTP answer (resp.err != nil, time-outs confirmed by exchange). Either the process
// died (O1) or it hangs; a hung child is made to print its goroutines (SIGQUIT), the dump is kept in the run
// directory and a digest goes into the failure. The child is restarted.
func (rn *runner) noAnswer(req request, ep, key, how string, resp response, replay []string) {
	c := rn.w.c
	time.Sleep(50 * time.Millisecond)
	if !c.alive() {
		rn.deaths++
		log := c.log.String()
		sig := fmt.Sprintf("process-death:%s:%s", ep, deathSig(log))
		what := fmt.Sprintf("the server process died while answering %s %s %s: %s", req.method, req.path, how, lastLines(log, 3))
		if blk := panickingGoroutine(log); blk != "" {
			what += "\nthe goroutine that died:\n" + blk
			if rej := rn.w.rejectedEver; rej != "" && strings.Contains(blk, "go.etcd.io/bbolt") && strings.Contains(blk, "created by github.com/semafind/semadb/") {
				// the crash face of the defect recorded under C07, reached over HTTP: the request in flight is incidental
				r := strings.SplitN(rej, "\t", 2)
				sig = "crash-after-rejected-write:" + deathSig(log)
				what = fmt.Sprintf("the server process died (while %s %s was in flight): a goroutine started by the shard's write pipeline dereferenced a bbolt transaction that had been rolled back, and an earlier write batch of this process had failed inside a shard (%s). This is the C07 known finding (a refused batch returns while its pipeline goroutines are still running), reached over HTTP.\n", req.method, req.path, r[1]) + what
				replay = append([]string{"# the earlier write whose batch failed inside the shard: " + r[0]}, replay...)
			}
		}
		rn.fail(sig, what, replay)
		rn.statusCt["dead"]++
		rn.restart()
		return
	}
	// no answer although the process lives: a hang or a closed connection
	sig := fmt.Sprintf("no-response:%s%s", hugeHeader(req), ep)
	what := fmt.Sprintf("no HTTP answer for %s %s %s: %v", req.method, req.path, how, resp.err)
	if isTimeout(resp.err) {
		rej := rn.w.rejected[key]
		if gs, name := rn.dumpHang(req); name != "" {
			what += "\ngoroutine dump of the hung server (SIGQUIT): " + name + " in the run directory; goroutines of the repository's code that wait for another goroutine:\n" + hangDigest(gs)
			if rej != "" && isPointWrite(ep) && cacheLockLeak(gs) {
				// the defect recorded under C07, reached over HTTP
				sig = "hang-after-rejected-write:" + ep
				r := strings.SplitN(rej, "\t", 2)
				what = fmt.Sprintf("%s %s hangs for ever: a goroutine waits for the write lock of a shared cache in cache.(*Transaction).With below a shard write, and an earlier write batch to the same collection failed inside the shard (%s). This is the C07 known finding (a refused batch leaves pipeline goroutines running: a shared cache stays write-locked and every later write to that index blocks for ever), reached over HTTP.\n", req.method, req.path, r[1]) + what
				replay = append([]string{"# the earlier write whose batch failed inside the shard: " + r[0]}, replay...)
			}
		}
	}
	rn.fail(sig, what, replay)
	rn.statusCt["no-response"]++
	rn.restart()
}

// judge sends one request and applies the oracle. hctx is the `h` line without the status (""
// when the request is not modelled).
func (rn *runner) judge(req request, ep, ctype, mutKind, mutPath, key, hline string) int {
	resp, retried := rn.exchange(req)
	c := rn.w.c
	rn.judged++
	if retried {
		// judged for "answered" and 5xx only: the first attempt may have been carried out as well, so neither the
		// model's status nor the state digest of before applies
		st := resp.status
		rn.statusCt[strconv.Itoa(st)]++
		rn.noteRejected(ep, key, req, resp)
		if st >= 500 && !rn.w.taint[key] {
			msg := string(resp.body)
			rn.fail(fmt.Sprintf("5xx:%s:%d:%s", ep, st, errClass(msg)), fmt.Sprintf("%s %s (%s / %s) answered %d %s", req.method, req.path, mutKind, mutPath, st, strings.TrimSpace(msg)), rn.replayFor(key, req, hline))
		}
		if st >= 200 && st < 300 && req.method != "GET" && !strings.HasSuffix(req.path, "/search") {
			rn.w.hist[key] = append(rn.w.hist[key], req.line())
		}
		time.Sleep(200 * time.Millisecond)
		rn.refresh()
		return st
	}
	if resp.err != nil {
		rn.noAnswer(req, ep, key, fmt.Sprintf("(%s / %s)", mutKind, mutPath), resp, rn.replayFor(key, req, hline))
		return -1
	}
	rn.noteRejected(ep, key, req, resp)
	st := resp.status
	rn.statusCt[strconv.Itoa(st)]++
	if mutKind != "" {
		rn.mutCt[mutKind]++
	}
	reached := !(st == 404 && hline == "") && !(st == 405)
	if reached {
		rn.distinct[fmt.Sprintf("%s|%s|%s|%s|%d", ep, ctype, mutKind, mutPath, st)] = struct{}{}
	}
	switch {
	case st >= 500:
		if rn.w.taint[key] {
			rn.unjudged++
		} else {
			msg := string(resp.body)
			rn.fail(fmt.Sprintf("5xx:%s:%d:%s", ep, st, errClass(msg)), fmt.Sprintf("%s %s (%s / %s) answered %d %s", req.method, req.path, mutKind, mutPath, st, strings.TrimSpace(msg)), rn.replayFor(key, req, hline))
		}
		rn.refresh()
	case st >= 400:
		// O3: nothing may have changed, anywhere
		_, dg, errs := rn.w.readState()
		if errs != "" {
			if !c.alive() {
				rn.deaths++
				rn.fail("process-death:digest:"+deathSig(c.log.String()), "the server process died while the state was read back after "+req.line(), rn.replayFor(key, req, hline))
				rn.restart()
				return st
			}
			rn.fail("digest-unreadable:"+ep, "state cannot be read back after a refused request: "+errs, rn.replayFor(key, req, hline))
			rn.refresh()
		} else if dg != rn.w.digest {
			rn.fail(fmt.Sprintf("side-effect-after-4xx:%s:%d", ep, st), fmt.Sprintf("%s %s was refused with %d but the stored state changed:\n%s", req.method, req.path, st, diffText(rn.w.digest, dg)), rn.replayFor(key, req, hline))
			rn.refresh()
		}
	case st >= 300:
		rn.fail(fmt.Sprintf("status-3xx:%s:%d", ep, st), "unexpected redirect / informational status", rn.replayFor(key, req, hline))
	default:
		// accepted: writes change the baseline
		if req.method != "GET" && !strings.HasSuffix(req.path, "/search") {
			rn.w.hist[key] = append(rn.w.hist[key], req.line())
		}
	}
	if hline != "" && st < 500 {
		rn.o.Emit("h:"+ep, hline, strconv.Itoa(st), true)
		fmt.Fprintf(rn.replays, "%d\t%s\n", rn.o.N, strings.Join(rn.replayFor(key, req, ""), "\x1f"))
	}
	return st
}

// a MessagePack body with an array32 / map32 header announcing more than 10^7 elements
func hugeHeader(r request) string {
	if r.ctype != "application/msgpack" {
		return ""
	}
	for i := 0; i+4 < len(r.body); i++ {
		if (r.body[i] == 0xdd || r.body[i] == 0xdf) && (uint32(r.body[i+1])<<24|uint32(r.body[i+2])<<16|uint32(r.body[i+3])<<8|uint32(r.body[i+4])) > 10000000 {
			return "msgpack-huge-length-header:"
		}
	}
	return ""
}

func errClass(msg string) string {
	var m map[string]string
	if json.Unmarshal([]byte(msg), &m) == nil {
		msg = m["error"]
	}
	var sb strings.Builder
	words := 0
	for _, f := range strings.Fields(msg) {
		clean := strings.Map(func(r rune) rune {
			if (r >= 'a' && r <= 'z') || (r >= 'A' && r <= 'Z') {
				return r
			}
			return -1
		}, f)
		if clean == "" || len(clean) > 20 {
			continue
		}
		if words > 0 {
			sb.WriteByte('-')
		}
		sb.WriteString(clean)
		words++
		if words == 6 {
			break
		}
	}
	if words == 0 {
		return "empty-body"
	}
	return sb.String()
}

func diffText(a, b string) string {
	al, bl := strings.Split(a, "\n"), strings.Split(b, "\n")
	am := map[string]bool{}
	for _, l := range al {
		am[l] = true
	}
	bm := map[string]bool{}
	for _, l := range bl {
		bm[l] = true
	}
	var sb strings.Builder
	k := 0
	for _, l := range al {
		if !bm[l] && k < 6 {
			sb.WriteString("- " + l + "\n")
			k++
		}
	}
	for _, l := range bl {
		if !am[l] && k < 12 {
			sb.WriteString("+ " + l + "\n")
			k++
		}
	}
	return sb.String()
}

func schemaTokens(s models.IndexSchema) string {
	t, _ := canonJ(s)
	return t
}

func (rn *runner) iteration(i int) {
	g := rn.g
	if rn.abort {
		return
	}
	// collections that cannot be read back any more (reported when it happened) are removed
	if len(rn.w.broken) > 0 {
		for key := range rn.w.broken {
			up := strings.SplitN(key, "/", 2)
			rn.w.c.do(request{up[0], rn.specs0(up[0]), "DELETE", "/v2/collections/" + up[1], "", nil})
			delete(rn.w.hist, key)
			delete(rn.w.rejected, key)
			delete(rn.w.known, key)
			delete(rn.w.taint, key)
			if !isBase(up[1]) {
				delete(rn.specs, key)
			}
		}
		rn.w.broken = map[string]string{}
		rn.refresh()
	}
	// make sure the base collections exist (a fuzzed DELETE may have removed one)
	for k := range baseCols {
		cs := &baseCols[k]
		if _, ok := rn.w.cols[cs.user][cs.id]; !ok && !rn.baseFailed[cs.user+"/"+cs.id] {
			rn.ensureBase(cs)
			rn.refresh()
		}
	}
	// ---- who / which API / which endpoint
	ui := g.r.Intn(10)
	user, plan := "alice", "BASIC"
	switch {
	case ui == 7:
		user, plan = "bob", "TINY"
	case ui >= 8:
		user, plan = "carol", "BIG"
	}
	if g.r.Chance(3) {
		plan = vh.Pick(g.r, []string{"BASIC", "TINY", "BIG"})
	}
	api := "v2"
	if g.r.Chance(28) {
		api = "v1"
	}
	w := g.r.Intn(100)
	var ep epDef
	switch {
	case w < 34:
		ep = endpoints[7] // search
	case w < 56:
		ep = endpoints[4] // insert
	case w < 68:
		ep = endpoints[5] // update
	case w < 75:
		ep = endpoints[6] // delete points
	case w < 87:
		ep = endpoints[1] // create
	case w < 91:
		ep = endpoints[2]
	case w < 94:
		ep = endpoints[0]
	default:
		ep = endpoints[3]
	}
	epName := api + ep.name
	// ---- target collection
	var ids []string
	for id := range rn.w.cols[user] {
		ids = append(ids, id)
	}
	sort.Strings(ids)
	cid := ""
	if ep.col {
		switch {
		case len(ids) > 0 && g.r.Chance(90):
			cid = vh.Pick(g.r, ids)
			if ep.name == "DeleteCol" && g.r.Chance(70) {
				// prefer deleting fuzz-created collections
				for _, id := range ids {
					if _, base := rn.specs[user+"/"+id]; !base || !isBase(id) {
						cid = id
					}
				}
			}
		case g.r.Bool():
			cid = vh.Pick(g.r, []string{"nosuchcol", "ab", "abc", "x", strings.Repeat("a", 16), strings.Repeat("a", 17), strings.Repeat("b", 24), strings.Repeat("b", 25), "base1", "tiny", "big", "UPPER", "with-dash", "under_score"})
		default:
			cid = vh.Pick(g.r, []string{"base1", "tiny", "big", "v1col", "mixed"}) // possibly another user's collection
		}
	}
	key := user + "/" + cid
	ci := rn.w.cols[user][cid]
	spec := rn.specs[key]
	if ci != nil && spec == nil {
		spec = specFromSchema(user, plan, cid, ci.Schema)
		rn.specs[key] = spec
	}
	if spec == nil {
		spec = &baseCols[0]
	}
	// ---- body
	var body *N
	mutKind, mutPath, semKind := "", "", ""
	jsonOnly, mpOnly := false, false
	if ep.body {
		switch ep.name {
		case "Create":
			body = rn.createBody(api)
		case "Insert":
			pts := &N{K: 'a'}
			np := 1 + g.r.Intn(3)
			if g.r.Chance(5) {
				np = 9 + g.r.Intn(4)
			}
			for k := 0; k < np; k++ {
				if api == "v1" {
					pts.A = append(pts.A, g.v1Point(rn.specV1(spec, ci), g.r.Chance(80)))
				} else {
					pts.A = append(pts.A, g.point(spec, g.r.Chance(85)))
				}
			}
			// a batch the shard refuses although the request is valid: an id that exists already,
			// or the same id twice (rolled back transaction, failed range in a 200 answer)
			if api == "v2" && g.r.Chance(10) && len(pts.A) > 0 {
				if id := rn.someKnown(key); id != "" && g.r.Bool() {
					pts.A[0].Set("_id", Str(id))
				} else if len(pts.A) > 1 && pts.A[0].Get("_id") != nil {
					pts.A[1].Set("_id", pts.A[0].Get("_id").Clone())
				}
			}
			if api == "v2" && g.r.Chance(12) {
				semKind = g.violatePoints(spec, pts)
			}
			body = Obj("points", pts)
		case "Update":
			pts := &N{K: 'a'}
			for k := 0; k < 1+g.r.Intn(2); k++ {
				var p *N
				if api == "v1" {
					p = g.v1Point(rn.specV1(spec, ci), true)
					if id := rn.someKnown(key); id != "" && g.r.Chance(80) {
						p.Set("id", Str(id))
					}
				} else {
					p = g.point(spec, true)
					if id := rn.someKnown(key); id != "" && g.r.Chance(80) {
						p.Set("_id", Str(id))
					}
					if g.r.Chance(15) {
						p.Set("note", Str("_delete"))
					}
					if g.r.Chance(8) && len(spec.props) > 0 {
						setPath(p, vh.Pick(g.r, spec.props).path, Str("_delete"))
					}
				}
				pts.A = append(pts.A, p)
			}
			if g.r.Chance(15) { // the same id twice in one request, other data
				var p *N
				if api == "v1" {
					p = g.v1Point(rn.specV1(spec, ci), true)
					p.Set("id", pts.A[0].Get("id").Clone())
				} else {
					p = g.point(spec, true)
					p.Set("_id", pts.A[0].Get("_id").Clone())
				}
				pts.A = append(pts.A, p)
				semKind = "sem:repeated-id"
			}
			if api == "v2" && g.r.Chance(12) {
				semKind = strings.TrimPrefix(semKind+"+"+g.violatePoints(spec, pts), "+")
			}
			body = Obj("points", pts)
		case "Delete":
			idl := &N{K: 'a'}
			for k := 0; k < 1+g.r.Intn(3); k++ {
				if id := rn.someKnown(key); id != "" && g.r.Chance(70) {
					idl.A = append(idl.A, Str(id))
				} else {
					idl.A = append(idl.A, Str(g.uuid()))
				}
			}
			if g.r.Chance(20) { // the same id named more than once in one request
				idl.A = append(idl.A, idl.A[g.r.Intn(len(idl.A))].Clone())
				if g.r.Bool() {
					idl.A = append([]*N{idl.A[len(idl.A)-1].Clone()}, idl.A...)
				}
				semKind = "sem:repeated-id"
			}
			body = Obj("ids", idl)
		case "Search":
			if api == "v1" {
				body = Obj("vector", g.vec(rn.specV1(spec, ci).props[0].dim), "limit", Int(int64(g.r.Intn(76))))
			} else {
				body = g.search(spec)
				if g.r.Chance(30) {
					// one executed leaf broken against the schema / the limits, valid structure around it
					if k := g.violate(spec); k != "" {
						semKind = "sem:" + k
					}
				}
				if g.r.Chance(6) { // paging boundaries
					body.Set("offset", Int(vh.Pick(g.r, []int64{math.MaxInt64, math.MaxInt64 - 99, math.MaxInt64 - 100, 1 << 62, 100, 7})))
				}
			}
		}
		if semKind != "" {
			mutKind = semKind
		}
		if (semKind == "" && g.r.Chance(72)) || (semKind != "" && g.r.Chance(25)) {
			mutKind, mutPath, jsonOnly, mpOnly = g.mutate(body)
			mutKind = strings.TrimPrefix(semKind+"+"+mutKind, "+")
			if g.r.Chance(15) {
				k2, p2, j2, m2 := g.mutate(body)
				mutKind, mutPath = mutKind+"+"+k2, mutPath+"+"+p2
				jsonOnly, mpOnly = jsonOnly || j2, mpOnly || m2
			}
		}
	}
	// ---- encoding
	ctype := "application/json"
	if (g.r.Chance(35) || mpOnly) && !jsonOnly {
		ctype = "application/msgpack"
	}
	var raw []byte
	if body != nil {
		if ctype == "application/json" {
			raw = body.JSON()
		} else {
			raw = body.Msgpack()
		}
		if g.r.Chance(7) {
			var ck string
			raw, ck = g.corrupt(raw)
			mutKind = strings.TrimPrefix(mutKind+"+"+ck, "+")
		}
	}
	sentCtype := ctype
	if ep.body && g.r.Chance(3) {
		sentCtype = vh.Pick(g.r, []string{"", "text/plain", "application/json; charset=utf-8", "application/x-msgpack", "APPLICATION/JSON"})
		mutKind = strings.TrimPrefix(mutKind+"+content-type", "+")
	}
	path := "/" + api + "/collections"
	if ep.col {
		path += "/" + cid
	}
	path += ep.suffix
	req := request{user, plan, ep.method, path, sentCtype, raw}
	// ---- header mutations (modelled: the header middleware answers 400 before anything else)
	if g.r.Chance(4) {
		switch g.r.Intn(3) {
		case 0:
			req.user = vh.Pick(g.r, []string{"", ".", "..", "a/b", "a\\b", "/", "\\", "alice/..", "../alice", "alice/base1", "./alice"})
		case 1:
			req.plan = vh.Pick(g.r, []string{"", "NOSUCHPLAN", "basic", "."})
		default:
			req.user, req.plan = vh.Pick(g.r, []string{"", "..", "a/b"}), vh.Pick(g.r, []string{"", "NOSUCHPLAN"})
		}
		mutKind = strings.TrimPrefix(mutKind+"+header", "+")
	}
	// ---- routing mutations: not modelled, O4 only
	if g.r.Chance(2) {
		switch g.r.Intn(2) {
		case 0:
			req.method = vh.Pick(g.r, []string{"PATCH", "HEAD", "OPTIONS", "PUT", "GET", "DELETE", "POST"})
		default:
			req.path = vh.Pick(g.r, []string{"/v3/collections", "/", "/v2", "/v2/collections/" + cid + "/points/search/extra", "/v2/collection", "/v1/collections/" + cid + "/point", "/v2/collections/" + cid + "/points?x=1", "/metrics", "/v2/ping/x"})
		}
		st := rn.judge(req, epName, sentCtype, "route", "", key, "")
		if st >= 200 && st < 300 {
			if !headersValid(req.user, req.plan) {
				rn.fail("accepted-without-headers:"+epName, "a request without valid X-User-Id / X-Plan-Id headers was answered 2xx", []string{req.line()})
			}
			rn.refresh()
		}
		return
	}
	// ---- the model's view
	hline := ""
	tokens, exotic := "n", ""
	if ep.body {
		tokens, exotic = decodeBody(epName, sentCtype, raw)
	}
	okCid := true
	for _, r := range cid {
		if !((r >= 'a' && r <= 'z') || (r >= 'A' && r <= 'Z') || (r >= '0' && r <= '9') || r == '_' || r == '-') {
			okCid = false
		}
	}
	if exotic == "" && okCid {
		pn := planNums[plan]
		found, count := 0, int64(0)
		schemaT := "n"
		if ci != nil {
			found, count = 1, ci.Count
			schemaT = schemaTokens(ci.Schema)
		}
		exists := 0
		if ep.name == "Create" {
			// the id the decoded request asks for
			if id := createID(epName, sentCtype, raw); id != "" {
				if _, ok := rn.w.cols[user][id]; ok {
					exists = 1
				}
			}
		}
		hline = fmt.Sprintf("h %s plan=%d,%d,%d ncols=%d exists=%d cid=%d found=%d count=%d%s ; %s ; %s",
			epName, pn[0], pn[1], pn[2], len(rn.w.cols[user]), exists, len(cid), found, count, hdrArgs(req.user, req.plan), schemaT, tokens)
	}
	// the property judges valid requests only while distances stay finite: a write that puts
	// non-finite / astronomically large numbers into an INDEXED VECTOR taints the collection (5xx
	// there are not judged afterwards); a search carrying such numbers is not judged for 5xx itself
	if ci != nil && (ep.name == "Insert" || ep.name == "Update") && writeTaints(epName, sentCtype, raw, ci.Schema) {
		rn.w.taint[key] = true
	}
	exempt := ep.name == "Search" && wild(tokens)
	wasTainted := rn.w.taint[key]
	if exempt {
		rn.w.taint[key] = true
	}
	st := rn.judge(req, epName, sentCtype, mutKind, mutPath, key, hline)
	if exempt {
		rn.w.taint[key] = wasTainted
	}
	if st < 0 {
		return
	}
	if ep.name == "Search" {
		rn.checkReach(epName, sentCtype, raw, ci, st, key, req, hline)
	}
	// O4: a body the decoder refuses must not be accepted
	if ep.body && tokens == "!" && st >= 200 && st < 300 {
		rn.fail("undecodable-accepted:"+epName, "the harness' run of the same decoder refuses this body, the server answered 2xx", rn.replayFor(key, req, hline))
	}
	if st >= 200 && st < 300 && req.method != "GET" && ep.name != "Search" {
		rn.afterWrite(epName, ep.name, api, user, cid, key, sentCtype, raw, resp200{})
	}
}

type resp200 struct{}

// the headers as the model sees them
func hdrArgs(user, plan string) string {
	_, ok := userPlans[plan]
	return fmt.Sprintf(" user=%s planid=%s planok=%s", strTok(user), strTok(plan), vh.B01(ok))
}

// the harness' own statement of the documented header rule (used for the unmodelled route mutations)
func headersValid(user, plan string) bool {
	_, ok := userPlans[plan]
	return ok && user != "" && user != "." && user != ".." && !strings.ContainsAny(user, "/\\")
}

func isBase(id string) bool {
	for _, c := range baseCols {
		if c.id == id {
			return true
		}
	}
	return false
}

// what the v1 API would go by on this collection: the vamana block of IndexSchema["vector"], whatever
// the declared type of that entry is (a stray block next to another type included)
func (rn *runner) specV1(s *colSpec, ci *colInfo) *colSpec {
	if ci != nil {
		if v, ok := ci.Schema["vector"]; ok && v.VectorVamana != nil && v.VectorVamana.VectorSize >= 1 && v.VectorVamana.VectorSize <= 64 && rn.g.r.Chance(85) {
			return &colSpec{props: []prop{{path: "vector", kind: "vectorVamana", dim: int(v.VectorVamana.VectorSize), metric: v.VectorVamana.DistanceMetric}}}
		}
	}
	return specV1(s)
}

func specV1(s *colSpec) *colSpec {
	for _, p := range s.props {
		if p.path == "vector" && p.kind == "vectorVamana" {
			return &colSpec{props: []prop{p}}
		}
	}
	return &colSpec{props: []prop{{path: "vector", kind: "vectorVamana", dim: 4, metric: "euclidean"}}}
}

func specFromSchema(user, plan, id string, s models.IndexSchema) *colSpec {
	cs := &colSpec{user: user, plan: plan, id: id}
	var names []string
	for k := range s {
		names = append(names, k)
	}
	sort.Strings(names)
	for _, k := range names {
		v := s[k]
		p := prop{path: k, kind: v.Type}
		if v.VectorFlat != nil && v.Type == models.IndexTypeVectorFlat {
			p.dim, p.metric = int(v.VectorFlat.VectorSize), v.VectorFlat.DistanceMetric
		}
		if v.VectorVamana != nil && v.Type == models.IndexTypeVectorVamana {
			p.dim, p.metric = int(v.VectorVamana.VectorSize), v.VectorVamana.DistanceMetric
		}
		cs.props = append(cs.props, p)
	}
	return cs
}

func (rn *runner) someKnown(key string) string {
	var ids []string
	for k := range rn.w.known[key] {
		ids = append(ids, k)
	}
	if len(ids) == 0 {
		return ""
	}
	sort.Strings(ids)
	return vh.Pick(rn.g.r, ids)
}

func createID(ep, ctype string, raw []byte) string {
	if ep == "v2Create" {
		v, ok, _ := decodeInto[v2.CreateCollectionRequest](ctype, raw)
		if ok {
			return v.Id
		}
	} else {
		v, ok, _ := decodeInto[v1.CreateCollectionRequest](ctype, raw)
		if ok {
			return v.Id
		}
	}
	return ""
}

// a create body with a random but valid schema
func (rn *runner) createBody(api string) *N {
	g := rn.g
	id := vh.Pick(g.r, []string{"fz", "fuzz", "col"}) + strconv.Itoa(g.r.Intn(4))
	if g.r.Chance(10) {
		id = vh.Pick(g.r, []string{"base1", "tiny", "v1col"})
	}
	if api == "v1" {
		return Obj("id", Str(id), "vectorSize", Int(int64(vh.Pick(g.r, []int{1, 2, 4, 8, 64}))), "distanceMetric", Str(vh.Pick(g.r, []string{"euclidean", "cosine", "dot"})))
	}
	cs := colSpec{id: id}
	names := []string{"a", "b", "c", "d.e", "d.f", "vector", "metadata", "metadata.emb"}
	np := g.r.Intn(5)
	used := map[string]bool{}
	for k := 0; k < np; k++ {
		nm := vh.Pick(g.r, names)
		if used[nm] {
			continue
		}
		used[nm] = true
		p := prop{path: nm, kind: vh.Pick(g.r, []string{"vectorFlat", "vectorVamana", "text", "string", "stringArray", "integer", "float"})}
		if p.kind == "vectorFlat" || p.kind == "vectorVamana" {
			p.dim = vh.Pick(g.r, []int{1, 2, 3, 4, 8, 32, 64})
			p.metric = vh.Pick(g.r, []string{"euclidean", "cosine", "dot", "hamming", "jaccard", "haversine"})
			if p.metric == "haversine" && !g.r.Chance(40) {
				// (otherwise: haversine over a vector size other than 2 must be refused, with and without a quantizer entry)
				p.dim = 2
			}
			switch g.r.Intn(8) {
			case 3:
				// a quantizer without a type (the documented schema requires one of none / binary / product): bare,
				// empty / null type, or with the parameters of a kind
				p.quant = vh.Pick(g.r, []*N{{K: 'o'}, Obj("type", Str("")), Obj("type", Null()),
					Obj("binary", Obj("threshold", Flt32(0.5), "triggerThreshold", Int(0), "distanceMetric", Str("hamming"))),
					Obj("product", Obj("numCentroids", Int(16), "numSubVectors", Int(2), "triggerThreshold", Int(1000))),
					Obj("type", Str(""), "binary", Obj("threshold", Null(), "triggerThreshold", Int(5), "distanceMetric", Str("jaccard")))}).Clone()
			case 0:
				p.quant = Obj("type", Str("none"))
			case 1:
				p.quant = Obj("type", Str("binary"), "binary", Obj("threshold", Flt32(0.5), "triggerThreshold", Int(0), "distanceMetric", Str(vh.Pick(g.r, []string{"hamming", "jaccard"}))))
			case 2:
				p.quant = Obj("type", Str("product"), "product", Obj("numCentroids", Int(int64(vh.Pick(g.r, []int{2, 16, 256}))), "numSubVectors", Int(int64(vh.Pick(g.r, []int{2, 3, 4, 8}))), "triggerThreshold", Int(1000)))
			}
		}
		if g.r.Chance(30) {
			p.stray = g.strayBlocks(p)
		}
		cs.props = append(cs.props, p)
	}
	return cs.createBody()
}

// bookkeeping after an accepted write
func (rn *runner) afterWrite(epName, name, api, user, cid, key, ctype string, raw []byte, _ resp200) {
	switch name {
	case "Create":
		id := createID(epName, ctype, raw)
		k := user + "/" + id
		rn.w.hist[k] = []string{rn.w.hist[user+"/"][len(rn.w.hist[user+"/"])-1]}
		rn.w.known[k] = map[string]bool{}
		delete(rn.specs, k)
		delete(rn.w.taint, k)
		if rn.w.taint[user+"/"] {
			rn.w.taint[k] = true
		}
		delete(rn.w.taint, user+"/")
	case "DeleteCol":
		delete(rn.w.hist, key)
		delete(rn.w.rejected, key)
		delete(rn.w.known, key)
		delete(rn.specs, key)
		delete(rn.w.taint, key)
	case "Insert", "Update":
		if rn.w.known[key] == nil {
			rn.w.known[key] = map[string]bool{}
		}
		for _, id := range idsOf(epName, ctype, raw) {
			if name == "Insert" {
				rn.w.known[key][id] = true
			}
		}
	case "Delete":
		for _, id := range idsOf(epName, ctype, raw) {
			delete(rn.w.known[key], id)
		}
	}
	rn.refresh()
	// drop ids the server does not have after all (failed ranges, duplicates)
	if ci := rn.w.cols[user][cid]; ci != nil && name != "Create" {
		for id := range rn.w.known[key] {
			if _, ok := ci.Points[id]; !ok {
				delete(rn.w.known[key], id)
			}
		}
		// keep collections small: quota and speed
		if ci.Count > int64(planNums[rn.specs0(user)][1])*2/3 {
			rn.shrink(user, cid, key, api)
		}
	}
}

func (rn *runner) specs0(user string) string {
	for _, u := range rn.w.users {
		if u.user == user {
			return u.plan
		}
	}
	return "BASIC"
}

func (rn *runner) shrink(user, cid, key, api string) {
	var ids []string
	for id := range rn.w.known[key] {
		ids = append(ids, id)
	}
	sort.Strings(ids)
	if len(ids) > 30 {
		ids = ids[:30]
	}
	if len(ids) == 0 {
		// points with server-generated ids cannot be addressed: start the collection over
		if isBase(cid) {
			rn.w.c.do(request{user, rn.specs0(user), "DELETE", "/v2/collections/" + cid, "", nil})
			delete(rn.w.hist, key)
			delete(rn.w.rejected, key)
			delete(rn.w.known, key)
			rn.refresh()
		}
		return
	}
	idl := &N{K: 'a'}
	for _, id := range ids {
		idl.A = append(idl.A, Str(id))
	}
	req := request{user, rn.specs0(user), "DELETE", "/v2/collections/" + cid + "/points", "application/json", Obj("ids", idl).JSON()}
	if resp := rn.w.c.do(req); resp.status == 200 {
		rn.w.hist[key] = append(rn.w.hist[key], req.line())
		for _, id := range ids {
			delete(rn.w.known[key], id)
		}
	}
	rn.refresh()
}

func idsOf(ep, ctype string, raw []byte) []string {
	var out []string
	switch ep {
	case "v2Insert":
		v, ok, _ := decodeInto[v2.InsertPointsRequest](ctype, raw)
		if ok {
			for _, p := range v.Points {
				if s, ok := p["_id"].(string); ok {
					if u, err := uuid.Parse(s); err == nil {
						out = append(out, u.String())
					}
				}
			}
		}
	case "v1Insert":
		v, ok, _ := decodeInto[v1.InsertPointsRequest](ctype, raw)
		if ok {
			for _, p := range v.Points {
				if u, err := uuid.Parse(p.Id); err == nil {
					out = append(out, u.String())
				}
			}
		}
	case "v2Delete":
		v, ok, _ := decodeInto[v2.DeletePointsRequest](ctype, raw)
		if ok {
			for _, s := range v.Ids {
				if u, err := uuid.Parse(s); err == nil {
					out = append(out, u.String())
				}
			}
		}
	case "v1Delete":
		v, ok, _ := decodeInto[v1.DeletePointsRequest](ctype, raw)
		if ok {
			for _, s := range v.Ids {
				if u, err := uuid.Parse(s); err == nil {
					out = append(out, u.String())
				}
			}
		}
	}
	return out
}
