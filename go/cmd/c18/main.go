package main

import (
	"flag"
)

func main() {
	serve := flag.String("serve", "", "run the child server with this data directory")
	flag.Parse()
	if *serve != "" {
		serveMain(*serve)
		return
	}
}
