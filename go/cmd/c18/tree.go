// Request body trees: one generic value type that can be rendered as JSON and as MessagePack byte
// for byte under the harness' control (duplicate keys, integer widths, float32 / float64, raw
// literals, invalid UTF-8), and the canonical rendering of a DECODED request (Go struct after the
// real decoder ran) into the J token syntax of the model driver.
package main

import (
	"encoding/binary"
	"encoding/hex"
	"fmt"
	"math"
	"reflect"
	"sort"
	"strconv"
	"strings"
)

// N is a node of a request body.
type N struct {
	K   byte // 'n' null, 'b' bool, 'i' int64, 'u' uint64, 'f' float, 's' string, 'a' array, 'o' object, 'r' raw JSON literal
	B   bool
	I   int64
	U   uint64
	F   float64
	F32 bool // msgpack: encode as float32
	W   int  // msgpack: forced integer width in bytes (1,2,4,8); 0 = smallest
	S   string
	A   []*N
	O   []KV
}

type KV struct {
	K string
	V *N
}

func Null() *N           { return &N{K: 'n'} }
func Bool(b bool) *N     { return &N{K: 'b', B: b} }
func Int(i int64) *N     { return &N{K: 'i', I: i} }
func Uint(u uint64) *N   { return &N{K: 'u', U: u} }
func Flt(f float64) *N   { return &N{K: 'f', F: f} }
func Flt32(f float32) *N { return &N{K: 'f', F: float64(f), F32: true} }
func Str(s string) *N    { return &N{K: 's', S: s} }
func Arr(xs ...*N) *N    { return &N{K: 'a', A: xs} }
func Raw(lit string) *N  { return &N{K: 'r', S: lit} }

// RawMP: these bytes verbatim in a MessagePack body (null in JSON)
func RawMP(b string) *N { return &N{K: 'x', S: b} }
func Obj(kvs ...any) *N { // Obj("k", v, "k2", v2 ...)
	n := &N{K: 'o'}
	for i := 0; i+1 < len(kvs); i += 2 {
		n.O = append(n.O, KV{kvs[i].(string), kvs[i+1].(*N)})
	}
	return n
}

func (n *N) Get(k string) *N {
	for _, kv := range n.O {
		if kv.K == k {
			return kv.V
		}
	}
	return nil
}

func (n *N) Set(k string, v *N) {
	for i, kv := range n.O {
		if kv.K == k {
			n.O[i].V = v
			return
		}
	}
	n.O = append(n.O, KV{k, v})
}

func (n *N) Del(k string) {
	for i, kv := range n.O {
		if kv.K == k {
			n.O = append(n.O[:i:i], n.O[i+1:]...)
			return
		}
	}
}

func (n *N) Clone() *N {
	c := *n
	if n.A != nil {
		c.A = make([]*N, len(n.A))
		for i, x := range n.A {
			c.A[i] = x.Clone()
		}
	}
	if n.O != nil {
		c.O = make([]KV, len(n.O))
		for i, kv := range n.O {
			c.O[i] = KV{kv.K, kv.V.Clone()}
		}
	}
	return &c
}

// Vec builds an array of floats (float32 in msgpack: the typed []float32 fields only accept those)
func Vec(xs ...float64) *N {
	n := &N{K: 'a'}
	for _, x := range xs {
		n.A = append(n.A, &N{K: 'f', F: x, F32: true})
	}
	return n
}

// ---------------------------------------------------------------------------- JSON

func jsonString(sb *strings.Builder, s string) {
	sb.WriteByte('"')
	for i := 0; i < len(s); i++ {
		c := s[i]
		switch {
		case c == '"' || c == '\\':
			sb.WriteByte('\\')
			sb.WriteByte(c)
		case c < 0x20:
			fmt.Fprintf(sb, "\\u%04x", c)
		default:
			sb.WriteByte(c) // bytes >= 0x80 pass through unchanged (possibly invalid UTF-8)
		}
	}
	sb.WriteByte('"')
}

func (n *N) json(sb *strings.Builder) {
	switch n.K {
	case 'n':
		sb.WriteString("null")
	case 'b':
		sb.WriteString(strconv.FormatBool(n.B))
	case 'i':
		sb.WriteString(strconv.FormatInt(n.I, 10))
	case 'u':
		sb.WriteString(strconv.FormatUint(n.U, 10))
	case 'f':
		switch {
		case math.IsNaN(n.F):
			sb.WriteString("NaN") // not JSON: a syntax error on purpose
		case math.IsInf(n.F, 1):
			sb.WriteString("Infinity")
		case math.IsInf(n.F, -1):
			sb.WriteString("-Infinity")
		default:
			s := strconv.FormatFloat(n.F, 'g', -1, 64)
			sb.WriteString(s)
		}
	case 'r':
		sb.WriteString(n.S)
	case 'x':
		sb.WriteString("null")
	case 's':
		jsonString(sb, n.S)
	case 'a':
		sb.WriteByte('[')
		for i, x := range n.A {
			if i > 0 {
				sb.WriteByte(',')
			}
			x.json(sb)
		}
		sb.WriteByte(']')
	case 'o':
		sb.WriteByte('{')
		for i, kv := range n.O {
			if i > 0 {
				sb.WriteByte(',')
			}
			jsonString(sb, kv.K)
			sb.WriteByte(':')
			kv.V.json(sb)
		}
		sb.WriteByte('}')
	}
}

func (n *N) JSON() []byte {
	var sb strings.Builder
	n.json(&sb)
	return []byte(sb.String())
}

// ---------------------------------------------------------------------------- MessagePack

func mpStrHdr(b []byte, l int) []byte {
	switch {
	case l < 32:
		return append(b, 0xa0|byte(l))
	case l < 256:
		return append(b, 0xd9, byte(l))
	case l < 65536:
		return append(b, 0xda, byte(l>>8), byte(l))
	default:
		return append(b, 0xdb, byte(l>>24), byte(l>>16), byte(l>>8), byte(l))
	}
}

func mpInt(b []byte, v int64, w int) []byte {
	if w == 0 {
		switch {
		case v >= 0 && v < 128:
			return append(b, byte(v))
		case v < 0 && v >= -32:
			return append(b, byte(v))
		case v >= math.MinInt8 && v <= math.MaxInt8:
			w = 1
		case v >= math.MinInt16 && v <= math.MaxInt16:
			w = 2
		case v >= math.MinInt32 && v <= math.MaxInt32:
			w = 4
		default:
			w = 8
		}
	}
	switch w {
	case 1:
		return append(b, 0xd0, byte(v))
	case 2:
		return append(b, 0xd1, byte(v>>8), byte(v))
	case 4:
		return append(b, 0xd2, byte(v>>24), byte(v>>16), byte(v>>8), byte(v))
	default:
		return binary.BigEndian.AppendUint64(append(b, 0xd3), uint64(v))
	}
}

func mpUint(b []byte, v uint64, w int) []byte {
	if w == 0 {
		switch {
		case v < 256:
			w = 1
		case v < 65536:
			w = 2
		case v < 1<<32:
			w = 4
		default:
			w = 8
		}
	}
	switch w {
	case 1:
		return append(b, 0xcc, byte(v))
	case 2:
		return append(b, 0xcd, byte(v>>8), byte(v))
	case 4:
		return append(b, 0xce, byte(v>>24), byte(v>>16), byte(v>>8), byte(v))
	default:
		return binary.BigEndian.AppendUint64(append(b, 0xcf), v)
	}
}

func (n *N) mp(b []byte) []byte {
	switch n.K {
	case 'n':
		return append(b, 0xc0)
	case 'b':
		if n.B {
			return append(b, 0xc3)
		}
		return append(b, 0xc2)
	case 'i':
		return mpInt(b, n.I, n.W)
	case 'u':
		return mpUint(b, n.U, n.W)
	case 'f':
		if n.F32 {
			return binary.BigEndian.AppendUint32(append(b, 0xca), math.Float32bits(float32(n.F)))
		}
		return binary.BigEndian.AppendUint64(append(b, 0xcb), math.Float64bits(n.F))
	case 'r':
		// raw JSON literal: its float64 value if it has one, else the text
		if f, err := strconv.ParseFloat(n.S, 64); err == nil || math.IsInf(f, 0) {
			return binary.BigEndian.AppendUint64(append(b, 0xcb), math.Float64bits(f))
		}
		return append(mpStrHdr(b, len(n.S)), n.S...)
	case 's':
		return append(mpStrHdr(b, len(n.S)), n.S...)
	case 'x':
		return append(b, n.S...)
	case 'a':
		l := len(n.A)
		switch {
		case l < 16:
			b = append(b, 0x90|byte(l))
		case l < 65536:
			b = append(b, 0xdc, byte(l>>8), byte(l))
		default:
			b = append(b, 0xdd, byte(l>>24), byte(l>>16), byte(l>>8), byte(l))
		}
		for _, x := range n.A {
			b = x.mp(b)
		}
		return b
	case 'o':
		l := len(n.O)
		switch {
		case l < 16:
			b = append(b, 0x80|byte(l))
		case l < 65536:
			b = append(b, 0xde, byte(l>>8), byte(l))
		default:
			b = append(b, 0xdf, byte(l>>24), byte(l>>16), byte(l>>8), byte(l))
		}
		for _, kv := range n.O {
			b = append(mpStrHdr(b, len(kv.K)), kv.K...)
			b = kv.V.mp(b)
		}
		return b
	}
	return b
}

func (n *N) Msgpack() []byte { return n.mp(nil) }

// ---------------------------------------------------------------------------- canonical J tokens

type jw struct {
	sb     strings.Builder
	exotic string // non-empty: the value holds something the model's J type does not have
}

func (w *jw) tok(s string) {
	if w.sb.Len() > 0 {
		w.sb.WriteByte(' ')
	}
	w.sb.WriteString(s)
}

func strTok(s string) string { return "s" + hex.EncodeToString([]byte(s)) }

func f64tok(kind string, f float64) string {
	return "#" + kind + ":" + strconv.FormatUint(math.Float64bits(f), 10)
}

// dynamic value held by an `any` after decoding
func (w *jw) dyn(v any) {
	switch x := v.(type) {
	case nil:
		w.tok("n")
	case bool:
		if x {
			w.tok("T")
		} else {
			w.tok("F")
		}
	case string:
		w.tok(strTok(x))
	case float64:
		w.tok(f64tok("f64", x))
	case float32:
		w.tok(f64tok("f32", float64(x)))
	case int8:
		w.tok("#i8:" + strconv.FormatInt(int64(x), 10))
	case int16:
		w.tok("#i16:" + strconv.FormatInt(int64(x), 10))
	case int32:
		w.tok("#i32:" + strconv.FormatInt(int64(x), 10))
	case int64:
		w.tok("#i64:" + strconv.FormatInt(x, 10))
	case uint8:
		w.tok("#u8:" + strconv.FormatUint(uint64(x), 10))
	case uint16:
		w.tok("#u16:" + strconv.FormatUint(uint64(x), 10))
	case uint32:
		w.tok("#u32:" + strconv.FormatUint(uint64(x), 10))
	case uint64:
		w.tok("#u64:" + strconv.FormatUint(x, 10))
	case []any:
		w.tok("[" + strconv.Itoa(len(x)))
		for _, e := range x {
			w.dyn(e)
		}
	case []float32: // written by CheckCompatibleMap
		w.tok("[" + strconv.Itoa(len(x)))
		for _, e := range x {
			w.tok(f64tok("f32", float64(e)))
		}
	case []string:
		w.tok("[" + strconv.Itoa(len(x)))
		for _, e := range x {
			w.tok(strTok(e))
		}
	case map[string]any:
		w.dynMap(x)
	default:
		rv := reflect.ValueOf(v)
		if rv.Kind() == reflect.Map && rv.Type().Key().Kind() == reflect.String && rv.Type().Elem().Kind() == reflect.Interface {
			m := map[string]any{}
			for _, k := range rv.MapKeys() {
				m[k.String()] = rv.MapIndex(k).Interface()
			}
			w.dynMap(m)
			return
		}
		w.exotic = fmt.Sprintf("%T", v)
		w.tok("n")
	}
}

func (w *jw) dynMap(m map[string]any) {
	keys := make([]string, 0, len(m))
	for k := range m {
		keys = append(keys, k)
	}
	sort.Strings(keys)
	w.tok("{" + strconv.Itoa(len(keys)))
	for _, k := range keys {
		w.tok(strTok(k))
		w.dyn(m[k])
	}
}

// typed value: a decoded request struct, rendered field by field under the json names
func (w *jw) typed(v reflect.Value) {
	switch v.Kind() {
	case reflect.Ptr:
		if v.IsNil() {
			w.tok("n")
			return
		}
		w.typed(v.Elem())
	case reflect.Interface:
		if v.IsNil() {
			w.tok("n")
			return
		}
		w.dyn(v.Interface())
	case reflect.Struct:
		type fv struct {
			name string
			v    reflect.Value
		}
		var fs []fv
		var collect func(v reflect.Value)
		collect = func(v reflect.Value) {
			t := v.Type()
			for i := 0; i < t.NumField(); i++ {
				f := t.Field(i)
				if f.Anonymous && f.Type.Kind() == reflect.Struct {
					collect(v.Field(i))
					continue
				}
				name := strings.Split(f.Tag.Get("json"), ",")[0]
				if name == "" {
					name = f.Name
				}
				if name == "-" {
					continue
				}
				fs = append(fs, fv{name, v.Field(i)})
			}
		}
		collect(v)
		w.tok("{" + strconv.Itoa(len(fs)))
		for _, f := range fs {
			w.tok(strTok(f.name))
			w.typed(f.v)
		}
	case reflect.Map:
		if v.Type().Elem().Kind() == reflect.Interface { // PointAsMap / map[string]any
			if v.IsNil() {
				w.tok("n")
				return
			}
			m := map[string]any{}
			for _, k := range v.MapKeys() {
				m[k.String()] = v.MapIndex(k).Interface()
			}
			w.dynMap(m)
			return
		}
		if v.IsNil() {
			w.tok("n")
			return
		}
		keys := v.MapKeys()
		sort.Slice(keys, func(i, j int) bool { return keys[i].String() < keys[j].String() })
		w.tok("{" + strconv.Itoa(len(keys)))
		for _, k := range keys {
			w.tok(strTok(k.String()))
			w.typed(v.MapIndex(k))
		}
	case reflect.Slice:
		w.tok("[" + strconv.Itoa(v.Len()))
		for i := 0; i < v.Len(); i++ {
			w.typed(v.Index(i))
		}
	case reflect.String:
		w.tok(strTok(v.String()))
	case reflect.Bool:
		if v.Bool() {
			w.tok("T")
		} else {
			w.tok("F")
		}
	case reflect.Int, reflect.Int64, reflect.Int32, reflect.Int16, reflect.Int8:
		w.tok("#i64:" + strconv.FormatInt(v.Int(), 10))
	case reflect.Uint, reflect.Uint64, reflect.Uint32, reflect.Uint16, reflect.Uint8:
		w.tok("#u64:" + strconv.FormatUint(v.Uint(), 10))
	case reflect.Float32:
		w.tok(f64tok("f32", v.Float()))
	case reflect.Float64:
		w.tok(f64tok("f64", v.Float()))
	default:
		w.exotic = v.Kind().String()
		w.tok("n")
	}
}

// canonJ renders a decoded request (pointer to struct) for the driver. exotic != "" means the value
// holds a Go type outside the model's J (msgpack bin / ext / time ...): not sent to the model.
func canonJ(v any) (tokens string, exotic string) {
	w := &jw{}
	w.typed(reflect.ValueOf(v))
	return w.sb.String(), w.exotic
}

func canonDyn(v any) (string, string) {
	w := &jw{}
	w.dyn(v)
	return w.sb.String(), w.exotic
}
