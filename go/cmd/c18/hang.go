// A confirmed hang of the child server: SIGQUIT makes the Go runtime of the child print every goroutine
// with its stack and exit. The dump goes into the run directory (hang-<n>.txt), a digest of the blocked
// goroutines into the oracle failure, and one shape of hang — a write that waits for the write lock of a
// shared cache after an earlier write batch to the same collection failed inside the shard — is recognised
// as the defect recorded under C07 (goroutines of a refused batch outlive the batch and leave a cache
// write-locked), reached here over HTTP.
package main

import (
	"encoding/json"
	"fmt"
	"os"
	"path/filepath"
	"regexp"
	"sort"
	"strings"
	"syscall"
	"time"
)

// one goroutine of a runtime traceback
type gor struct {
	id     string
	state  string   // the text between [ ] without the waiting time
	frames []string // function names, innermost first, arguments removed
	parent string   // "created by" function
}

var gorHeader = regexp.MustCompile(`^goroutine (\d+)(?: gp=\S+ m=\S+(?: mp=\S+)?)? \[([^\]]*)\]:$`)

// parseDump reads the goroutine blocks of a runtime traceback (SIGQUIT, fatal error, GOTRACEBACK=all)
func parseDump(dump string) []gor {
	var out []gor
	var cur *gor
	flush := func() {
		if cur != nil {
			out = append(out, *cur)
			cur = nil
		}
	}
	for _, l := range strings.Split(dump, "\n") {
		l = strings.TrimRight(l, "\r")
		if m := gorHeader.FindStringSubmatch(l); m != nil {
			flush()
			st := m[2]
			if i := strings.Index(st, ","); i >= 0 { // "select, 2 minutes" / "chan receive, locked to thread"
				st = st[:i]
			}
			cur = &gor{id: m[1], state: strings.TrimSpace(st)}
			continue
		}
		if cur == nil {
			continue
		}
		switch {
		case l == "":
			flush()
		case strings.HasPrefix(l, "\t") || strings.HasPrefix(l, " "):
			// file:line of the frame above
		case strings.HasPrefix(l, "created by "):
			p := strings.TrimPrefix(l, "created by ")
			if i := strings.Index(p, " in goroutine"); i >= 0 {
				p = p[:i]
			}
			cur.parent = p
		case strings.HasPrefix(l, "..."): // "...N frames elided..."
		default:
			if i := strings.LastIndex(l, "("); i > 0 {
				l = l[:i]
			}
			cur.frames = append(cur.frames, l)
		}
	}
	flush()
	return out
}

func shortFn(f string) string {
	f = strings.TrimPrefix(f, "github.com/semafind/semadb/")
	f = strings.TrimPrefix(f, "go.etcd.io/")
	return f
}

// states in which a goroutine waits for another goroutine (as opposed to the network, a timer, the scheduler)
func waitsForGoroutine(state string) bool {
	for _, k := range []string{"Lock", "semacquire", "chan send", "chan receive", "select", "WaitGroup", "Cond.Wait", "sync."} {
		if strings.Contains(state, k) {
			return true
		}
	}
	return false
}

func (g gor) has(sub string) bool {
	for _, f := range g.frames {
		if strings.Contains(f, sub) {
			return true
		}
	}
	return false
}

func (g gor) inRepo() bool {
	return g.has("github.com/semafind/semadb/") || strings.Contains(g.parent, "github.com/semafind/semadb/")
}

// hangDigest: the goroutines of the repository's code that wait for another goroutine, lock waits first, each
// with its state and its innermost frames outside the runtime; identical ones are counted
func hangDigest(gs []gor) string {
	type ent struct {
		text string
		rank int
		n    int
	}
	seen := map[string]*ent{}
	var order []*ent
	for _, g := range gs {
		if !waitsForGoroutine(g.state) || !g.inRepo() {
			continue
		}
		var fr []string
		for _, f := range g.frames {
			if strings.HasPrefix(f, "runtime.") || strings.HasPrefix(f, "sync.runtime_") || strings.HasPrefix(f, "internal/") {
				continue
			}
			fr = append(fr, shortFn(f))
			if len(fr) == 4 {
				break
			}
		}
		t := "[" + g.state + "] " + strings.Join(fr, " < ")
		if g.parent != "" {
			t += " (created by " + shortFn(g.parent) + ")"
		}
		rank := 2
		if strings.Contains(g.state, "Lock") || strings.Contains(g.state, "semacquire") {
			rank = 0
		} else if g.has("/shard.(*Shard).") || g.has("/shard/") || g.has("/cluster.") {
			rank = 1
		}
		if e := seen[t]; e != nil {
			e.n++
			continue
		}
		e := &ent{t, rank, 1}
		seen[t] = e
		order = append(order, e)
	}
	sort.SliceStable(order, func(i, j int) bool { return order[i].rank < order[j].rank })
	var sb strings.Builder
	for i, e := range order {
		if i == 10 {
			fmt.Fprintf(&sb, "  ... %d more kinds of waiting goroutines\n", len(order)-i)
			break
		}
		if e.n > 1 {
			fmt.Fprintf(&sb, "  %d x %s\n", e.n, e.text)
		} else {
			fmt.Fprintf(&sb, "  %s\n", e.text)
		}
	}
	if sb.Len() == 0 {
		return "  (no goroutine of the repository's code waits for another goroutine)\n"
	}
	return sb.String()
}

var shardWriteFn = regexp.MustCompile(`/shard\.\(\*Shard\)\.(Insert|Update|Delete)Points`)

// cacheLockLeak: the shape of the hang the C07 finding describes — a goroutine waits for the WRITE lock of a
// shared cache inside cache.(*Transaction).With while a shard write (Insert / Update / DeletePoints, which
// started that goroutine through the index dispatcher) waits for its pipeline
func cacheLockLeak(gs []gor) bool {
	lockWait, shardWrite := false, false
	for _, g := range gs {
		if g.has("cache.(*Transaction).With") && (strings.Contains(g.state, "RWMutex.Lock") || g.has("sync.(*RWMutex).Lock")) {
			lockWait = true
		}
		for _, f := range g.frames {
			if shardWriteFn.MatchString(f) {
				shardWrite = true
			}
		}
	}
	return lockWait && shardWrite
}

// quitDump sends SIGQUIT and returns what the runtime printed (everything from "SIGQUIT: quit" on)
func (c *child) quitDump(wait time.Duration) string {
	if c.cmd.Process == nil || !c.alive() {
		return ""
	}
	c.cmd.Process.Signal(syscall.SIGQUIT)
	select {
	case <-c.dead: // stderr has been copied completely when Wait returns
	case <-time.After(wait):
		c.kill()
	}
	l := c.log.String()
	if i := strings.LastIndex(l, "SIGQUIT: quit"); i >= 0 {
		return l[i:]
	}
	return ""
}

// dumpHang: goroutine dump of the hung child into <out>/hang-<n>.txt; returns the parsed goroutines and the
// file name. The child is dead afterwards (the caller restarts it).
func (rn *runner) dumpHang(req request) ([]gor, string) {
	dump := rn.w.c.quitDump(20 * time.Second)
	if dump == "" {
		return nil, ""
	}
	rn.hangs++
	name := fmt.Sprintf("hang-%d.txt", rn.hangs)
	if rn.outDir != "" {
		os.WriteFile(filepath.Join(rn.outDir, name), []byte("# no answer for: "+req.method+" "+req.path+"\n# "+req.line()+"\n"+dump), 0o644)
	}
	return parseDump(dump), name
}

// shardRejected: does the 2xx / 5xx answer of a write say that a batch failed inside a shard? Inserts list failed
// ranges; updates / deletes list failed points whose error is something else than "not found".
func shardRejected(status int, body []byte) string {
	if status >= 500 {
		return fmt.Sprintf("answered %d %s", status, errClass(string(body)))
	}
	var r struct {
		FailedRanges []struct {
			Err string `json:"error"`
		} `json:"failedRanges"`
		FailedPoints []struct {
			Err string `json:"error"`
		} `json:"failedPoints"`
	}
	if json.Unmarshal(body, &r) != nil {
		return ""
	}
	for _, f := range r.FailedRanges {
		return "failed range: " + clip(f.Err, 160)
	}
	for _, f := range r.FailedPoints {
		if f.Err != "not found" {
			return "failed point: " + clip(f.Err, 160)
		}
	}
	return ""
}

func clip(s string, n int) string {
	if len(s) > n {
		return s[:n] + "..."
	}
	return s
}

func isPointWrite(ep string) bool {
	return strings.HasSuffix(ep, "Insert") || strings.HasSuffix(ep, "Update") || strings.HasSuffix(ep, "Delete")
}
