// Request generation: collection schemas, valid requests built from them, and the mutation catalogue
// (field by field: wrong types, missing / extra / duplicate / reserved keys, boundary numbers,
// NaN / Inf / huge, vector lengths 0 / 1 / dim±1 / 4096 / 4097, deep nesting, malformed bytes).
package main

import (
	"fmt"
	"math"
	"strings"

	"verifharness/vh"
)

// ---------------------------------------------------------------------------- schemas

type prop struct {
	path   string
	kind   string // vectorFlat vectorVamana text string stringArray integer float
	dim    int
	metric string
	quant  *N
	// parameter blocks of OTHER index types next to the block of the declared type
	// (IndexSchemaValue.Validate only looks at the declared type's block: such a schema is accepted
	// and stored as it is; whatever reads the schema later must go by the type)
	stray []KV
}

type colSpec struct {
	user, plan, id string
	v1             bool // created through POST /v1/collections
	props          []prop
}

func (p prop) schemaValue() *N {
	v := p.declaredValue()
	for _, kv := range p.stray {
		if v.Get(kv.K) == nil {
			v.O = append(v.O, KV{kv.K, kv.V.Clone()})
		}
	}
	return v
}

// a parameter block for index type `kind` (used as a stray block): mostly well-formed, sometimes with
// values its own Validate() would refuse (nobody validates it)
func (g *gen) paramBlock(kind string, dim int) *N {
	if g.r.Chance(25) {
		dim = vh.Pick(g.r, []int{0, 1, 2, 3, 4, 5, 4097})
	}
	switch kind {
	case "vectorFlat":
		return Obj("vectorSize", Int(int64(dim)), "distanceMetric", Str(vh.Pick(g.r, []string{"euclidean", "cosine", "dot", "nosuch"})))
	case "vectorVamana":
		return Obj("vectorSize", Int(int64(dim)), "distanceMetric", Str(vh.Pick(g.r, []string{"euclidean", "cosine", "dot"})), "searchSize", Int(int64(vh.Pick(g.r, []int{75, 75, 0}))), "degreeBound", Int(64), "alpha", Flt32(1.2))
	case "text":
		return Obj("analyser", Str(vh.Pick(g.r, []string{"standard", "nosuch"})))
	default: // string, stringArray
		return Obj("caseSensitive", Bool(g.r.Bool()))
	}
}

var blockKinds = []string{"vectorFlat", "vectorVamana", "text", "string", "stringArray"}

func (g *gen) strayBlocks(p prop) []KV {
	var out []KV
	for k := 0; k < 1+g.r.Intn(2); k++ {
		kind := vh.Pick(g.r, blockKinds)
		if kind == p.kind {
			continue
		}
		dim := p.dim
		if dim == 0 {
			dim = vh.Pick(g.r, []int{2, 3, 4})
		}
		out = append(out, KV{kind, g.paramBlock(kind, dim)})
	}
	return out
}

func (p prop) declaredValue() *N {
	switch p.kind {
	case "vectorFlat":
		o := Obj("vectorSize", Int(int64(p.dim)), "distanceMetric", Str(p.metric))
		if p.quant != nil {
			o.Set("quantizer", p.quant.Clone())
		}
		return Obj("type", Str("vectorFlat"), "vectorFlat", o)
	case "vectorVamana":
		o := Obj("vectorSize", Int(int64(p.dim)), "distanceMetric", Str(p.metric), "searchSize", Int(75), "degreeBound", Int(64), "alpha", Flt32(1.2))
		if p.quant != nil {
			o.Set("quantizer", p.quant.Clone())
		}
		return Obj("type", Str("vectorVamana"), "vectorVamana", o)
	case "text":
		return Obj("type", Str("text"), "text", Obj("analyser", Str("standard")))
	case "string":
		return Obj("type", Str("string"), "string", Obj("caseSensitive", Bool(false)))
	case "stringArray":
		return Obj("type", Str("stringArray"), "stringArray", Obj("caseSensitive", Bool(true)))
	case "integer":
		return Obj("type", Str("integer"))
	default:
		return Obj("type", Str("float"))
	}
}

func (c colSpec) createBody() *N {
	if c.v1 {
		return Obj("id", Str(c.id), "vectorSize", Int(int64(c.props[0].dim)), "distanceMetric", Str(c.props[0].metric))
	}
	s := &N{K: 'o'}
	for _, p := range c.props {
		s.O = append(s.O, KV{p.path, p.schemaValue()})
	}
	return Obj("id", Str(c.id), "indexSchema", s)
}

var baseCols = []colSpec{
	{user: "alice", plan: "BASIC", id: "base1", props: []prop{
		{path: "vec", kind: "vectorVamana", dim: 4, metric: "euclidean"},
		{path: "flat", kind: "vectorFlat", dim: 3, metric: "cosine"},
		{path: "txt", kind: "text"},
		{path: "cat", kind: "string"},
		{path: "tags", kind: "stringArray"},
		{path: "size", kind: "integer"},
		{path: "price", kind: "float"},
		{path: "meta.kind", kind: "string"},
		{path: "geo.loc", kind: "vectorFlat", dim: 2, metric: "haversine"},
	}},
	{user: "alice", plan: "BASIC", id: "base2", props: []prop{
		{path: "bits", kind: "vectorFlat", dim: 8, metric: "hamming"},
		{path: "pq", kind: "vectorVamana", dim: 8, metric: "dot", quant: Obj("type", Str("product"), "product", Obj("numCentroids", Int(16), "numSubVectors", Int(2), "triggerThreshold", Int(1000)))},
		{path: "bin", kind: "vectorFlat", dim: 4, metric: "euclidean", quant: Obj("type", Str("binary"), "binary", Obj("threshold", Null(), "triggerThreshold", Int(5), "distanceMetric", Str("jaccard")))},
		{path: "k", kind: "integer"},
	}},
	{user: "alice", plan: "BASIC", id: "v1col", v1: true, props: []prop{{path: "vector", kind: "vectorVamana", dim: 4, metric: "euclidean"}}},
	// created through v2, reachable through v1 (has the v1 index) but with a second vector index
	// on the property the v1 API fills with arbitrary metadata
	{user: "alice", plan: "BASIC", id: "mixed", props: []prop{
		{path: "vector", kind: "vectorVamana", dim: 2, metric: "euclidean"},
		{path: "metadata", kind: "vectorFlat", dim: 3, metric: "euclidean"},
	}},
	// created through v2; every entry carries parameter blocks of other types than the declared one:
	// "vector" is a flat index with a vamana block beside it (the v1 API reads IndexSchema["vector"]),
	// "w" a vamana index with a flat block of another dimension, the inverted indexes carry vector / text blocks
	{user: "alice", plan: "BASIC", id: "stray", props: []prop{
		{path: "vector", kind: "vectorFlat", dim: 3, metric: "euclidean", stray: []KV{{"vectorVamana", Obj("vectorSize", Int(3), "distanceMetric", Str("euclidean"), "searchSize", Int(75), "degreeBound", Int(64), "alpha", Flt32(1.2))}}},
		{path: "w", kind: "vectorVamana", dim: 2, metric: "euclidean", stray: []KV{{"vectorFlat", Obj("vectorSize", Int(5), "distanceMetric", Str("cosine"))}, {"text", Obj("analyser", Str("standard"))}}},
		{path: "metadata", kind: "string", stray: []KV{{"vectorFlat", Obj("vectorSize", Int(2), "distanceMetric", Str("euclidean"))}, {"stringArray", Obj("caseSensitive", Bool(true))}}},
		{path: "n", kind: "integer", stray: []KV{{"vectorVamana", Obj("vectorSize", Int(4), "distanceMetric", Str("dot"), "searchSize", Int(75), "degreeBound", Int(64), "alpha", Flt32(1.2))}, {"string", Obj("caseSensitive", Bool(false))}}},
		{path: "t", kind: "text", stray: []KV{{"vectorFlat", Obj("vectorSize", Int(1), "distanceMetric", Str("euclidean"))}}},
	}},
	{user: "bob", plan: "TINY", id: "tiny", props: []prop{
		{path: "k", kind: "integer"},
		{path: "v", kind: "vectorFlat", dim: 2, metric: "euclidean"},
	}},
	{user: "carol", plan: "BIG", id: "big", props: []prop{
		{path: "v", kind: "vectorFlat", dim: 4096, metric: "euclidean"},
		{path: "w", kind: "vectorVamana", dim: 4096, metric: "cosine"},
		{path: "k", kind: "integer"},
	}},
}

// ---------------------------------------------------------------------------- valid requests

type gen struct {
	r *vh.Rng
	// recording of the query under construction (see qleaf)
	rec    bool
	leaves []qleaf
	parent *N
	host   *N
}

func (g *gen) uuid() string {
	a, b := g.r.U64(), g.r.U64()
	return fmt.Sprintf("%08x-%04x-%04x-%04x-%012x", uint32(a>>32), uint16(a>>16), uint16(a), uint16(b>>48), b&0xffffffffffff)
}

var words = []string{"alpha", "beta", "gamma", "delta", "omega", "red", "green", "blue", "the", "quick", "brown", "fox"}

func (g *gen) word() string { return vh.Pick(g.r, words) }

func (g *gen) vec(dim int) *N {
	n := &N{K: 'a'}
	for i := 0; i < dim; i++ {
		n.A = append(n.A, &N{K: 'f', F: float64(g.r.Intn(2001)-1000) / 100, F32: true})
	}
	return n
}

// setPath sets a (possibly nested, dot separated) property of a point
func setPath(pt *N, path string, v *N) {
	parts := strings.Split(path, ".")
	cur := pt
	for i, p := range parts {
		if i == len(parts)-1 {
			cur.Set(p, v)
			return
		}
		nx := cur.Get(p)
		if nx == nil || nx.K != 'o' {
			nx = &N{K: 'o'}
			cur.Set(p, nx)
		}
		cur = nx
	}
}

func (g *gen) propValue(p prop) *N {
	switch p.kind {
	case "vectorFlat", "vectorVamana":
		if p.metric == "hamming" || p.metric == "jaccard" {
			n := &N{K: 'a'}
			for i := 0; i < p.dim; i++ {
				n.A = append(n.A, &N{K: 'f', F: float64(g.r.Intn(2)), F32: true})
			}
			return n
		}
		if p.metric == "haversine" {
			return Vec(float64(g.r.Intn(180)-90), float64(g.r.Intn(360)-180))
		}
		return g.vec(p.dim)
	case "text":
		return Str(g.word() + " " + g.word() + " " + g.word())
	case "string":
		return Str(g.word())
	case "stringArray":
		return Arr(Str(g.word()), Str(g.word()))
	case "integer":
		return Int(int64(g.r.Intn(100)))
	default:
		return Flt(float64(g.r.Intn(10000)) / 100)
	}
}

// a point compatible with the schema; sparse: each indexed property is present with probability 3/4
func (g *gen) point(c *colSpec, withID bool) *N {
	pt := &N{K: 'o'}
	if withID {
		pt.Set("_id", Str(g.uuid()))
	}
	for _, p := range c.props {
		if g.r.Chance(75) {
			setPath(pt, p.path, g.propValue(p))
		}
	}
	if g.r.Chance(40) {
		pt.Set("note", Str(g.word()))
	}
	if g.r.Chance(20) {
		pt.Set("extra", Obj("n", Int(int64(g.r.Intn(9))), "l", Arr(Int(1), Str("x"), Null())))
	}
	return pt
}

// violatePoints breaks ONE point of a batch (any position, the others stay valid) against the schema: an
// indexed vector of the wrong length (top level or under a nested path), a value of the wrong type
// under an indexed path, a nested path running through a scalar
func (g *gen) violatePoints(c *colSpec, pts *N) string {
	if len(pts.A) == 0 || len(c.props) == 0 {
		return ""
	}
	// some valid company first
	for len(pts.A) < 3 && g.r.Chance(60) {
		pts.A = append(pts.A, g.point(c, true))
	}
	pt := pts.A[g.r.Intn(len(pts.A))]
	if pt.K != 'o' {
		return ""
	}
	p := vh.Pick(g.r, c.props)
	switch {
	case (p.kind == "vectorFlat" || p.kind == "vectorVamana") && g.r.Chance(70):
		v := g.propValue(p)
		g.resize(v, vh.Pick(g.r, []int{p.dim + 1, p.dim + 1, max(p.dim-1, 0), 1, 2 * p.dim}))
		setPath(pt, p.path, v)
		return "sem:stored-vector-len"
	case strings.Contains(p.path, ".") && g.r.Bool():
		pt.Set(strings.SplitN(p.path, ".", 2)[0], vh.Pick(g.r, []*N{Str("scalar"), Int(3), Arr(Int(1))}))
		return "sem:nested-through-scalar"
	default:
		var v *N
		switch p.kind {
		case "integer", "float":
			v = Str("12")
		case "stringArray":
			v = vh.Pick(g.r, []*N{Str("one"), Arr(Str("a"), Int(1))})
		case "vectorFlat", "vectorVamana":
			v = vh.Pick(g.r, []*N{Str("vector"), Arr(Str("a")), Arr(Arr(Flt32(1)))})
		default:
			v = vh.Pick(g.r, []*N{Int(7), Arr(Str("a")), Obj("a", Str("b"))})
		}
		setPath(pt, p.path, v)
		return "sem:indexed-value-type"
	}
}

func (g *gen) v1Point(c *colSpec, withID bool) *N {
	pt := Obj("vector", g.vec(c.props[0].dim))
	if withID {
		pt.Set("id", Str(g.uuid()))
	}
	switch g.r.Intn(4) {
	case 0:
		pt.Set("metadata", Obj("name", Str(g.word()), "n", Int(int64(g.r.Intn(50)))))
	case 1:
		pt.Set("metadata", Str(g.word()))
	case 2:
		pt.Set("metadata", g.vec(3))
	}
	return pt
}

// an EXECUTED leaf of the query being generated (indexManager.Search dispatches on the property
// name: `_and` runs the `_and` list, `_or` the `_or` list, a vector / text leaf runs its filter first)
type qleaf struct {
	node   *N   // the query object {"property": ..., "<type>": {...}}
	p      prop // the indexed property it addresses
	parent *N   // the composite node whose executed list holds it (nil: top level or a filter)
	host   *N   // the options object whose "filter" it is (nil otherwise)
}

func (g *gen) leaf(c *colSpec, p prop, depth int) *N {
	q := Obj("property", Str(p.path))
	if g.rec {
		g.leaves = append(g.leaves, qleaf{node: q, p: p, parent: g.parent, host: g.host})
	}
	filter := func(o *N) {
		if depth < 3 && g.r.Chance(35) {
			sp, sh := g.parent, g.host
			g.parent, g.host = nil, o
			// mostly a pure filter; sometimes a ranking query (vector / text) serves as the filter
			o.Set("filter", g.query(c, depth+1, !g.r.Chance(15)))
			g.parent, g.host = sp, sh
		}
	}
	switch p.kind {
	case "vectorFlat":
		o := Obj("vector", g.propValue(p), "operator", Str("near"), "limit", Int(int64(1+g.r.Intn(75))))
		filter(o)
		if g.r.Chance(30) {
			o.Set("weight", Flt32(float32(g.r.Intn(20))/10))
		}
		q.Set("vectorFlat", o)
	case "vectorVamana":
		lim := int64(1 + g.r.Intn(75))
		ss := lim + int64(g.r.Intn(int(76-lim)))
		if ss < 25 {
			ss = 25
		}
		o := Obj("vector", g.propValue(p), "operator", Str("near"), "searchSize", Int(ss), "limit", Int(lim))
		filter(o)
		q.Set("vectorVamana", o)
	case "text":
		o := Obj("value", Str(g.word()+" "+g.word()), "operator", Str(vh.Pick(g.r, []string{"containsAll", "containsAny"})), "limit", Int(int64(1+g.r.Intn(75))))
		filter(o)
		q.Set("text", o)
	default:
		q.Set(p.kind, g.plainOpts(p.kind))
	}
	return q
}

// options of the inverted index types (no nested query inside)
func (g *gen) plainOpts(kind string) *N {
	switch kind {
	case "string":
		op := vh.Pick(g.r, []string{"equals", "notEquals", "startsWith", "greaterThan", "greaterThanOrEquals", "lessThan", "lessThanOrEquals", "inRange"})
		o := Obj("value", Str("b"+g.word()), "operator", Str(op))
		if op == "inRange" {
			o.Set("endValue", Str("z"+g.word()))
		}
		return o
	case "stringArray":
		return Obj("value", Arr(Str(g.word()), Str(g.word())), "operator", Str(vh.Pick(g.r, []string{"containsAll", "containsAny"})))
	case "integer":
		op := vh.Pick(g.r, []string{"equals", "notEquals", "greaterThan", "greaterThanOrEquals", "lessThan", "lessThanOrEquals", "inRange"})
		v := int64(g.r.Intn(100))
		o := Obj("value", Int(v), "operator", Str(op))
		if op == "inRange" {
			o.Set("endValue", Int(v+1+int64(g.r.Intn(50))))
		}
		return o
	default:
		op := vh.Pick(g.r, []string{"equals", "notEquals", "greaterThan", "greaterThanOrEquals", "lessThan", "lessThanOrEquals", "inRange"})
		v := float64(g.r.Intn(10000)) / 100
		o := Obj("value", Flt(v), "operator", Str(op))
		if op == "inRange" {
			o.Set("endValue", Flt(v+0.5+float64(g.r.Intn(50))))
		}
		return o
	}
}

func (g *gen) query(c *colSpec, depth int, filterOnly bool) *N {
	cands := c.props
	if filterOnly {
		cands = nil
		for _, p := range c.props {
			if p.kind != "vectorFlat" && p.kind != "vectorVamana" && p.kind != "text" {
				cands = append(cands, p)
			}
		}
	}
	if len(cands) == 0 || g.r.Chance(8) {
		ids := &N{K: 'a'}
		for i := 0; i < 1+g.r.Intn(3); i++ {
			ids.A = append(ids.A, Str(g.uuid()))
		}
		if g.r.Bool() {
			return Obj("property", Str("_id"), "stringArray", Obj("value", ids, "operator", Str("containsAny")))
		}
		return Obj("property", Str("_id"), "string", Obj("value", ids.A[0], "operator", Str("equals")))
	}
	var q *N
	if depth < 3 && g.r.Chance(30) {
		k := vh.Pick(g.r, []string{"_and", "_or"})
		subs := &N{K: 'a'}
		q = Obj("property", Str(k), k, subs)
		sp, sh := g.parent, g.host
		g.parent, g.host = q, nil
		for i := 0; i < 1+g.r.Intn(3); i++ {
			subs.A = append(subs.A, g.query(c, depth+1, filterOnly))
		}
		g.parent, g.host = sp, sh
	} else {
		q = g.leaf(c, vh.Pick(g.r, cands), depth)
	}
	if g.rec && g.r.Chance(12) {
		g.decorate(c, q)
	}
	return q
}

// decorate adds structure to a query node that is well-formed in itself (Query.Validate looks at every
// block and both lists) but that the execution never looks at: option blocks of types other than the
// one the property's index has, an `_or` list on an `_and` node and vice versa, lists on a leaf. The
// dormant sub-queries may violate the schema (wrong vector length, property without an index): nobody
// runs them, so they must not decide anything.
func (g *gen) decorate(c *colSpec, q *N) string {
	rec, sp, sh := g.rec, g.parent, g.host
	g.rec, g.parent, g.host = false, nil, nil
	defer func() { g.rec, g.parent, g.host = rec, sp, sh }()
	dormant := func() *N {
		sub := g.query(c, 3, g.r.Bool())
		if g.r.Chance(40) {
			if o := vecOpts(sub); o != nil {
				g.resize(o.Get("vector"), len(o.Get("vector").A)+1)
			} else if g.r.Bool() {
				sub.Set("property", Str("nosuch"))
			}
		}
		return sub
	}
	prop := ""
	if pn := q.Get("property"); pn != nil {
		prop = pn.S
	}
	composite := prop == "_and" || prop == "_or"
	switch k := g.r.Intn(3); {
	case k == 0 || (composite && k == 1):
		other := "_and"
		if prop == "_and" || (prop != "_or" && g.r.Bool()) {
			other = "_or"
		}
		if q.Get(other) != nil {
			return ""
		}
		subs := &N{K: 'a'}
		for i := 0; i < 1+g.r.Intn(2); i++ {
			subs.A = append(subs.A, dormant())
		}
		// before or after the live entries: a decoder or a validator that goes by position or by
		// "whichever is there" shows
		if g.r.Bool() {
			q.O = append(q.O, KV{other, subs})
		} else {
			q.O = append([]KV{{other, subs}}, q.O...)
		}
		return "dormant-" + other
	default:
		kind := vh.Pick(g.r, []string{"vectorFlat", "vectorVamana", "text", "string", "stringArray", "integer", "float"})
		if q.Get(kind) != nil {
			return ""
		}
		var o *N
		switch kind {
		case "vectorFlat":
			o = Obj("vector", g.vec(1+g.r.Intn(5)), "operator", Str("near"), "limit", Int(int64(1+g.r.Intn(75))))
		case "vectorVamana":
			o = Obj("vector", g.vec(1+g.r.Intn(5)), "operator", Str("near"), "searchSize", Int(75), "limit", Int(int64(1+g.r.Intn(75))))
		case "text":
			o = Obj("value", Str(g.word()), "operator", Str("containsAny"), "limit", Int(int64(1+g.r.Intn(75))))
		default:
			o = g.plainOpts(kind)
		}
		if (kind == "vectorFlat" || kind == "vectorVamana" || kind == "text") && g.r.Chance(30) {
			o.Set("filter", dormant())
		}
		q.O = append(q.O, KV{kind, o})
		return "dormant-" + kind
	}
}

// the vector options object of a vector leaf (nil for other nodes)
func vecOpts(q *N) *N {
	for _, k := range []string{"vectorFlat", "vectorVamana"} {
		if o := q.Get(k); o != nil && o.K == 'o' && o.Get("vector") != nil && o.Get("vector").K == 'a' {
			return o
		}
	}
	return nil
}

// violate breaks ONE executed leaf of the generated query against the schema or the documented limits
// and, more often than not, surrounds the broken place with more valid structure (a valid filter on the
// broken leaf, dormant lists / blocks on it and on the composite node above it). Returns the mutation name.
func (g *gen) violate(c *colSpec) string {
	if len(g.leaves) == 0 {
		return ""
	}
	l := vh.Pick(g.r, g.leaves)
	q, p := l.node, l.p
	isVec := p.kind == "vectorFlat" || p.kind == "vectorVamana"
	opts := q.Get(p.kind)
	kind := ""
	switch w := g.r.Intn(100); {
	case isVec && w < 45 && opts != nil:
		dim := len(opts.Get("vector").A)
		nl := vh.Pick(g.r, []int{dim - 1, dim + 1, dim + 1, 1, 2 * dim, dim + 7})
		if nl == dim || nl < 1 {
			nl = dim + 1
		}
		g.resize(opts.Get("vector"), nl)
		kind = "vector-len"
	case w < 60:
		q.Set("property", Str(vh.Pick(g.r, []string{"nosuch", "note", "extra.n", "meta", "geo", p.path + ".x", p.path + "x", strings.ToUpper(p.path)})))
		kind = "unindexed-property"
	case w < 75 && opts != nil:
		// the options of another index type instead of the ones this property's index takes
		var others []string
		for _, k := range []string{"vectorFlat", "vectorVamana", "text", "string", "stringArray", "integer", "float"} {
			if k != p.kind {
				others = append(others, k)
			}
		}
		nk := vh.Pick(g.r, others)
		q.Del(p.kind)
		switch {
		case isVec && (nk == "vectorFlat" || nk == "vectorVamana"):
			if nk == "vectorVamana" {
				opts.Set("searchSize", Int(75))
			}
			q.Set(nk, opts)
		case nk == "vectorFlat":
			q.Set(nk, Obj("vector", g.vec(3), "operator", Str("near"), "limit", Int(5)))
		case nk == "vectorVamana":
			q.Set(nk, Obj("vector", g.vec(3), "operator", Str("near"), "searchSize", Int(75), "limit", Int(5)))
		case nk == "text":
			q.Set(nk, Obj("value", Str(g.word()), "operator", Str("containsAny"), "limit", Int(5)))
		default:
			q.Set(nk, g.plainOpts(nk))
		}
		kind = "options-of-other-type"
	case w < 85:
		// another indexed property, of another type, under the same options
		var others []prop
		for _, o := range c.props {
			if o.kind != p.kind {
				others = append(others, o)
			}
		}
		if len(others) == 0 {
			q.Set("property", Str("nosuch"))
		} else {
			q.Set("property", Str(vh.Pick(g.r, others).path))
		}
		kind = "property-of-other-type"
	case opts != nil && opts.Get("limit") != nil:
		switch {
		case p.kind == "vectorVamana" && g.r.Bool():
			lim := opts.Get("limit").I
			if lim > 25 && g.r.Bool() {
				opts.Set("searchSize", Int(lim-1))
			} else {
				opts.Set("searchSize", Int(vh.Pick(g.r, []int64{24, 76, 0})))
			}
			kind = "searchSize-range"
		default:
			opts.Set("limit", Int(vh.Pick(g.r, []int64{0, 76, -1})))
			kind = "leaf-limit-range"
		}
	case opts != nil:
		opts.Set("operator", Str(vh.Pick(g.r, []string{"near", "like", "containsAny", "startsWith", "inRange", ""})))
		kind = "operator-of-other-type"
	default:
		q.Set("property", Str("nosuch"))
		kind = "unindexed-property"
	}
	// ---- more valid structure around the broken place
	if g.r.Chance(65) {
		rec := g.rec
		g.rec = false
		if vo := vecOpts(q); vo != nil && vo.Get("filter") == nil && g.r.Chance(60) {
			vo.Set("filter", g.query(c, 2, true))
			kind += "+filter"
		} else if to := q.Get("text"); to != nil && to.K == 'o' && to.Get("filter") == nil && g.r.Chance(60) {
			to.Set("filter", g.query(c, 2, true))
			kind += "+filter"
		}
		if l.parent != nil && g.r.Chance(60) {
			if d := g.decorate(c, l.parent); d != "" {
				kind += "+parent-" + d
			}
		}
		if g.r.Chance(25) {
			if d := g.decorate(c, q); d != "" {
				kind += "+" + d
			}
		}
		g.rec = rec
	}
	// ---- the broken place far down: 5 .. 64 well-formed levels (any of the five recursion sites of a query, in
	// any mixture) between it and where it stood. Validation, schema validation and execution walk the same
	// structure; a bound, a budget or a cut-off in one of them that the others do not share shows here.
	if g.r.Chance(8) {
		n := 5 + g.r.Intn(60)
		g.wrapDeep(c, q, n)
		kind += "+nested-deep"
	}
	return kind
}

// wrapDeep puts n well-formed nesting levels around the query node q IN PLACE (whoever points at q now points
// at the outermost level)
func (g *gen) wrapDeep(c *colSpec, q *N, n int) {
	inner := &N{}
	*inner = *q
	cur := inner
	for i := 0; i < n; i++ {
		cur = g.wrapOnce(c, cur)
	}
	*q = *cur
}

// one well-formed level around x: an `_and` / `_or` node, or a flat / vamana / text leaf of the collection with x as its filter
func (g *gen) wrapOnce(c *colSpec, x *N) *N {
	var hosts []prop
	for _, p := range c.props {
		if ((p.kind == "vectorFlat" || p.kind == "vectorVamana") && p.dim > 0 && p.dim <= 64) || p.kind == "text" {
			hosts = append(hosts, p)
		}
	}
	w := g.r.Intn(5)
	if len(hosts) == 0 || w < 2 {
		k := vh.Pick(g.r, []string{"_and", "_or"})
		subs := Arr(x)
		if g.r.Chance(30) {
			rec := g.rec
			g.rec = false
			subs.A = append(subs.A, g.query(c, 3, true))
			g.rec = rec
			if g.r.Bool() {
				subs.A[0], subs.A[1] = subs.A[1], subs.A[0]
			}
		}
		return Obj("property", Str(k), k, subs)
	}
	p := vh.Pick(g.r, hosts)
	switch p.kind {
	case "vectorFlat":
		return Obj("property", Str(p.path), "vectorFlat", Obj("vector", g.propValue(p), "operator", Str("near"), "limit", Int(int64(1+g.r.Intn(75))), "filter", x))
	case "vectorVamana":
		return Obj("property", Str(p.path), "vectorVamana", Obj("vector", g.propValue(p), "operator", Str("near"), "searchSize", Int(75), "limit", Int(int64(1+g.r.Intn(75))), "filter", x))
	default:
		return Obj("property", Str(p.path), "text", Obj("value", Str(g.word()), "operator", Str("containsAny"), "limit", Int(int64(1+g.r.Intn(75))), "filter", x))
	}
}

var selectPool = []string{"extra", "extra.l", "extra.l.0", "extra.l.1", "extra.l.x", "extra.l.*", "extra.n", "extra.n.x", "note", "note.x", "tags.0", "tags.x", "vec.0", "vec.*", "size.x", "price.0",
	"meta", "meta.kind", "meta.kind.x", "geo", "geo.loc.0", "", ".", "a..b", "*", "nosuch", "nosuch.x", "_id", "vector", "metadata", "metadata.0", "k", "k.0"}

func (g *gen) search(c *colSpec) *N {
	g.rec, g.leaves, g.parent, g.host = true, nil, nil, nil
	qn := g.query(c, 0, false)
	g.rec = false
	req := Obj("query", qn, "limit", Int(int64(1+g.r.Intn(100))))
	switch g.r.Intn(5) {
	case 0:
		req.Set("select", Arr(Str("*")))
	case 1, 2:
		sel := &N{K: 'a'}
		for _, p := range c.props {
			if g.r.Chance(40) {
				sel.A = append(sel.A, Str(p.path))
			}
		}
		if g.r.Chance(30) {
			sel.A = append(sel.A, Str("note"), Str("extra.n"))
		}
		if g.r.Chance(35) { // paths that may not fit the structure of the stored points
			for k := 0; k < 1+g.r.Intn(3); k++ {
				sel.A = append(sel.A, Str(vh.Pick(g.r, selectPool)))
			}
		}
		req.Set("select", sel)
	}
	if g.r.Chance(30) && len(c.props) > 0 {
		p := vh.Pick(g.r, c.props)
		req.Set("sort", Arr(Obj("property", Str(p.path), "descending", Bool(g.r.Bool()))))
		if g.r.Chance(30) {
			req.Get("sort").A = append(req.Get("sort").A, Obj("property", Str(vh.Pick(g.r, selectPool)), "descending", Bool(g.r.Bool())))
		}
		if req.Get("select") == nil {
			req.Set("select", Arr(Str(p.path)))
		}
	}
	if g.r.Chance(40) {
		req.Set("offset", Int(int64(g.r.Intn(6))))
	}
	return req
}

// ---------------------------------------------------------------------------- mutations

var intPool = []int64{0, 1, -1, 2, 3, 4, 5, 9, 10, 11, 15, 16, 17, 23, 24, 25, 26, 31, 32, 33, 63, 64, 65, 74, 75, 76, 99, 100, 101, 255, 256, 257, 999, 1000, 1001, 1999, 2000, 2001,
	4095, 4096, 4097, 9999, 10000, 10001, 49999, 50000, 50001, 65535, 65536, math.MaxInt32, math.MaxInt32 + 1, 1 << 32, 1 << 53, math.MaxInt64 - 100, math.MaxInt64 - 1, math.MaxInt64, math.MinInt64, math.MinInt64 + 1, -2, -100}

var fltPool = []float64{0, 1, -1, 0.5, 1.0999, 1.1, 1.1000001, 1.2, 1.4999, 1.5, 1.5000001, 1.6, 2.5, 1e-7, 1e10, 1e18, 3.4028234e38, 3.5e38, 1e39, 1e300, 1.7976931348623157e308, -1.7976931348623157e308, 5e-324, 90, -90, 180, 181}

var rawPool = []string{"1e999", "-1e999", "1E400", "1.0", "1e2", "-0", "0.0", "1e-400", "00", "+1", ".5", "1.", "0x10", "1_000", "true1", "nul", "18446744073709551616", "-9223372036854775809",
	"9223372036854775808", strings.Repeat("9", 400), "0." + strings.Repeat("0", 400) + "1", "1" + strings.Repeat("0", 310) + ".5"}

var strPool = []string{"", " ", "a", "A", "_id", "_and", "_or", "_delete", "_distance", "_score", "_hybridScore", "*", ".", "..", "a.b", "a..b", ".a", "a.", "0", "-1", "vec.0", "near", "Near", "NEAR", "like", "equals", "containsAny", "inRange",
	"euclidean", "cosine", "dot", "hamming", "jaccard", "haversine", "manhattan", "vectorFlat", "vectorVamana", "text", "string", "integer", "float", "stringArray", "none", "binary", "product", "standard",
	"\xff\xfe", "caf\xc3", "nul\x00byte", "éè", "\U0001F600", "line\nbreak", "quote\"q", "back\\slash", "<script>", "%2e%2e", "../..", "123e4567-e89b-12d3-a456-426614174000", "123E4567-E89B-12D3-A456-426614174000",
	"{123e4567-e89b-12d3-a456-426614174000}", "urn:uuid:123e4567-e89b-12d3-a456-426614174000", "URN:UUID:123e4567-e89b-12d3-a456-426614174000", "123e4567e89b12d3a456426614174000", "123e4567-e89b-12d3-a456-42661417400", "123e4567-e89b-12d3-a456-42661417400g",
	"x23e4567-e89b-12d3-a456-426614174000", "(123e4567-e89b-12d3-a456-426614174000)", "123e4567+e89b+12d3+a456+426614174000", "00000000-0000-0000-0000-000000000000"}

type site struct {
	parent *N
	idx    int    // index in parent.A, or in parent.O
	isKey  bool   // the site is the KEY of parent.O[idx]
	path   string // for stats / signatures
}

func collectSites(n *N, path string, out *[]site, limit int) {
	if len(*out) >= limit {
		return
	}
	switch n.K {
	case 'a':
		for i, x := range n.A {
			if i > 6 && i < len(n.A)-2 { // long vectors: first few and last elements are enough
				continue
			}
			*out = append(*out, site{n, i, false, path + "[]"})
			collectSites(x, path+"[]", out, limit)
		}
	case 'o':
		for i, kv := range n.O {
			*out = append(*out, site{n, i, false, path + "." + kv.K})
			*out = append(*out, site{n, i, true, path + "." + kv.K + "#key"})
			collectSites(kv.V, path+"."+kv.K, out, limit)
		}
	}
}

func (s site) get() *N {
	if s.parent.K == 'a' {
		return s.parent.A[s.idx]
	}
	return s.parent.O[s.idx].V
}

func (s site) set(v *N) {
	if s.parent.K == 'a' {
		s.parent.A[s.idx] = v
	} else {
		s.parent.O[s.idx].V = v
	}
}

func deep(depth int, arr bool) *N {
	cur := Int(1)
	for i := 0; i < depth; i++ {
		if arr {
			cur = Arr(cur)
		} else {
			cur = Obj("a", cur)
		}
	}
	return cur
}

// approxSize: encoded size of a body tree, roughly
func approxSize(n *N) int {
	switch n.K {
	case 's', 'r', 'x':
		return len(n.S) + 3
	case 'a':
		t := 3
		for _, x := range n.A {
			t += approxSize(x)
		}
		return t
	case 'o':
		t := 3
		for _, kv := range n.O {
			t += len(kv.K) + 3 + approxSize(kv.V)
		}
		return t
	}
	return 6
}

func (g *gen) resize(n *N, l int) {
	if n.K != 'a' {
		return
	}
	proto := Flt32(0.5)
	if len(n.A) > 0 {
		proto = n.A[0]
	}
	for len(n.A) < l {
		n.A = append(n.A, proto.Clone())
	}
	n.A = n.A[:l]
}

// mutate applies one mutation to the tree below root; returns its name (kind) and the site path.
// jsonOnly / mpOnly tell the caller which encoding can express it.
func (g *gen) mutate(root *N) (kind, path string, jsonOnly, mpOnly bool) {
	var sites []site
	collectSites(root, "", &sites, 4000)
	if len(sites) == 0 {
		root.Set("extra", Int(1))
		return "extra-key", "", false, false
	}
	s := vh.Pick(g.r, sites)
	path = s.path
	if s.isKey {
		kv := &s.parent.O[s.idx]
		switch g.r.Intn(6) {
		case 0:
			s.parent.Del(kv.K)
			return "delete-key", path, false, false
		case 1:
			if kv.K != "" {
				kv.K = strings.ToUpper(kv.K[:1]) + kv.K[1:]
			}
			return "key-case", path, false, false
		case 2:
			kv.K = vh.Pick(g.r, strPool)
			return "key-reserved", path, false, false
		case 3: // duplicate key, the second occurrence carries another value
			dup := KV{kv.K, g.anyValue()}
			if g.r.Bool() {
				// a near copy: same shape, another length / number (which occurrence wins is the decoder's
				// business; whichever it is must be the one that gets validated)
				cp := kv.V.Clone()
				switch cp.K {
				case 'a':
					g.resize(cp, vh.Pick(g.r, []int{len(cp.A) + 1, max(len(cp.A)-1, 0), 1}))
				case 'i':
					cp.I = vh.Pick(g.r, intPool)
				case 's':
					cp.S = vh.Pick(g.r, strPool)
				case 'o':
					if len(cp.O) > 0 {
						cp.O = cp.O[:len(cp.O)-1]
					}
				}
				dup = KV{kv.K, cp}
			}
			if g.r.Bool() {
				s.parent.O = append(s.parent.O, dup)
			} else {
				s.parent.O = append([]KV{dup}, s.parent.O...)
			}
			return "duplicate-key", path, false, false
		case 4:
			s.parent.O = append(s.parent.O, KV{vh.Pick(g.r, strPool), g.anyValue()})
			return "extra-key", path, false, false
		default:
			kv.K = kv.K + "x"
			return "key-rename", path, false, false
		}
	}
	cur := s.get()
	switch cur.K {
	case 'i', 'u', 'f':
		switch g.r.Intn(9) {
		case 0, 1, 2:
			s.set(Int(vh.Pick(g.r, intPool)))
			return "int-boundary", path, false, false
		case 3:
			s.set(Uint(vh.Pick(g.r, []uint64{1 << 63, math.MaxUint64, math.MaxUint64 - 1, 4096, 4097})))
			return "uint-huge", path, false, false
		case 4, 5:
			f := vh.Pick(g.r, fltPool)
			n := Flt(f)
			n.F32 = cur.F32 && math.Abs(f) < 3e38
			s.set(n)
			return "float-boundary", path, false, false
		case 6:
			s.set(Raw(vh.Pick(g.r, rawPool)))
			return "raw-number", path, true, false
		case 7:
			n := Flt(vh.Pick(g.r, []float64{math.NaN(), math.Inf(1), math.Inf(-1)}))
			n.F32 = cur.F32
			s.set(n)
			return "nan-inf", path, false, false
		default:
			n := cur.Clone()
			if n.K == 'f' {
				n.F32 = !n.F32
				s.set(n)
				return "float-width", path, false, true
			}
			n.W = vh.Pick(g.r, []int{1, 2, 4, 8})
			if n.K == 'i' && (n.I > 127 || n.I < -128) {
				n.W = 8
			}
			s.set(n)
			return "int-width", path, false, true
		}
	case 's':
		switch g.r.Intn(5) {
		case 0, 1, 2:
			s.set(Str(vh.Pick(g.r, strPool)))
			return "string-pool", path, false, false
		case 3:
			s.set(Str(strings.Repeat(vh.Pick(g.r, []string{"a", "é", "ab "}), vh.Pick(g.r, []int{17, 25, 300, 2000, 70000}))))
			return "string-long", path, false, false
		default:
			s.set(g.anyValue())
			return "wrong-type", path, false, false
		}
	case 'a':
		switch g.r.Intn(8) {
		case 0, 1, 2:
			l := vh.Pick(g.r, []int{0, 1, len(cur.A) - 1, len(cur.A) + 1, 2, 3, 5, 2000, 2001, 4096, 4097, 101, 10001})
			if l < 0 {
				l = 0
			}
			// a batch of 10001 points of 4096 dimensions is a 200 MB body: it says nothing that the same count of
			// small points does not say (the sweep sends those), and costs the run half a minute on a loaded machine
			if len(cur.A) > 0 {
				if per := approxSize(cur.A[0]); per*l > 24<<20 {
					l = max((24<<20)/per, 101)
				}
			}
			g.resize(cur, l)
			return fmt.Sprintf("array-len-%d", l), path, false, false
		case 3:
			s.set(Arr(cur))
			return "array-nest", path, false, false
		case 4:
			if len(cur.A) > 0 {
				cur.A[g.r.Intn(len(cur.A))] = g.anyValue()
			}
			return "array-elem-type", path, false, false
		case 5:
			s.set(deep(vh.Pick(g.r, []int{50, 1000, 9990, 10001}), g.r.Bool()))
			return "deep-nesting", path, false, false
		default:
			s.set(g.anyValue())
			return "wrong-type", path, false, false
		}
	case 'o':
		switch g.r.Intn(6) {
		case 0:
			s.set(deep(vh.Pick(g.r, []int{50, 1000, 9990, 10001}), g.r.Bool()))
			return "deep-nesting", path, false, false
		case 1:
			cur.O = append(cur.O, KV{vh.Pick(g.r, strPool), g.anyValue()})
			return "extra-key", path, false, false
		case 2:
			cur.O = nil
			return "empty-object", path, false, false
		default:
			s.set(g.anyValue())
			return "wrong-type", path, false, false
		}
	default: // null / bool / raw
		s.set(g.anyValue())
		return "wrong-type", path, false, false
	}
}

func (g *gen) anyValue() *N {
	switch g.r.Intn(12) {
	case 0:
		return Null()
	case 1:
		return Bool(g.r.Bool())
	case 2:
		return Int(vh.Pick(g.r, intPool))
	case 3:
		return Flt(vh.Pick(g.r, fltPool))
	case 4:
		return Str(vh.Pick(g.r, strPool))
	case 5:
		return Arr()
	case 6:
		return &N{K: 'o'}
	case 7:
		return Arr(Int(1), Str("x"))
	case 8:
		return Obj("a", Int(1))
	case 9:
		return g.vec(vh.Pick(g.r, []int{1, 2, 3, 4}))
	case 10:
		return Arr(Arr(Flt32(1), Flt32(2)))
	default:
		return Str(g.uuid())
	}
}

// byte level corruption of an encoded body
func (g *gen) corrupt(b []byte) ([]byte, string) {
	switch g.r.Intn(8) {
	case 0:
		return nil, "empty-body"
	case 1:
		if len(b) > 1 {
			return b[:1+g.r.Intn(len(b)-1)], "truncated"
		}
		return b, "truncated"
	case 2:
		c := append([]byte{}, b...)
		if len(c) > 0 {
			c[g.r.Intn(len(c))] ^= byte(1 << g.r.Intn(8))
		}
		return c, "bit-flip"
	case 3:
		return append(append([]byte{}, b...), []byte("}]garbage\xff")...), "trailing-garbage"
	case 4:
		c := append([]byte{}, b...)
		if len(c) > 0 {
			c[g.r.Intn(len(c))] = byte(g.r.Intn(256))
		}
		return c, "byte-replace"
	case 5:
		return []byte(vh.Pick(g.r, []string{"null", "[]", "{}", "\"x\"", "1", " ", "{", "[", "{\"points\":", "\xc1", "\xdf\xff\xff\xff\xff", "\xdd\xff\xff\xff\xff", "\xdb\xff\xff\xff\xffabc", "\xc7\x01\xff\x00", "\xd6\xff\x00\x00\x00\x00"})), "literal-body"
	case 6:
		return append([]byte("\xef\xbb\xbf"), b...), "bom-prefix"
	default:
		c := append([]byte{}, b...)
		for i := 0; i < 3 && len(c) > 0; i++ {
			c[g.r.Intn(len(c))] = byte(g.r.Intn(256))
		}
		return c, "bytes-replace-3"
	}
}
