// Harness for C14 (start-up rebalancing): real cluster nodes on loopback ports, real collections
// and points, a change of the server list, `Sync` runs with injected faults (fault hook of
// RPCSendShard, destinations that are down, lost replies, killed child processes), and after each
// round a dump of who holds which record / shard file.  The same scenario lines are executed by
// the Lean model (`semadriver C14`); the property oracle (no loss, convergence, read-back of all
// points) is evaluated directly on the real nodes.
package main

import (
	"encoding/json"
	"bufio"
	"bytes"
	"errors"
	"flag"
	"fmt"
	"hash/fnv"
	"io"
	"net"
	"os"
	"os/exec"
	"path/filepath"
	"sort"
	"strconv"
	"strings"
	"sync"
	"syscall"
	"time"

	"github.com/google/uuid"
	"github.com/rs/zerolog"
	"github.com/semafind/semadb/cluster"
	"github.com/semafind/semadb/diskstore"
	"github.com/semafind/semadb/models"
	"github.com/vmihailenco/msgpack/v5"
	"golang.org/x/sys/unix"

	"verifharness/vh"
)

const pageSize = 4096
const chunkPages = cluster.CHUNKSIZE / pageSize

// ------------------------------------------------------------------------------------ symbols

func recSymbols(b []byte) []uint32 {
	if len(b) > 2048 {
		// synthetic big records: one symbol per 256-byte block (the protocol does not look inside)
		n := (len(b) + 255) / 256
		s := make([]uint32, n)
		for i := 0; i < n; i++ {
			end := (i + 1) * 256
			if end > len(b) {
				end = len(b)
			}
			h := fnv.New32a()
			h.Write(b[i*256 : end])
			s[i] = h.Sum32() >> 1
		}
		return s
	}
	s := make([]uint32, len(b))
	for i, x := range b {
		s[i] = uint32(x)
	}
	return s
}

func fileSymbols(b []byte) []uint32 {
	n := (len(b) + pageSize - 1) / pageSize
	s := make([]uint32, n)
	for i := 0; i < n; i++ {
		end := (i + 1) * pageSize
		if end > len(b) {
			end = len(b)
		}
		h := fnv.New32a()
		h.Write(b[i*pageSize : end])
		s[i] = h.Sum32() >> 1
	}
	return s
}

func symStr(s []uint32) string {
	if len(s) == 0 {
		return "-"
	}
	var sb strings.Builder
	for i, x := range s {
		if i > 0 {
			sb.WriteByte('.')
		}
		sb.WriteString(strconv.FormatUint(uint64(x), 10))
	}
	return sb.String()
}

// digest as printed by the model driver
func digest(s []uint32) string {
	a := uint64(7)
	for _, x := range s {
		a = (a*31 + uint64(x) + 1) % 4294967296
	}
	return fmt.Sprintf("%d/%d", len(s), a)
}

// ------------------------------------------------------------------------------------ nodes

type nodeSpec struct {
	name string
	root string
	port int
}

func (s nodeSpec) host() string { return "127.0.0.1:" + strconv.Itoa(s.port) }

func nodeConfig(sp nodeSpec, servers []string) cluster.ClusterNodeConfig {
	return cluster.ClusterNodeConfig{
		RootDir:            sp.root,
		Servers:            servers,
		RpcHost:            "127.0.0.1",
		RpcPort:            sp.port,
		RpcTimeout:         60,
		RpcRetries:         1,
		MaxShardSize:       1 << 30,
		MaxShardPointCount: 4,
		MaxSearchLimit:     100,
		ShardManager:       cluster.ShardManagerConfig{RootDir: sp.root, ShardTimeout: 300, MaxCacheSize: -1},
	}
}

func portFree(p int) bool {
	l, err := net.Listen("tcp", "127.0.0.1:"+strconv.Itoa(p))
	if err != nil {
		return false
	}
	l.Close()
	return true
}

func waitListening(host string) error {
	for i := 0; i < 400; i++ {
		c, err := net.DialTimeout("tcp", host, 200*time.Millisecond)
		if err == nil {
			c.Close()
			return nil
		}
		time.Sleep(5 * time.Millisecond)
	}
	return fmt.Errorf("node %s does not listen", host)
}

func startNode(sp nodeSpec, servers []string) (*cluster.ClusterNode, error) {
	for i := 0; i < 200 && !portFree(sp.port); i++ {
		time.Sleep(10 * time.Millisecond)
	}
	n, err := cluster.NewNode(nodeConfig(sp, servers))
	if err != nil {
		return nil, err
	}
	if err := n.Serve(); err != nil {
		return nil, err
	}
	if err := waitListening(sp.host()); err != nil {
		return nil, err
	}
	return n, nil
}

// ------------------------------------------------------------------------------------ disk state

type nodeState struct {
	recs  map[string][]byte
	files map[string][]byte
}

func readNode(sp nodeSpec) (nodeState, error) {
	st := nodeState{recs: map[string][]byte{}, files: map[string][]byte{}}
	dbPath := filepath.Join(sp.root, "nodedb.bbolt")
	if _, err := os.Stat(dbPath); err == nil {
		db, err := diskstore.Open(dbPath)
		if err != nil {
			return st, err
		}
		err = db.Read(func(bm diskstore.BucketManager) error {
			b, err := bm.Get(cluster.USERCOLSBUCKETKEY)
			if err != nil {
				return err
			}
			return b.ForEach(func(k, v []byte) error {
				st.recs[string(k)] = append([]byte{}, v...)
				return nil
			})
		})
		db.Close()
		if err != nil {
			return st, err
		}
	}
	base := filepath.Join(sp.root, cluster.USERCOLSDIR)
	filepath.Walk(base, func(path string, info os.FileInfo, err error) error {
		if err != nil || info.IsDir() {
			return nil
		}
		if filepath.Base(path) == "sharddb.bbolt" {
			rel, _ := filepath.Rel(base, filepath.Dir(path))
			b, rerr := os.ReadFile(path)
			if rerr == nil {
				st.files[filepath.ToSlash(rel)] = b
			}
		}
		return nil
	})
	return st, nil
}

func copyTree(src, dst string) error {
	return filepath.Walk(src, func(path string, info os.FileInfo, err error) error {
		if err != nil {
			return err
		}
		rel, _ := filepath.Rel(src, path)
		target := filepath.Join(dst, rel)
		if info.IsDir() {
			return os.MkdirAll(target, 0o755)
		}
		in, err := os.Open(path)
		if err != nil {
			return err
		}
		defer in.Close()
		out, err := os.Create(target)
		if err != nil {
			return err
		}
		defer out.Close()
		_, err = io.Copy(out, in)
		return err
	})
}

// ------------------------------------------------------------------------------------ scenario

type transition struct {
	kind     string
	old, new []int
}

var transitions = []transition{
	{"grow-1-2", []int{0}, []int{0, 1}},
	{"grow-2-3", []int{0, 1}, []int{0, 1, 2}},
	{"shrink-2-1", []int{0, 1}, []int{0}},
	{"shrink-3-2", []int{0, 1, 2}, []int{0, 1}},
	{"replace-1-of-2", []int{0, 1}, []int{0, 2}},
	{"replace-all-1", []int{0}, []int{1}},
	{"replace-all-2", []int{0, 1}, []int{2, 3}},
}

// one node holding everything, three new servers: three destinations for one sender (not in the
// table above: the scenario numbering of the other plans stays as it was)
var growOneToFour = transition{"grow-1-4", []int{0}, []int{0, 1, 2, 3}}

type point struct {
	id  uuid.UUID
	n   int64
	pad int
}

type colData struct {
	user, id string
	points   []point
}

type base struct {
	tr     transition
	dir    string // directory holding the pristine trees  <dir>/<node name>/...
	specs  []nodeSpec
	part   []int // participating node indexes (old ∪ new), sorted
	newH   []string
	cols   []colData
	orig   nodeState         // every original record / file (union)
	where  map[string]string // "r:"+key / "f:"+key -> node name initially
	rowner map[string]string // record key -> owner node name under the new list
	fowner map[string]string // shard key -> owner node name under the new list
	rkeys  []string
	fkeys  []string
	byHost map[string]string
	synth  map[string]bool // synthetic shard files (not part of a collection)
	all    []int           // histories: the nodes to dump (switched-off nodes included); nil: part
}

func (b *base) dumpNodes() []int {
	if b.all != nil {
		return b.all
	}
	return b.part
}

type fault struct {
	kind string // none | failat | corrupt | down | lostreply | kill
	role string // sender | receiver
	node int    // the sender whose Sync is interrupted
	key  string // shard key
	idx  int
	dst  int // down / lostreply destination
}

func (f fault) String() string {
	switch f.kind {
	case "failat", "kill":
		return fmt.Sprintf("%s-%s-chunk%d", f.kind, f.role, f.idx)
	case "corrupt":
		return fmt.Sprintf("corrupt-chunk%d", f.idx)
	}
	return f.kind
}

type harness struct {
	out         *vh.Out
	rng         *vh.Rng
	crng        *vh.Rng // concurrent rounds: which rounds, schedule seeds
	forceConc   bool    // every failure-free round of the scenario is concurrent
	seed        uint64
	tier        string
	tmp         string
	self        string
	variant     int // 1: receiver truncates at chunk 0, 0: appends
	lines       []string
	nSc         int
	msgMu       sync.Mutex
	msgs        map[string][][2]int // shard id -> (index, len) as seen at the sender
	seenFlt     map[string]int
	samples     []string
	sampleKinds map[string]int
}

func (h *harness) emit(kind, op, impl string, nontrivial bool) {
	h.lines = append(h.lines, op)
	if nontrivial && h.sampleKinds[kind] < 3 && len(h.samples) < 14 {
		h.sampleKinds[kind]++
		line := op + " => " + impl
		if len(line) > 260 {
			line = line[:260] + "…"
		}
		h.samples = append(h.samples, line)
	}
	h.out.Emit(kind, op, impl, nontrivial)
}

func (h *harness) replayText() string { return strings.Join(h.lines, "\n") }

func (h *harness) pickPorts(sc int, n int) []int {
	ports := make([]int, 0, n)
	r := vh.NewRng(h.seed*1000003 + uint64(sc)*7919 + 17)
	for len(ports) < n {
		p := 20000 + r.Intn(30000)
		ok := portFree(p)
		for _, q := range ports {
			if q == p {
				ok = false
			}
		}
		if ok {
			ports = append(ports, p)
		}
	}
	return ports
}

var schema = models.IndexSchema{"n": models.IndexSchemaValue{Type: models.IndexTypeInteger}}

func userPlan() models.UserPlan {
	return models.UserPlan{Name: "V", MaxCollections: 10, MaxCollectionPointCount: 100000, MaxPointSize: 1 << 22, ShardBackupFrequency: 0, ShardBackupCount: 0}
}

// buildBase creates real data through the cluster API on the old server set.
func (h *harness) buildBase(sc int, tr transition, nUsers, colsPerUser, ptsPerCol int, bigPad int, synth []int, synthRecs [2]int) (*base, error) {
	b := &base{tr: tr, dir: filepath.Join(h.tmp, fmt.Sprintf("base%d", sc)), byHost: map[string]string{}, where: map[string]string{}, rowner: map[string]string{}, fowner: map[string]string{}, synth: map[string]bool{}}
	ports := h.pickPorts(sc, 4)
	for i := 0; i < 4; i++ {
		sp := nodeSpec{name: fmt.Sprintf("n%d", i), root: filepath.Join(b.dir, fmt.Sprintf("n%d", i)), port: ports[i]}
		b.specs = append(b.specs, sp)
		b.byHost[sp.host()] = sp.name
	}
	seen := map[int]bool{}
	for _, i := range append(append([]int{}, tr.old...), tr.new...) {
		if !seen[i] {
			seen[i] = true
			b.part = append(b.part, i)
		}
	}
	sort.Ints(b.part)
	var oldH []string
	for _, i := range tr.old {
		oldH = append(oldH, b.specs[i].host())
	}
	for _, i := range tr.new {
		b.newH = append(b.newH, b.specs[i].host())
	}
	// ---- old cluster
	var nodes []*cluster.ClusterNode
	for _, i := range tr.old {
		n, err := startNode(b.specs[i], oldH)
		if err != nil {
			return nil, err
		}
		nodes = append(nodes, n)
	}
	closeAll := func() {
		for _, n := range nodes {
			n.Close()
		}
	}
	users := h.userIds(nUsers)
	for u := 0; u < nUsers; u++ {
		user := users[u]
		for c := 0; c < colsPerUser; c++ {
			col := models.Collection{UserId: user, Id: fmt.Sprintf("col%02d", c), Replicas: 1, IndexSchema: schema, UserPlan: userPlan()}
			api := nodes[h.rng.Intn(len(nodes))]
			if err := api.CreateCollection(col); err != nil {
				closeAll()
				return nil, fmt.Errorf("create collection: %w", err)
			}
			cd := colData{user: user, id: col.Id}
			np := 1 + h.rng.Intn(ptsPerCol)
			pts := make([]models.Point, np)
			for i := range pts {
				p := point{id: uuid.New(), n: int64(h.rng.Intn(1000000)), pad: h.rng.Intn(200)}
				if bigPad > 0 {
					p.pad = bigPad
				}
				data, _ := msgpack.Marshal(map[string]any{"n": p.n, "pad": bytes.Repeat([]byte{byte(p.n)}, p.pad)})
				pts[i] = models.Point{Id: p.id, Data: data}
				cd.points = append(cd.points, p)
			}
			// the collection record changes when shards are created: always fetch the current one
			for off := 0; off < len(pts); off += 3 {
				end := off + 3
				if end > len(pts) {
					end = len(pts)
				}
				cur, err := api.GetCollection(user, col.Id)
				if err != nil {
					closeAll()
					return nil, fmt.Errorf("get collection: %w", err)
				}
				cur.UserPlan = userPlan()
				fr, err := api.InsertPoints(cur, append([]models.Point{}, pts[off:end]...))
				if err != nil || len(fr) > 0 {
					closeAll()
					return nil, fmt.Errorf("insert points: %v %v", err, fr)
				}
			}
			b.cols = append(b.cols, cd)
		}
	}
	closeAll()
	// ---- synthetic shard directories (chunk boundary sizes), thorough tier
	for i, size := range synth {
		owner := b.specs[tr.old[h.rng.Intn(len(tr.old))]]
		// a shard id that has to move under the new server list
		id := uuid.New().String()
		for t := 0; t < 200 && cluster.RendezvousHash(id, b.newH, 1)[0] == owner.host(); t++ {
			id = uuid.New().String()
		}
		key := fmt.Sprintf("synth%02d/col00/%s", i, id)
		dir := filepath.Join(owner.root, cluster.USERCOLSDIR, filepath.FromSlash(key))
		if err := os.MkdirAll(dir, 0o755); err != nil {
			return nil, err
		}
		buf := make([]byte, size)
		for j := 0; j < len(buf); j += 8 {
			x := h.rng.U64()
			for t := 0; t < 8 && j+t < len(buf); t++ {
				buf[j+t] = byte(x >> (8 * t))
			}
		}
		if err := os.WriteFile(filepath.Join(dir, "sharddb.bbolt"), buf, 0o644); err != nil {
			return nil, err
		}
		b.synth[key] = true
	}
	// ---- synthetic collection records: a SKEWED postage. One destination gets synthRecs[0] records of
	// synthRecs[1] bytes (its request takes long to encode and send), every other destination a handful
	// of small ones (sent, confirmed and deleted locally while the big request is still being written).
	// Records are opaque to the protocol; what is shipped must be what was stored.
	if synthRecs[0] > 0 {
		src := b.specs[tr.old[0]]
		db, err := diskstore.Open(filepath.Join(src.root, "nodedb.bbolt"))
		if err != nil {
			return nil, err
		}
		err = db.Write(func(bm diskstore.BucketManager) error {
			bk, err := bm.Get(cluster.USERCOLSBUCKETKEY)
			if err != nil {
				return err
			}
			big := ""
			per := map[string]int{}
			for i := 0; i < 50*synthRecs[0]; i++ {
				user := fmt.Sprintf("zsynth%06d", i)
				d := cluster.RendezvousHash(user, b.newH, 1)[0]
				if d == src.host() {
					continue
				}
				if big == "" {
					big = d
				}
				limit, size := 6, 300
				if d == big {
					limit, size = synthRecs[0], synthRecs[1]
				}
				if per[d] >= limit {
					if per[big] >= synthRecs[0] {
						break
					}
					continue
				}
				per[d]++
				val := make([]byte, size)
				for j := 0; j < size; j += 8 {
					x := h.rng.U64()
					for t := 0; t < 8 && j+t < size; t++ {
						val[j+t] = byte(x >> (8 * t))
					}
				}
				if err := bk.Put([]byte(user+cluster.DBDELIMITER+"col00"), val); err != nil {
					return err
				}
			}
			return nil
		})
		db.Close()
		if err != nil {
			return nil, err
		}
	}
	// ---- snapshot
	b.orig = nodeState{recs: map[string][]byte{}, files: map[string][]byte{}}
	for _, i := range b.part {
		st, err := readNode(b.specs[i])
		if err != nil {
			return nil, err
		}
		for k, v := range st.recs {
			if _, dup := b.orig.recs[k]; dup {
				return nil, fmt.Errorf("record %s on two nodes before the change", k)
			}
			b.orig.recs[k] = v
			b.where["r:"+k] = b.specs[i].name
		}
		for k, v := range st.files {
			if _, dup := b.orig.files[k]; dup {
				return nil, fmt.Errorf("shard %s on two nodes before the change", k)
			}
			b.orig.files[k] = v
			b.where["f:"+k] = b.specs[i].name
		}
	}
	for k := range b.orig.recs {
		b.rkeys = append(b.rkeys, k)
		user := strings.Split(k, cluster.DBDELIMITER)[0]
		b.rowner[k] = b.byHost[cluster.RendezvousHash(user, b.newH, 1)[0]]
	}
	for k := range b.orig.files {
		b.fkeys = append(b.fkeys, k)
		b.fowner[k] = b.byHost[cluster.RendezvousHash(filepath.Base(k), b.newH, 1)[0]]
	}
	sort.Strings(b.rkeys)
	sort.Strings(b.fkeys)
	return b, nil
}

// userIds: ids drawn from the seed; about half of them extend an earlier id by one or two characters
// (alice / alice-eu, user1 / user10): user ids are free-form, routing must depend on the whole id,
// and in the node database "<id>/<collection>" of the shorter id sorts directly before the longer.
func (h *harness) userIds(n int) []string {
	const tail = "0123456789abcdefxyz-_"
	var ids []string
	seen := map[string]bool{}
	for len(ids) < n {
		var id string
		if len(ids) > 0 && h.rng.Chance(55) {
			id = ids[h.rng.Intn(len(ids))]
			for t := 1 + h.rng.Intn(2); t > 0; t-- {
				id += string(tail[h.rng.Intn(len(tail))])
			}
		} else {
			id = fmt.Sprintf("user%02d%04x", len(ids), h.rng.Intn(65536))
		}
		if !seen[id] {
			seen[id] = true
			ids = append(ids, id)
		}
	}
	return ids
}

func (b *base) nodeIdx(name string) int {
	for i, s := range b.specs {
		if s.name == name {
			return i
		}
	}
	return -1
}

// work copies the pristine trees into a fresh directory and returns the specs pointing there.
func (h *harness) work(b *base, tag string) ([]nodeSpec, error) {
	dir := filepath.Join(h.tmp, "work-"+tag)
	os.RemoveAll(dir)
	specs := make([]nodeSpec, len(b.specs))
	for i, s := range b.specs {
		specs[i] = nodeSpec{name: s.name, root: filepath.Join(dir, s.name), port: s.port}
		if _, err := os.Stat(s.root); err == nil {
			if err := copyTree(s.root, specs[i].root); err != nil {
				return nil, err
			}
		}
	}
	return specs, nil
}

func (h *harness) describe(b *base, sc int, flt fault) {
	h.lines = nil
	h.emit("scenario", fmt.Sprintf("scenario seed=%d tier=%s id=%d kind=%s fault=%s", h.seed, h.tier, sc, b.tr.kind, flt), "ok", false)
	h.emit("cfg", fmt.Sprintf("cfg %d %d", chunkPages, h.variant), "ok", false)
	for _, i := range b.part {
		h.emit("node", "node "+b.specs[i].name, "ok", false)
	}
	for _, k := range b.rkeys {
		h.emit("rec", fmt.Sprintf("rec %s %s %s", b.where["r:"+k], k, symStr(recSymbols(b.orig.recs[k]))), "ok", false)
		h.emit("rowner", fmt.Sprintf("rowner %s %s", k, b.rowner[k]), "ok", false)
	}
	for _, k := range b.fkeys {
		h.emit("file", fmt.Sprintf("file %s %s %s", b.where["f:"+k], k, symStr(fileSymbols(b.orig.files[k]))), "ok", false)
		h.emit("fowner", fmt.Sprintf("fowner %s %s", k, b.fowner[k]), "ok", false)
	}
}

func (h *harness) dump(b *base, specs []nodeSpec) (map[string]nodeState, string) {
	res := map[string]nodeState{}
	var parts []string
	knownR, knownF := map[string]bool{}, map[string]bool{}
	for _, k := range b.rkeys {
		knownR[k] = true
	}
	for _, k := range b.fkeys {
		knownF[k] = true
	}
	for _, i := range b.dumpNodes() {
		st, err := readNode(specs[i])
		if err != nil {
			parts = append(parts, specs[i].name+"[unreadable "+err.Error()+"]")
			continue
		}
		res[specs[i].name] = st
		var rs, fs []string
		for _, k := range b.rkeys {
			if v, ok := st.recs[k]; ok {
				if o, live := b.orig.recs[k]; live && bytes.Equal(v, o) {
					rs = append(rs, k+"=orig")
				} else {
					rs = append(rs, k+"="+digest(recSymbols(v)))
				}
			}
		}
		for _, k := range b.fkeys {
			if v, ok := st.files[k]; ok {
				if o, live := b.orig.files[k]; live && bytes.Equal(v, o) {
					fs = append(fs, k+"=orig")
				} else {
					fs = append(fs, k+"="+digest(fileSymbols(v)))
				}
			}
		}
		// anything the scenario does not know about is reported too
		var unk []string
		for k := range st.recs {
			if !knownR[k] {
				unk = append(unk, "UNKNOWN:"+k)
			}
		}
		sort.Strings(unk)
		rs = append(rs, unk...)
		unk = nil
		for k := range st.files {
			if !knownF[k] {
				unk = append(unk, "UNKNOWN:"+k)
			}
		}
		sort.Strings(unk)
		fs = append(fs, unk...)
		parts = append(parts, specs[i].name+"[r "+strings.Join(rs, " ")+" | f "+strings.Join(fs, " ")+"]")
	}
	return res, strings.Join(parts, " ")
}

// ---- oracle

func (h *harness) checkNoLoss(b *base, st map[string]nodeState, flt fault, when string) bool {
	ok := true
	for k, v := range b.orig.recs {
		found := false
		for _, ns := range st {
			if w, has := ns.recs[k]; has && bytes.Equal(v, w) {
				found = true
			}
		}
		if !found {
			ok = false
			h.out.Fail("loss:record:"+flt.kind+":"+when, fmt.Sprintf("collection record %s exists on no node (byte-identical) %s [%s, fault %s]", k, when, b.tr.kind, flt), h.replayText())
			break
		}
	}
	for k, v := range b.orig.files {
		found := false
		for _, ns := range st {
			if w, has := ns.files[k]; has && bytes.Equal(v, w) {
				found = true
			}
		}
		if !found {
			ok = false
			h.out.Fail("loss:shard:"+flt.kind+":"+when, fmt.Sprintf("shard file %s exists complete on no node %s [%s, fault %s]", k, when, b.tr.kind, flt), h.replayText())
			break
		}
	}
	return ok
}

func (h *harness) checkPlaced(b *base, st map[string]nodeState, flt fault, syncOK bool) bool {
	sig := "converge:" + flt.kind
	if flt.kind == "failat" || flt.kind == "kill" {
		if flt.idx >= 1 {
			sig += ":chunk>=1"
		} else {
			sig += ":chunk0"
		}
	}
	if !syncOK {
		h.out.Fail(sig+":sync-fails", fmt.Sprintf("a failure-free synchronisation round does not complete: Sync returns an error (fatal at start-up) [%s, after fault %s]", b.tr.kind, flt), h.replayText())
		return false
	}
	for k, v := range b.orig.recs {
		for name, ns := range st {
			w, has := ns.recs[k]
			if name == b.rowner[k] {
				if !has || !bytes.Equal(v, w) {
					h.out.Fail(sig+":record-not-at-owner", fmt.Sprintf("record %s is not (identical) at its routing owner %s after a failure-free round [%s, fault %s]", k, name, b.tr.kind, flt), h.replayText())
					return false
				}
			} else if has {
				h.out.Fail(sig+":record-elsewhere", fmt.Sprintf("record %s is still on %s, owner is %s [%s, fault %s]", k, name, b.rowner[k], b.tr.kind, flt), h.replayText())
				return false
			}
		}
	}
	for k, v := range b.orig.files {
		for name, ns := range st {
			w, has := ns.files[k]
			if name == b.fowner[k] {
				if !has || !bytes.Equal(v, w) {
					h.out.Fail(sig+":shard-not-at-owner", fmt.Sprintf("shard %s is not byte-identical at its routing owner %s after a failure-free round [%s, fault %s]", k, name, b.tr.kind, flt), h.replayText())
					return false
				}
			} else if has {
				h.out.Fail(sig+":shard-elsewhere", fmt.Sprintf("shard %s is still on %s, owner is %s [%s, fault %s]", k, name, b.fowner[k], b.tr.kind, flt), h.replayText())
				return false
			}
		}
	}
	return true
}

// readBack starts the new cluster and reads every stored point through every node.
func (h *harness) readBack(b *base, specs []nodeSpec, flt fault) {
	var nodes []*cluster.ClusterNode
	for _, i := range b.tr.new {
		n, err := startNode(specs[i], b.newH)
		if err != nil {
			h.out.Fail("readback:start", "new cluster does not start: "+err.Error(), h.replayText())
			return
		}
		nodes = append(nodes, n)
	}
	defer func() {
		for _, n := range nodes {
			n.Close()
		}
	}()
	for ni, n := range nodes {
		for _, cd := range b.cols {
			col, err := n.GetCollection(cd.user, cd.id)
			if err != nil {
				h.out.Fail("readback:collection", fmt.Sprintf("collection %s/%s not readable through %s: %v [%s, fault %s]", cd.user, cd.id, specs[b.tr.new[ni]].name, err, b.tr.kind, flt), h.replayText())
				return
			}
			col.UserPlan = userPlan()
			want := map[string]int64{}
			for _, p := range cd.points {
				want[p.id.String()] = p.n
			}
			got := map[string]int64{}
			for off := 0; off < len(cd.points); off += 50 {
				end := off + 50
				if end > len(cd.points) {
					end = len(cd.points)
				}
				ids := make([]string, 0, end-off)
				for _, p := range cd.points[off:end] {
					ids = append(ids, p.id.String())
				}
				sr := models.SearchRequest{Query: models.Query{Property: "_id", StringArray: &models.SearchStringArrayOptions{Value: ids, Operator: models.OperatorContainsAny}}, Select: []string{"n"}, Limit: 100}
				res, err := n.SearchPoints(col, sr)
				if err != nil {
					h.out.Fail("readback:search", fmt.Sprintf("points of %s/%s not readable through %s: %v [%s, fault %s]", cd.user, cd.id, specs[b.tr.new[ni]].name, err, b.tr.kind, flt), h.replayText())
					return
				}
				for _, r := range res {
					var v int64 = -1
					if x, ok := r.DecodedData["n"]; ok {
						switch t := x.(type) {
						case int64:
							v = t
						case int8:
							v = int64(t)
						case int16:
							v = int64(t)
						case int32:
							v = int64(t)
						case uint8:
							v = int64(t)
						case uint16:
							v = int64(t)
						case uint32:
							v = int64(t)
						case uint64:
							v = int64(t)
						case int:
							v = int64(t)
						}
					}
					got[r.Point.Id.String()] = v
				}
			}
			if len(got) != len(want) {
				h.out.Fail("readback:points", fmt.Sprintf("%d of %d points of %s/%s readable through %s [%s, fault %s]", len(got), len(want), cd.user, cd.id, specs[b.tr.new[ni]].name, b.tr.kind, flt), h.replayText())
				return
			}
			for id, v := range want {
				if got[id] != v {
					h.out.Fail("readback:value", fmt.Sprintf("point %s of %s/%s reads n=%d, stored %d", id, cd.user, cd.id, got[id], v), h.replayText())
					return
				}
			}
			h.out.Stats["readback-points"] += len(want)
		}
	}
	h.out.Stats["readback-ok"]++
}

// ---- what a node has to send (under the new list), from a disk state
type outgoing struct {
	recDst  map[string]bool
	fileDst map[string]bool
	files   []string // sorted shard keys to send
}

func (b *base) outgoingOf(name string, st nodeState) outgoing {
	o := outgoing{recDst: map[string]bool{}, fileDst: map[string]bool{}}
	for k := range st.recs {
		if b.rowner[k] != name {
			o.recDst[b.rowner[k]] = true
		}
	}
	for _, k := range b.fkeys {
		if _, ok := st.files[k]; ok && b.fowner[k] != name {
			o.fileDst[b.fowner[k]] = true
			o.files = append(o.files, k)
		}
	}
	return o
}

func nChunks(size int) int { return (size + cluster.CHUNKSIZE - 1) / cluster.CHUNKSIZE }

// ------------------------------------------------------------------------------------ rounds (in-process)

func downToken(down map[string]bool) string {
	if len(down) == 0 {
		return ""
	}
	var ds []string
	for d := range down {
		ds = append(ds, d)
	}
	sort.Strings(ds)
	return " down=" + strings.Join(ds, ",")
}

// runRound starts the participating nodes with the new server list and runs Sync on `order`.
// With a fault the round ends after the faulty node.  Returns whether every Sync succeeded.
func (h *harness) runRound(b *base, specs []nodeSpec, order []int, flt *fault) (allOK bool, err error) {
	nodes := map[int]*cluster.ClusterNode{}
	down := map[string]bool{}
	for _, i := range b.part {
		if flt != nil && flt.kind == "down" && flt.dst == i {
			down[specs[i].name] = true
			continue
		}
		n, e := startNode(specs[i], b.newH)
		if e != nil {
			for _, m := range nodes {
				m.Close()
			}
			return false, e
		}
		nodes[i] = n
	}
	defer func() {
		cluster.VerifSendShardFault = nil
		for _, m := range nodes {
			m.Close()
		}
	}()
	h.msgMu.Lock()
	h.msgs = map[string][][2]int{}
	h.msgMu.Unlock()
	cluster.VerifSendShardFault = func(host, role string, args *cluster.RPCSendShardRequest) error {
		if role == "sender" {
			h.msgMu.Lock()
			h.msgs[args.ShardId] = append(h.msgs[args.ShardId], [2]int{args.ChunkIndex, len(args.ChunkData)})
			h.msgMu.Unlock()
		}
		if flt == nil {
			return nil
		}
		if args.ShardId != filepath.Base(flt.key) || args.ChunkIndex != flt.idx {
			return nil
		}
		switch flt.kind {
		case "failat":
			if role == flt.role {
				return errors.New("verif: injected fault")
			}
		case "corrupt":
			if role == "receiver" && len(args.ChunkData) > 0 {
				args.ChunkData[0] ^= 0x5a
			}
		}
		return nil
	}
	allOK = true
	for _, i := range order {
		n, up := nodes[i]
		if !up {
			continue
		}
		name := specs[i].name
		if flt != nil && flt.kind == "lostreply" && flt.node == i {
			// the receiver stores the batch, the sender dies before it sees the reply: the harness
			// plays the sender up to that point with the request the sender would build
			st, _ := readNodeLive(n, specs[i])
			req := cluster.RPCSetNodeKeyValueRequest{RPCRequestArgs: cluster.RPCRequestArgs{Source: specs[i].host(), Dest: specs[flt.dst].host()}, Bucket: cluster.USERCOLSBUCKETKEY, KeyValues: map[string][]byte{}}
			for k, v := range st.recs {
				if b.rowner[k] == specs[flt.dst].name {
					req.KeyValues[k] = v
				}
			}
			resp := cluster.RPCSetNodeKeyValueResponse{}
			e := n.RPCSetNodeKeyValue(&req, &resp)
			impl := "fail"
			if e != nil || resp.Count != len(req.KeyValues) {
				impl = fmt.Sprintf("send-error %v count=%d", e, resp.Count)
			}
			h.emit("rsendlost", fmt.Sprintf("rsendlost %s %s", name, specs[flt.dst].name), impl, true)
			allOK = false
			n.Close()
			delete(nodes, i)
			return allOK, nil
		}
		tok := downToken(down)
		if flt != nil && flt.node == i {
			switch flt.kind {
			case "failat":
				tok += fmt.Sprintf(" failat=%s@%d", flt.key, flt.idx)
			case "corrupt":
				data := b.orig.files[flt.key]
				lo := flt.idx * cluster.CHUNKSIZE
				hi := lo + cluster.CHUNKSIZE
				if hi > len(data) {
					hi = len(data)
				}
				c := append([]byte{}, data[lo:hi]...)
				c[0] ^= 0x5a
				tok += fmt.Sprintf(" corrupt=%s@%d@%s", flt.key, flt.idx, symStr(fileSymbols(c)))
			}
		}
		e := n.Sync()
		impl := "ok"
		if e != nil {
			impl = "fail"
			allOK = false
		}
		h.emit("sync", "sync "+name+tok, impl, flt != nil && flt.node == i)
		if e != nil {
			// a failed Sync is fatal in main.go: the process is gone
			n.Close()
			delete(nodes, i)
			down[name] = true
		}
		if flt != nil && flt.node == i {
			break // interrupted round
		}
	}
	return allOK, nil
}

func readNodeLive(n *cluster.ClusterNode, sp nodeSpec) (nodeState, error) {
	st := nodeState{recs: map[string][]byte{}, files: map[string][]byte{}}
	err := n.VerifNodeDB().Read(func(bm diskstore.BucketManager) error {
		b, err := bm.Get(cluster.USERCOLSBUCKETKEY)
		if err != nil {
			return err
		}
		return b.ForEach(func(k, v []byte) error {
			st.recs[string(k)] = append([]byte{}, v...)
			return nil
		})
	})
	return st, err
}

// ------------------------------------------------------------------------------------ rounds (child processes)

type child struct {
	cmd *exec.Cmd
	in  io.WriteCloser
	out *bufio.Reader
}

func (h *harness) spawn(sp nodeSpec, servers []string, env string) (*child, error) {
	cmd := exec.Command(h.self, "-child", "-root", sp.root, "-port", strconv.Itoa(sp.port), "-servers", strings.Join(servers, ","))
	cmd.Env = append(os.Environ(), "SEMADB_VERIF_SENDSHARD_FAULT="+env)
	in, _ := cmd.StdinPipe()
	outp, _ := cmd.StdoutPipe()
	cmd.Stderr = io.Discard
	if err := cmd.Start(); err != nil {
		return nil, err
	}
	c := &child{cmd: cmd, in: in, out: bufio.NewReader(outp)}
	line, err := c.readLine(20 * time.Second)
	if err != nil || strings.TrimSpace(line) != "READY" {
		cmd.Process.Kill()
		cmd.Wait()
		return nil, fmt.Errorf("child did not start: %q %v", line, err)
	}
	return c, nil
}

func (c *child) readLine(d time.Duration) (string, error) {
	type res struct {
		s string
		e error
	}
	ch := make(chan res, 1)
	go func() {
		s, e := c.out.ReadString('\n')
		ch <- res{s, e}
	}()
	select {
	case r := <-ch:
		return r.s, r.e
	case <-time.After(d):
		return "", errors.New("timeout")
	}
}

func (c *child) kill() {
	c.cmd.Process.Kill()
	c.cmd.Wait()
}

// runRoundKill: every participating node is a separate process; the faulty one exits (os.Exit in the
// hook) when it is about to send / write chunk idx.  The round ends after the faulty sender.
func (h *harness) runRoundKill(b *base, specs []nodeSpec, order []int, flt fault) error {
	kids := map[int]*child{}
	defer func() {
		for _, c := range kids {
			c.kill() // the rest of the cluster is killed as well: a crash, not a shutdown
		}
	}()
	dstIdx := b.nodeIdx(b.fowner[flt.key])
	for _, i := range b.part {
		env := ""
		spec := fmt.Sprintf("exit:%s:%d:%s", flt.role, flt.idx, filepath.Base(flt.key))
		if (flt.role == "sender" && i == flt.node) || (flt.role == "receiver" && i == dstIdx) {
			env = spec
		}
		c, err := h.spawn(specs[i], b.newH, env)
		if err != nil {
			return err
		}
		kids[i] = c
	}
	for _, i := range order {
		c := kids[i]
		fmt.Fprintln(c.in, "SYNC")
		line, err := c.readLine(120 * time.Second)
		impl := strings.TrimSpace(strings.TrimPrefix(strings.TrimSpace(line), "SYNC"))
		if err != nil {
			impl = "fail" // the process died (exit in the hook) or was unreachable
		}
		tok := ""
		if i == flt.node {
			tok = fmt.Sprintf(" failat=%s@%d", flt.key, flt.idx)
		}
		h.emit("sync-kill", "sync "+specs[i].name+tok, impl, i == flt.node)
		if i == flt.node {
			break
		}
	}
	return nil
}

func childMain(root string, port int, servers string) {
	zerolog.SetGlobalLevel(zerolog.Disabled)
	sp := nodeSpec{name: "child", root: root, port: port}
	n, err := cluster.NewNode(nodeConfig(sp, strings.Split(servers, ",")))
	if err != nil {
		fmt.Println("ERR", err)
		os.Exit(2)
	}
	if err := n.Serve(); err != nil {
		fmt.Println("ERR", err)
		os.Exit(2)
	}
	if err := waitListening(sp.host()); err != nil {
		fmt.Println("ERR", err)
		os.Exit(2)
	}
	fmt.Println("READY")
	rd := bufio.NewReader(os.Stdin)
	for {
		line, err := rd.ReadString('\n')
		if err != nil {
			os.Exit(0)
		}
		switch strings.TrimSpace(line) {
		case "SYNC":
			if err := n.Sync(); err != nil {
				fmt.Println("SYNC fail")
				os.Exit(1) // log.Fatal in main.go
			}
			fmt.Println("SYNC ok")
		case "EXIT":
			n.Close()
			os.Exit(0)
		}
	}
}

// ------------------------------------------------------------------------------------ concurrent rounds

// concMode decides how the next failure-free round runs: "" = the nodes one after the other (as
// before), "go" = every node is started and all call Sync at the same moment (goroutines of this
// process), "proc" = the same with one child process per node, as at a real start-up.  The choice has
// a random stream of its own, so the scenarios themselves are what they were.
func (h *harness) concMode() string {
	if h.crng == nil {
		h.crng = vh.NewRng(h.seed*2654435761 + 97)
	}
	r := h.crng.Intn(12)
	if h.forceConc && r < 5 {
		r += 5
	}
	switch {
	case r < 5:
		return ""
	case r < 10:
		return "go"
	}
	return "proc"
}

// runRoundConc: every participating node serves, then all of them run Sync concurrently (inside a
// node, sync.go starts one goroutine per destination in each phase).  The op line `csync` is answered
// by the model from the specification of C14_converges_concurrent, whatever the interleaving was.
func (h *harness) runRoundConc(b *base, specs []nodeSpec, mode string) (allOK bool, err error) {
	part := append([]int{}, b.part...)
	var names []string
	for _, i := range part {
		names = append(names, specs[i].name)
	}
	schedSeed := h.crng.Intn(1 << 30)
	failed := map[string]bool{}
	h.msgMu.Lock()
	h.msgs = map[string][][2]int{}
	h.msgMu.Unlock()
	if mode == "proc" {
		kids := map[int]*child{}
		defer func() {
			for _, c := range kids {
				fmt.Fprintln(c.in, "EXIT")
				done := make(chan struct{})
				go func(c *child) { c.cmd.Wait(); close(done) }(c)
				select {
				case <-done:
				case <-time.After(10 * time.Second):
					c.kill()
				}
			}
		}()
		for _, i := range part {
			c, e := h.spawn(specs[i], b.newH, "")
			if e != nil {
				return false, e
			}
			kids[i] = c
		}
		for _, i := range part {
			fmt.Fprintln(kids[i].in, "SYNC")
		}
		for _, i := range part {
			line, e := kids[i].readLine(180 * time.Second)
			if e != nil || strings.TrimSpace(line) != "SYNC ok" {
				failed[specs[i].name] = true
			}
		}
		h.out.Stats["conc-round:proc"]++
	} else {
		nodes := map[int]*cluster.ClusterNode{}
		defer func() {
			cluster.VerifSendShardFault = nil
			for _, m := range nodes {
				m.Close()
			}
		}()
		for _, i := range part {
			n, e := startNode(specs[i], b.newH)
			if e != nil {
				return false, e
			}
			nodes[i] = n
		}
		// the hook records the chunk sequences and shifts the goroutines against each other a little
		jit := vh.NewRng(uint64(schedSeed)*7 + 3)
		var jitMu sync.Mutex
		cluster.VerifSendShardFault = func(host, role string, args *cluster.RPCSendShardRequest) error {
			if role == "sender" {
				h.msgMu.Lock()
				h.msgs[args.ShardId] = append(h.msgs[args.ShardId], [2]int{args.ChunkIndex, len(args.ChunkData)})
				h.msgMu.Unlock()
			}
			jitMu.Lock()
			d := jit.Intn(600)
			jitMu.Unlock()
			if d < 300 {
				time.Sleep(time.Duration(d) * time.Microsecond)
			}
			return nil
		}
		start := make(chan struct{})
		var wg sync.WaitGroup
		var mu sync.Mutex
		for _, i := range part {
			wg.Add(1)
			go func(i int) {
				defer wg.Done()
				defer func() {
					if r := recover(); r != nil {
						mu.Lock()
						failed[specs[i].name] = true
						mu.Unlock()
					}
				}()
				<-start
				if e := nodes[i].Sync(); e != nil {
					mu.Lock()
					failed[specs[i].name] = true
					mu.Unlock()
				}
			}(i)
		}
		close(start)
		wg.Wait()
		h.out.Stats["conc-round:go"]++
	}
	impl := "ok"
	if len(failed) > 0 {
		var fs []string
		for n := range failed {
			fs = append(fs, n)
		}
		sort.Strings(fs)
		impl = "fail:" + strings.Join(fs, ",")
	}
	h.emit("csync", fmt.Sprintf("csync %d %s", schedSeed, strings.Join(names, ",")), impl, true)
	return len(failed) == 0, nil
}

// cleanRound runs one failure-free round: sequentially in `order`, or concurrently.
func (h *harness) cleanRound(b *base, specs []nodeSpec, order []int) (bool, error) {
	if mode := h.concMode(); mode != "" {
		return h.runRoundConc(b, specs, mode)
	}
	return h.runRound(b, specs, order, nil)
}

// ------------------------------------------------------------------------------------ one scenario = base × fault

func (h *harness) orderFor(b *base, first int) []int {
	// the faulty node is preceded by a random subset of the others (they complete their Sync)
	var others []int
	for _, i := range b.part {
		if i != first {
			others = append(others, i)
		}
	}
	for i := len(others) - 1; i > 0; i-- {
		j := h.rng.Intn(i + 1)
		others[i], others[j] = others[j], others[i]
	}
	return others
}

func (h *harness) runScenario(b *base, sc int, flt fault, readback bool) {
	h.nSc++
	tag := fmt.Sprintf("%d", h.nSc)
	specs, err := h.work(b, tag)
	if err != nil {
		panic(err)
	}
	defer os.RemoveAll(filepath.Join(h.tmp, "work-"+tag))
	h.describe(b, sc, flt)
	_, d0 := h.dump(b, specs)
	h.emit("dump", "dump", d0, false)
	if flt.kind != "none" {
		others := h.orderFor(b, flt.node)
		pre := others[:h.rng.Intn(len(others)+1)]
		// nodes that run before the faulty one must not depend on a node that is down
		if flt.kind == "down" {
			pre = nil
		}
		order := append(append([]int{}, pre...), flt.node)
		if flt.kind == "kill" {
			if err := h.runRoundKill(b, specs, order, flt); err != nil {
				h.out.Stats["kill-round-error"]++
				h.emit("note", "note kill round could not run: "+strings.ReplaceAll(err.Error(), "\n", " "), "ok", false)
				return
			}
		} else {
			if _, err := h.runRound(b, specs, order, &flt); err != nil {
				panic(err)
			}
		}
		st, d := h.dump(b, specs)
		h.emit("dump", "dump", d, true)
		h.checkNoLoss(b, st, flt, "after-interrupted-round")
		h.seenFlt[flt.String()]++
	}
	// failure-free round, all nodes, random order
	order := append([]int{}, b.part...)
	for i := len(order) - 1; i > 0; i-- {
		j := h.rng.Intn(i + 1)
		order[i], order[j] = order[j], order[i]
	}
	ok, err := h.cleanRound(b, specs, order)
	if err != nil {
		panic(err)
	}
	st, d := h.dump(b, specs)
	h.emit("dump", "dump", d, true)
	if h.checkNoLoss(b, st, flt, "after-clean-round") {
		if h.checkPlaced(b, st, flt, ok) && readback {
			h.readBack(b, specs, flt)
		}
	}
	if flt.kind == "none" {
		// the chunk sequences the sender produced, in pages
		h.msgMu.Lock()
		keys := make([]string, 0, len(h.msgs))
		for k := range h.msgs {
			keys = append(keys, k)
		}
		sort.Strings(keys)
		for _, id := range keys {
			var size int
			for _, fk := range b.fkeys {
				if filepath.Base(fk) == id {
					size = len(b.orig.files[fk])
				}
			}
			var parts []string
			for _, m := range h.msgs[id] {
				parts = append(parts, fmt.Sprintf("%d:%d", m[0], (m[1]+pageSize-1)/pageSize))
			}
			h.emit("msgs", fmt.Sprintf("msgs %d %d", chunkPages, (size+pageSize-1)/pageSize), strings.Join(parts, "|"), true)
		}
		h.msgMu.Unlock()
		// a second failure-free round must change nothing
		ok2, err := h.cleanRound(b, specs, order)
		if err != nil {
			panic(err)
		}
		st2, d2 := h.dump(b, specs)
		h.emit("dump", "dump", d2, false)
		h.checkPlaced(b, st2, flt, ok2)
	}
}

// faultsFor enumerates the fault positions of a base scenario.
func (h *harness) faultsFor(b *base, specs []nodeSpec, maxIdxPerFile int, kills int) []fault {
	var fl []fault
	for _, i := range b.part {
		name := b.specs[i].name
		st, _ := readNode(b.specs[i])
		o := b.outgoingOf(name, st)
		if len(o.fileDst) == 1 {
			// candidate files: first, last, and the largest
			cand := map[string]bool{o.files[0]: true, o.files[len(o.files)-1]: true}
			big := o.files[0]
			for _, k := range o.files {
				if len(b.orig.files[k]) > len(b.orig.files[big]) {
					big = k
				}
			}
			cand[big] = true
			for _, k := range o.files {
				if b.synth[k] {
					cand[k] = true
				}
			}
			var cs []string
			for k := range cand {
				cs = append(cs, k)
			}
			sort.Strings(cs)
			for _, k := range cs {
				m := nChunks(len(b.orig.files[k]))
				for idx := 0; idx <= m && idx <= maxIdxPerFile; idx++ {
					for _, role := range []string{"sender", "receiver"} {
						fl = append(fl, fault{kind: "failat", role: role, node: i, key: k, idx: idx})
					}
					if idx < m {
						fl = append(fl, fault{kind: "corrupt", node: i, key: k, idx: idx})
					}
				}
				if kills > 0 {
					for idx := 0; idx <= m && idx <= maxIdxPerFile; idx++ {
						for _, role := range []string{"sender", "receiver"} {
							fl = append(fl, fault{kind: "kill", role: role, node: i, key: k, idx: idx})
						}
					}
				}
			}
		}
		// destinations that are down / a lost reply: the node must talk to exactly one destination
		all := map[string]bool{}
		for d := range o.recDst {
			all[d] = true
		}
		for d := range o.fileDst {
			all[d] = true
		}
		if len(all) == 1 {
			for d := range all {
				fl = append(fl, fault{kind: "down", node: i, dst: b.nodeIdx(d)})
				if len(o.recDst) == 1 {
					fl = append(fl, fault{kind: "lostreply", node: i, dst: b.nodeIdx(d)})
				}
			}
		}
	}
	return fl
}

// ------------------------------------------------------------------------------------ hand-made chunk sequences

func (h *harness) detectVariant() (int, error) {
	sp := nodeSpec{name: "probe", root: filepath.Join(h.tmp, "probe"), port: h.pickPorts(9999, 1)[0]}
	n, err := cluster.NewNode(nodeConfig(sp, []string{sp.host()}))
	if err != nil {
		return 0, err
	}
	defer n.Close()
	send := func(idx int, data string) error {
		req := cluster.RPCSendShardRequest{RPCRequestArgs: cluster.RPCRequestArgs{Source: "x", Dest: sp.host()}, UserId: "u", CollectionId: "c", ShardId: "s", ChunkIndex: idx, ChunkData: []byte(data)}
		return n.RPCSendShard(&req, &cluster.RPCSendShardResponse{})
	}
	if err := send(0, "ab"); err != nil {
		return 0, err
	}
	if err := send(0, "cd"); err != nil {
		return 0, err
	}
	got, err := os.ReadFile(filepath.Join(sp.root, cluster.USERCOLSDIR, "u", "c", "s", "sharddb.bbolt"))
	if err != nil {
		return 0, err
	}
	switch string(got) {
	case "cd":
		return 1, nil
	case "abcd":
		return 0, nil
	}
	return 0, fmt.Errorf("receiver matches neither variant: two chunk-0 messages ab, cd left %q", got)
}

func (h *harness) handMade(nSeq int) {
	sp := nodeSpec{name: "hm", root: filepath.Join(h.tmp, "handmade"), port: h.pickPorts(9998, 1)[0]}
	n, err := cluster.NewNode(nodeConfig(sp, []string{sp.host()}))
	if err != nil {
		panic(err)
	}
	defer n.Close()
	h.lines = nil
	h.emit("scenario", fmt.Sprintf("scenario seed=%d tier=%s id=handmade kind=receiver fault=none", h.seed, h.tier), "ok", false)
	h.emit("cfg", fmt.Sprintf("cfg 4 %d", h.variant), "ok", false)
	h.emit("node", "node hm", "ok", false)
	// FileHash of an empty file is not 0 (hypothesis SumOK.empty_ne_zero)
	empty := filepath.Join(h.tmp, "empty")
	os.WriteFile(empty, nil, 0o644)
	if s, err := cluster.FileHash(empty); err != nil || s == 0 {
		h.out.Fail("assumption:filehash-empty", "FileHash of an empty file is 0: the model hypothesis SumOK.empty_ne_zero does not hold", "")
	}
	for s := 0; s < nSeq; s++ {
		key := fmt.Sprintf("k%03d", s)
		path := filepath.Join(sp.root, cluster.USERCOLSDIR, "u", "c", key, "sharddb.bbolt")
		steps := 2 + h.rng.Intn(7)
		next := 0
		for t := 0; t < steps; t++ {
			idx := next
			switch {
			case t == 0:
				idx = 0
			case h.rng.Chance(15):
				idx = 0 // a retry starts over
			case h.rng.Chance(10):
				idx = h.rng.Intn(4)
			}
			ln := h.rng.Intn(5)
			if h.rng.Chance(30) {
				ln = 0
			}
			if h.rng.Chance(20) {
				ln = 4
			}
			data := make([]byte, ln)
			for i := range data {
				data[i] = byte(h.rng.Intn(256))
			}
			req := cluster.RPCSendShardRequest{RPCRequestArgs: cluster.RPCRequestArgs{Source: "x", Dest: sp.host()}, UserId: "u", CollectionId: "c", ShardId: key, ChunkIndex: idx, ChunkData: data}
			resp := cluster.RPCSendShardResponse{}
			err := n.RPCSendShard(&req, &resp)
			impl := ""
			if err != nil {
				impl = "error"
			} else {
				file, _ := os.ReadFile(path)
				sum := "0"
				if resp.Checksum != 0 {
					if fh, _ := cluster.FileHash(path); fh == resp.Checksum {
						sum = digest(recSymbols(file))
					} else {
						sum = "BAD"
					}
				}
				impl = fmt.Sprintf("w=%d sum=%s", resp.BytesWritten, sum)
			}
			h.emit("recv", fmt.Sprintf("recv hm %s %d %s", key, idx, symStr(recSymbols(data))), impl, true)
			next = idx + 1
		}
		file, _ := os.ReadFile(path)
		_ = file
	}
	// final content of every key
	var fs []string
	for s := 0; s < nSeq; s++ {
		key := fmt.Sprintf("k%03d", s)
		file, err := os.ReadFile(filepath.Join(sp.root, cluster.USERCOLSDIR, "u", "c", key, "sharddb.bbolt"))
		if err == nil {
			fs = append(fs, key+"="+digest(recSymbols(file)))
		}
	}
	h.emit("dump", "dump", "hm[r  | f "+strings.Join(fs, " ")+"]", true)
}

// seededReader makes uuid.New() (point ids, shard ids created by RPCCreateShard) a function of the seed.
type seededReader struct {
	mu sync.Mutex
	r  *vh.Rng
}

func (s *seededReader) Read(p []byte) (int, error) {
	s.mu.Lock()
	defer s.mu.Unlock()
	for i := 0; i < len(p); i += 8 {
		x := s.r.U64()
		for t := 0; t < 8 && i+t < len(p); t++ {
			p[i+t] = byte(x >> (8 * t))
		}
	}
	return len(p), nil
}

// ------------------------------------------------------------------------------------ isolation
//
// The host names of the nodes ("127.0.0.1:<port>") are what RendezvousHash hashes, so the ports are
// part of the scenario and derive from the seed.  Two runs with the same seed on one machine would
// use the same ports: while the nodes of one run are down between two rounds the other run can bind
// them, and a sender then delivers its records to a node of the OTHER run (seen as UNKNOWN keys in a
// dump: a false alarm).  The scenarios therefore run in a network namespace of their own (own
// loopback, every port free: the ports, hence the placements, are reproducible).  Where that is not
// permitted the run holds an exclusive lock per seed instead.

const exitNoNetns = 78

func loopbackUp() error {
	fd, err := unix.Socket(unix.AF_INET, unix.SOCK_DGRAM, 0)
	if err != nil {
		return err
	}
	defer unix.Close(fd)
	ifr, err := unix.NewIfreq("lo")
	if err != nil {
		return err
	}
	if err := unix.IoctlIfreq(fd, unix.SIOCGIFFLAGS, ifr); err != nil {
		return err
	}
	ifr.SetUint16(ifr.Uint16() | unix.IFF_UP | unix.IFF_RUNNING)
	if err := unix.IoctlIfreq(fd, unix.SIOCSIFFLAGS, ifr); err != nil {
		return err
	}
	l, err := net.Listen("tcp", "127.0.0.1:0")
	if err != nil {
		return err
	}
	return l.Close()
}

// runInner runs the scenarios (`-inner`) in a child process: in a new network namespace if possible,
// otherwise under a per-seed lock.  Returns the combined output and the error of the run.
func runInner(self string, seed uint64, args ...string) ([]byte, error) {
	var buf bytes.Buffer
	cmd := exec.Command(self, append([]string{"-inner", "-netns"}, args...)...)
	cmd.SysProcAttr = &syscall.SysProcAttr{Unshareflags: syscall.CLONE_NEWNET}
	cmd.Stdout = &buf
	cmd.Stderr = &buf
	err := cmd.Run()
	if ee, ok := err.(*exec.ExitError); err == nil || (ok && ee.ExitCode() != exitNoNetns) {
		return buf.Bytes(), err
	}
	// no namespace: serialise the runs of this seed on this machine
	if lock, lerr := os.OpenFile(filepath.Join(os.TempDir(), fmt.Sprintf("verif-c14-seed%d.lock", seed)), os.O_CREATE|os.O_RDWR, 0o666); lerr == nil {
		defer lock.Close()
		unix.Flock(int(lock.Fd()), unix.LOCK_EX)
		defer unix.Flock(int(lock.Fd()), unix.LOCK_UN)
	}
	buf.Reset()
	cmd = exec.Command(self, append([]string{"-inner"}, args...)...)
	cmd.Stdout = &buf
	cmd.Stderr = &buf
	err = cmd.Run()
	return buf.Bytes(), err
}

// ------------------------------------------------------------------------------------ main

func main() {
	seed := flag.Uint64("seed", 1, "")
	outDir := flag.String("out", "", "")
	replay := flag.String("replay", "", "")
	tier := flag.String("tier", "quick", "")
	isChild := flag.Bool("child", false, "")
	inner := flag.Bool("inner", false, "")
	netns := flag.Bool("netns", false, "")
	root := flag.String("root", "", "")
	port := flag.Int("port", 0, "")
	servers := flag.String("servers", "", "")
	dupTrials := flag.Int("dupshard", 0, "experiment: two non-owners hold the same shard, all nodes synchronise at once (number of trials)")
	dupSize := flag.Int("dupsize", 20<<20, "experiment: size of that shard file in bytes")
	flag.Parse()
	if *dupTrials > 0 {
		zerolog.SetGlobalLevel(zerolog.Disabled)
		dupShardExperiment(*dupTrials, *dupSize, *seed)
		return
	}
	if *isChild {
		childMain(*root, *port, *servers)
		return
	}
	zerolog.SetGlobalLevel(zerolog.Disabled)
	self, _ := os.Executable()
	if *replay != "" {
		runReplay(self, *replay)
		return
	}
	if !*inner {
		// The scenarios run in a child process: a crash of the code under test in some goroutine
		// (which no recover of the harness can catch) must not end the run silently.  One retry,
		// then the crash is reported with the tail of its output.
		var tail string
		for attempt := 0; attempt < 2; attempt++ {
			os.Remove(filepath.Join(*outDir, "stats.json"))
			out, err := runInner(self, *seed, "-seed", strconv.FormatUint(*seed, 10), "-tier", *tier, "-out", *outDir)
			if _, serr := os.Stat(filepath.Join(*outDir, "stats.json")); err == nil && serr == nil {
				return
			}
			buf := bytes.NewBuffer(out)
			lines := strings.Split(buf.String(), "\n")
			var keep []string
			for _, l := range lines {
				if !strings.HasPrefix(l, "{\"level\"") {
					keep = append(keep, l)
				}
			}
			if len(keep) > 60 {
				keep = keep[:60]
			}
			tail = strings.Join(keep, "\n")
			os.WriteFile(filepath.Join(*outDir, fmt.Sprintf("crash-%d.log", attempt)), buf.Bytes(), 0o644)
		}
		fmt.Println("harness process crashed twice; output of the last attempt:")
		fmt.Println(tail)
		os.Exit(3)
	}
	if *netns {
		if err := loopbackUp(); err != nil {
			fmt.Println("no usable loopback in the new network namespace:", err)
			os.Exit(exitNoNetns)
		}
	}
	tmp, err := os.MkdirTemp("", "c14-")
	if err != nil {
		panic(err)
	}
	defer os.RemoveAll(tmp)
	h := &harness{out: vh.NewOut(*outDir), rng: vh.NewRng(*seed), seed: *seed, tier: *tier, tmp: tmp, self: self, seenFlt: map[string]int{}, sampleKinds: map[string]int{}}
	extra := map[string]any{}
	func() {
		defer func() {
			if r := recover(); r != nil {
				h.out.Stats["harness-panic"]++
				extra["panic"] = fmt.Sprint(r)
				h.out.Fail("harness:panic", fmt.Sprint(r), h.replayText())
			}
		}()
		h.runAll(extra, -1)
	}()
	extra["rule"] = "distinct sync lines carrying a fault, dump lines after a round, hand-made receiver messages and observed chunk sequences"
	extra["variant"] = map[int]string{1: "receiver truncates at chunk 0 (repaired)", 0: "receiver appends (pinned)"}[h.variant]
	extra["fault_positions"] = h.seenFlt
	extra["samples"] = h.samples
	h.out.Close(extra)
}

func (h *harness) runAll(extra map[string]any, only int) {
	v, err := h.detectVariant()
	if err != nil {
		h.out.Fail("variant:unknown", err.Error(), "")
		return
	}
	h.variant = v
	if only < 0 {
		n := 40
		if h.tier == "thorough" {
			n = 400
		}
		h.handMade(n)
	}
	type plan struct {
		tr               transition
		users, cols, pts int
		bigPad           int
		synth            []int
		synthRecs        [2]int
		maxFaults, kills int
		maxIdx           int
		conc             bool
	}
	var plans []plan
	if h.tier == "quick" {
		// every transition once; faults sampled
		for _, tr := range transitions {
			plans = append(plans, plan{tr: tr, users: 3, cols: 2, pts: 9, maxFaults: 5, kills: 1, maxIdx: 2})
		}
		// several senders with shard files of more than one chunk: their chunks arrive interleaved at the
		// common owner when all nodes synchronise at once
		const MiB = 1 << 20
		plans = append(plans, plan{tr: transitions[1], users: 1, cols: 1, pts: 3, synth: []int{8*MiB + pageSize, 8*MiB + 1, 8*MiB + pageSize, 16*MiB + pageSize, 8*MiB + 2*pageSize}, maxFaults: 1, kills: 0, maxIdx: 2, conc: true})
	} else {
		for _, tr := range transitions {
			plans = append(plans, plan{tr: tr, users: 4, cols: 2, pts: 14, maxFaults: 14, kills: 3, maxIdx: 2})
		}
		const MiB = 1 << 20
		// shard files straddling 0, 1, 2 chunks of 8 MiB (synthetic content; the protocol does not look inside)
		plans = append(plans, plan{tr: transitions[0], users: 1, cols: 1, pts: 3, synth: []int{pageSize, 8*MiB - pageSize, 8 * MiB, 8*MiB + pageSize}, maxFaults: 1000, kills: 2, maxIdx: 3})
		plans = append(plans, plan{tr: transitions[5], users: 1, cols: 1, pts: 3, synth: []int{16 * MiB, 16*MiB + pageSize, 8*MiB + 1}, maxFaults: 1000, kills: 2, maxIdx: 3})
		// a real bbolt shard larger than one chunk
		plans = append(plans, plan{tr: transitions[2], users: 1, cols: 1, pts: 4, bigPad: 3 * MiB, maxFaults: 1000, kills: 1, maxIdx: 3})
		// several senders with multi-chunk shard files, all nodes synchronising at once
		plans = append(plans, plan{tr: transitions[1], users: 2, cols: 1, pts: 3, synth: []int{8*MiB + pageSize, 8*MiB + 1, 16 * MiB, 16*MiB + pageSize, 8*MiB + 2*pageSize, 24*MiB + 1, 8 * MiB, 9 * MiB}, maxFaults: 6, kills: 1, maxIdx: 3, conc: true})
		plans = append(plans, plan{tr: transitions[6], users: 2, cols: 1, pts: 3, synth: []int{8*MiB + pageSize, 16*MiB + 1, 16 * MiB, 9 * MiB, 8*MiB + 1, 10 * MiB}, maxFaults: 4, kills: 1, maxIdx: 3, conc: true})
	}
	// the same directly on four real nodes, judged by the oracle (byte identity at the owners)
	if only < 0 {
		trials := 3
		if h.tier == "thorough" {
			trials = 10
		}
		for t := 0; t < trials; t++ {
			h.rng = vh.NewRng(h.seed*6700417 + uint64(t)*2147483647 + 11)
			h.skewProbe(t, 1500, 16000)
		}
	}
	// a skewed postage of collection records: one large request among small ones (last: the scenario
	// numbers and random streams of the plans above are unchanged)
	if h.tier == "quick" {
		plans = append(plans, plan{tr: growOneToFour, users: 1, cols: 1, pts: 2, synthRecs: [2]int{300, 16000}, maxFaults: 0, kills: 0, maxIdx: 1})
	} else {
		plans = append(plans, plan{tr: growOneToFour, users: 2, cols: 1, pts: 2, synthRecs: [2]int{1200, 16000}, maxFaults: 2, kills: 0, maxIdx: 1})
	}
	for sc, p := range plans {
		if only >= 0 && sc != only {
			// keep the random stream aligned with a full run
			continue
		}
		h.rng = vh.NewRng(h.seed*7919 + uint64(sc)*104729 + 1)
		h.crng = vh.NewRng(h.seed*2654435761 + uint64(sc)*40503 + 97)
		h.forceConc = p.conc
		uuid.SetRand(&seededReader{r: vh.NewRng(h.seed*15485863 + uint64(sc)*32452843 + 5)})
		b, err := h.buildBase(sc, p.tr, p.users, p.cols, p.pts, p.bigPad, p.synth, p.synthRecs)
		if err != nil {
			panic(fmt.Errorf("scenario %d (%s): %w", sc, p.tr.kind, err))
		}
		h.out.Stats["base:"+p.tr.kind]++
		h.out.Stats["records"] += len(b.rkeys)
		h.out.Stats["shards"] += len(b.fkeys)
		h.runScenario(b, sc, fault{kind: "none"}, true)
		fl := h.faultsFor(b, b.specs, p.maxIdx, p.kills)
		// sample: keep every kind represented
		for i := len(fl) - 1; i > 0; i-- {
			j := h.rng.Intn(i + 1)
			fl[i], fl[j] = fl[j], fl[i]
		}
		kinds := map[string]int{}
		taken := 0
		for _, f := range fl {
			lim := p.maxFaults
			if f.kind == "kill" {
				if kinds["kill"] >= p.kills {
					continue
				}
			} else if taken >= lim && kinds[f.kind] > 0 {
				continue
			}
			kinds[f.kind]++
			if f.kind != "kill" {
				taken++
			}
			h.runScenario(b, sc, f, kinds[f.kind] == 1)
		}
		os.RemoveAll(b.dir)
	}
	// ---- histories over several server lists (epochs.go)
	type hplan struct {
		kind             string
		first            []int
		users, cols, pts int
		steps            []histStep
	}
	rnd := func(n int) []histStep {
		var st []histStep
		for i := 0; i < n; i++ {
			st = append(st, histStep{mode: "random", ops: -1, dup: []string{"", "rec", "file"}[h.rng.Intn(3)]})
		}
		return st
	}
	// a change of the list is interrupted (the same record / shard is left on two nodes), rolled back
	// without draining the node that leaves, the cluster serves and the data changes, then the change
	// is applied again; afterwards the walk continues at random
	rollback := func(dup string, ch ...string) []histStep {
		return append([]histStep{
			{prefer: ch, mode: "leave", dup: dup},
			{prefer: []string{"rollback", "rollback-drain"}, mode: "clean", ops: 2, busy: true},
			// the list before the last one is now the one whose application was interrupted
			{prefer: []string{"rollback", "rollback-drain"}, mode: "random", ops: 2},
		}, rnd(1)...)
	}
	var hplans []hplan
	if h.tier == "quick" {
		hplans = []hplan{
			{"rollback-grow", []int{0}, 4, 1, 6, rollback("rec", "grow")},
			{"rollback-grow", []int{0, 1}, 4, 1, 6, rollback("rec", "grow")},
			{"rollback-grow", []int{1}, 3, 1, 6, rollback("file", "grow")},
			{"rollback-replace", []int{0, 1}, 4, 1, 6, rollback("rec", "replace-drain", "replace")},
			{"walk", []int{0, 1}, 3, 2, 6, rnd(4)},
			{"walk", []int{0}, 4, 1, 6, rnd(4)},
		}
	} else {
		hplans = []hplan{
			{"rollback-grow", []int{0}, 4, 2, 9, rollback("rec", "grow")},
			{"rollback-grow", []int{0, 1}, 4, 2, 9, rollback("rec", "grow")},
			{"rollback-grow", []int{3}, 4, 2, 9, rollback("file", "grow")},
			{"rollback-grow", []int{1, 2}, 5, 1, 9, rollback("file", "grow")},
			{"rollback-replace", []int{0, 1}, 4, 2, 9, rollback("rec", "replace-drain", "replace")},
			{"rollback-replace", []int{0}, 4, 1, 9, rollback("rec", "replace-drain", "replace")},
			{"rollback-replace", []int{2}, 4, 1, 9, rollback("file", "replace-drain", "replace")},
			{"rollback-shrink", []int{0, 1, 2}, 4, 1, 9, rollback("rec", "shrink-drain", "shrink")},
		}
		for i := 0; i < 10; i++ {
			var first []int
			for n := 0; n < 4; n++ {
				if (i+1)>>uint(n%3)&1 == 1 && len(first) < 3 {
					first = append(first, n)
				}
			}
			if len(first) == 0 {
				first = []int{i % 4}
			}
			hplans = append(hplans, hplan{"walk", first, 3 + i%3, 1 + i%2, 9, rnd(6)})
		}
	}
	for i, p := range hplans {
		sc := 100 + i
		h.rng = vh.NewRng(h.seed*7919 + uint64(sc)*104729 + 1)
		h.crng = vh.NewRng(h.seed*2654435761 + uint64(sc)*40503 + 97)
		h.forceConc = false
		uuid.SetRand(&seededReader{r: vh.NewRng(h.seed*15485863 + uint64(sc)*32452843 + 5)})
		h.runHistory(sc, p.kind, p.first, p.users, p.cols, p.pts, p.steps)
	}
}

// runReplay re-runs the scenarios named by the `scenario` lines of a replay file (same seed, tier
// and scenario id regenerate the same data) and prints the implementation's answer per op line.
func runReplay(self, path string) {
	data, err := os.ReadFile(path)
	if err != nil {
		fmt.Println("cannot read", path)
		os.Exit(2)
	}
	var seed uint64 = 1
	tier := "quick"
	for _, l := range strings.Split(string(data), "\n") {
		if strings.HasPrefix(l, "scenario ") {
			for _, t := range strings.Fields(l) {
				if strings.HasPrefix(t, "seed=") {
					seed, _ = strconv.ParseUint(t[5:], 10, 64)
				}
				if strings.HasPrefix(t, "tier=") {
					tier = t[5:]
				}
			}
			break
		}
	}
	isSkew := false
	for _, l := range strings.Split(string(data), "\n") {
		if strings.HasPrefix(l, "skew trial=") {
			isSkew = true
			for _, t := range strings.Fields(l) {
				if strings.HasPrefix(t, "seed=") {
					seed, _ = strconv.ParseUint(strings.TrimSuffix(t[5:], ":"), 10, 64)
				}
			}
		}
	}
	tmp, _ := os.MkdirTemp("", "c14-replay-")
	defer os.RemoveAll(tmp)
	runInner(self, seed, "-seed", strconv.FormatUint(seed, 10), "-tier", tier, "-out", tmp)
	if isSkew {
		// the skewed-postage probe is judged by the oracle: run it again and report what the oracle says
		var st struct {
			Oracle []struct{ Signature, What string } `json:"oracle_failures"`
		}
		raw, _ := os.ReadFile(filepath.Join(tmp, "stats.json"))
		json.Unmarshal(raw, &st)
		n := 0
		for _, f := range st.Oracle {
			if strings.HasPrefix(f.Signature, "skew:") {
				fmt.Println(f.Signature + ": " + f.What)
				n++
			}
		}
		if n == 0 {
			fmt.Println("skew: every record arrived at its owner unchanged in every trial")
		}
		return
	}
	ops, _ := os.ReadFile(filepath.Join(tmp, "ops.txt"))
	impl, _ := os.ReadFile(filepath.Join(tmp, "impl.txt"))
	opl := strings.Split(strings.TrimSpace(string(ops)), "\n")
	iml := strings.Split(strings.TrimSpace(string(impl)), "\n")
	byOp := map[string][]string{}
	// index the regenerated run by scenario header, then answer the lines of the replay file in order
	cur := ""
	for i, o := range opl {
		if strings.HasPrefix(o, "scenario ") {
			cur = o
		}
		if i < len(iml) {
			byOp[cur] = append(byOp[cur], iml[i])
		}
	}
	cur = ""
	pos := 0
	for _, l := range strings.Split(string(data), "\n") {
		l = strings.TrimSpace(l)
		if l == "" || strings.HasPrefix(l, "#") {
			continue
		}
		if strings.HasPrefix(l, "scenario ") {
			cur = l
			pos = 0
		}
		ans := "?"
		if pos < len(byOp[cur]) {
			ans = byOp[cur][pos]
		}
		pos++
		fmt.Println(ans)
	}
}
