package main

// skewProbe: a SKEWED postage of collection records on real nodes. One node holds the records of many
// users; under the new server list three other servers own them: one destination gets a large request
// (many large records: long to encode and send), the other two a handful of small records (sent,
// confirmed and deleted locally while the large request is still being written). The property: every
// record arrives at its owner byte-identical to the original and the synchronisation succeeds.
// Judged by the oracle only (the protocol model treats a record as one opaque value; there is nothing
// for it to predict beyond "arrives unchanged", which is what is compared here).

import (
	"bytes"
	"fmt"
	"path/filepath"

	"github.com/semafind/semadb/cluster"
	"github.com/semafind/semadb/diskstore"
)

func (h *harness) skewProbe(trial int, nBig, bigSize int) {
	ports := h.pickPorts(9000+trial, 4)
	var specs []nodeSpec
	var hosts []string
	for i := 0; i < 4; i++ {
		sp := nodeSpec{name: fmt.Sprintf("s%d", i), root: filepath.Join(h.tmp, fmt.Sprintf("skew%d", trial), fmt.Sprintf("s%d", i)), port: ports[i]}
		specs = append(specs, sp)
		hosts = append(hosts, sp.host())
	}
	var nodes []*cluster.ClusterNode
	defer func() {
		for _, n := range nodes {
			n.Close()
		}
	}()
	for _, sp := range specs {
		n, err := startNode(sp, hosts)
		if err != nil {
			h.out.Stats["skew:no-cluster"]++
			return
		}
		nodes = append(nodes, n)
	}
	want := map[string][]byte{}
	owner := map[string]int{}
	big := -1
	per := map[int]int{}
	err := nodes[0].VerifNodeDB().Write(func(bm diskstore.BucketManager) error {
		b, err := bm.Get(cluster.USERCOLSBUCKETKEY)
		if err != nil {
			return err
		}
		for i := 0; i < 50*nBig && (big < 0 || per[big] < nBig); i++ {
			user := fmt.Sprintf("skew%06d", i)
			d := -1
			for j, hst := range hosts {
				if hst == cluster.RendezvousHash(user, hosts, 1)[0] {
					d = j
				}
			}
			if d <= 0 {
				continue
			}
			if big < 0 {
				big = d
			}
			limit, size := 6, 300
			if d == big {
				limit, size = nBig, bigSize
			}
			if per[d] >= limit {
				continue
			}
			per[d]++
			val := make([]byte, size)
			for j := 0; j < size; j += 8 {
				x := h.rng.U64()
				for t := 0; t < 8 && j+t < size; t++ {
					val[j+t] = byte(x >> (8 * t))
				}
			}
			key := user + cluster.DBDELIMITER + "col00"
			want[key], owner[key] = val, d
			if err := b.Put([]byte(key), val); err != nil {
				return err
			}
		}
		return nil
	})
	if err != nil {
		h.out.Stats["skew:no-cluster"]++
		return
	}
	h.out.Stats["skew:trials"]++
	h.out.Stats["skew:records"] += len(want)
	replay := fmt.Sprintf("skew trial=%d seed=%d: node s0 holds %d records (%d of %d bytes for %s, 6 of 300 bytes for each of the other two servers), server list %v, then s0.Sync()", trial, h.seed, len(want), per[big], bigSize, specs[big].name, hosts)
	if err := nodes[0].Sync(); err != nil {
		h.out.Fail("skew:sync-fails", "a failure-free start-up synchronisation returned an error: "+err.Error(), replay)
		return
	}
	bad, missing, first := 0, 0, ""
	for key, v := range want {
		var got []byte
		found := false
		err := nodes[owner[key]].VerifNodeDB().Read(func(bm diskstore.BucketManager) error {
			b, err := bm.Get(cluster.USERCOLSBUCKETKEY)
			if err != nil {
				return err
			}
			if x := b.Get([]byte(key)); x != nil {
				got, found = append([]byte{}, x...), true
			}
			return nil
		})
		if err != nil {
			h.out.Fail("skew:unreadable", err.Error(), replay)
			return
		}
		switch {
		case !found:
			missing++
		case !bytes.Equal(got, v):
			bad++
			if first == "" {
				first = key
			}
		}
	}
	h.out.Stats["skew:records-compared"] += len(want)
	if missing > 0 {
		h.out.Fail("skew:record-missing", fmt.Sprintf("%d of %d records are not at their owner after a successful synchronisation", missing, len(want)), replay)
	}
	if bad > 0 {
		h.out.Fail("skew:record-altered", fmt.Sprintf("%d of %d records arrived at their owner with a content that differs from the original (first: %s, same length) - the synchronisation reported success", bad, len(want), first), replay)
	}
}
