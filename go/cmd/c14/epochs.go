// Histories over several server lists (C14): the list changes more than once (grow, shrink, replace,
// back to an earlier list), synchronisation rounds are interrupted and left incomplete, nodes are
// taken out without being drained and come back later with what their disks still hold, and between
// the rounds the cluster serves: collections gain shards, shard files gain points, collections are
// deleted and re-created.  Copies of the same record / shard on two nodes may therefore DIFFER; "the
// original" is then the content as last written through the cluster (at the routing owner of that
// moment) — `cur` below, the ghost `ro` / `fo` of the Lean model (Model.lean, `World`).
//
// Only list changes that are `Safe` in the sense of the model are generated (an out-of-date copy on a
// node that is started must sit at the new routing owner; see Model.lean) — the harness evaluates that
// predicate on the real disks with the real RendezvousHash and the model driver evaluates it on its
// state; both answers are compared line by line like everything else.
package main

import (
	"bytes"
	"errors"
	"fmt"
	"os"
	"path/filepath"
	"sort"
	"strings"

	"github.com/google/uuid"
	"github.com/semafind/semadb/cluster"
	"github.com/semafind/semadb/models"
	"github.com/vmihailenco/msgpack/v5"
)

type hist struct {
	h              *harness
	sc             int
	kind           string
	specs          []nodeSpec
	byHost         map[string]string
	cur            nodeState // current logical content: every live record / shard file as last written
	rkeys, fkeys   []string  // every key ever declared, sorted
	knownR, knownF map[string]bool
	cols           []*colData
	deleted        []colData
	users          []string
	nextCol        int
	list, up       []int
	lists          [][]int
	rowner, fowner map[string]string
	leftOpen       bool // the last round was interrupted and not completed
	gen            int
}

// rotate moves the trees of all nodes to a fresh directory.  ClusterNode.Close leaves the shards the
// shard manager loaded open (bbolt file locks of this process); a cluster started later on the same
// paths could not open them.  Nothing of a closed cluster refers to the new paths.
func (hi *hist) rotate() {
	hi.gen++
	dir := filepath.Join(hi.h.tmp, fmt.Sprintf("hist%d-g%d", hi.sc, hi.gen))
	var old string
	for i, sp := range hi.specs {
		old = filepath.Dir(sp.root)
		root := filepath.Join(dir, sp.name)
		if _, err := os.Stat(sp.root); err == nil {
			if err := copyTree(sp.root, root); err != nil {
				panic(err)
			}
		}
		os.MkdirAll(root, 0o755)
		hi.specs[i].root = root
	}
	os.RemoveAll(old)
}

func (hi *hist) hosts(list []int) []string {
	var hs []string
	for _, i := range list {
		hs = append(hs, hi.specs[i].host())
	}
	return hs
}

func (hi *hist) owners(list []int) (map[string]string, map[string]string) {
	hs := hi.hosts(list)
	ro, fo := map[string]string{}, map[string]string{}
	for _, k := range hi.rkeys {
		ro[k] = hi.byHost[cluster.RendezvousHash(strings.Split(k, cluster.DBDELIMITER)[0], hs, 1)[0]]
	}
	for _, k := range hi.fkeys {
		fo[k] = hi.byHost[cluster.RendezvousHash(filepath.Base(k), hs, 1)[0]]
	}
	return ro, fo
}

func (hi *hist) names(idx []int) []string {
	var ns []string
	for _, i := range idx {
		ns = append(ns, hi.specs[i].name)
	}
	return ns
}

// view presents the current epoch in the shape the round / dump / oracle functions expect.
func (hi *hist) view() *base {
	b := &base{tr: transition{kind: "hist-" + hi.kind + ":" + strings.Join(hi.names(hi.list), "+"), new: hi.list}, specs: hi.specs, part: hi.up,
		newH: hi.hosts(hi.list), orig: hi.cur, rowner: hi.rowner, fowner: hi.fowner, rkeys: hi.rkeys, fkeys: hi.fkeys,
		byHost: hi.byHost, synth: map[string]bool{}, where: map[string]string{}, all: []int{0, 1, 2, 3}}
	for _, c := range hi.cols {
		b.cols = append(b.cols, *c)
	}
	return b
}

func (hi *hist) addKey(rec bool, k string) {
	if rec {
		if !hi.knownR[k] {
			hi.knownR[k] = true
			hi.rkeys = append(hi.rkeys, k)
			sort.Strings(hi.rkeys)
		}
	} else if !hi.knownF[k] {
		hi.knownF[k] = true
		hi.fkeys = append(hi.fkeys, k)
		sort.Strings(hi.fkeys)
	}
}

func (hi *hist) disks() map[string]nodeState {
	d := map[string]nodeState{}
	for _, sp := range hi.specs {
		st, err := readNode(sp)
		if err != nil {
			panic(err)
		}
		d[sp.name] = st
	}
	return d
}

// safe: the predicate `Safe` of the model, evaluated on the disks with the routing of `list`.
func (hi *hist) safe(list, up []int) bool {
	ro, fo := hi.owners(list)
	disk := hi.disks()
	ups := hi.names(up)
	for _, n := range ups {
		for k, v := range disk[n].recs {
			if c, ok := hi.cur.recs[k]; !(ok && bytes.Equal(c, v)) && ro[k] != n {
				return false
			}
		}
		for k, v := range disk[n].files {
			if c, ok := hi.cur.files[k]; !(ok && bytes.Equal(c, v)) && fo[k] != n {
				return false
			}
		}
	}
	for k, c := range hi.cur.recs {
		found := false
		for _, n := range ups {
			if v, ok := disk[n].recs[k]; ok && bytes.Equal(c, v) {
				found = true
			}
		}
		if !found {
			return false
		}
	}
	for k, c := range hi.cur.files {
		found := false
		for _, n := range ups {
			if v, ok := disk[n].files[k]; ok && bytes.Equal(c, v) {
				found = true
			}
		}
		if !found {
			return false
		}
	}
	for _, k := range hi.fkeys {
		cnt := 0
		for _, n := range ups {
			if _, ok := disk[n].files[k]; ok && n != fo[k] {
				cnt++
			}
		}
		if cnt > 1 {
			return false
		}
	}
	return true
}

type cand struct {
	kind     string
	list, up []int
}

func sameSet(a, b []int) bool {
	if len(a) != len(b) {
		return false
	}
	for i := range a {
		if a[i] != b[i] {
			return false
		}
	}
	return true
}

func (hi *hist) candidates() []cand {
	disk := hi.disks()
	var cs []cand
	add := func(kind string, list []int, drain bool) {
		list = append([]int{}, list...)
		sort.Ints(list)
		if len(list) == 0 || sameSet(list, hi.list) {
			return
		}
		in := map[int]bool{}
		for _, i := range list {
			in[i] = true
		}
		up := append([]int{}, list...)
		if drain {
			// every other node whose disk holds something is started once more with the new list
			for i, sp := range hi.specs {
				if !in[i] && len(disk[sp.name].recs)+len(disk[sp.name].files) > 0 {
					up = append(up, i)
				}
			}
			sort.Ints(up)
			kind += "-drain"
		}
		for _, c := range cs {
			if sameSet(c.list, list) && sameSet(c.up, up) {
				return
			}
		}
		if hi.safe(list, up) {
			cs = append(cs, cand{kind, list, up})
		}
	}
	if len(hi.lists) >= 2 {
		add("rollback", hi.lists[len(hi.lists)-2], false)
		add("rollback", hi.lists[len(hi.lists)-2], true)
	}
	for i := 0; i+2 < len(hi.lists); i++ {
		add("again", hi.lists[i], false)
		add("again", hi.lists[i], true)
	}
	in := map[int]bool{}
	for _, i := range hi.list {
		in[i] = true
	}
	without := func(x int) []int {
		var l []int
		for _, i := range hi.list {
			if i != x {
				l = append(l, i)
			}
		}
		return l
	}
	for n := 0; n < len(hi.specs); n++ {
		if !in[n] && len(hi.list) < 3 {
			add("grow", append(append([]int{}, hi.list...), n), false)
			add("grow", append(append([]int{}, hi.list...), n), true)
		}
		if in[n] && len(hi.list) > 1 {
			add("shrink", without(n), true)
			add("shrink", without(n), false)
		}
		if in[n] {
			for m := 0; m < len(hi.specs); m++ {
				if !in[m] {
					add("replace", append(without(n), m), true)
					add("replace", append(without(n), m), false)
				}
			}
		}
	}
	return cs
}

// change applies a new server list: routing lines for every known key, then the `epoch` line.
func (hi *hist) change(c cand) {
	h := hi.h
	safe := hi.safe(c.list, c.up)
	hi.list, hi.up = c.list, c.up
	hi.lists = append(hi.lists, c.list)
	hi.rowner, hi.fowner = hi.owners(c.list)
	h.emit("note", fmt.Sprintf("note change=%s list=%s", c.kind, strings.Join(hi.names(c.list), ",")), "ok", false)
	for _, k := range hi.rkeys {
		h.emit("rowner", fmt.Sprintf("rowner %s %s", k, hi.rowner[k]), "ok", false)
	}
	for _, k := range hi.fkeys {
		h.emit("fowner", fmt.Sprintf("fowner %s %s", k, hi.fowner[k]), "ok", false)
	}
	impl := "safe"
	if !safe {
		impl = "notsafe"
	}
	h.emit("epoch", "epoch "+strings.Join(hi.names(c.up), ","), impl, true)
	h.out.Stats["hist-change:"+c.kind]++
	hi.leftOpen = false
}

func (hi *hist) pickChange(prefer []string) (cand, bool) {
	cs := hi.candidates()
	if len(cs) == 0 {
		return cand{}, false
	}
	for _, p := range prefer {
		var m []cand
		for _, c := range cs {
			if c.kind == p {
				m = append(m, c)
			}
		}
		if len(m) > 0 {
			return m[hi.h.rng.Intn(len(m))], true
		}
	}
	var w []int
	tot := 0
	for _, c := range cs {
		x := 2
		switch {
		case strings.HasPrefix(c.kind, "rollback"):
			x = 4
			if hi.leftOpen {
				x = 12
			}
		case strings.HasPrefix(c.kind, "again"):
			x = 6
		}
		w = append(w, x)
		tot += x
	}
	r := hi.h.rng.Intn(tot)
	for i, x := range w {
		if r < x {
			return cs[i], true
		}
		r -= x
	}
	return cs[0], true
}

// round runs one synchronisation round under the current list.  mode: "clean", "complete" (an
// interrupted round followed by a failure-free one), "leave" (interrupted, not completed).
// Returns the disks after the round and whether the round completed with everything in place.
func (hi *hist) round(mode string, dupKind string) (map[string]nodeState, bool) {
	h := hi.h
	b := hi.view()
	flt := fault{kind: "none"}
	if mode != "clean" {
		kills := 0
		if h.rng.Chance(15) {
			kills = 1
		}
		fl := h.faultsFor(b, hi.specs, 2, kills)
		if len(fl) > 0 {
			// faults that leave the same record ("rec") / the same complete shard file ("file") on two nodes
			var dup []fault
			for _, f := range fl {
				if f.kind == "lostreply" && dupKind == "rec" {
					dup = append(dup, f)
				}
				if (f.kind == "failat" || f.kind == "kill") && f.idx == nChunks(len(b.orig.files[f.key])) && dupKind == "file" {
					dup = append(dup, f)
				}
			}
			if len(dup) > 0 {
				flt = dup[h.rng.Intn(len(dup))]
			} else {
				flt = fl[h.rng.Intn(len(fl))]
			}
		}
	}
	if flt.kind != "none" {
		others := h.orderFor(b, flt.node)
		pre := others[:h.rng.Intn(len(others)+1)]
		if flt.kind == "down" || dupKind != "" {
			pre = nil // the round is interrupted at its first node: the others have not moved anything yet
		}
		order := append(append([]int{}, pre...), flt.node)
		h.emit("note", "note round fault="+flt.String(), "ok", false)
		ran := true
		if flt.kind == "kill" {
			if err := h.runRoundKill(b, hi.specs, order, flt); err != nil {
				h.out.Stats["kill-round-error"]++
				h.emit("note", "note kill round could not run: "+strings.ReplaceAll(err.Error(), "\n", " "), "ok", false)
				ran = false
			}
		} else if _, err := h.runRound(b, hi.specs, order, &flt); err != nil {
			panic(err)
		}
		st, d := h.dump(b, hi.specs)
		h.emit("dump", "dump", d, true)
		if ran {
			h.checkNoLoss(b, st, flt, "after-interrupted-round")
			h.seenFlt["hist:"+flt.String()]++
			hi.leftOpen = true
			if mode == "leave" {
				return st, false
			}
		}
	}
	order := append([]int{}, hi.up...)
	for i := len(order) - 1; i > 0; i-- {
		j := h.rng.Intn(i + 1)
		order[i], order[j] = order[j], order[i]
	}
	ok, err := h.cleanRound(b, hi.specs, order)
	if err != nil {
		panic(err)
	}
	st, d := h.dump(b, hi.specs)
	h.emit("dump", "dump", d, true)
	hi.leftOpen = false
	placed := false
	if h.checkNoLoss(b, st, flt, "after-clean-round") {
		// "exactly the server that routing designates" is judged on the nodes that run
		run := map[string]nodeState{}
		for _, n := range hi.names(hi.up) {
			run[n] = st[n]
		}
		placed = h.checkPlaced(b, run, flt, ok)
	}
	return st, placed
}

func (hi *hist) newPoints(n int) ([]point, []models.Point) {
	ps := make([]point, n)
	ms := make([]models.Point, n)
	for i := range ps {
		p := point{id: uuid.New(), n: int64(hi.h.rng.Intn(1000000)), pad: hi.h.rng.Intn(200)}
		data, _ := msgpack.Marshal(map[string]any{"n": p.n, "pad": bytes.Repeat([]byte{byte(p.n)}, p.pad)})
		ps[i] = p
		ms[i] = models.Point{Id: p.id, Data: data}
	}
	return ps, ms
}

func (hi *hist) insert(api *cluster.ClusterNode, cd *colData, n int) error {
	ps, ms := hi.newPoints(n)
	for off := 0; off < len(ms); off += 3 {
		end := off + 3
		if end > len(ms) {
			end = len(ms)
		}
		cur, err := api.GetCollection(cd.user, cd.id)
		if err != nil {
			return fmt.Errorf("get collection: %w", err)
		}
		cur.UserPlan = userPlan()
		fr, err := api.InsertPoints(cur, append([]models.Point{}, ms[off:end]...))
		if err != nil || len(fr) > 0 {
			return fmt.Errorf("insert points: %v %v", err, fr)
		}
		cd.points = append(cd.points, ps[off:end]...)
	}
	return nil
}

func (hi *hist) create(api *cluster.ClusterNode, user, id string, np int) error {
	col := models.Collection{UserId: user, Id: id, Replicas: 1, IndexSchema: schema, UserPlan: userPlan()}
	if err := api.CreateCollection(col); err != nil {
		if errors.Is(err, cluster.ErrExists) {
			// a node that was switched off before the collection was deleted came back with its copy of
			// the record: the name is taken.  Outside the property (it speaks about the records that
			// exist); the client simply cannot use the name.
			hi.h.out.Stats["hist-op:name-taken-by-resurrected-record"]++
			return nil
		}
		return fmt.Errorf("create collection: %w", err)
	}
	cd := &colData{user: user, id: id}
	hi.cols = append(hi.cols, cd)
	return hi.insert(api, cd, np)
}

// serve: the cluster runs with the current list; every live point is read through every member,
// then `nOps` client operations change records and shard files.  What changed on the disks is
// declared to the model as writes at the routing owner.
func (hi *hist) serve(before map[string]nodeState, nOps int, busy bool) {
	h := hi.h
	b := hi.view()
	h.readBack(b, hi.specs, fault{kind: "none"})
	hi.rotate()
	if nOps > 0 || busy {
		var nodes []*cluster.ClusterNode
		for _, i := range hi.list {
			n, err := startNode(hi.specs[i], b.newH)
			if err != nil {
				panic(err)
			}
			nodes = append(nodes, n)
		}
		fail := func(what string, err error) {
			for _, n := range nodes {
				n.Close()
			}
			panic(fmt.Errorf("client operation %q failed while the cluster serves: %w", what, err))
		}
		del := func(api *cluster.ClusterNode, i int) error {
			cd := hi.cols[i]
			col, err := api.GetCollection(cd.user, cd.id)
			if err == nil {
				_, err = api.DeleteCollection(col)
			}
			hi.cols = append(hi.cols[:i], hi.cols[i+1:]...)
			hi.deleted = append(hi.deleted, colData{user: cd.user, id: cd.id})
			return err
		}
		if busy {
			// the cluster serves for a while: most collections change (more points than a shard takes:
			// the collection record gains a shard id; a few points: only a shard file changes;
			// deleted and created again under the same name: a new record with the old key)
			// collections whose record also sits on a switched-off node are the ones whose copies can
			// come to differ: they change more often, and are replaced more often
			isUp := map[string]bool{}
			for _, n := range hi.names(hi.up) {
				isUp[n] = true
			}
			hot := map[string]bool{}
			for n, st := range before {
				if !isUp[n] {
					for k := range st.recs {
						hot[k] = true
					}
				}
			}
			for _, cd := range append([]*colData{}, hi.cols...) {
				api := nodes[h.rng.Intn(len(nodes))]
				r := h.rng.Intn(100)
				if hot[cd.user+cluster.DBDELIMITER+cd.id] {
					r = []int{0, 0, 50, 70, 70, 70, 95}[h.rng.Intn(7)] // grow 2/7, insert 1/7, replace 3/7, nothing 1/7
				}
				var err error
				what := ""
				switch {
				case r < 45:
					what = "grow " + cd.user + "/" + cd.id
					err = hi.insert(api, cd, 5+h.rng.Intn(4))
				case r < 60:
					what = "insert " + cd.user + "/" + cd.id
					err = hi.insert(api, cd, 1+h.rng.Intn(3))
				case r < 90:
					what = "replace " + cd.user + "/" + cd.id
					for i := range hi.cols {
						if hi.cols[i] == cd {
							err = del(api, i)
							break
						}
					}
					if err == nil {
						// the new record is usually SHORTER than the one it replaces (fewer shard ids)
						hi.deleted = hi.deleted[:len(hi.deleted)-1]
						err = hi.create(api, cd.user, cd.id, 1+h.rng.Intn(3))
					}
				default:
					continue
				}
				if err != nil {
					fail(what, err)
				}
				h.out.Stats["hist-op:"+strings.Fields(what)[0]]++
			}
		}
		for o := 0; o < nOps; o++ {
			api := nodes[h.rng.Intn(len(nodes))]
			r := h.rng.Intn(100)
			var err error
			what := ""
			switch {
			case r < 30 && len(hi.cols) > 0:
				cd := hi.cols[h.rng.Intn(len(hi.cols))]
				what = "insert " + cd.user + "/" + cd.id
				err = hi.insert(api, cd, 1+h.rng.Intn(4))
			case r < 50 && len(hi.cols) > 0:
				cd := hi.cols[h.rng.Intn(len(hi.cols))]
				what = "grow " + cd.user + "/" + cd.id
				err = hi.insert(api, cd, 5+h.rng.Intn(4))
			case r < 65 && len(hi.cols) > 1:
				i := h.rng.Intn(len(hi.cols))
				what = "delete " + hi.cols[i].user + "/" + hi.cols[i].id
				err = del(api, i)
			case r < 85 && len(hi.deleted) > 0:
				i := h.rng.Intn(len(hi.deleted))
				d := hi.deleted[i]
				hi.deleted = append(hi.deleted[:i], hi.deleted[i+1:]...)
				what = "recreate " + d.user + "/" + d.id
				err = hi.create(api, d.user, d.id, 1+h.rng.Intn(6))
			default:
				user := hi.users[h.rng.Intn(len(hi.users))]
				if h.rng.Chance(40) {
					user += string("0123456789abcdefxyz-_"[h.rng.Intn(21)])
					hi.users = append(hi.users, user)
				}
				hi.nextCol++
				id := fmt.Sprintf("new%02d", hi.nextCol)
				what = "create " + user + "/" + id
				err = hi.create(api, user, id, 1+h.rng.Intn(6))
			}
			if err != nil {
				fail(what, err)
			}
			h.out.Stats["hist-op:"+strings.Fields(what)[0]]++
		}
		for _, n := range nodes {
			n.Close()
		}
		hi.rotate()
	}
	// ---- what changed, node by node
	after := hi.disks()
	type chg struct {
		rec  bool
		key  string
		node string
		val  []byte // nil: removed
	}
	var chs []chg
	for _, sp := range hi.specs {
		a, o := after[sp.name], before[sp.name]
		for k, v := range a.recs {
			if w, ok := o.recs[k]; !ok || !bytes.Equal(v, w) {
				chs = append(chs, chg{true, k, sp.name, v})
			}
		}
		for k := range o.recs {
			if _, ok := a.recs[k]; !ok {
				chs = append(chs, chg{true, k, sp.name, nil})
			}
		}
		for k, v := range a.files {
			if w, ok := o.files[k]; !ok || !bytes.Equal(v, w) {
				chs = append(chs, chg{false, k, sp.name, v})
			}
		}
		for k := range o.files {
			if _, ok := a.files[k]; !ok {
				chs = append(chs, chg{false, k, sp.name, nil})
			}
		}
	}
	sort.Slice(chs, func(i, j int) bool {
		if chs[i].rec != chs[j].rec {
			return chs[i].rec
		}
		if chs[i].key != chs[j].key {
			return chs[i].key < chs[j].key
		}
		return chs[i].node < chs[j].node
	})
	hs := hi.hosts(hi.list)
	for _, c := range chs {
		if c.rec {
			owner := hi.byHost[cluster.RendezvousHash(strings.Split(c.key, cluster.DBDELIMITER)[0], hs, 1)[0]]
			if !hi.knownR[c.key] {
				hi.addKey(true, c.key)
				hi.rowner[c.key] = owner
				h.emit("rowner", fmt.Sprintf("rowner %s %s", c.key, owner), "ok", false)
			}
			impl := "ok"
			if owner != c.node {
				impl = "written-at-" + c.node
			}
			if c.val == nil {
				delete(hi.cur.recs, c.key)
				h.emit("wrec", fmt.Sprintf("wrec %s none", c.key), impl, true)
			} else {
				hi.cur.recs[c.key] = c.val
				h.emit("wrec", fmt.Sprintf("wrec %s %s", c.key, symStr(recSymbols(c.val))), impl, true)
			}
		} else {
			owner := hi.byHost[cluster.RendezvousHash(filepath.Base(c.key), hs, 1)[0]]
			if !hi.knownF[c.key] {
				hi.addKey(false, c.key)
				hi.fowner[c.key] = owner
				h.emit("fowner", fmt.Sprintf("fowner %s %s", c.key, owner), "ok", false)
			}
			impl := "ok"
			if owner != c.node {
				impl = "written-at-" + c.node
			}
			if c.val == nil {
				delete(hi.cur.files, c.key)
				h.emit("wfile", fmt.Sprintf("wfile %s none", c.key), impl, true)
			} else {
				hi.cur.files[c.key] = c.val
				h.emit("wfile", fmt.Sprintf("wfile %s %s", c.key, symStr(fileSymbols(c.val))), impl, true)
			}
		}
	}
	_, d := h.dump(hi.view(), hi.specs)
	h.emit("dump", "dump", d, true)
}

type histStep struct {
	prefer    []string // kinds of list change tried first
	mode      string   // clean | complete | leave | random
	dup       string   // "rec" / "file": prefer a fault that leaves the same record / shard file on two nodes, at the first node of the round
	ops       int      // client operations while the cluster serves afterwards (-1: random)
	busy      bool     // ... and most collections change
}

// runHistory builds a cluster on a first list and walks through the steps.
func (h *harness) runHistory(sc int, kind string, first []int, nUsers, colsPerUser, ptsPerCol int, steps []histStep) {
	hi := &hist{h: h, sc: sc, kind: kind, byHost: map[string]string{}, knownR: map[string]bool{}, knownF: map[string]bool{},
		cur: nodeState{recs: map[string][]byte{}, files: map[string][]byte{}}}
	dir := filepath.Join(h.tmp, fmt.Sprintf("hist%d-g0", sc))
	defer func() { os.RemoveAll(filepath.Dir(hi.specs[0].root)) }()
	ports := h.pickPorts(sc, 4)
	for i := 0; i < 4; i++ {
		sp := nodeSpec{name: fmt.Sprintf("n%d", i), root: filepath.Join(dir, fmt.Sprintf("n%d", i)), port: ports[i]}
		os.MkdirAll(sp.root, 0o755)
		hi.specs = append(hi.specs, sp)
		hi.byHost[sp.host()] = sp.name
	}
	h.nSc++
	h.lines = nil
	h.emit("scenario", fmt.Sprintf("scenario seed=%d tier=%s id=%d kind=hist-%s fault=history", h.seed, h.tier, sc, kind), "ok", false)
	h.emit("cfg", fmt.Sprintf("cfg %d %d", chunkPages, h.variant), "ok", false)
	for _, sp := range hi.specs {
		h.emit("node", "node "+sp.name, "ok", false)
	}
	// ---- the first cluster
	hi.list = append([]int{}, first...)
	sort.Ints(hi.list)
	hi.up = hi.list
	hi.lists = [][]int{hi.list}
	var nodes []*cluster.ClusterNode
	for _, i := range hi.list {
		n, err := startNode(hi.specs[i], hi.hosts(hi.list))
		if err != nil {
			panic(err)
		}
		nodes = append(nodes, n)
	}
	hi.users = h.userIds(nUsers)
	for _, user := range hi.users {
		for c := 0; c < colsPerUser; c++ {
			// more points than one shard takes: the record lists several shard ids, so that it can
			// become shorter as well as longer later on
			if err := hi.create(nodes[h.rng.Intn(len(nodes))], user, fmt.Sprintf("col%02d", c), 5+h.rng.Intn(ptsPerCol)); err != nil {
				for _, n := range nodes {
					n.Close()
				}
				panic(err)
			}
		}
	}
	for _, n := range nodes {
		n.Close()
	}
	hi.rotate()
	disk := hi.disks()
	where := map[string]string{}
	for _, sp := range hi.specs {
		for k, v := range disk[sp.name].recs {
			if _, dup := hi.cur.recs[k]; dup {
				panic("record " + k + " on two nodes of the first cluster")
			}
			hi.cur.recs[k] = v
			hi.addKey(true, k)
			where["r:"+k] = sp.name
		}
		for k, v := range disk[sp.name].files {
			if _, dup := hi.cur.files[k]; dup {
				panic("shard " + k + " on two nodes of the first cluster")
			}
			hi.cur.files[k] = v
			hi.addKey(false, k)
			where["f:"+k] = sp.name
		}
	}
	hi.rowner, hi.fowner = hi.owners(hi.list)
	for _, k := range hi.rkeys {
		h.emit("rec", fmt.Sprintf("rec %s %s %s", where["r:"+k], k, symStr(recSymbols(hi.cur.recs[k]))), "ok", false)
		h.emit("rowner", fmt.Sprintf("rowner %s %s", k, hi.rowner[k]), "ok", false)
	}
	for _, k := range hi.fkeys {
		h.emit("file", fmt.Sprintf("file %s %s %s", where["f:"+k], k, symStr(fileSymbols(hi.cur.files[k]))), "ok", false)
		h.emit("fowner", fmt.Sprintf("fowner %s %s", k, hi.fowner[k]), "ok", false)
	}
	h.emit("epoch", "epoch "+strings.Join(hi.names(hi.up), ","), "safe", false)
	_, d0 := h.dump(hi.view(), hi.specs)
	h.emit("dump", "dump", d0, false)
	h.out.Stats["hist:"+kind]++
	h.out.Stats["records"] += len(hi.rkeys)
	h.out.Stats["shards"] += len(hi.fkeys)
	// ---- the walk
	var st map[string]nodeState
	placed := false
	for _, s := range steps {
		c, ok := hi.pickChange(s.prefer)
		if !ok {
			h.emit("note", "note no safe change of the server list from here", "ok", false)
			break
		}
		hi.change(c)
		mode := s.mode
		if mode == "random" {
			mode = []string{"clean", "complete", "complete", "leave"}[h.rng.Intn(4)]
		}
		st, placed = hi.round(mode, s.dup)
		if placed {
			ops := s.ops
			if ops < 0 {
				ops = h.rng.Intn(5)
			}
			hi.serve(st, ops, s.busy || h.rng.Chance(25))
		}
	}
	if hi.leftOpen {
		// "a later synchronisation completes the move"
		st, placed = hi.round("clean", "")
		if placed {
			hi.serve(st, 0, false)
		}
	}
}
