// Experiment (not part of the check; `c14 -dupshard <trials> -dupsize <bytes>`): two started nodes
// that are not the routing owner hold the SAME shard file — the situation `Safe.fc` / `Inv.f4`
// exclude (it needs a second change of the server list before an interrupted move was completed).
// All three nodes run Sync at the same time, as at a real start-up, and the outcome is printed.
package main

import (
	"bytes"
	"fmt"
	"net"
	"os"
	"path/filepath"
	"sync"

	"github.com/google/uuid"
	"github.com/semafind/semadb/cluster"
	"verifharness/vh"
)

func freePort() int {
	l, err := net.Listen("tcp", "127.0.0.1:0")
	if err != nil {
		panic(err)
	}
	defer l.Close()
	return l.Addr().(*net.TCPAddr).Port
}

func dupShardExperiment(trials, size int, seed uint64) {
	rng := vh.NewRng(seed*31 + 7)
	tmp, err := os.MkdirTemp("", "c14-dup-")
	if err != nil {
		panic(err)
	}
	defer os.RemoveAll(tmp)
	bothFail, oneFails, noneFails, lost := 0, 0, 0, 0
	for t := 0; t < trials; t++ {
		dir := filepath.Join(tmp, fmt.Sprintf("t%d", t))
		var specs []nodeSpec
		var hosts []string
		for i := 0; i < 3; i++ {
			sp := nodeSpec{name: fmt.Sprintf("n%d", i), root: filepath.Join(dir, fmt.Sprintf("n%d", i)), port: freePort()}
			os.MkdirAll(sp.root, 0o755)
			specs = append(specs, sp)
			hosts = append(hosts, sp.host())
		}
		var id string
		for {
			var u [16]byte
			for i := range u {
				u[i] = byte(rng.Intn(256))
			}
			id = uuid.UUID(u).String()
			if cluster.RendezvousHash(id, hosts, 1)[0] == hosts[2] {
				break
			}
		}
		content := make([]byte, size)
		for i := range content {
			content[i] = byte(rng.Intn(256))
		}
		rel := filepath.Join(cluster.USERCOLSDIR, "u1", "c1", id, "sharddb.bbolt")
		for i := 0; i < 2; i++ {
			p := filepath.Join(specs[i].root, rel)
			os.MkdirAll(filepath.Dir(p), 0o755)
			if err := os.WriteFile(p, content, 0o644); err != nil {
				panic(err)
			}
		}
		var nodes []*cluster.ClusterNode
		for i := 0; i < 3; i++ {
			n, err := startNode(specs[i], hosts)
			if err != nil {
				panic(err)
			}
			nodes = append(nodes, n)
		}
		errs := make([]error, 3)
		start := make(chan struct{})
		var wg sync.WaitGroup
		for i := 0; i < 3; i++ {
			wg.Add(1)
			go func(i int) {
				defer wg.Done()
				<-start
				errs[i] = nodes[i].Sync()
			}(i)
		}
		close(start)
		wg.Wait()
		for _, n := range nodes {
			n.Close()
		}
		at := func(i int) string {
			b, err := os.ReadFile(filepath.Join(specs[i].root, rel))
			if err != nil {
				return "absent"
			}
			if bytes.Equal(b, content) {
				return "identical"
			}
			return fmt.Sprintf("DIFFERENT(len %d of %d)", len(b), len(content))
		}
		nf := 0
		for i := 0; i < 2; i++ {
			if errs[i] != nil {
				nf++
			}
		}
		switch nf {
		case 2:
			bothFail++
		case 1:
			oneFails++
		default:
			noneFails++
		}
		complete := false
		for i := 0; i < 3; i++ {
			if at(i) == "identical" {
				complete = true
			}
		}
		if !complete {
			lost++
		}
		fmt.Printf("trial %d size=%d chunks=%d: Sync n0=%v n1=%v n2=%v | file at n0=%s n1=%s n2(owner)=%s\n",
			t, size, nChunks(size), errs[0], errs[1], errs[2], at(0), at(1), at(2))
		os.RemoveAll(dir)
	}
	fmt.Printf("summary size=%d trials=%d: both senders fail=%d one fails=%d none fails=%d; no complete copy anywhere=%d\n",
		size, trials, bothFail, oneFails, noneFails, lost)
}
