// C04 correspondence harness.
//
// Phase 1 (store level): random op sequences on the real vector stores (vectorstore.New over a
// memory bucket: real Storable point types + real ItemCache) — Set / Delete / Fit / Flush / ForEach
// / Exists / re-creation on the same bucket — compared line by line with the Lean model.
//
// Phase 2 (shard level): histories of insert / update / vector-removal / delete batches on real
// shards with several flat indexes (all six metrics; quantiser none / binary fixed / binary learned
// / product). After every batch: the index bucket is compared with the model's bucket, and the same
// queries are answered by the live shard (warm), by fresh shards opened on a copy of the db file
// (cold; cache disabled; tiny cache) and by shards that ran the whole history with a disabled /
// evicting cache. Every answer is judged by the property oracle (brute-force kNN over the shadow
// collection with the real distance functions); the live answer is also compared with the model's
// bounded insertion over the same distance table.
package main

import (
	"encoding/base64"
	"encoding/json"
	"flag"
	"fmt"
	"math"
	"os"
	"sort"
	"strings"

	"github.com/google/uuid"
	"github.com/rs/zerolog"
	"github.com/semafind/semadb/diskstore"
	"github.com/semafind/semadb/models"
	"github.com/semafind/semadb/shard/vectorstore"
	"verifharness/c04lib"
	"verifharness/vh"
)

// ---------------------------------------------------------------- phase 1: store level

type storeH struct {
	cfg     c04lib.FlatCfg
	bucket  diskstore.Bucket
	vs      vectorstore.VectorStore
	trained bool
	thr     []float32
	cents   []float32
}

func (s *storeH) open() {
	e := s.cfg
	vs, err := vectorstore.New(e.Quantizer(), s.bucket, e.Metric, e.Dim)
	if err != nil {
		panic(err)
	}
	s.vs = vs
}

func dumpMem(b diskstore.Bucket) c04lib.Dump {
	d := c04lib.Dump{}
	b.ForEach(func(k, v []byte) error { d[string(k)] = append([]byte{}, v...); return nil })
	return d
}

func (s *storeH) refresh() {
	st := c04lib.ReadStoreState(s.cfg, dumpMem(s.bucket))
	s.trained, s.thr, s.cents = st.Trained, st.Threshold, st.Centroids
}

func (s *storeH) enc(v []float32) string {
	e := s.cfg.Eff()
	if !s.trained {
		return "-"
	}
	switch e.Quant {
	case c04lib.QBinFixed, c04lib.QBinLearned:
		return c04lib.Hex(c04lib.U64Bytes(c04lib.BinEncode(v, s.thr)))
	case c04lib.QProduct:
		return c04lib.Hex(c04lib.ProdEncode(e, s.cents, v))
	}
	return "-"
}

// execStore runs one store-level op line on the real store and returns the implementation's answer
func execStore(stores map[string]*storeH, line string) string {
	f := strings.Fields(line)
	s := stores[f[1]]
	switch f[0] {
	case "open":
		s.open()
		s.refresh()
		return fmt.Sprintf("trained=%s", vh.B01(s.trained || s.cfg.Eff().Quant == c04lib.QBinFixed))
	case "set":
		var id uint64
		fmt.Sscanf(f[2], "%x", &id)
		b, _ := hexDecode(f[3])
		if _, err := s.vs.Set(id, c04lib.BytesF32(b)); err != nil {
			return "err"
		}
		return "ok"
	case "del":
		var id uint64
		fmt.Sscanf(f[2], "%x", &id)
		if err := s.vs.Delete(id); err != nil {
			return "err"
		}
		return "ok"
	case "fit":
		if err := s.vs.Fit(); err != nil {
			return "error"
		}
		if err := s.vs.Flush(); err != nil {
			return "error"
		}
		s.refresh()
		return fmt.Sprintf("trained=%s", vh.B01(s.trained))
	case "flush":
		if err := s.vs.Flush(); err != nil {
			return "error"
		}
		s.refresh()
		return dumpMem(s.bucket).Digest()
	case "foreach":
		var ids []uint64
		err := s.vs.ForEach(func(p vectorstore.VectorStorePoint) error { ids = append(ids, p.Id()); return nil })
		if err != nil {
			return "error"
		}
		sort.Slice(ids, func(i, j int) bool { return ids[i] < ids[j] })
		if len(ids) == 0 {
			return "-"
		}
		p := make([]string, len(ids))
		for i, x := range ids {
			p[i] = fmt.Sprintf("%016x", x)
		}
		return strings.Join(p, ",")
	case "exists":
		var id uint64
		fmt.Sscanf(f[2], "%x", &id)
		return vh.B01(s.vs.Exists(id))
	}
	return "bad-op"
}

func hexDecode(s string) ([]byte, error) {
	if s == "-" {
		return nil, nil
	}
	b := make([]byte, len(s)/2)
	_, err := fmt.Sscanf(s, "%x", &b)
	return b, err
}

func newStoreLine(name string, c c04lib.FlatCfg) string {
	cj, _ := json.Marshal(c)
	return fmt.Sprintf("new %s %s %s", name, c.ModelNew(), base64.StdEncoding.EncodeToString(cj))
}

func execNew(stores map[string]*storeH, line string) string {
	f := strings.Fields(line)
	var c c04lib.FlatCfg
	cj, _ := base64.StdEncoding.DecodeString(f[5])
	json.Unmarshal(cj, &c)
	s := &storeH{cfg: c, bucket: diskstore.NewMemBucket(false)}
	s.open()
	s.refresh()
	stores[f[1]] = s
	return "ok"
}

// fitLine: built after the implementation ran Fit+Flush: the oracle of the learned parameters
func fitLine(name string, s *storeH, wasTrained bool, live map[uint64][]float32) string {
	e := s.cfg.Eff()
	if wasTrained || !s.trained || e.Quant == c04lib.QNone || e.Quant == c04lib.QBinFixed {
		return fmt.Sprintf("fit %s - - -", name)
	}
	d := dumpMem(s.bucket)
	var ids []uint64
	for id := range live {
		ids = append(ids, id)
	}
	sort.Slice(ids, func(i, j int) bool { return ids[i] < ids[j] })
	var codes []string
	for _, id := range ids {
		var code []byte
		extra := ""
		if e.Quant == c04lib.QBinLearned {
			code = c04lib.U64Bytes(c04lib.BinEncode(live[id], s.thr))
		} else {
			code = d[c04lib.NodeKey(id, 'q')]
			extra = kmeansLeft(d[c04lib.NodeKey(id, 'v')], live[id])
		}
		codes = append(codes, fmt.Sprintf("%016x=%s%s", id, c04lib.Hex(code), extra))
	}
	cs := "-"
	if len(codes) > 0 {
		cs = strings.Join(codes, ";")
	}
	if e.Quant == c04lib.QBinLearned {
		return fmt.Sprintf("fit %s %s - %s", name, c04lib.Hex(d[c04lib.BinThresholdKey]), cs)
	}
	return fmt.Sprintf("fit %s %s %s %s", name, c04lib.Hex(d[c04lib.ProdFlatCentsKey]), c04lib.Hex(d[c04lib.ProdCentDistsKey]), cs)
}

// kmeansLeft: k-means initialises its centroids as slices of the stored vectors and updates them in
// place, so Fit of the product quantiser can leave other numbers in a point's stored full vector.
// That is unobservable (a trained store reads codes only); the model takes the rewritten bytes as
// part of the Fit oracle. Counted in the statistics.
var kmeansRewrites int

func kmeansLeft(stored []byte, want []float32) string {
	if stored == nil || string(stored) == string(c04lib.F32Bytes(want)) {
		return ""
	}
	kmeansRewrites++
	return "/" + c04lib.Hex(stored)
}

// storeTraceFails replays a store-level trace on a fresh store and tells whether some ForEach
// still misses (or invents) an id; used to shrink a witness
func storeTraceFails(trace []string) (fails bool) {
	defer func() {
		if r := recover(); r != nil {
			fails = false
		}
	}()
	stores := map[string]*storeH{}
	live, disk := map[uint64]bool{}, map[uint64]bool{}
	cp := func(m map[uint64]bool) map[uint64]bool {
		c := map[uint64]bool{}
		for k := range m {
			c[k] = true
		}
		return c
	}
	for i, line := range trace {
		f := strings.Fields(line)
		if i == 0 {
			execNew(stores, line)
			continue
		}
		var id uint64
		if len(f) > 2 {
			fmt.Sscanf(f[2], "%x", &id)
		}
		out := execStore(stores, line)
		switch f[0] {
		case "set":
			live[id] = true
		case "del":
			delete(live, id)
		case "fit", "flush":
			disk = cp(live)
		case "open":
			live = cp(disk)
		case "foreach":
			var want []string
			for k := range live {
				want = append(want, fmt.Sprintf("%016x", k))
			}
			sort.Strings(want)
			w := strings.Join(want, ",")
			if w == "" {
				w = "-"
			}
			if out != w {
				return true
			}
		}
	}
	return false
}

func shrinkStoreTrace(trace []string) []string {
	cur := append([]string{}, trace...)
	for changed := true; changed; {
		changed = false
		for i := len(cur) - 1; i >= 1; i-- {
			cand := append(append([]string{}, cur[:i]...), cur[i+1:]...)
			if storeTraceFails(cand) {
				cur, changed = cand, true
			}
		}
	}
	return cur
}

func phaseStore(r *vh.Rng, o *vh.Out, nseq, nops int) {
	for q := 0; q < nseq; q++ {
		storeSeq(r, o, nops)
	}
}

func storeSeq(r *vh.Rng, o *vh.Out, nops int) {
	{
		stores := map[string]*storeH{}
		c := c04lib.RandCfg(r, "s", true)
		if c.Quant == c04lib.QProduct {
			c.Trigger = vh.Pick(r, []int{3, 5})
		}
		var trace []string
		var pending string
		defer func() {
			if rec := recover(); rec != nil {
				o.Fail(fmt.Sprintf("store-panic:%s", c.Eff().Quant), fmt.Sprintf("%s store panics on `%s`: %v", c, pending, rec), strings.Join(append(trace, pending), "\n"))
			}
		}()
		emit := func(kind, line, impl string) {
			trace = append(trace, line)
			o.Emit(kind, line, impl, kind != "set" && kind != "del")
		}
		run := func(line string) string {
			pending = line
			c04lib.Progress("store-level op "+line, strings.Join(append(append([]string{}, trace...), line), "\n"))
			return execStore(stores, line)
		}
		nl := newStoreLine("s", c)
		emit("new", nl, execNew(stores, nl))
		s := stores["s"]
		// what the store holds if everything is flushed (live) and what is flushed (disk)
		live, disk := map[uint64][]float32{}, map[uint64][]float32{}
		copyMap := func(m map[uint64][]float32) map[uint64][]float32 {
			c := map[uint64][]float32{}
			for k, v := range m {
				c[k] = v
			}
			return c
		}
		for i := 0; i < nops; i++ {
			id := uint64(2 + r.Intn(9))
			switch x := r.Intn(100); {
			case x < 40:
				v := c04lib.RandVec(r, c)
				line := fmt.Sprintf("set s %016x %s %s", id, c04lib.Hex(c04lib.F32Bytes(v)), s.enc(v))
				emit("set", line, run(line))
				live[id] = v
			case x < 55:
				line := fmt.Sprintf("del s %016x", id)
				emit("del", line, run(line))
				delete(live, id)
			case x < 72:
				was := s.trained
				impl := run("fit s")
				emit("fit", fitLine("s", s, was, live), impl)
				line := "flush s"
				emit("flush", line, run(line))
				disk = copyMap(live)
			case x < 78:
				line := "flush s"
				emit("flush", line, run(line))
				disk = copyMap(live)
			case x < 88:
				line := "foreach s"
				impl := run(line)
				emit("foreach", line, impl)
				// the property's enumeration clause, judged directly: ForEach visits exactly the live ids
				var want []string
				for k := range live {
					want = append(want, fmt.Sprintf("%016x", k))
				}
				sort.Strings(want)
				w := strings.Join(want, ",")
				if w == "" {
					w = "-"
				}
				if impl != w {
					rep := trace
					if o.Stats["oracle-failure"] < 3 {
						if sh := shrinkStoreTrace(trace); storeTraceFails(sh) {
							rep = sh
						}
					}
					o.Fail(fmt.Sprintf("store-enum:%s", c.Eff().Quant), fmt.Sprintf("ForEach of a %s store does not visit exactly the ids the store holds (full run: visits %s, holds %s); replay: the last foreach line", c, impl, w), strings.Join(rep, "\n"))
				}
			case x < 94:
				line := fmt.Sprintf("exists s %016x", id)
				emit("exists", line, run(line))
			default:
				line := "open s" // eviction / restart: unflushed changes are gone
				emit("open", line, run(line))
				live = copyMap(disk)
			}
		}
	}
}

// ---------------------------------------------------------------- phase 2: shard level

type histCase struct {
	Cfgs    []c04lib.FlatCfg
	Batches []jsonBatch
}
type jsonBatch struct {
	Kind    string
	Changes []jsonChange
}
type jsonChange struct {
	Id  string
	Vec map[string][]float32
	N   *int64
	Del []string // fields removed by an update
}

func (b jsonBatch) toBatch() c04lib.Batch {
	out := c04lib.Batch{Kind: b.Kind}
	for _, c := range b.Changes {
		ch := c04lib.Change{Id: uuid.MustParse(c.Id)}
		if b.Kind != "delete" {
			ch.Doc = c04lib.Doc{}
			for k, v := range c.Vec {
				ch.Doc[k] = v
			}
			if c.N != nil {
				ch.Doc["n"] = *c.N
			}
			for _, k := range c.Del {
				ch.Doc[k] = "_delete"
			}
		}
		out.Changes = append(out.Changes, ch)
	}
	return out
}

func f32bitsN(f float32) string {
	if f != f {
		return "nan"
	}
	return fmt.Sprintf("%08x", math.Float32bits(f))
}

type flatQuery struct {
	Prop   string
	Vec    []float32
	Limit  int
	Weight *float32
	Filter string // "" | "eq:<n>" | "lt:<n>" | "ge:<n>"
}

func (q flatQuery) toQuery() models.Query {
	o := &models.SearchVectorFlatOptions{Vector: q.Vec, Operator: "near", Limit: q.Limit, Weight: q.Weight}
	if q.Filter != "" {
		var n int64
		fmt.Sscanf(q.Filter[3:], "%d", &n)
		op := map[string]string{"eq": models.OperatorEquals, "lt": models.OperatorLessThan, "ge": models.OperatorGreaterOrEq}[q.Filter[:2]]
		o.Filter = &models.Query{Property: "n", Integer: &models.SearchIntegerOptions{Value: n, Operator: op}}
	}
	return models.Query{Property: q.Prop, VectorFlat: o}
}

func (q flatQuery) pass(d c04lib.Doc) bool {
	if q.Filter == "" {
		return true
	}
	n, ok := d["n"].(int64)
	if !ok {
		return false
	}
	var v int64
	fmt.Sscanf(q.Filter[3:], "%d", &v)
	switch q.Filter[:2] {
	case "eq":
		return n == v
	case "lt":
		return n < v
	default:
		return n >= v
	}
}

func schemaOf(cfgs []c04lib.FlatCfg) models.IndexSchema {
	s := models.IndexSchema{"n": models.IndexSchemaValue{Type: models.IndexTypeInteger}}
	for _, c := range cfgs {
		s[c.Prop] = c.Schema()
	}
	return s
}

// candidates of a query as the oracle sees them, for a shard whose index bucket dump is `d`
func candidates(sim *c04lib.Sim, cfg c04lib.FlatCfg, d c04lib.Dump, ownNodes, liveNodes map[uuid.UUID]uint64, q flatQuery) ([]c04lib.Cand, c04lib.StoreState, int) {
	st := c04lib.ReadStoreState(cfg, d)
	var out []c04lib.Cand
	nan := 0
	for _, id := range sim.Order {
		doc := sim.Docs[id]
		v, ok := doc[cfg.Prop].([]float32)
		if !ok {
			continue
		}
		var code []byte
		if st.Cfg.Quant == c04lib.QProduct && st.Trained {
			code = d[c04lib.NodeKey(ownNodes[id], 'q')]
			if len(code) != st.Cfg.NumSub {
				code = make([]byte, st.Cfg.NumSub) // missing code: the bucket comparison reports it
			}
		}
		dist := st.Dist(q.Vec, v, code)
		if dist != dist {
			nan++
		}
		ref, tol, hasRef := st.RefDist(q.Vec, v, code)
		out = append(out, c04lib.Cand{Id: id, Node: liveNodes[id], Dist: dist, Pass: q.pass(doc), Ref: ref, Tol: tol, HasRef: hasRef})
	}
	return out, st, nan
}

type runner struct {
	r       *vh.Rng
	o       *vh.Out
	hc      histCase
	tag     string
	shrinks int
	curQ    *flatQuery
}

func (rn *runner) replayOf(q *flatQuery, what string) string {
	j, _ := json.Marshal(struct {
		Case  histCase
		Query *flatQuery
		What  string
	}{rn.hc, q, what})
	return "shardcase " + base64.StdEncoding.EncodeToString(j)
}

// modelLines: what the flat index of `cfg` did in this batch, as op lines for the model, built
// from the shadow collection, the node ids and (for oracles) the bucket after the batch
func modelLines(name string, cfg c04lib.FlatCfg, before c04lib.StoreState, after c04lib.Dump, b c04lib.Batch, pre, post []c04lib.Doc,
	nodeBefore, nodeAfter map[uuid.UUID]uint64, sim *c04lib.Sim) (lines []string, fit string) {
	e := cfg.Eff()
	for i, ch := range b.Changes {
		var pv, nv []float32
		var hp, hn bool
		if pre[i] != nil {
			pv, hp = pre[i][cfg.Prop].([]float32)
		}
		if post[i] != nil {
			nv, hn = post[i][cfg.Prop].([]float32)
		}
		_ = pv
		node, ok := nodeAfter[ch.Id]
		if !ok {
			node, ok = nodeBefore[ch.Id]
		}
		if !ok {
			continue // unknown id: the shard skips it
		}
		switch {
		case hn:
			enc := "-"
			if before.Trained {
				switch e.Quant {
				case c04lib.QBinFixed, c04lib.QBinLearned:
					enc = c04lib.Hex(c04lib.U64Bytes(c04lib.BinEncode(nv, before.Threshold)))
				case c04lib.QProduct:
					enc = c04lib.Hex(c04lib.ProdEncode(e, before.Centroids, nv))
				}
			}
			lines = append(lines, fmt.Sprintf("set %s %016x %s %s", name, node, c04lib.Hex(c04lib.F32Bytes(nv)), enc))
		case hp && !hn:
			lines = append(lines, fmt.Sprintf("del %s %016x", name, node))
		}
	}
	st := c04lib.ReadStoreState(cfg, after)
	fit = fmt.Sprintf("fit %s - - -", name)
	if !before.Trained && st.Trained && (e.Quant == c04lib.QBinLearned || e.Quant == c04lib.QProduct) {
		var codes []string
		ids := append([]uuid.UUID{}, sim.Order...)
		sort.Slice(ids, func(i, j int) bool { return nodeAfter[ids[i]] < nodeAfter[ids[j]] })
		for _, id := range ids {
			v, ok := sim.Docs[id][cfg.Prop].([]float32)
			if !ok {
				continue
			}
			var code []byte
			extra := ""
			if e.Quant == c04lib.QBinLearned {
				code = c04lib.U64Bytes(c04lib.BinEncode(v, st.Threshold))
			} else {
				code = after[c04lib.NodeKey(nodeAfter[id], 'q')]
				extra = kmeansLeft(after[c04lib.NodeKey(nodeAfter[id], 'v')], v)
			}
			codes = append(codes, fmt.Sprintf("%016x=%s%s", nodeAfter[id], c04lib.Hex(code), extra))
		}
		cs := "-"
		if len(codes) > 0 {
			cs = strings.Join(codes, ";")
		}
		if e.Quant == c04lib.QBinLearned {
			fit = fmt.Sprintf("fit %s %s - %s", name, c04lib.Hex(after[c04lib.BinThresholdKey]), cs)
		} else {
			fit = fmt.Sprintf("fit %s %s %s %s", name, c04lib.Hex(after[c04lib.ProdFlatCentsKey]), c04lib.Hex(after[c04lib.ProdCentDistsKey]), cs)
		}
	}
	return
}

func (rn *runner) genBatch(sim *c04lib.Sim, cfgs []c04lib.FlatCfg, maxIns int) jsonBatch {
	r := rn.r
	kind := "insert"
	if len(sim.Order) > 0 {
		switch x := r.Intn(100); {
		case x < 35:
			kind = "update"
		case x < 55:
			kind = "delete"
		}
	}
	jb := jsonBatch{Kind: kind}
	mk := func(id uuid.UUID, insert bool) jsonChange {
		c := jsonChange{Id: id.String(), Vec: map[string][]float32{}}
		for _, cf := range cfgs {
			switch x := r.Intn(100); {
			case x < 70 || (insert && x < 88):
				c.Vec[cf.Prop] = c04lib.RandVec(r, cf)
			case !insert && x < 82:
				c.Del = append(c.Del, cf.Prop) // vector removal
			}
		}
		if r.Chance(70) {
			n := int64(r.Intn(4))
			c.N = &n
		} else if !insert && r.Chance(30) {
			c.Del = append(c.Del, "n")
		}
		return c
	}
	switch kind {
	case "insert":
		n := 1 + r.Intn(maxIns)
		for i := 0; i < n; i++ {
			var u uuid.UUID
			for j := 0; j < 2; j++ {
				x := r.U64()
				for k := 0; k < 8; k++ {
					u[j*8+k] = byte(x >> (8 * k))
				}
			}
			jb.Changes = append(jb.Changes, mk(u, true))
		}
	case "update":
		n := 1 + r.Intn(5)
		for i := 0; i < n; i++ {
			jb.Changes = append(jb.Changes, mk(vh.Pick(r, sim.Order), false))
		}
		if r.Chance(15) { // an id no shard knows: skipped
			jb.Changes = append(jb.Changes, mk(uuid.UUID{0xff, byte(r.Intn(200))}, false))
		}
	case "delete":
		n := 1 + r.Intn(4)
		seen := map[uuid.UUID]bool{}
		for i := 0; i < n; i++ {
			id := vh.Pick(r, sim.Order)
			if !seen[id] {
				seen[id] = true
				jb.Changes = append(jb.Changes, jsonChange{Id: id.String()})
			}
		}
	}
	return jb
}

func (rn *runner) genQuery(sim *c04lib.Sim, cf c04lib.FlatCfg) flatQuery {
	r := rn.r
	q := flatQuery{Prop: cf.Prop, Vec: c04lib.RandVec(r, cf)}
	n := len(sim.Order)
	switch r.Intn(5) {
	case 0:
		q.Limit = 1
	case 1:
		q.Limit = 75
	case 2:
		q.Limit = 1 + r.Intn(75)
	default:
		q.Limit = 1 + r.Intn(n+2)
		if q.Limit > 75 {
			q.Limit = 75
		}
	}
	if r.Chance(40) {
		w := vh.Pick(r, []float32{0, 0.5, 1, 2, -1})
		q.Weight = &w
	}
	if r.Chance(45) {
		q.Filter = fmt.Sprintf("%s:%d", vh.Pick(r, []string{"eq", "lt", "ge"}), r.Intn(4))
	}
	return q
}

// judge one answer of one shard: property oracle + agreement with the live answer
func (rn *runner) judge(who string, cfg c04lib.FlatCfg, q flatQuery, cands []c04lib.Cand, hits []c04lib.Hit, err error, liveCanon string, compare bool) {
	o := rn.o
	e := cfg.Eff()
	o.Stats["answers-judged"]++
	if err != nil {
		o.Fail(fmt.Sprintf("flat-error:%s:%s/%s", who, e.Metric, e.Quant), fmt.Sprintf("flat search on the %s shard failed: %v", who, err), rn.replayOf(&q, who))
		return
	}
	if why := c04lib.FlatOracle(q.Limit, q.Weight, cands, hits); why != "" {
		o.Fail(fmt.Sprintf("flat-knn:%s:%s/%s", who, e.Metric, e.Quant), fmt.Sprintf("%s shard, %s, limit %d, filter %q: %s", who, cfg, q.Limit, q.Filter, why), rn.replayOf(&q, who))
		return
	}
	if compare {
		if c := c04lib.FlatCanon(cands, hits); c != liveCanon {
			o.Fail(fmt.Sprintf("flat-warm-vs-%s:%s/%s", who, e.Metric, e.Quant), fmt.Sprintf("%s: warm answer %s, %s answer %s", cfg, liveCanon, who, c), rn.replayOf(&q, who))
		}
	}
}

func (rn *runner) history(dir string, cfgs []c04lib.FlatCfg, nb, maxIns, nq int, fixed []jsonBatch) {
	o := rn.o
	rn.hc = histCase{Cfgs: cfgs}
	defer func() {
		if rec := recover(); rec != nil {
			o.Fail("shard-panic", fmt.Sprintf("panic while running a history: %v", rec), rn.replayOf(rn.curQ, "panic"))
		}
	}()
	sim := c04lib.NewSim(dir, schemaOf(cfgs), []string{"live", "disabled", "evicting"})
	defer sim.Close()
	for i, c := range cfgs {
		line := fmt.Sprintf("new %s%d %s", rn.tag, i, c.ModelNew())
		o.Emit("new", line, "ok", false)
	}
	states := make([]c04lib.StoreState, len(cfgs))
	for i, c := range cfgs {
		states[i] = c04lib.ReadStoreState(c, c04lib.Dump{})
	}
	nodes := map[uuid.UUID]uint64{}
	for bi := 0; bi < nb; bi++ {
		var jb jsonBatch
		if bi < len(fixed) {
			jb = fixed[bi]
		} else {
			jb = rn.genBatch(sim, cfgs, maxIns)
		}
		if len(jb.Changes) == 0 {
			continue
		}
		rn.hc.Batches = append(rn.hc.Batches, jb)
		b := jb.toBatch()
		rn.curQ = nil
		c04lib.Progress("applying a "+jb.Kind+" batch (the last one of this case)", rn.replayOf(nil, "batch"))
		pre, post, err := sim.Apply(b)
		o.Stats["batch-"+jb.Kind]++
		if err != nil {
			o.Fail("batch-rejected:"+jb.Kind, fmt.Sprintf("a valid %s batch was rejected: %v", jb.Kind, err), rn.replayOf(nil, "batch"))
			return
		}
		newNodes := c04lib.NodeIds(c04lib.DumpBucket(sim.Live(), c04lib.PointsBucket))
		for ci, c := range cfgs {
			name := fmt.Sprintf("%s%d", rn.tag, ci)
			d := c04lib.DumpBucket(sim.Live(), c.Bucket())
			lines, fit := modelLines(name, c, states[ci], d, b, pre, post, nodes, newNodes, sim)
			if len(lines) == 0 {
				continue // no change reached this index: the dispatcher never opened it in this batch
			}
			for _, l := range lines {
				o.Emit("set/del", l, "ok", false)
			}
			st := c04lib.ReadStoreState(c, d)
			o.Emit("fit", fit, fmt.Sprintf("trained=%s", vh.B01(st.Trained)), true)
			o.Emit("flush", "flush "+name, d.Digest(), true)
			if st.Trained && !states[ci].Trained {
				o.Stats["trained-mid-history:"+c.Eff().Quant.String()]++
			}
			states[ci] = st
		}
		nodes = newNodes
		// ---- queries
		for qi := 0; qi < nq; qi++ {
			ci := rn.r.Intn(len(cfgs))
			q := rn.genQuery(sim, cfgs[ci])
			rn.curQ = &q
			c04lib.Progress("answering a flat query on every shard", rn.replayOf(&q, "query"))
			before := len(o.Oracle)
			rn.evalQuery(sim, nodes, cfgs[ci], q, true)
			if len(o.Oracle) > before && rn.shrinks < 2 {
				rn.shrinks++
				rn.shrink(o.Oracle[before].Signature, q, &o.Oracle[before])
			}
		}
	}
}

type coldShard struct {
	name string
	size int64
}

// evalQuery: one flat query answered by every shard and judged
func (rn *runner) evalQuery(sim *c04lib.Sim, nodes map[uuid.UUID]uint64, c c04lib.FlatCfg, q flatQuery, emit bool) {
	o := rn.o
	d := c04lib.DumpBucket(sim.Live(), c.Bucket())
	cands, st, nan := candidates(sim, c, d, nodes, nodes, q)
	if nan > 0 {
		o.Stats["query-with-NaN-distance-skipped"]++
		return
	}
	hits, err := c04lib.Search(sim.Live(), q.toQuery())
	canon := ""
	if err == nil {
		canon = c04lib.FlatCanon(cands, hits)
	}
	if emit {
		o.Emit("search", c04lib.SearchLine(q.Limit, cands), canon, true)
		// formula lines: the hybrid expression generated from flat.go, evaluated by the driver on the reported distance
		for i, h := range hits {
			if err != nil || h.Dist == nil || i >= 4 {
				break
			}
			wf := "-"
			if q.Weight != nil {
				wf = fmt.Sprintf("%08x", math.Float32bits(*q.Weight))
			}
			o.Emit("hyb", fmt.Sprintf("hyb flat %s %08x", wf, math.Float32bits(*h.Dist)), f32bitsN(h.Hybrid), true)
		}
		o.Stats[fmt.Sprintf("search:%s/%s", c.Eff().Metric, c.Eff().Quant)]++
		if st.Trained {
			o.Stats["search-trained"]++
		}
		if len(hits) > 1 && *hits[0].Dist == *hits[len(hits)-1].Dist {
			o.Stats["search-all-tied"]++
		}
	}
	rn.judge("warm", c, q, cands, hits, err, canon, false)
	// fresh shards on a copy of the file: cold, cache disabled, tiny cache (asked twice)
	for _, cs := range []coldShard{{"cold", -1}, {"cold-disabled", 0}, {"cold-tiny", 64}} {
		sh, done := sim.OpenCopy(cs.size)
		h2, e2 := c04lib.Search(sh, q.toQuery())
		rn.judge(cs.name, c, q, cands, h2, e2, canon, true)
		if cs.size > 0 {
			h3, e3 := c04lib.Search(sh, q.toQuery())
			rn.judge(cs.name+"-again", c, q, cands, h3, e3, canon, true)
		}
		done()
	}
	// shards that ran the whole history with another cache configuration
	for _, v := range sim.Variants[1:] {
		vd := c04lib.DumpBucket(v.Shard, c.Bucket())
		vn := c04lib.NodeIds(c04lib.DumpBucket(v.Shard, c04lib.PointsBucket))
		vc, vst, _ := candidates(sim, c, vd, vn, nodes, q)
		h2, e2 := c04lib.Search(v.Shard, q.toQuery())
		// k-means is randomised: separately trained product quantisers are judged on their own
		det := !(vst.Cfg.Quant == c04lib.QProduct && (vst.Trained || st.Trained))
		rn.judge(v.Name, c, q, vc, h2, e2, canon, det)
	}
}

// stillFails: does the history `hc` followed by query `q` still produce an oracle failure with
// this signature? (fresh shards, scratch output)
func (rn *runner) stillFails(hc histCase, q flatQuery, sig string) (bad bool) {
	defer func() {
		if r := recover(); r != nil {
			bad = false
		}
	}()
	tmp, err := os.MkdirTemp("", "c04s-")
	if err != nil {
		return false
	}
	defer os.RemoveAll(tmp)
	sb := &runner{r: vh.NewRng(1), o: vh.NewOut(tmp + "/out"), hc: hc, tag: "x", shrinks: 99}
	sim := c04lib.NewSim(tmp, schemaOf(hc.Cfgs), []string{"live", "disabled", "evicting"})
	defer sim.Close()
	for _, jb := range hc.Batches {
		if _, _, err := sim.Apply(jb.toBatch()); err != nil {
			return false
		}
	}
	var cfg c04lib.FlatCfg
	for _, c := range hc.Cfgs {
		if c.Prop == q.Prop {
			cfg = c
		}
	}
	nodes := c04lib.NodeIds(c04lib.DumpBucket(sim.Live(), c04lib.PointsBucket))
	sb.evalQuery(sim, nodes, cfg, q, false)
	for _, f := range sb.o.Oracle {
		if f.Signature == sig {
			return true
		}
	}
	return false
}

// shrink the history of a failing query: drop whole batches, then single changes
func (rn *runner) shrink(sig string, q flatQuery, f *vh.OracleFailure) {
	cur := histCase{Cfgs: rn.hc.Cfgs, Batches: append([]jsonBatch{}, rn.hc.Batches...)}
	if !rn.stillFails(cur, q, sig) {
		return // not reproducible on fresh shards (keep the full history as the replay)
	}
	for i := len(cur.Batches) - 1; i >= 0; i-- {
		cand := histCase{Cfgs: cur.Cfgs, Batches: append(append([]jsonBatch{}, cur.Batches[:i]...), cur.Batches[i+1:]...)}
		if rn.stillFails(cand, q, sig) {
			cur = cand
		}
	}
	for bi := len(cur.Batches) - 1; bi >= 0; bi-- {
		for ci := len(cur.Batches[bi].Changes) - 1; ci >= 0 && len(cur.Batches[bi].Changes) > 1; ci-- {
			cand := histCase{Cfgs: cur.Cfgs, Batches: append([]jsonBatch{}, cur.Batches...)}
			nb := cand.Batches[bi]
			nb.Changes = append(append([]jsonChange{}, nb.Changes[:ci]...), nb.Changes[ci+1:]...)
			cand.Batches[bi] = nb
			if rn.stillFails(cand, q, sig) {
				cur = cand
			}
		}
	}
	save := rn.hc
	rn.hc = cur
	f.Replay = rn.replayOf(&q, "shrunk from "+fmt.Sprint(len(save.Batches))+" batches")
	rn.hc = save
}

func main() {
	zerolog.SetGlobalLevel(zerolog.Disabled)
	seed := flag.Uint64("seed", 1, "PRNG seed")
	dir := flag.String("out", "", "output directory")
	replay := flag.String("replay", "", "replay the op lines of this file against the implementation")
	nseq := flag.Int("store", 30, "store-level sequences")
	nops := flag.Int("ops", 40, "ops per store-level sequence")
	nhist := flag.Int("hist", 10, "shard-level histories")
	nb := flag.Int("batches", 8, "batches per history")
	nq := flag.Int("queries", 3, "queries after every batch")
	big := flag.Int("big", 0, "histories with a product quantiser in its valid configuration (trigger 1000)")
	flag.Parse()
	if *replay != "" {
		doReplay(*replay)
		return
	}
	c04lib.Isolate(*dir)
	r := vh.NewRng(*seed)
	o := vh.NewOut(*dir)
	tmp, err := os.MkdirTemp("", "c04-")
	if err != nil {
		panic(err)
	}
	defer os.RemoveAll(tmp)
	phaseStore(r, o, *nseq, *nops)
	for h := 0; h < *nhist; h++ {
		n := 2 + r.Intn(2)
		var cfgs []c04lib.FlatCfg
		for i := 0; i < n; i++ {
			cfgs = append(cfgs, c04lib.RandCfg(r, fmt.Sprintf("v%d", i), true))
		}
		if h < len(c04lib.Metrics) { // every metric and every quantiser appears whatever the seed
			cfgs[0] = c04lib.RandCfg(r, "v0", false)
			cfgs[0].Metric = c04lib.Metrics[h]
			cfgs[0].Quant = c04lib.QNone
			if c04lib.Metrics[h] == "haversine" {
				cfgs[0].Dim = 2
			}
			cfgs[1] = c04lib.FlatCfg{Prop: "v1", Metric: vh.Pick(r, []string{"euclidean", "cosine", "dot"}), Dim: 4, BitMetric: vh.Pick(r, []string{"hamming", "jaccard"})}
			switch h % 3 {
			case 0:
				cfgs[1].Quant, cfgs[1].Trigger = c04lib.QBinLearned, 5
			case 1:
				cfgs[1].Quant, cfgs[1].NumSub, cfgs[1].NumCent, cfgs[1].Trigger = c04lib.QProduct, 2, 2, 6
			case 2:
				cfgs[1].Quant, cfgs[1].Thr = c04lib.QBinFixed, 0
			}
		}
		rn := &runner{r: r, o: o, tag: fmt.Sprintf("h%d_", h)}
		hd := fmt.Sprintf("%s/h%d", tmp, h)
		os.MkdirAll(hd, 0o755)
		rn.history(hd, cfgs, *nb, 6, *nq, nil)
		os.RemoveAll(hd)
	}
	for h := 0; h < *big; h++ {
		cfgs := []c04lib.FlatCfg{{Prop: "v0", Metric: vh.Pick(r, []string{"euclidean", "dot", "cosine"}), Quant: c04lib.QProduct, Dim: 4, NumSub: 2, NumCent: 4, Trigger: 1000}}
		rn := &runner{r: r, o: o, tag: fmt.Sprintf("b%d_", h)}
		hd := fmt.Sprintf("%s/b%d", tmp, h)
		os.MkdirAll(hd, 0o755)
		// 600 + 450 inserts cross the trigger in the second batch
		var fixed []jsonBatch
		for _, n := range []int{600, 450} {
			jb := jsonBatch{Kind: "insert"}
			for i := 0; i < n; i++ {
				var u uuid.UUID
				x, y := r.U64(), r.U64()
				for k := 0; k < 8; k++ {
					u[k], u[8+k] = byte(x>>(8*k)), byte(y>>(8*k))
				}
				jb.Changes = append(jb.Changes, jsonChange{Id: u.String(), Vec: map[string][]float32{"v0": c04lib.RandVec(r, cfgs[0])}})
			}
			fixed = append(fixed, jb)
		}
		rn.history(hd, cfgs, 5, 6, 2, fixed)
		os.RemoveAll(hd)
	}
	o.Stats["stored-vectors-rewritten-by-kmeans(unobservable)"] = kmeansRewrites
	o.Close(map[string]any{"rule": "distinct op lines whose answer depends on the store / index state (fit, flush, foreach, exists, open, search)"})
}

// ---------------------------------------------------------------- replay

func doReplay(path string) {
	data, err := os.ReadFile(path)
	if err != nil {
		panic(err)
	}
	stores := map[string]*storeH{}
	for _, line := range strings.Split(string(data), "\n") {
		line = strings.TrimSpace(line)
		if line == "" || strings.HasPrefix(line, "#") {
			continue
		}
		f := strings.Fields(line)
		switch {
		case f[0] == "shardcase":
			replayShard(f[1])
		case f[0] == "new" && len(f) >= 6:
			fmt.Println(execNew(stores, line))
		case f[0] == "search" || f[0] == "new":
			fmt.Println("(model-only line)")
		default:
			if _, ok := stores[f[1]]; !ok {
				fmt.Println("(no such store in this replay)")
				continue
			}
			fmt.Println(execStore(stores, line))
		}
	}
}

func replayShard(b64 string) {
	j, err := base64.StdEncoding.DecodeString(b64)
	if err != nil {
		panic(err)
	}
	var rc struct {
		Case  histCase
		Query *flatQuery
		What  string
	}
	if err := json.Unmarshal(j, &rc); err != nil {
		panic(err)
	}
	tmp, _ := os.MkdirTemp("", "c04r-")
	defer os.RemoveAll(tmp)
	sim := c04lib.NewSim(tmp, schemaOf(rc.Case.Cfgs), []string{"live", "disabled", "evicting"})
	defer sim.Close()
	var sb strings.Builder
	for i, c := range rc.Case.Cfgs {
		fmt.Fprintf(&sb, "index v%d: %s; ", i, c)
	}
	for _, jb := range rc.Case.Batches {
		if _, _, err := sim.Apply(jb.toBatch()); err != nil {
			fmt.Fprintf(&sb, "batch %s rejected: %v; ", jb.Kind, err)
		}
	}
	fmt.Fprintf(&sb, "%d batches, %d live points; ", len(rc.Case.Batches), len(sim.Order))
	if rc.Query != nil {
		q := *rc.Query
		var cfg c04lib.FlatCfg
		for _, c := range rc.Case.Cfgs {
			if c.Prop == q.Prop {
				cfg = c
			}
		}
		nodes := c04lib.NodeIds(c04lib.DumpBucket(sim.Live(), c04lib.PointsBucket))
		cands, _, _ := candidates(sim, cfg, c04lib.DumpBucket(sim.Live(), cfg.Bucket()), nodes, nodes, q)
		show := func(name string, hits []c04lib.Hit, err error) {
			if err != nil {
				fmt.Fprintf(&sb, "%s: error %v; ", name, err)
				return
			}
			why := c04lib.FlatOracle(q.Limit, q.Weight, cands, hits)
			if why == "" {
				why = "property holds"
			}
			fmt.Fprintf(&sb, "%s: %s [%s]; ", name, c04lib.FlatCanon(cands, hits), why)
		}
		fmt.Fprintf(&sb, "query on %s limit %d filter %q: ", q.Prop, q.Limit, q.Filter)
		h, e := c04lib.Search(sim.Live(), q.toQuery())
		show("warm", h, e)
		sh, done := sim.OpenCopy(-1)
		h, e = c04lib.Search(sh, q.toQuery())
		show("cold", h, e)
		done()
		for _, v := range sim.Variants[1:] {
			h, e = c04lib.Search(v.Shard, q.toQuery())
			show(v.Name, h, e)
		}
	}
	fmt.Println(sb.String())
}
