package main

// Generators: every random choice derives from the history's splitmix state.

import (
	"math"
	"strings"

	"github.com/google/uuid"
	"verifharness/vh"
)

var intPool = []int64{0, 1, -1, 2, 7, 42, 127, 128, 255, 256, -128, -129, 65535, 65536, math.MaxInt32, math.MinInt32, math.MaxInt64, math.MinInt64, math.MaxInt64 - 1, math.MinInt64 + 1}
var floatPool = []float64{0, 1, -1, 0.5, -0.5, 1.5, 3.14159, 1e-300, -1e-300, 1e300, -1e300, math.MaxFloat64, -math.MaxFloat64, math.SmallestNonzeroFloat64, math.Inf(1), math.Inf(-1), 2.2250738585072014e-308, 100, -100}
var strPool = []string{"a", "A", "ab", "aB", "b", "é", "É", "ß", "日本語", " x y ", "q\"uote", "back\\slash", "tab\tchar", "nul\u0000in", "_delete", "_DELETE", "_delete ", " _delete", "__delete", "delete", "_Delete",
	"a longer string value with several words in it", "<html>&amp;</html>", "line\nbreak", " sep", "0", "null", "true", "{\"json\":1}"}
var keyPool = []string{"a", "b", "c", "x", "y", "é", "k\"q", "_delete", "", " sp", "long_key_name_0123456789", "A", "ab", "a.b", "0", "_id", "tab\tk"}
var words = []string{"alpha", "beta", "gamma", "delta", "omega", "the", "quick", "brown", "fox", "Jumps", "OVER", "lazy", "dog", "über", "naïve", "42", "a-b", "x_y"}
var vecPool = []float32{0, 1, -1, 0.5, 2, -2.5, 100, 1e-3}

func genCfg(r *vh.Rng, h int, thorough bool) envCfg {
	c := envCfg{Backend: "bolt", Cache: -1}
	names := []string{"none", "inv", "inv", "text", "flat"}
	if thorough {
		names = append(names, "vamana", "inv")
	}
	c.Schema = names[h%len(names)]
	if r.Chance(18) {
		c.Backend = "mem"
	}
	if r.Chance(30) {
		c.Cache = 0
	}
	switch x := r.Intn(100); {
	case x < 50:
		c.Max = 1000
	case x < 85:
		c.Max = 200
	default:
		c.Max = 64
	}
	// boundary values of the identifier type are in every pool (vh.UuidPool): the nil uuid (the zero
	// value of uuid.UUID - what stray zero keys of a pre-sized slice or an unset field address), the
	// max uuid, ids one bit / one byte apart, ids that differ only in version / variant bits
	c.Pool = make([]uuid.UUID, 0, 12)
	for _, b := range vh.UuidPool(r, 12) {
		c.Pool = append(c.Pool, uuid.UUID(b))
	}
	return c
}

// percent of inserted points (and update items) that carry zero-length Data
var noDataPct = 1

type gen struct {
	r   *vh.Rng
	cfg envCfg
	sd  schemaDef
}

func (g *gen) str() string {
	if g.r.Chance(15) {
		n := 1 + g.r.Intn(40)
		var sb strings.Builder
		for i := 0; i < n; i++ {
			sb.WriteByte(byte('a' + g.r.Intn(26)))
		}
		return sb.String()
	}
	return vh.Pick(g.r, strPool)
}

func (g *gen) nonEmptyStr() string { return g.str() } // strPool holds no ""

func (g *gen) scalar() any {
	switch x := g.r.Intn(100); {
	case x < 28:
		if g.r.Chance(40) {
			return int64(g.r.U64() >> uint(g.r.Intn(64)))
		}
		return vh.Pick(g.r, intPool)
	case x < 48:
		return vh.Pick(g.r, floatPool)
	case x < 82:
		if g.r.Chance(6) {
			return ""
		}
		return g.str()
	case x < 90:
		return g.r.Bool()
	default:
		return nil
	}
}

func (g *gen) value(depth int) any {
	x := g.r.Intn(100)
	switch {
	case x < 72 || depth >= 2:
		return g.scalar()
	case x < 86:
		n := g.r.Intn(4)
		arr := make([]any, n)
		for i := range arr {
			arr[i] = g.value(depth + 1)
		}
		return arr
	default:
		n := g.r.Intn(4)
		m := map[string]any{}
		for i := 0; i < n; i++ {
			m[vh.Pick(g.r, keyPool)] = g.value(depth + 1)
		}
		return m
	}
}

// top-level field names that are free for arbitrary values under this schema
func (g *gen) freeKey() string {
	for {
		k := vh.Pick(g.r, keyPool)
		clash := false
		for _, f := range g.sd.fields {
			if strings.Split(f.path, ".")[0] == k {
				clash = true
			}
		}
		if k == "o" || k == "pad" {
			clash = true
		}
		if !clash {
			return k
		}
	}
}

// a value for an indexed field; ill=true gives one the index refuses
func (g *gen) indexedValue(typ string, ill bool) any {
	if ill {
		switch typ {
		case "string", "text":
			return vh.Pick(g.r, []any{int64(5), 1.5, []any{"x"}, true})
		case "integer":
			return vh.Pick(g.r, []any{"seven", 1.5, []any{int64(1)}})
		case "float":
			return vh.Pick(g.r, []any{int64(3), "1.5", true})
		case "stringArray":
			return vh.Pick(g.r, []any{"notarray", []any{int64(1)}, []any{"ok", 2.5}, int64(9)})
		default:
			return vh.Pick(g.r, []any{"notavector", []any{"x", "y"}, int64(3)})
		}
	}
	switch typ {
	case "string":
		return g.nonEmptyStr()
	case "text":
		n := 1 + g.r.Intn(6)
		ws := make([]string, n)
		for i := range ws {
			ws[i] = vh.Pick(g.r, words)
		}
		return strings.Join(ws, " ")
	case "integer":
		if g.r.Chance(50) {
			return vh.Pick(g.r, intPool)
		}
		return int64(g.r.Intn(20)) - 5
	case "float":
		return vh.Pick(g.r, floatPool)
	case "stringArray":
		n := g.r.Intn(4)
		arr := make([]any, n)
		for i := range arr {
			arr[i] = g.nonEmptyStr()
		}
		return arr
	default:
		return []any{vh.Pick(g.r, vecPool), vh.Pick(g.r, vecPool)}
	}
}

// putIndexed sets the (possibly nested) indexed field
func (g *gen) putIndexed(doc map[string]any, f fieldSpec, ill bool) {
	parts := strings.Split(f.path, ".")
	if len(parts) == 1 {
		doc[f.path] = g.indexedValue(f.typ, ill)
		return
	}
	if ill && g.r.Bool() {
		doc[parts[0]] = vh.Pick(g.r, []any{int64(1), "str", nil, []any{}}) // cannot descend
		return
	}
	m := map[string]any{parts[1]: g.indexedValue(f.typ, ill)}
	if g.r.Chance(40) {
		m["z"] = g.scalar()
	}
	doc[parts[0]] = m
}

func (g *gen) insertDoc(allowIll bool) map[string]any {
	doc := map[string]any{}
	if g.r.Chance(12) {
		return doc // the empty document {}
	}
	n := g.r.Intn(5)
	for i := 0; i < n; i++ {
		doc[g.freeKey()] = g.value(0)
	}
	for _, f := range g.sd.fields {
		if g.r.Chance(55) {
			g.putIndexed(doc, f, allowIll && g.r.Chance(4))
		} else if g.r.Chance(5) && !strings.Contains(f.path, ".") {
			doc[f.path] = nil
		}
	}
	return doc
}

func sortedKeys(m map[string]any) []string {
	ks := make([]string, 0, len(m))
	for k := range m {
		ks = append(ks, k)
	}
	// insertion sort, tiny maps; keeps generation independent of Go's map order
	for i := 1; i < len(ks); i++ {
		for j := i; j > 0 && ks[j] < ks[j-1]; j-- {
			ks[j], ks[j-1] = ks[j-1], ks[j]
		}
	}
	return ks
}

// updateDoc: fields to merge into `cur` (nil when the target is unknown)
func (g *gen) updateDoc(cur map[string]any, allowIll bool) map[string]any {
	inc := map[string]any{}
	if g.r.Chance(8) {
		return inc
	}
	n := 1 + g.r.Intn(4)
	curKeys := sortedKeys(cur)
	for i := 0; i < n; i++ {
		var k string
		var spec *fieldSpec
		if len(curKeys) > 0 && g.r.Chance(50) {
			k = vh.Pick(g.r, curKeys) // a present key
		} else if len(g.sd.fields) > 0 && g.r.Chance(40) {
			f := vh.Pick(g.r, g.sd.fields)
			spec = &f
			k = strings.Split(f.path, ".")[0]
		} else {
			k = g.freeKey() // mostly an absent key
		}
		for _, f := range g.sd.fields {
			if strings.Split(f.path, ".")[0] == k {
				ff := f
				spec = &ff
			}
		}
		switch {
		case g.r.Chance(35):
			inc[k] = deleteValue
		case spec != nil:
			g.putIndexed(inc, *spec, allowIll && g.r.Chance(5))
		default:
			inc[k] = g.value(0)
		}
	}
	return inc
}

// padTo adds a "pad" string so that the merged document has exactly `target` msgpack bytes (if reachable)
func padTo(cur, inc map[string]any, target int) {
	for L := 0; L < 6; L++ {
		inc["pad"] = ""
		base := msgpackLen(mergeDocs(cur, inc))
		need := target - base
		if need < 0 {
			delete(inc, "pad")
			return
		}
		// the string header grows at 32 / 256 bytes: try the three candidates
		for _, adj := range []int{0, 1, 2, 3} {
			n := need - adj
			if n < 0 {
				continue
			}
			inc["pad"] = strings.Repeat("p", n)
			if msgpackLen(mergeDocs(cur, inc)) == target {
				return
			}
		}
	}
}

func (g *gen) liveIds(sp *spec) (live, dead []uuid.UUID) {
	for _, u := range g.cfg.Pool {
		if _, ok := sp.m[u]; ok {
			live = append(live, u)
		} else {
			dead = append(dead, u)
		}
	}
	return
}

func (g *gen) genOnce(sp *spec) op {
	live, dead := g.liveIds(sp)
	r := g.r
	x := r.Intn(100)
	switch {
	case len(live) == 0 && x < 85, x < 34:
		// ---------------- insert
		n := r.Intn(7)
		if r.Chance(6) {
			n = 0
		}
		mode := r.Intn(100) // <76 clean, <84 repeated id, <96 existing id, else anything
		var items []item
		for i := 0; i < n; i++ {
			var u uuid.UUID
			switch {
			case mode < 84 && len(dead) > 0:
				j := r.Intn(len(dead))
				u = dead[j]
				dead = append(dead[:j:j], dead[j+1:]...)
			case mode < 84:
				continue
			default:
				u = vh.Pick(r, g.cfg.Pool)
			}
			it := item{Id: u, Doc: g.insertDoc(true)}
			if r.Chance(noDataPct) {
				it = item{Id: u, NoData: true}
			}
			items = append(items, it)
		}
		if mode >= 76 && mode < 84 && len(items) > 0 {
			d := items[r.Intn(len(items))]
			d.Doc = g.insertDoc(false)
			items = append(items, d) // an id repeated in the batch
			if r.Bool() {
				j := r.Intn(len(items))
				items[j], items[len(items)-1] = items[len(items)-1], items[j]
			}
		}
		if mode >= 84 && mode < 96 && len(live) > 0 {
			it := item{Id: vh.Pick(r, live), Doc: g.insertDoc(false)}
			j := r.Intn(len(items) + 1)
			items = append(items[:j:j], append([]item{it}, items[j:]...)...)
		}
		return op{Kind: "insert", Items: items}
	case x < 74:
		// ---------------- update
		n := r.Intn(7)
		var items []item
		work := sp.clone() // so that a second update of the same id sees the first
		for i := 0; i < n; i++ {
			var u uuid.UUID
			switch y := r.Intn(100); {
			case y < 62 && len(live) > 0:
				u = vh.Pick(r, live)
			case y < 75 && len(items) > 0:
				u = items[r.Intn(len(items))].Id // repeated in the batch
			default:
				u = vh.Pick(r, g.cfg.Pool)
			}
			e, known := work.m[u]
			var cur map[string]any
			if known && !e.noData {
				cur = e.doc
			}
			it := item{Id: u, Doc: g.updateDoc(cur, true)}
			if known && cur != nil && r.Chance(14) {
				padTo(cur, it.Doc, g.cfg.Max+r.Intn(3)-1) // max-1, max, max+1
			}
			if r.Chance((noDataPct + 1) / 2) {
				it = item{Id: u, NoData: true}
			}
			if known && cur != nil && !it.NoData {
				work.m[u] = specEntry{doc: mergeDocs(cur, it.Doc)}
			}
			items = append(items, it)
		}
		return op{Kind: "update", Items: items}
	default:
		// ---------------- delete
		n := r.Intn(7)
		var ids []uuid.UUID
		for i := 0; i < n; i++ {
			switch y := r.Intn(100); {
			case y < 55 && len(live) > 0:
				ids = append(ids, vh.Pick(r, live))
			case y < 65 && len(ids) > 0:
				ids = append(ids, ids[r.Intn(len(ids))])
			default:
				ids = append(ids, vh.Pick(r, g.cfg.Pool))
			}
		}
		return op{Kind: "delete", Ids: ids}
	}
}

// genOp: on the memory backend (no rollback, no way to copy the state into a child) batches that
// the spec rejects inside the transaction are not run
func (g *gen) genOp(sp *spec) (op, bool) {
	for try := 0; try < 6; try++ {
		o := g.genOnce(sp)
		if g.cfg.Backend == "mem" {
			if sr := sp.step(g.cfg, o); isRejected(sr.out) && sr.inTx {
				continue
			}
		}
		return o, true
	}
	return op{}, false
}
