package main

// Canonical text of documents and values (shared by the op lines sent to the Lean driver, the
// implementation's answers and the child / replay parsers).
//
//   value  = null | true | false | <decimal int> | f64:<16 hex> | f32:<8 hex> | bin:<hex>
//          | <JSON string> | [v,…] | {"k":v,…}
//   object keys are sorted by their JSON token (byte order); floats appear only as bit patterns.

import (
	"bytes"
	"encoding/hex"
	"encoding/json"
	"fmt"
	"math"
	"sort"
	"strconv"
	"strings"
)

func jsonStr(s string) string {
	var b bytes.Buffer
	e := json.NewEncoder(&b)
	e.SetEscapeHTML(false)
	if err := e.Encode(s); err != nil {
		panic(err)
	}
	return strings.TrimSuffix(b.String(), "\n")
}

func renderVal(v any) string {
	switch x := v.(type) {
	case nil:
		return "null"
	case bool:
		if x {
			return "true"
		}
		return "false"
	case int:
		return strconv.FormatInt(int64(x), 10)
	case int8:
		return strconv.FormatInt(int64(x), 10)
	case int16:
		return strconv.FormatInt(int64(x), 10)
	case int32:
		return strconv.FormatInt(int64(x), 10)
	case int64:
		return strconv.FormatInt(x, 10)
	case uint8:
		return strconv.FormatUint(uint64(x), 10)
	case uint16:
		return strconv.FormatUint(uint64(x), 10)
	case uint32:
		return strconv.FormatUint(uint64(x), 10)
	case uint64:
		return strconv.FormatUint(x, 10)
	case float64:
		return fmt.Sprintf("f64:%016x", math.Float64bits(x))
	case float32:
		return fmt.Sprintf("f32:%08x", math.Float32bits(x))
	case string:
		return jsonStr(x)
	case []byte:
		return "bin:" + hex.EncodeToString(x)
	case []any:
		parts := make([]string, len(x))
		for i, e := range x {
			parts[i] = renderVal(e)
		}
		return "[" + strings.Join(parts, ",") + "]"
	case map[string]any:
		return renderDoc(x)
	}
	return fmt.Sprintf("\"?%T\"", v)
}

func renderDoc(m map[string]any) string {
	type kv struct{ k, v string }
	kvs := make([]kv, 0, len(m))
	for k, v := range m {
		kvs = append(kvs, kv{jsonStr(k), renderVal(v)})
	}
	sort.Slice(kvs, func(i, j int) bool { return kvs[i].k < kvs[j].k })
	parts := make([]string, len(kvs))
	for i, e := range kvs {
		parts[i] = e.k + ":" + e.v
	}
	return "{" + strings.Join(parts, ",") + "}"
}

// ---------------------------------------------------------------- parser (child / replay)

type parser struct {
	s string
	i int
}

func (p *parser) fail(what string) error {
	return fmt.Errorf("parse error at %d (%s) in %.80q", p.i, what, p.s)
}

func (p *parser) peek() byte {
	if p.i < len(p.s) {
		return p.s[p.i]
	}
	return 0
}

func (p *parser) str() (string, error) {
	if p.peek() != '"' {
		return "", p.fail("string")
	}
	j := p.i + 1
	for j < len(p.s) {
		if p.s[j] == '\\' {
			j += 2
			continue
		}
		if p.s[j] == '"' {
			break
		}
		j++
	}
	if j >= len(p.s) {
		return "", p.fail("unterminated string")
	}
	var out string
	if err := json.Unmarshal([]byte(p.s[p.i:j+1]), &out); err != nil {
		return "", p.fail(err.Error())
	}
	p.i = j + 1
	return out, nil
}

func (p *parser) value() (any, error) {
	switch c := p.peek(); {
	case c == '"':
		return p.str()
	case c == '[':
		p.i++
		out := []any{}
		if p.peek() == ']' {
			p.i++
			return out, nil
		}
		for {
			v, err := p.value()
			if err != nil {
				return nil, err
			}
			out = append(out, v)
			if p.peek() == ',' {
				p.i++
				continue
			}
			if p.peek() == ']' {
				p.i++
				return out, nil
			}
			return nil, p.fail("array")
		}
	case c == '{':
		return p.object()
	default:
		j := p.i
		for j < len(p.s) && p.s[j] != ',' && p.s[j] != '}' && p.s[j] != ']' {
			j++
		}
		tok := p.s[p.i:j]
		p.i = j
		switch {
		case tok == "null":
			return nil, nil
		case tok == "true":
			return true, nil
		case tok == "false":
			return false, nil
		case strings.HasPrefix(tok, "f64:"):
			u, err := strconv.ParseUint(tok[4:], 16, 64)
			if err != nil {
				return nil, p.fail("f64")
			}
			return math.Float64frombits(u), nil
		case strings.HasPrefix(tok, "f32:"):
			u, err := strconv.ParseUint(tok[4:], 16, 32)
			if err != nil {
				return nil, p.fail("f32")
			}
			return math.Float32frombits(uint32(u)), nil
		case strings.HasPrefix(tok, "bin:"):
			b, err := hex.DecodeString(tok[4:])
			if err != nil {
				return nil, p.fail("bin")
			}
			return b, nil
		default:
			n, err := strconv.ParseInt(tok, 10, 64)
			if err != nil {
				return nil, p.fail("literal " + tok)
			}
			return n, nil
		}
	}
}

func (p *parser) object() (map[string]any, error) {
	if p.peek() != '{' {
		return nil, p.fail("object")
	}
	p.i++
	out := map[string]any{}
	if p.peek() == '}' {
		p.i++
		return out, nil
	}
	for {
		k, err := p.str()
		if err != nil {
			return nil, err
		}
		if p.peek() != ':' {
			return nil, p.fail("colon")
		}
		p.i++
		v, err := p.value()
		if err != nil {
			return nil, err
		}
		out[k] = v
		if p.peek() == ',' {
			p.i++
			continue
		}
		if p.peek() == '}' {
			p.i++
			return out, nil
		}
		return nil, p.fail("object")
	}
}

func parseValue(s string) (any, error) {
	p := &parser{s: s}
	v, err := p.value()
	if err != nil {
		return nil, err
	}
	if p.i != len(s) {
		return nil, p.fail("trailing input")
	}
	return v, nil
}
