package main

// The real shard under test: construction, batch execution, canonical views and bucket dumps.

import (
	"bytes"
	"fmt"
	"os"
	"path/filepath"
	"sort"
	"strconv"
	"strings"
	"time"

	"github.com/google/uuid"
	"github.com/semafind/semadb/conversion"
	"github.com/semafind/semadb/diskstore"
	"github.com/semafind/semadb/models"
	"github.com/semafind/semadb/shard"
	"github.com/semafind/semadb/shard/cache"
	"github.com/vmihailenco/msgpack/v5"
)

// ---------------------------------------------------------------- index schemas

type fieldSpec struct {
	path string // dotted
	typ  string // string | integer | float | stringArray | text | vector
}

type schemaDef struct {
	name   string
	fields []fieldSpec
}

var schemas = map[string]schemaDef{
	"none": {name: "none"},
	"inv": {name: "inv", fields: []fieldSpec{{"s", "string"}, {"n", "integer"}, {"f", "float"}, {"tags", "stringArray"}, {"o.s", "string"}}},
	"text": {name: "text", fields: []fieldSpec{{"t", "text"}, {"s", "string"}}},
	"flat": {name: "flat", fields: []fieldSpec{{"v", "vector"}, {"n", "integer"}}},
	"vamana": {name: "vamana", fields: []fieldSpec{{"v", "vector"}, {"s", "string"}}},
}

func (sd schemaDef) indexSchema() models.IndexSchema {
	is := models.IndexSchema{}
	for _, f := range sd.fields {
		switch f.typ {
		case "string":
			is[f.path] = models.IndexSchemaValue{Type: models.IndexTypeString, String: &models.IndexStringParameters{CaseSensitive: f.path == "o.s"}}
		case "integer":
			is[f.path] = models.IndexSchemaValue{Type: models.IndexTypeInteger}
		case "float":
			is[f.path] = models.IndexSchemaValue{Type: models.IndexTypeFloat}
		case "stringArray":
			is[f.path] = models.IndexSchemaValue{Type: models.IndexTypeStringArray, StringArray: &models.IndexStringArrayParameters{}}
		case "text":
			is[f.path] = models.IndexSchemaValue{Type: models.IndexTypeText, Text: &models.IndexTextParameters{Analyser: "standard"}}
		case "vector":
			if sd.name == "vamana" {
				is[f.path] = models.IndexSchemaValue{Type: models.IndexTypeVectorVamana, VectorVamana: &models.IndexVectorVamanaParameters{
					VectorSize: 2, DistanceMetric: models.DistanceEuclidean, SearchSize: 75, DegreeBound: 64, Alpha: 1.2}}
			} else {
				is[f.path] = models.IndexSchemaValue{Type: models.IndexTypeVectorFlat, VectorFlat: &models.IndexVectorFlatParameters{
					VectorSize: 2, DistanceMetric: models.DistanceEuclidean}}
			}
		}
	}
	return is
}

// conforms: would every index of the schema accept this document? (the generator's own notion; the
// model takes it as the oracle bit `indexOk`, the real code is compared against it)
func (sd schemaDef) conforms(doc map[string]any) bool {
	for _, f := range sd.fields {
		parts := strings.Split(f.path, ".")
		var cur any = doc
		present := true
		for _, p := range parts {
			m, ok := cur.(map[string]any)
			if !ok {
				return false // msgpack Query cannot descend into a non-map: the dispatcher fails
			}
			v, ok := m[p]
			if !ok {
				present = false
				break
			}
			cur = v
		}
		if !present || cur == nil {
			continue
		}
		switch f.typ {
		case "string", "text":
			if _, ok := cur.(string); !ok {
				return false
			}
		case "integer":
			if _, ok := cur.(int64); !ok {
				return false
			}
		case "float":
			if _, ok := cur.(float64); !ok {
				return false
			}
		case "stringArray":
			arr, ok := cur.([]any)
			if !ok {
				return false
			}
			for _, e := range arr {
				if _, ok := e.(string); !ok {
					return false
				}
			}
		case "vector":
			arr, ok := cur.([]any)
			if !ok {
				return false
			}
			for _, e := range arr {
				if _, ok := e.(float32); !ok {
					return false
				}
			}
		}
	}
	return true
}

// ---------------------------------------------------------------- environment

type envCfg struct {
	Max     int
	Schema  string
	Backend string // bolt | mem
	Cache   int64  // -1 unlimited, 0 none
	Pool    []uuid.UUID
}

func (c envCfg) newLine() string {
	ids := make([]string, len(c.Pool))
	for i, u := range c.Pool {
		ids[i] = uq(u)
	}
	return fmt.Sprintf("new\t%d\t%s\t%s\t%d\t[%s]", c.Max, c.Schema, c.Backend, c.Cache, strings.Join(ids, ","))
}

func parseNewLine(line string) (envCfg, error) {
	f := strings.Split(line, "\t")
	if len(f) != 6 || f[0] != "new" {
		return envCfg{}, fmt.Errorf("bad new line: %q", line)
	}
	var c envCfg
	var err error
	if c.Max, err = strconv.Atoi(f[1]); err != nil {
		return c, err
	}
	c.Schema, c.Backend = f[2], f[3]
	if c.Cache, err = strconv.ParseInt(f[4], 10, 64); err != nil {
		return c, err
	}
	if c.Pool, err = parseIds(f[5]); err != nil {
		return c, err
	}
	if _, ok := schemas[c.Schema]; !ok {
		return c, fmt.Errorf("unknown schema %q", c.Schema)
	}
	return c, nil
}

func (c envCfg) collection() models.Collection {
	return models.Collection{UserId: "verif", Id: "c01", Replicas: 1,
		IndexSchema: schemas[c.Schema].indexSchema(),
		UserPlan:    models.UserPlan{Name: "verif", MaxCollections: 1, MaxCollectionPointCount: 1 << 30, MaxPointSize: c.Max}}
}

func openShard(c envCfg, dbPath string) (*shard.Shard, error) {
	var cm *cache.Manager
	if c.Cache != 0 {
		cm = cache.NewManager(c.Cache)
	}
	return shard.NewShard(dbPath, c.collection(), cm)
}

func uq(u uuid.UUID) string { return "\"" + u.String() + "\"" }

func parseIds(s string) ([]uuid.UUID, error) {
	v, err := parseValue(s)
	if err != nil {
		return nil, err
	}
	arr, ok := v.([]any)
	if !ok {
		return nil, fmt.Errorf("id list expected: %q", s)
	}
	out := make([]uuid.UUID, len(arr))
	for i, e := range arr {
		str, ok := e.(string)
		if !ok {
			return nil, fmt.Errorf("id string expected")
		}
		if out[i], err = uuid.Parse(str); err != nil {
			return nil, err
		}
	}
	return out, nil
}

// ---------------------------------------------------------------- ops

type item struct {
	Id     uuid.UUID
	Doc    map[string]any
	NoData bool // zero-length Data
}

type op struct {
	Kind  string // insert | update | delete
	Items []item
	Ids   []uuid.UUID
}

func (it item) data() []byte {
	if it.NoData {
		return nil
	}
	m := it.Doc
	if m == nil {
		m = map[string]any{}
	}
	b, err := msgpack.Marshal(m)
	if err != nil {
		panic(err)
	}
	return b
}

func renderBatch(items []item) string {
	parts := make([]string, len(items))
	for i, it := range items {
		d := "null"
		if !it.NoData {
			d = renderDoc(it.Doc)
		}
		parts[i] = "{\"id\":" + uq(it.Id) + ",\"doc\":" + d + "}"
	}
	return "[" + strings.Join(parts, ",") + "]"
}

func renderIds(ids []uuid.UUID) string {
	parts := make([]string, len(ids))
	for i, u := range ids {
		parts[i] = uq(u)
	}
	return "[" + strings.Join(parts, ",") + "]"
}

func renderNats(ns []uint64) string {
	parts := make([]string, len(ns))
	for i, n := range ns {
		parts[i] = strconv.FormatUint(n, 10)
	}
	return "[" + strings.Join(parts, ",") + "]"
}

func parseBatch(s string) ([]item, error) {
	v, err := parseValue(s)
	if err != nil {
		return nil, err
	}
	arr, ok := v.([]any)
	if !ok {
		return nil, fmt.Errorf("batch expected")
	}
	out := make([]item, len(arr))
	for i, e := range arr {
		m, ok := e.(map[string]any)
		if !ok {
			return nil, fmt.Errorf("batch item expected")
		}
		ids, _ := m["id"].(string)
		if out[i].Id, err = uuid.Parse(ids); err != nil {
			return nil, err
		}
		switch d := m["doc"].(type) {
		case nil:
			out[i].NoData = true
		case map[string]any:
			out[i].Doc = d
		default:
			return nil, fmt.Errorf("doc expected")
		}
	}
	return out, nil
}

// parseOpLine reads an insert / update / delete line; oracle fields are ignored (they are outputs
// of an execution, not inputs).
func parseOpLine(line string) (op, error) {
	f := strings.Split(line, "\t")
	switch f[0] {
	case "insert", "update":
		if len(f) < 2 {
			return op{}, fmt.Errorf("bad line")
		}
		items, err := parseBatch(f[1])
		return op{Kind: f[0], Items: items}, err
	case "delete":
		if len(f) < 2 {
			return op{}, fmt.Errorf("bad line")
		}
		ids, err := parseIds(f[1])
		return op{Kind: "delete", Ids: ids}, err
	}
	return op{}, fmt.Errorf("not a batch line: %q", line)
}

// ---------------------------------------------------------------- executing a batch on the real shard

type execResult struct {
	Out     string // canonical: ok | rejected:<kind> | updated:[…] | deleted:[…sorted…]
	Err     string // raw error text
	Deleted []uuid.UUID
	TimedOut bool
}

func errKind(err error) string {
	s := err.Error()
	switch {
	case strings.Contains(s, "duplicate point id"):
		return "dup-in-batch"
	case strings.Contains(s, "point already exists"):
		return "exists"
	case strings.Contains(s, "point size exceeds limit"):
		return "too-large"
	case strings.Contains(s, "could not unmarshal old data"):
		return "bad-old"
	case strings.Contains(s, "could not unmarshal new data"):
		return "bad-new"
	case strings.Contains(s, "point count cannot be negative"):
		return "storage"
	case strings.Contains(s, "point does not exist"):
		return "not-found"
	case strings.Contains(s, "could not complete"):
		return "index" // the pipeline failed on the index side (dispatcher / drain function)
	}
	return "other"
}

func execOnShard(s *shard.Shard, o op, timeout time.Duration) execResult {
	done := make(chan execResult, 1)
	go func() {
		defer func() {
			if r := recover(); r != nil {
				done <- execResult{Out: "panic", Err: fmt.Sprint(r)}
			}
		}()
		switch o.Kind {
		case "insert":
			pts := make([]models.Point, len(o.Items))
			for i, it := range o.Items {
				pts[i] = models.Point{Id: it.Id, Data: it.data()}
			}
			if err := s.InsertPoints(pts); err != nil {
				done <- execResult{Out: "rejected:" + errKind(err), Err: err.Error()}
				return
			}
			done <- execResult{Out: "ok"}
		case "update":
			pts := make([]models.Point, len(o.Items))
			for i, it := range o.Items {
				pts[i] = models.Point{Id: it.Id, Data: it.data()}
			}
			ids, err := s.UpdatePoints(pts)
			if err != nil {
				done <- execResult{Out: "rejected:" + errKind(err), Err: err.Error()}
				return
			}
			done <- execResult{Out: "updated:" + renderIds(ids)}
		case "delete":
			set := make(map[uuid.UUID]struct{}, len(o.Ids))
			for _, u := range o.Ids {
				set[u] = struct{}{}
			}
			ids, err := s.DeletePoints(set)
			if err != nil {
				done <- execResult{Out: "rejected:" + errKind(err), Err: err.Error()}
				return
			}
			sorted := append([]uuid.UUID{}, ids...)
			sort.Slice(sorted, func(i, j int) bool { return sorted[i].String() < sorted[j].String() })
			done <- execResult{Out: "deleted:" + renderIds(sorted), Deleted: ids}
		}
	}()
	select {
	case r := <-done:
		return r
	case <-time.After(timeout):
		return execResult{Out: "timeout", TimedOut: true}
	}
}

// ---------------------------------------------------------------- views of the real shard

func renderPoint(id uuid.UUID, data []byte) string {
	d := "null"
	if len(data) > 0 {
		var m map[string]any
		if err := msgpack.Unmarshal(data, &m); err != nil {
			d = "\"?undecodable\""
		} else if m == nil {
			d = "\"?nil-map\""
		} else {
			d = renderDoc(m)
		}
	}
	return "{\"id\":" + uq(id) + ",\"doc\":" + d + "}"
}

// viewOf: `_id containsAny ids`, select ["*"], plus Info().PointCount
func viewOf(s *shard.Shard, ids []uuid.UUID) string {
	vals := make([]string, len(ids))
	for i, u := range ids {
		vals[i] = u.String()
	}
	res, err := s.SearchPoints(models.SearchRequest{
		Query:  models.Query{Property: "_id", StringArray: &models.SearchStringArrayOptions{Value: vals, Operator: models.OperatorContainsAny}},
		Select: []string{"*"},
	})
	if err != nil {
		return "error:" + err.Error()
	}
	info, err := s.Info()
	if err != nil {
		return "error:" + err.Error()
	}
	sort.Slice(res, func(i, j int) bool { return res[i].Point.Id.String() < res[j].Point.Id.String() })
	parts := make([]string, len(res))
	for i, r := range res {
		parts[i] = renderPoint(r.Point.Id, r.Point.Data)
	}
	return fmt.Sprintf("count=%d [%s]", info.PointCount, strings.Join(parts, ","))
}

// readOf: `_id equals id`, select ["*"]
func readOf(s *shard.Shard, id uuid.UUID) string {
	res, err := s.SearchPoints(models.SearchRequest{
		Query:  models.Query{Property: "_id", String: &models.SearchStringOptions{Value: id.String(), Operator: models.OperatorEquals}},
		Select: []string{"*"},
	})
	if err != nil {
		return "error:" + err.Error()
	}
	if len(res) == 0 {
		return "none"
	}
	if len(res) > 1 {
		return fmt.Sprintf("error:%d results", len(res))
	}
	return "found " + renderPoint(res[0].Point.Id, res[0].Point.Data)
}

type dump struct {
	nI    map[uint64]uuid.UUID
	nD    map[uint64][]byte
	pI    map[uuid.UUID]uint64
	other []string
	count *uint64
	free  []uint64
	hasFree bool
	next  *uint64
}

func dumpOf(s *shard.Shard) (dump, error) {
	d := dump{nI: map[uint64]uuid.UUID{}, nD: map[uint64][]byte{}, pI: map[uuid.UUID]uint64{}}
	err := s.VerifDB().Read(func(bm diskstore.BucketManager) error {
		b, err := bm.Get("points")
		if err != nil {
			return err
		}
		err = b.ForEach(func(k, v []byte) error {
			k = bytes.Clone(k)
			v = bytes.Clone(v)
			if id, ok := conversion.NodeIdFromKey(k, 'i'); ok && len(v) == 16 {
				u, _ := uuid.FromBytes(v)
				d.nI[id] = u
			} else if id, ok := conversion.NodeIdFromKey(k, 'd'); ok {
				d.nD[id] = v
			} else if len(k) == 18 && k[0] == 'p' && k[17] == 'i' && len(v) == 8 {
				u, _ := uuid.FromBytes(k[1:17])
				d.pI[u] = conversion.BytesToUint64(v)
			} else {
				d.other = append(d.other, fmt.Sprintf("%x=%x", k, v))
			}
			return nil
		})
		if err != nil {
			return err
		}
		bi, err := bm.Get("internal")
		if err != nil {
			return err
		}
		return bi.ForEach(func(k, v []byte) error {
			v = bytes.Clone(v)
			switch string(k) {
			case "pointCount":
				n := conversion.BytesToUint64(v)
				d.count = &n
			case "nextFreeNodeId":
				n := conversion.BytesToUint64(v)
				d.next = &n
			case "freeNodeIds":
				d.hasFree = true
				d.free = conversion.BytesToEdgeList(v)
			default:
				d.other = append(d.other, fmt.Sprintf("internal:%x=%x", k, v))
			}
			return nil
		})
	})
	return d, err
}

func (d dump) String() string {
	ids := make([]uint64, 0, len(d.nI))
	for id := range d.nI {
		ids = append(ids, id)
	}
	sort.Slice(ids, func(i, j int) bool { return ids[i] < ids[j] })
	nI := make([]string, len(ids))
	for i, id := range ids {
		nI[i] = fmt.Sprintf("%d:%s", id, uq(d.nI[id]))
	}
	ids = ids[:0]
	for id := range d.nD {
		ids = append(ids, id)
	}
	sort.Slice(ids, func(i, j int) bool { return ids[i] < ids[j] })
	nD := make([]string, len(ids))
	for i, id := range ids {
		var m map[string]any
		if err := msgpack.Unmarshal(d.nD[id], &m); err != nil || m == nil {
			nD[i] = fmt.Sprintf("%d:\"?undecodable %x\"", id, d.nD[id])
		} else {
			nD[i] = fmt.Sprintf("%d:%s", id, renderDoc(m))
		}
	}
	us := make([]uuid.UUID, 0, len(d.pI))
	for u := range d.pI {
		us = append(us, u)
	}
	sort.Slice(us, func(i, j int) bool { return us[i].String() < us[j].String() })
	pI := make([]string, len(us))
	for i, u := range us {
		pI[i] = fmt.Sprintf("%s:%d", uq(u), d.pI[u])
	}
	optN := func(p *uint64) string {
		if p == nil {
			return "-"
		}
		return strconv.FormatUint(*p, 10)
	}
	free := "-"
	if d.hasFree {
		free = renderNats(d.free)
	}
	s := fmt.Sprintf("nI=[%s] nD=[%s] pI=[%s] count=%s free=%s next=%s", strings.Join(nI, ","), strings.Join(nD, ","), strings.Join(pI, ","), optN(d.count), free, optN(d.next))
	if len(d.other) > 0 {
		sort.Strings(d.other)
		s += " other=[" + strings.Join(d.other, ",") + "]"
	}
	return s
}

func stateOf(s *shard.Shard) string {
	d, err := dumpOf(s)
	if err != nil {
		return "error:" + err.Error()
	}
	return d.String()
}

func copyFile(src, dst string) error {
	b, err := os.ReadFile(src)
	if err != nil {
		return err
	}
	if err := os.MkdirAll(filepath.Dir(dst), 0o755); err != nil {
		return err
	}
	return os.WriteFile(dst, b, 0o644)
}
