// C01 correspondence harness: random histories of insert / update / delete batches on a real shard
// (bbolt file in a temp dir, or the in-memory backend), compared after every batch with
//   * the Lean model (op result, full bucket dump in the model's symbolic keys) and the Lean spec
//     (select-all view, reads by id, point count) through ops.txt / impl.txt, and
//   * the Go transcription of the spec (the property oracle: a mismatch is an `oracle_failure`
//     with a concrete replay).
//
// Process structure (a rejected batch can crash the process, DESIGN.md section 8 no. 4):
//   supervisor  (no shard code runs here)  — one `worker` process per history
//   worker      runs one history; every batch the spec rejects inside the write transaction is
//               executed by a `child` process on a copy of the db file, with a timeout
//   child       one batch on a copy; prints result, dump and view
//
// flags: -seed N -out DIR [-hist H] [-batches B] [-thorough]   |   -replay FILE
package main

import (
	"bufio"
	"bytes"
	"encoding/json"
	"flag"
	"fmt"
	"os"
	"os/exec"
	"path/filepath"
	"sort"
	"strings"
	"time"

	"github.com/google/uuid"
	"github.com/rs/zerolog"
	"github.com/semafind/semadb/shard"
	"verifharness/vh"
)

// ---------------------------------------------------------------- records (worker → supervisor)

type record struct {
	T      string `json:"t"` // emit | begin | fail | stat | done
	Kind   string `json:"kind,omitempty"`
	Op     string `json:"op,omitempty"`
	Impl   string `json:"impl,omitempty"`
	NT     bool   `json:"nt,omitempty"`
	Sig    string `json:"sig,omitempty"`
	What   string `json:"what,omitempty"`
	Replay string `json:"replay,omitempty"`
	K      string `json:"k,omitempty"`
	N      int    `json:"n,omitempty"`
}

type recorder interface {
	put(r record)
}

type stdoutRecorder struct{ w *os.File }

func (s stdoutRecorder) put(r record) {
	b, _ := json.Marshal(r)
	s.w.Write(append(b, '\n'))
}

// replayRecorder prints only the implementation's answers, one per op line
type replayRecorder struct{}

func (replayRecorder) put(r record) {
	switch r.T {
	case "emit":
		fmt.Println(r.Impl)
	case "fail":
		b, _ := json.Marshal(map[string]string{"oracle_failure": r.Sig, "what": r.What})
		fmt.Println(string(b)) // lines starting with '{' are skipped by the runner
	}
}

// ---------------------------------------------------------------- session: one history on one shard

type session struct {
	cfg     envCfg
	dir     string
	dbPath  string
	sh      *shard.Shard
	sp      *spec
	lines   []string
	rec     recorder
	exe     string
	aborted bool
	replay  bool
}

func (s *session) stat(k string) { s.rec.put(record{T: "stat", K: k, N: 1}) }

func (s *session) emit(kind, opLine, impl string, nt bool) {
	if kind == "insert" || kind == "update" || kind == "delete" {
		// the real verdict, to be compared with the INDEPENDENT predicate the driver evaluates on the
		// reference map (`StoreAcceptable` of lean/SemaModel/C01/AcceptModel.lean and the index bit)
		impl += " acc=" + b01(!isRejected(impl) && impl != "timeout" && impl != "panic")
	}
	s.lines = append(s.lines, opLine)
	s.rec.put(record{T: "emit", Kind: kind, Op: opLine, Impl: impl, NT: nt})
}

func (s *session) fail(sig, what string, extra ...string) {
	lines := append(append([]string{}, s.lines...), extra...)
	s.rec.put(record{T: "fail", Sig: sig, What: what, Replay: strings.Join(lines, "\n")})
	s.aborted = true
}

func newSession(cfg envCfg, rec recorder, exe string) (*session, error) {
	dir, err := os.MkdirTemp("", "c01-")
	if err != nil {
		return nil, err
	}
	s := &session{cfg: cfg, dir: dir, rec: rec, exe: exe, sp: newSpec()}
	if cfg.Backend == "bolt" {
		s.dbPath = filepath.Join(dir, "sharddb.bbolt")
	}
	if s.sh, err = openShard(cfg, s.dbPath); err != nil {
		return nil, err
	}
	s.emit("new", cfg.newLine(), "ok", false)
	return s, nil
}

func (s *session) close() {
	if s.sh != nil {
		done := make(chan struct{})
		go func() { s.sh.Close(); close(done) }()
		select {
		case <-done:
		case <-time.After(10 * time.Second):
		}
	}
	os.RemoveAll(s.dir)
}

type childOut struct {
	Result string `json:"result"`
	Err    string `json:"err"`
	State  string `json:"state"`
	View   string `json:"view"`
}

// runChild executes one batch line on a copy of the db file in a separate process
func (s *session) runChild(line string) (childOut, bool) {
	cp := filepath.Join(s.dir, "child", "sharddb.bbolt")
	os.RemoveAll(filepath.Dir(cp))
	if err := copyFile(s.dbPath, cp); err != nil {
		return childOut{}, false
	}
	cmd := exec.Command(s.exe, "-mode", "child", "-db", cp)
	cmd.Stdin = strings.NewReader(s.cfg.newLine() + "\n" + line + "\n")
	var out bytes.Buffer
	cmd.Stdout = &out
	if err := cmd.Start(); err != nil {
		return childOut{}, false
	}
	done := make(chan error, 1)
	go func() { done <- cmd.Wait() }()
	select {
	case <-done:
	case <-time.After(30 * time.Second):
		cmd.Process.Kill()
		<-done
		s.stat("child-timeout")
		return childOut{}, false
	}
	var co childOut
	for _, l := range strings.Split(out.String(), "\n") {
		if strings.HasPrefix(l, "CHILD ") {
			if json.Unmarshal([]byte(l[6:]), &co) == nil {
				return co, true
			}
		}
	}
	return childOut{}, false
}

func dedupIds(ids []uuid.UUID) []uuid.UUID {
	seen := map[uuid.UUID]bool{}
	var out []uuid.UUID
	for _, u := range ids {
		if !seen[u] {
			seen[u] = true
			out = append(out, u)
		}
	}
	return out
}

func b01(b bool) string {
	if b {
		return "1"
	}
	return "0"
}

func renderSizes(sz []sizeEntry) string {
	parts := make([]string, len(sz))
	for i, e := range sz {
		parts[i] = fmt.Sprintf("{\"doc\":%s,\"n\":%d}", e.doc, e.n)
	}
	return "[" + strings.Join(parts, ",") + "]"
}

// opLine builds the full op line (batch + oracles observed on the implementation)
func opLine(o op, sr specResult, freeOrder []uint64, iter []uuid.UUID) string {
	switch o.Kind {
	case "insert":
		return "insert\t" + renderBatch(o.Items) + "\t" + renderNats(freeOrder) + "\t" + b01(sr.idxOk)
	case "update":
		return "update\t" + renderBatch(o.Items) + "\t" + renderSizes(sr.sizes) + "\t" + b01(sr.idxOk)
	default:
		return "delete\t" + renderIds(o.Ids) + "\t" + renderNats(freeOrder) + "\t" + renderIds(iter) + "\t" + b01(sr.idxOk)
	}
}

func isRejected(out string) bool { return strings.HasPrefix(out, "rejected:") }

// canonKind: a batch with both a store-level reason and an index-level reason reports whichever
// goroutine fails first; the model reports the store-level one
func canonKind(real string, sr specResult) string {
	if isRejected(sr.out) && sr.out != "rejected:index" && real == "rejected:index" && sr.anyIll {
		return sr.out
	}
	return real
}

// execBatch runs one batch and everything that is compared after it. Returns false when the
// history cannot continue.
func (s *session) execBatch(o op) bool {
	sr := s.sp.step(s.cfg, o)
	pre, err := dumpOf(s.sh)
	if err != nil {
		s.fail("harness:dump", "could not dump the shard: "+err.Error())
		return false
	}
	nt := true
	if isRejected(sr.out) && sr.inTx && s.cfg.Backend == "bolt" {
		// ---- the spec rejects inside the transaction: isolate (hazard: goroutines outliving the rollback)
		line := opLine(o, sr, pre.free, dedupIds(o.Ids))
		co, ok := s.runChild(line)
		if !ok {
			s.stat("rejected-batch-child-crashed-or-timed-out")
			return true // C07's concern; the parent shard was not touched, the history goes on
		}
		s.stat("rejected-batch-run-in-child")
		res := canonKind(co.Result, sr)
		s.emit(o.Kind, line, res, nt)
		if !isRejected(res) {
			if sr.judged {
				s.fail(fmt.Sprintf("result:%s:spec=%s:impl=%s", o.Kind, kindOf(sr.out), kindOf(res)),
					fmt.Sprintf("%s batch must be rejected as a whole (%s) but the shard answered %q", o.Kind, sr.out, res))
			} else {
				s.aborted = true
			}
			return false
		}
		s.emit("state", "state", co.State, false)
		s.emit("view", "view\t"+renderIds(s.cfg.Pool), co.View, false)
		if want := s.sp.view(s.cfg.Pool); co.View != want && sr.judged {
			s.fail(fmt.Sprintf("state-after-rejected:%s:%s", o.Kind, kindOf(sr.out)),
				fmt.Sprintf("a rejected %s batch changed the stored state: expected %s got %s", o.Kind, want, co.View))
			return false
		}
		return true
	}
	// ---- run on the live shard
	prelim := opLine(o, sr, pre.free, dedupIds(o.Ids))
	s.rec.put(record{T: "begin", Op: prelim, Kind: sr.out})
	res := execOnShard(s.sh, o, 60*time.Second)
	if res.TimedOut || res.Out == "panic" {
		s.fail(fmt.Sprintf("result:%s:%s", o.Kind, res.Out), fmt.Sprintf("%s batch did not return (%s %s)", o.Kind, res.Out, res.Err), prelim)
		return false
	}
	post, err := dumpOf(s.sh)
	if err != nil {
		s.fail("harness:dump", "could not dump the shard: "+err.Error(), prelim)
		return false
	}
	freeOrder, iter := pre.free, dedupIds(o.Ids)
	if !isRejected(res.Out) {
		switch o.Kind {
		case "insert":
			preFree := map[uint64]bool{}
			for _, f := range pre.free {
				preFree[f] = true
			}
			var fromFree []uint64
			for _, it := range o.Items {
				if id, ok := post.pI[it.Id]; ok && preFree[id] {
					fromFree = append(fromFree, id)
					s.stat("node-id-reused")
				}
			}
			freeOrder = append(fromFree, post.free...)
		case "delete":
			if n := len(post.free) - len(res.Deleted); n >= 0 {
				freeOrder = post.free[:n]
			}
			inDel := map[uuid.UUID]bool{}
			for _, u := range res.Deleted {
				inDel[u] = true
			}
			iter = append([]uuid.UUID{}, res.Deleted...)
			for _, u := range dedupIds(o.Ids) {
				if !inDel[u] {
					iter = append(iter, u)
				}
			}
		}
	}
	out := canonKind(res.Out, sr)
	line := opLine(o, sr, freeOrder, iter)
	if out == sr.out && (out == "ok" || out == "updated:[]" || out == "deleted:[]") && len(o.Items)+len(o.Ids) == 0 {
		nt = false
	}
	s.emit(o.Kind, line, out, nt)
	if isRejected(out) && isRejected(sr.out) {
		// both reject: the property asks for "rejected as a whole", not for a particular reason; a
		// different reason is a disagreement with the model (impl.txt / model.txt), not a violation
		out = sr.out
	}
	if out != sr.out {
		if sr.judged {
			s.fail(fmt.Sprintf("result:%s:spec=%s:impl=%s", o.Kind, kindOf(sr.out), kindOf(out)),
				fmt.Sprintf("%s batch: the reference model answers %q, the shard answers %q (%s)", o.Kind, sr.out, out, res.Err))
		} else {
			s.aborted = true
		}
		return false
	}
	s.sp = sr.next
	s.emit("state", "state", post.String(), false)
	view := viewOf(s.sh, s.cfg.Pool)
	s.emit("view", "view\t"+renderIds(s.cfg.Pool), view, false)
	if want := s.sp.view(s.cfg.Pool); view != want {
		s.fail(fmt.Sprintf("state:%s:%s", o.Kind, diffKind(want, view)),
			fmt.Sprintf("after the %s batch the stored points differ from the reference model: expected %s got %s", o.Kind, want, view))
		return false
	}
	return true
}

func (s *session) readOne(u uuid.UUID) bool {
	got := readOf(s.sh, u)
	s.emit("read", "read\t"+uq(u), got, false)
	if want := s.sp.read(u); got != want {
		s.fail("read:"+diffKind(want, got), fmt.Sprintf("read by id %s: expected %s got %s", u, want, got))
		return false
	}
	return true
}

func kindOf(out string) string {
	if i := strings.IndexByte(out, '['); i >= 0 {
		return out[:i]
	}
	return out
}

// diffKind: a coarse, stable description of how two views differ (used in witness signatures)
func diffKind(want, got string) string {
	switch {
	case strings.HasPrefix(got, "error:"):
		return "read-error"
	case strings.SplitN(want, " ", 2)[0] != strings.SplitN(got, " ", 2)[0]:
		return "count"
	case strings.Count(want, "\"id\":") != strings.Count(got, "\"id\":"):
		return "ids"
	}
	return "document"
}

// ---------------------------------------------------------------- modes

func silence() { zerolog.SetGlobalLevel(zerolog.Disabled) }

func childMain(db string) {
	silence()
	sc := bufio.NewScanner(os.Stdin)
	sc.Buffer(make([]byte, 1<<20), 1<<26)
	var lines []string
	for sc.Scan() {
		lines = append(lines, sc.Text())
	}
	if len(lines) != 2 {
		os.Exit(4)
	}
	cfg, err := parseNewLine(lines[0])
	if err != nil {
		os.Exit(4)
	}
	o, err := parseOpLine(lines[1])
	if err != nil {
		os.Exit(4)
	}
	sh, err := openShard(cfg, db)
	if err != nil {
		os.Exit(5)
	}
	res := execOnShard(sh, o, 20*time.Second)
	co := childOut{Result: res.Out, Err: res.Err}
	if !res.TimedOut {
		co.State = stateOf(sh)
		co.View = viewOf(sh, cfg.Pool)
	}
	b, _ := json.Marshal(co)
	fmt.Println("CHILD " + string(b))
	os.Stdout.Sync()
	os.Exit(0) // do not wait for stray goroutines
}

func selfExe() string {
	exe, err := os.Executable()
	if err != nil {
		return os.Args[0]
	}
	return exe
}

func workerMain(seed uint64, h int, maxBatches int, thorough bool) {
	silence()
	rec := stdoutRecorder{os.Stdout}
	rng := vh.NewRng(seed*1000003 + uint64(h)*7919 + 17)
	cfg := genCfg(rng, h, thorough)
	s, err := newSession(cfg, rec, selfExe())
	if err != nil {
		rec.put(record{T: "fail", Sig: "harness:open", What: err.Error()})
		rec.put(record{T: "done"})
		return
	}
	g := &gen{r: rng, cfg: cfg, sd: schemas[cfg.Schema]}
	n := 3 + rng.Intn(maxBatches-2)
	for i := 0; i < n && !s.aborted; i++ {
		o, ok := g.genOp(s.sp)
		if !ok {
			s.stat("mem-backend-batch-skipped")
			continue
		}
		if !s.execBatch(o) {
			break
		}
		for k := 0; k < 2 && !s.aborted; k++ {
			if !s.readOne(vh.Pick(rng, cfg.Pool)) {
				break
			}
		}
	}
	rec.put(record{T: "stat", K: "history:" + cfg.Schema + ":" + cfg.Backend, N: 1})
	rec.put(record{T: "done"})
	os.Stdout.Sync()
	if s.aborted {
		os.RemoveAll(s.dir)
		os.Exit(0) // the shard may be poisoned: do not try to close it
	}
	s.close()
}

func replayMain(path string) {
	silence()
	data, err := os.ReadFile(path)
	if err != nil {
		fmt.Println("cannot read", path)
		os.Exit(2)
	}
	var s *session
	for _, line := range strings.Split(string(data), "\n") {
		line = strings.TrimRight(line, "\r")
		if strings.TrimSpace(line) == "" || strings.HasPrefix(line, "#") {
			continue
		}
		f := strings.Split(line, "\t")
		switch f[0] {
		case "new":
			if s != nil {
				s.close()
			}
			cfg, err := parseNewLine(line)
			if err != nil {
				fmt.Println("bad-op")
				continue
			}
			if s, err = newSession(cfg, replayRecorder{}, selfExe()); err != nil {
				fmt.Println("error:" + err.Error())
				s = nil
			}
			if s != nil {
				s.replay = true
			}
		case "insert", "update", "delete":
			if s == nil || s.aborted {
				fmt.Println("skipped")
				continue
			}
			o, err := parseOpLine(line)
			if err != nil {
				fmt.Println("bad-op")
				continue
			}
			before := len(s.lines)
			s.replayBatch(o)
			if len(s.lines) == before {
				fmt.Println("no-answer(child crashed)")
			}
		case "state":
			if s == nil || s.aborted {
				fmt.Println("skipped")
			} else {
				fmt.Println(stateOf(s.sh))
			}
		case "view":
			if s == nil || s.aborted || len(f) < 2 {
				fmt.Println("skipped")
			} else if ids, err := parseIds(f[1]); err != nil {
				fmt.Println("bad-op")
			} else {
				got := viewOf(s.sh, ids)
				fmt.Println(got)
				if want := s.sp.view(ids); want != got {
					b, _ := json.Marshal(map[string]string{"oracle_failure": "state", "expected": want, "got": got})
					fmt.Println(string(b))
				}
			}
		case "read":
			if s == nil || s.aborted || len(f) < 2 {
				fmt.Println("skipped")
			} else if ids, err := parseIds("[" + f[1] + "]"); err != nil {
				fmt.Println("bad-op")
			} else {
				fmt.Println(readOf(s.sh, ids[0]))
			}
		default:
			fmt.Println("bad-op")
		}
	}
	if s != nil {
		os.RemoveAll(s.dir)
	}
	os.Stdout.Sync()
	os.Exit(0)
}

// replayBatch: like execBatch but prints exactly one answer for the batch line (state / view lines
// of the file are answered when they come)
func (s *session) replayBatch(o op) {
	sr := s.sp.step(s.cfg, o)
	if isRejected(sr.out) && sr.inTx && s.cfg.Backend == "bolt" {
		pre, _ := dumpOf(s.sh)
		line := opLine(o, sr, pre.free, dedupIds(o.Ids))
		co, ok := s.runChild(line)
		if !ok {
			return
		}
		res := canonKind(co.Result, sr)
		s.emit(o.Kind, line, res, true)
		if !isRejected(res) {
			s.fail("result", fmt.Sprintf("expected %s got %s", sr.out, res))
		}
		return
	}
	res := execOnShard(s.sh, o, 60*time.Second)
	out := canonKind(res.Out, sr)
	s.emit(o.Kind, "", out, true)
	if out != sr.out {
		s.fail("result", fmt.Sprintf("expected %s got %s (%s)", sr.out, out, res.Err))
		return
	}
	s.sp = sr.next
}

// ---------------------------------------------------------------- supervisor

type totals struct {
	o        *vh.Out
	failures int
	crashes  int
}

// base directory of the temp dirs of workers and probes (removed by the supervisor at the end)
var tmpBase string

func runWorker(exe string, args []string, timeout time.Duration) (stdout, stderr string, exited bool) {
	cmd := exec.Command(exe, args...)
	if tmpBase != "" {
		cmd.Env = append(os.Environ(), "TMPDIR="+tmpBase) // a crashed worker leaves its files here
	}
	var so, se bytes.Buffer
	cmd.Stdout, cmd.Stderr = &so, &se
	if err := cmd.Start(); err != nil {
		return "", err.Error(), false
	}
	done := make(chan error, 1)
	go func() { done <- cmd.Wait() }()
	select {
	case <-done:
		return so.String(), se.String(), true
	case <-time.After(timeout):
		cmd.Process.Kill()
		<-done
		return so.String(), se.String() + "\n[killed after timeout]", false
	}
}

func tail(s string, n int) string {
	ls := strings.Split(strings.TrimSpace(s), "\n")
	if len(ls) > n {
		ls = ls[:n] // the head of a Go crash report names the signal and the goroutine
	}
	return strings.Join(ls, " | ")
}

func main() {
	mode := flag.String("mode", "", "internal: worker | child | side")
	seed := flag.Uint64("seed", 1, "PRNG seed")
	dir := flag.String("out", "", "output directory")
	hist := flag.Int("hist", 120, "number of histories")
	batches := flag.Int("batches", 10, "maximal number of batches per history")
	thorough := flag.Bool("thorough", false, "wider generators")
	h := flag.Int("h", 0, "internal: history index")
	db := flag.String("db", "", "internal: db file of the child")
	probe := flag.String("probe", "", "internal: side probe name")
	replay := flag.String("replay", "", "replay the op lines of this file against the implementation")
	flag.IntVar(&noDataPct, "nodata", 1, "percent of inserted points / update items with zero-length Data (the search step raises it)")
	flag.Parse()
	switch {
	case *replay != "":
		replayMain(*replay)
		return
	case *mode == "child":
		childMain(*db)
		return
	case *mode == "worker":
		workerMain(*seed, *h, *batches, *thorough)
		return
	case *mode == "side":
		sideMain(*probe)
		return
	}
	exe := selfExe()
	o := vh.NewOut(*dir)
	if base, err := os.MkdirTemp("", "c01-run-"); err == nil {
		tmpBase = base
		defer os.RemoveAll(base)
	}
	crashes := 0
	sigSeen := map[string]bool{}
	for i := 0; i < *hist; i++ {
		args := []string{"-mode", "worker", "-seed", fmt.Sprint(*seed), "-h", fmt.Sprint(i), "-batches", fmt.Sprint(*batches)}
		if *thorough {
			args = append(args, "-thorough")
		}
		args = append(args, "-nodata", fmt.Sprint(noDataPct))
		so, se, _ := runWorker(exe, args, 180*time.Second)
		done := false
		var lines []string
		var pending *record
		for _, l := range strings.Split(so, "\n") {
			if l == "" {
				continue
			}
			var r record
			if err := json.Unmarshal([]byte(l), &r); err != nil {
				continue
			}
			switch r.T {
			case "emit":
				o.Emit(r.Kind, r.Op, r.Impl, r.NT)
				lines = append(lines, r.Op)
				pending = nil
				if isRejected(r.Impl) {
					o.Stats[r.Impl]++
				}
			case "begin":
				rr := r
				pending = &rr
			case "fail":
				if !sigSeen[r.Sig] || len(o.Oracle) < 5 {
					o.Fail(r.Sig, r.What, r.Replay)
				}
				sigSeen[r.Sig] = true
			case "stat":
				o.Stats[r.K] += r.N
			case "done":
				done = true
			}
		}
		if !done {
			crashes++
			o.Stats["worker-died"]++
			if pending != nil && !isRejected(pending.Kind) {
				// the process died while running a batch the reference model accepts
				o.Fail("crash:"+strings.SplitN(pending.Op, "\t", 2)[0]+":spec="+kindOf(pending.Kind),
					"the process died while executing a batch the reference model accepts: "+tail(se, 6),
					strings.Join(append(lines, pending.Op), "\n"))
			} else {
				o.Stats["worker-died-outside-accepted-batch"]++
			}
		}
	}
	// side probes: outcomes are recorded, not judged
	side := map[string]string{}
	for _, p := range []string{"empty-indexed-string-bolt", "empty-indexed-string-mem", "mem-backend-rejected-insert", "zero-length-data"} {
		so, se, ok := runWorker(exe, []string{"-mode", "side", "-probe", p}, 60*time.Second)
		res := ""
		for _, l := range strings.Split(so, "\n") {
			if strings.HasPrefix(l, "SIDE ") {
				res = l[5:]
			}
		}
		if res == "" {
			res = "no result (exited=" + fmt.Sprint(ok) + "): " + tail(se, 4)
		}
		side[p] = res
	}
	keys := make([]string, 0, len(o.Stats))
	for k := range o.Stats {
		keys = append(keys, k)
	}
	sort.Strings(keys)
	o.Close(map[string]any{
		"rule":        "distinct op lines of non-empty insert / update / delete batches (the op line contains the whole batch and the observed oracles)",
		"histories":   *hist,
		"side_probes": side,
		"worker_processes_died": crashes,
	})
}
