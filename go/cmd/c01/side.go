package main

// Side probes: inputs outside the main generator's domain. Each runs in its own process; the
// outcome is written to the evidence (stats.json "side_probes"), it is not judged.

import (
	"fmt"
	"os"
	"path/filepath"
	"time"

	"github.com/google/uuid"
)

func sideMain(probe string) {
	silence()
	dir, err := os.MkdirTemp("", "c01-side-")
	if err != nil {
		fmt.Println("SIDE error " + err.Error())
		return
	}
	defer os.RemoveAll(dir)
	u1 := uuid.MustParse("11111111-1111-4111-8111-111111111111")
	u2 := uuid.MustParse("22222222-2222-4222-8222-222222222222")
	cfg := envCfg{Max: 1000, Schema: "inv", Backend: "bolt", Cache: -1, Pool: []uuid.UUID{u1, u2}}
	path := filepath.Join(dir, "sharddb.bbolt")
	res := ""
	switch probe {
	case "empty-indexed-string-bolt", "empty-indexed-string-mem":
		// DESIGN.md section 8 no. 14: an indexed string value "" is an empty posting key
		if probe == "empty-indexed-string-mem" {
			cfg.Backend, path = "mem", ""
		}
		sh, err := openShard(cfg, path)
		if err != nil {
			res = "error " + err.Error()
			break
		}
		r := execOnShard(sh, op{Kind: "insert", Items: []item{{Id: u1, Doc: map[string]any{"s": ""}}}}, 20*time.Second)
		res = fmt.Sprintf("insert {\"s\":\"\"} with a string index on s: %s %s; then %s", r.Out, r.Err, viewOf(sh, cfg.Pool))
	case "mem-backend-rejected-insert":
		// the memory backend has no rollback: what does a rejected batch leave behind?
		cfg.Backend, cfg.Schema = "mem", "none"
		sh, err := openShard(cfg, "")
		if err != nil {
			res = "error " + err.Error()
			break
		}
		r1 := execOnShard(sh, op{Kind: "insert", Items: []item{{Id: u1, Doc: map[string]any{"a": int64(1)}}}}, 20*time.Second)
		r2 := execOnShard(sh, op{Kind: "insert", Items: []item{{Id: u2, Doc: map[string]any{"b": int64(2)}}, {Id: u1, Doc: map[string]any{}}}}, 20*time.Second)
		time.Sleep(50 * time.Millisecond)
		res = fmt.Sprintf("insert [u1]: %s; insert [u2,u1]: %s; then %s", r1.Out, r2.Out, viewOf(sh, cfg.Pool))
	case "zero-length-data":
		// Point.Data of length 0 is not a document (DESIGN.md section 7 C01, "Interpretation")
		cfg.Schema = "none"
		sh, err := openShard(cfg, path)
		if err != nil {
			res = "error " + err.Error()
			break
		}
		r1 := execOnShard(sh, op{Kind: "insert", Items: []item{{Id: u1, NoData: true}}}, 20*time.Second)
		v1 := viewOf(sh, cfg.Pool)
		st := stateOf(sh)
		// the update is expected to fail inside the transaction: last action of this process
		r2 := execOnShard(sh, op{Kind: "update", Items: []item{{Id: u1, Doc: map[string]any{"a": int64(1)}}}}, 20*time.Second)
		res = fmt.Sprintf("insert zero-length: %s; view %s; state %s; update of it: %s %s", r1.Out, v1, st, r2.Out, r2.Err)
	default:
		res = "unknown probe"
	}
	fmt.Println("SIDE " + res)
	os.Stdout.Sync()
	os.RemoveAll(dir)
	os.Exit(0)
}
