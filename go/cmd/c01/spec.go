package main

// The reference model of the property (a plain map) in Go: the oracle against which the real
// shard is judged inside the harness, so that a violation carries a concrete replay. The same spec
// is `Sema.C01.Coll` in Lean; the `view` / `read` lines tie the two.

import (
	"fmt"
	"sort"
	"strings"

	"github.com/google/uuid"
	"github.com/vmihailenco/msgpack/v5"
)

type specEntry struct {
	doc    map[string]any
	noData bool
}

type spec struct{ m map[uuid.UUID]specEntry }

func newSpec() *spec { return &spec{m: map[uuid.UUID]specEntry{}} }

func (s *spec) clone() *spec {
	c := newSpec()
	for k, v := range s.m {
		c.m[k] = v
	}
	return c
}

type sizeEntry struct {
	doc string
	n   int
}

type specResult struct {
	out    string // ok | rejected:<kind> | updated:[…] | deleted:[…sorted…]
	next   *spec  // state afterwards (the same state when rejected)
	inTx   bool   // the rejection happens inside the write transaction
	sizes  []sizeEntry
	idxOk  bool
	judged bool // false: the batch leaves the property's domain (an update meets zero-length data)
	anyIll bool // some incoming document would be refused by an index
}

const deleteValue = "_delete"

func mergeDocs(old, inc map[string]any) map[string]any {
	m := make(map[string]any, len(old)+len(inc))
	for k, v := range old {
		m[k] = v
	}
	for k, v := range inc {
		if s, ok := v.(string); ok && s == deleteValue {
			delete(m, k)
		} else {
			m[k] = v
		}
	}
	return m
}

func msgpackLen(m map[string]any) int {
	b, err := msgpack.Marshal(m)
	if err != nil {
		panic(err)
	}
	return len(b)
}

func (s *spec) step(cfg envCfg, o op) specResult {
	sd := schemas[cfg.Schema]
	r := specResult{next: s, idxOk: true, judged: true}
	switch o.Kind {
	case "insert":
		seen := map[uuid.UUID]bool{}
		for _, it := range o.Items {
			if seen[it.Id] {
				r.out = "rejected:dup-in-batch"
				return r
			}
			seen[it.Id] = true
		}
		for _, it := range o.Items {
			if !it.NoData && !sd.conforms(it.Doc) {
				r.anyIll = true
			}
		}
		for _, it := range o.Items {
			if _, ok := s.m[it.Id]; ok {
				r.out, r.inTx = "rejected:exists", true
				return r
			}
		}
		if r.anyIll {
			r.out, r.inTx, r.idxOk = "rejected:index", true, false
			return r
		}
		n := s.clone()
		for _, it := range o.Items {
			n.m[it.Id] = specEntry{doc: it.Doc, noData: it.NoData}
		}
		r.out, r.next = "ok", n
		return r
	case "update":
		n := s.clone()
		ids := []uuid.UUID{}
		for _, it := range o.Items {
			if !it.NoData && !sd.conforms(it.Doc) {
				r.anyIll = true
			}
		}
		for _, it := range o.Items {
			e, ok := n.m[it.Id]
			if !ok {
				continue
			}
			if e.noData {
				r.out, r.inTx, r.judged = "rejected:bad-old", true, false
				return r
			}
			if it.NoData {
				r.out, r.inTx, r.judged = "rejected:bad-new", true, false
				return r
			}
			merged := mergeDocs(e.doc, it.Doc)
			sz := msgpackLen(merged)
			r.sizes = append(r.sizes, sizeEntry{renderDoc(merged), sz})
			if sz > cfg.Max {
				r.out, r.inTx = "rejected:too-large", true
				return r
			}
			if !sd.conforms(merged) {
				r.idxOk = false
			}
			n.m[it.Id] = specEntry{doc: merged}
			ids = append(ids, it.Id)
		}
		if !r.idxOk {
			r.out, r.inTx = "rejected:index", true
			return r
		}
		r.out, r.next = "updated:"+renderIds(ids), n
		return r
	case "delete":
		n := s.clone()
		del := []uuid.UUID{}
		seen := map[uuid.UUID]bool{}
		for _, u := range o.Ids {
			if seen[u] {
				continue
			}
			seen[u] = true
			if _, ok := n.m[u]; ok {
				delete(n.m, u)
				del = append(del, u)
			}
		}
		sort.Slice(del, func(i, j int) bool { return del[i].String() < del[j].String() })
		r.out, r.next = "deleted:"+renderIds(del), n
		return r
	}
	panic("unknown op kind " + o.Kind)
}

func (s *spec) renderEntry(u uuid.UUID) string {
	e := s.m[u]
	d := "null"
	if !e.noData {
		d = renderDoc(e.doc)
	}
	return "{\"id\":" + uq(u) + ",\"doc\":" + d + "}"
}

func (s *spec) view(ids []uuid.UUID) string {
	seen := map[uuid.UUID]bool{}
	var us []uuid.UUID
	for _, u := range ids {
		if _, ok := s.m[u]; ok && !seen[u] {
			seen[u] = true
			us = append(us, u)
		}
	}
	sort.Slice(us, func(i, j int) bool { return us[i].String() < us[j].String() })
	parts := make([]string, len(us))
	for i, u := range us {
		parts[i] = s.renderEntry(u)
	}
	return fmt.Sprintf("count=%d [%s]", len(s.m), strings.Join(parts, ","))
}

func (s *spec) read(u uuid.UUID) string {
	if _, ok := s.m[u]; !ok {
		return "none"
	}
	return "found " + s.renderEntry(u)
}
