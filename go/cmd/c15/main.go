// C15 correspondence harness.
//
// Part A drives the real cluster.distributePoints (through the tagged wrapper
// cluster.VerifDistributePoints) with existing fill levels at / just below / above the limits, point
// sizes from 16 (empty Data) upwards, batch sizes from 0, count limit 1, a createShardFn that
// returns fresh ids ("n0", "n1", …) and fails after <cap> calls; evaluates the property oracle
// (partition, shard order, limits, termination under `fits`) directly on the real output; the same op
// lines go to the Lean model.  Inputs outside `fits` are run too (capped createShardFn; plus a run
// with an uncapped one that is aborted after 5000 created shards, so the harness never hangs).
//
// Part B runs a single in-process cluster node (no network: every RPC is local because the node
// is the only server) through histories of collection creations and inserts around the quota
// boundaries and checks the count identity, the per-shard count limit and the quotas on what the
// node reports; each step is also an op line for the model (`ins`, `cc`).
package main

import (
	"bufio"
	"encoding/hex"
	"encoding/json"
	"errors"
	"flag"
	"fmt"
	"os"
	"os/exec"
	"path/filepath"
	"sort"
	"strconv"
	"strings"
	"time"

	"github.com/google/uuid"
	"github.com/rs/zerolog"
	"github.com/semafind/semadb/cluster"
	"github.com/semafind/semadb/models"
	"verifharness/vh"
)

// ---------------------------------------------------------------------------- part A: distributePoints

type shardSpec struct{ size, count int64 }

func fmtShards(ss []shardSpec) string {
	if len(ss) == 0 {
		return "-"
	}
	p := make([]string, len(ss))
	for i, s := range ss {
		p[i] = fmt.Sprintf("%d:%d", s.size, s.count)
	}
	return strings.Join(p, ",")
}

func fmtInts(xs []int) string {
	if len(xs) == 0 {
		return "-"
	}
	p := make([]string, len(xs))
	for i, x := range xs {
		p[i] = strconv.Itoa(x)
	}
	return strings.Join(p, ",")
}

func parseShards(s string) ([]shardSpec, bool) {
	if s == "-" {
		return nil, true
	}
	var r []shardSpec
	for _, p := range strings.Split(s, ",") {
		ab := strings.Split(p, ":")
		if len(ab) != 2 {
			return nil, false
		}
		a, e1 := strconv.ParseInt(ab[0], 10, 64)
		b, e2 := strconv.ParseInt(ab[1], 10, 64)
		if e1 != nil || e2 != nil {
			return nil, false
		}
		r = append(r, shardSpec{a, b})
	}
	return r, true
}

func parseInts(s string) ([]int, bool) {
	if s == "-" {
		return nil, true
	}
	var r []int
	for _, p := range strings.Split(s, ",") {
		a, err := strconv.Atoi(p)
		if err != nil || a < 0 {
			return nil, false
		}
		r = append(r, a)
	}
	return r, true
}

type assign struct {
	id     string
	lo, hi int
}

type dpResult struct {
	kind    string // ok | err | aborted | panic
	created int
	as      []assign // sorted by lo
}

var errCap = errors.New("verif: createShardFn cap reached")

type abortSentinel struct{}

// runDP calls the real distributePoints. Point i has len(Data) = sizes[i]-16 (len(Id) is always 16).
// createShardFn returns "n<i>" for call i < cap and an error afterwards; if abortAfter > 0 the
// function never fails but the run is aborted (panic/recover) after that many calls.
func runDP(maxS, maxC int64, cap int, shards []shardSpec, sizes []int, abortAfter int) (res dpResult) {
	sh := make([]cluster.VerifShardInfo, len(shards))
	for i, s := range shards {
		sh[i] = cluster.VerifShardInfo{Id: fmt.Sprintf("e%d", i), Size: s.size, PointCount: s.count}
	}
	pts := make([]models.Point, len(sizes))
	for i, sz := range sizes {
		pts[i] = models.Point{Id: uuid.UUID{byte(i >> 8), byte(i)}, Data: make([]byte, sz-16)}
	}
	calls := 0
	defer func() {
		if r := recover(); r != nil {
			if _, ok := r.(abortSentinel); ok {
				res = dpResult{kind: "aborted", created: calls}
				return
			}
			res = dpResult{kind: "panic", created: calls}
		}
	}()
	m, err := cluster.VerifDistributePoints(sh, pts, maxS, maxC, func() (string, error) {
		if abortAfter > 0 {
			if calls >= abortAfter {
				panic(abortSentinel{})
			}
		} else if calls >= cap {
			return "", errCap
		}
		calls++
		return fmt.Sprintf("n%d", calls-1), nil
	})
	if err != nil {
		return dpResult{kind: "err", created: calls}
	}
	var as []assign
	for id, r := range m {
		as = append(as, assign{id, r[0], r[1]})
	}
	sort.Slice(as, func(i, j int) bool {
		if as[i].lo != as[j].lo {
			return as[i].lo < as[j].lo
		}
		return as[i].id < as[j].id
	})
	return dpResult{kind: "ok", created: calls, as: as}
}

func (r dpResult) String() string {
	switch r.kind {
	case "ok":
		if len(r.as) == 0 {
			return fmt.Sprintf("ok %d -", r.created)
		}
		p := make([]string, len(r.as))
		for i, a := range r.as {
			p[i] = fmt.Sprintf("%s:%d:%d", a.id, a.lo, a.hi)
		}
		return fmt.Sprintf("ok %d %s", r.created, strings.Join(p, ","))
	case "err":
		return fmt.Sprintf("err %d", r.created)
	}
	return r.kind + " " + strconv.Itoa(r.created)
}

func fits(maxS, maxC int64, sizes []int) bool {
	if maxC < 1 {
		return false
	}
	for _, s := range sizes {
		if int64(s) > maxS {
			return false
		}
	}
	return true
}

// shard index in the order (existing…, created…); -1 if the id is unknown
func shardIndex(id string, nExisting int) int {
	if len(id) < 2 {
		return -1
	}
	k, err := strconv.Atoi(id[1:])
	if err != nil {
		return -1
	}
	if id[0] == 'e' && k < nExisting {
		return k
	}
	if id[0] == 'n' {
		return nExisting + k
	}
	return -1
}

// oracleDP: the property, evaluated on the real output. Returns "" or what fails.
func oracleDP(maxS, maxC int64, shards []shardSpec, sizes []int, r dpResult) (sig, what string) {
	n := len(sizes)
	if r.kind != "ok" {
		return "", ""
	}
	pos, prevIdx := 0, -1
	for _, a := range r.as {
		if a.lo != pos || a.hi <= a.lo || a.hi > n {
			return "partition", fmt.Sprintf("ranges are not a contiguous partition of [0,%d): range %v of shard %s follows position %d", n, [2]int{a.lo, a.hi}, a.id, pos)
		}
		pos = a.hi
		idx := shardIndex(a.id, len(shards))
		if idx < 0 || idx >= len(shards)+r.created {
			return "unknown-shard", "assignment to a shard id that neither existed nor was created: " + a.id
		}
		if idx <= prevIdx {
			return "shard-order", "ranges are not in shard order at shard " + a.id
		}
		prevIdx = idx
		var old shardSpec
		if idx < len(shards) {
			old = shards[idx]
		}
		sum := int64(0)
		for _, s := range sizes[a.lo:a.hi] {
			sum += int64(s)
		}
		if old.count+int64(a.hi-a.lo) > maxC {
			return "count-limit", fmt.Sprintf("shard %s: %d existing + %d assigned points exceed the per-shard maximum %d", a.id, old.count, a.hi-a.lo, maxC)
		}
		if old.size+sum > maxS {
			return "size-limit", fmt.Sprintf("shard %s: %d existing + %d assigned bytes exceed the per-shard maximum %d", a.id, old.size, sum, maxS)
		}
	}
	if pos != n {
		return "coverage", fmt.Sprintf("points [%d,%d) are assigned to no shard although the function reported success", pos, n)
	}
	return "", ""
}

func evalDP(f []string) string {
	maxS, e1 := strconv.ParseInt(f[1], 10, 64)
	maxC, e2 := strconv.ParseInt(f[2], 10, 64)
	cap, e3 := strconv.Atoi(f[3])
	shards, ok1 := parseShards(f[4])
	sizes, ok2 := parseInts(f[5])
	if e1 != nil || e2 != nil || e3 != nil || !ok1 || !ok2 || cap < 0 {
		return "bad-op"
	}
	for _, s := range sizes {
		if s < 16 {
			return "bad-op"
		}
	}
	return runDP(maxS, maxC, cap, shards, sizes, 0).String()
}

// ---------------------------------------------------------------------------- part B: one in-process node

const bigSize = int64(1) << 40

type nodeEnv struct {
	node *cluster.ClusterNode
	dir  string
}

// where node directories are created ("" = system temp dir); set to the -out directory so that the
// runner removes whatever an aborted run leaves behind
var nodeParent = ""

// an insert that has not returned after this long is reported as hanging (normal: milliseconds)
const insertTimeout = 20 * time.Second

var errHang = errors.New("verif: InsertPoints did not return")

func newNode(maxC int64) (*nodeEnv, error) {
	dir, err := os.MkdirTemp(nodeParent, "verif-c15-")
	if err != nil {
		return nil, err
	}
	n, err := cluster.NewNode(cluster.ClusterNodeConfig{
		RootDir: dir, Servers: []string{"localhost:9898"}, RpcHost: "localhost", RpcPort: 9898, RpcTimeout: 5, RpcRetries: 1,
		MaxShardSize: bigSize, MaxShardPointCount: maxC,
		ShardManager: cluster.ShardManagerConfig{RootDir: dir, ShardTimeout: 3600},
	})
	if err != nil {
		os.RemoveAll(dir)
		return nil, err
	}
	return &nodeEnv{n, dir}, nil
}

func (e *nodeEnv) close() {
	e.node.Close()
	os.RemoveAll(e.dir)
}

func plan(maxCols int, quota int64) models.UserPlan {
	return models.UserPlan{Name: "VERIF", MaxCollections: maxCols, MaxCollectionPointCount: quota, MaxPointSize: 1 << 20, ShardBackupFrequency: 3600, ShardBackupCount: 1}
}

func createOutcome(err error) string {
	switch {
	case err == nil:
		return "created"
	case errors.Is(err, cluster.ErrExists):
		return "exists"
	case errors.Is(err, cluster.ErrQuotaReached):
		return "quota"
	}
	return "error:" + err.Error()
}

// observed state of a collection: shard ids of the record and their fill levels
func observe(e *nodeEnv, user, col string, p models.UserPlan) (models.Collection, []cluster.VerifShardInfo, error) {
	c, err := e.node.GetCollection(user, col)
	if err != nil {
		return c, nil, err
	}
	c.UserPlan = p
	si, err := e.node.GetShardsInfo(c)
	return c, si, err
}

func mkPoint(id uuid.UUID, size int) models.Point {
	// the Data of a point is opaque to the cluster layer and to a collection without indexed fields
	return models.Point{Id: id, Data: make([]byte, size-16)}
}

type insObs struct {
	answer  string // refused | ok <created> <deltas> | err | error:<text>
	fail    [2]string
	nfailed int
	hang    bool
}

// doInsert runs one ClusterNode.InsertPoints and evaluates the oracle on what the node reports before and after
func doInsert(e *nodeEnv, user, col string, p models.UserPlan, maxC int64, pts []models.Point) (pre []cluster.VerifShardInfo, obs insObs) {
	c, pre, err := observe(e, user, col, p)
	if err != nil {
		return nil, insObs{answer: "error:" + err.Error()}
	}
	preTotal := int64(0)
	for _, s := range pre {
		preTotal += s.PointCount
	}
	sent := append([]models.Point{}, pts...)
	type insRet struct {
		failed []cluster.FailedRange
		err    error
	}
	ch := make(chan insRet, 1)
	go func() {
		defer func() {
			if r := recover(); r != nil {
				ch <- insRet{nil, fmt.Errorf("panic: %v", r)}
			}
		}()
		f, err := e.node.InsertPoints(c, sent)
		ch <- insRet{f, err}
	}()
	var failed []cluster.FailedRange
	select {
	case r := <-ch:
		failed, err = r.failed, r.err
	case <-time.After(insertTimeout):
		// the goroutine keeps running (the real loop is creating shard after shard); the caller abandons the node
		return pre, insObs{answer: "hang", hang: true, fail: [2]string{"insert-hangs", fmt.Sprintf("ClusterNode.InsertPoints of %d points (each fits an empty shard: per-shard maximum %d points, 2^40 bytes) has not returned after %v", len(pts), maxC, insertTimeout)}}
	}
	_, post, err2 := observe(e, user, col, p)
	if err2 != nil {
		return pre, insObs{answer: "error:" + err2.Error()}
	}
	postTotal := int64(0)
	for _, s := range post {
		postTotal += s.PointCount
	}
	n := int64(len(pts))
	if err != nil {
		if errors.Is(err, cluster.ErrQuotaReached) {
			obs.answer = "refused"
			if !(preTotal+n > p.MaxCollectionPointCount) {
				obs.fail = [2]string{"quota-false-refusal", fmt.Sprintf("insert of %d points into a collection of %d refused although the quota is %d", n, preTotal, p.MaxCollectionPointCount)}
			}
			if len(post) != len(pre) || postTotal != preTotal {
				obs.fail = [2]string{"quota-side-effect", fmt.Sprintf("refused insert changed the collection: shards %d -> %d, points %d -> %d", len(pre), len(post), preTotal, postTotal)}
			}
			return pre, obs
		}
		obs.answer = "err"
		return pre, obs
	}
	if preTotal+n > p.MaxCollectionPointCount {
		obs.fail = [2]string{"quota-exceeded", fmt.Sprintf("insert of %d points into a collection of %d accepted although the quota is %d", n, preTotal, p.MaxCollectionPointCount)}
	}
	obs.nfailed = len(failed)
	failedLen := int64(0)
	failedBy := map[string]int64{}
	for _, fr := range failed {
		failedLen += int64(fr.End - fr.Start)
		failedBy[fr.ShardId] += int64(fr.End - fr.Start)
	}
	if postTotal != preTotal+n-failedLen && obs.fail[0] == "" {
		obs.fail = [2]string{"count-identity", fmt.Sprintf("total after = %d, want previous %d + %d points - %d in failed ranges", postTotal, preTotal, n, failedLen)}
	}
	deltas := make([]string, len(post))
	for i, s := range post {
		old := int64(0)
		if i < len(pre) {
			if pre[i].Id != s.Id {
				obs.fail = [2]string{"record-order", "the collection record's shard list was reordered"}
			}
			old = pre[i].PointCount
		}
		if s.PointCount > maxC && s.PointCount > old && obs.fail[0] == "" {
			obs.fail = [2]string{"count-limit", fmt.Sprintf("shard %d of the record holds %d points, per-shard maximum is %d", i, s.PointCount, maxC)}
		}
		// what the distribution intended for this shard = observed growth + what the shard refused
		deltas[i] = strconv.FormatInt(s.PointCount-old+failedBy[s.Id], 10)
	}
	d := "-"
	if len(deltas) > 0 {
		d = strings.Join(deltas, ",")
	}
	obs.answer = fmt.Sprintf("ok %d %s", len(post)-len(pre), d)
	return pre, obs
}

func insLine(maxC, quota int64, pre []cluster.VerifShardInfo, sizes []int) string {
	ss := make([]shardSpec, len(pre))
	for i, s := range pre {
		ss[i] = shardSpec{s.Size, s.PointCount}
	}
	return fmt.Sprintf("ins %d %d %d %s %s", bigSize, maxC, quota, fmtShards(ss), fmtInts(sizes))
}

// evalIns (replay): rebuild a collection whose shards hold the given point counts on a fresh node,
// then run the insert. File sizes are whatever bbolt makes them (the size limit is 2^40 in part B).
func evalIns(f []string) string {
	maxC, e2 := strconv.ParseInt(f[2], 10, 64)
	quota, e3 := strconv.ParseInt(f[3], 10, 64)
	shards, ok1 := parseShards(f[4])
	sizes, ok2 := parseInts(f[5])
	if e2 != nil || e3 != nil || !ok1 || !ok2 {
		return "bad-op"
	}
	e, err := newNode(maxC)
	if err != nil {
		return "error:" + err.Error()
	}
	defer e.close()
	p := plan(10, 1<<40)
	col := models.Collection{UserId: "u", Id: "c", UserPlan: p}
	if err := e.node.CreateCollection(col); err != nil {
		return "error:" + err.Error()
	}
	k := 0
	for _, s := range shards {
		req := cluster.RPCCreateShardRequest{RPCRequestArgs: cluster.RPCRequestArgs{Source: e.node.MyHostname, Dest: e.node.MyHostname}, UserId: "u", CollectionId: "c"}
		var resp cluster.RPCCreateShardResponse
		if err := e.node.RPCCreateShard(&req, &resp); err != nil {
			return "error:" + err.Error()
		}
		var pts []models.Point
		for i := int64(0); i < s.count; i++ {
			k++
			pts = append(pts, mkPoint(uuid.UUID{0xee, byte(k >> 16), byte(k >> 8), byte(k)}, 24))
		}
		if len(pts) > 0 {
			ireq := cluster.RPCInsertPointsRequest{RPCRequestArgs: req.RPCRequestArgs, Collection: col, ShardId: resp.ShardId, Points: pts}
			var iresp cluster.RPCInsertPointsResponse
			if err := e.node.RPCInsertPoints(&ireq, &iresp); err != nil {
				return "error:" + err.Error()
			}
		}
	}
	var pts []models.Point
	for i, sz := range sizes {
		if sz < 16 {
			return "bad-op"
		}
		pts = append(pts, mkPoint(uuid.UUID{0x11, byte(i >> 8), byte(i)}, sz))
	}
	_, obs := doInsert(e, "u", "c", plan(10, quota), maxC, pts)
	return obs.answer
}

func hexs(s string) string {
	if s == "" {
		return "-"
	}
	return hex.EncodeToString([]byte(s))
}

func ccLine(max int, user, col string, keys []string) string {
	ks := "-"
	if len(keys) > 0 {
		p := make([]string, len(keys))
		for i, k := range keys {
			p[i] = hex.EncodeToString([]byte(k))
		}
		ks = strings.Join(p, ",")
	}
	return fmt.Sprintf("cc %d %s %s %s", max, hexs(user), hexs(col), ks)
}

// evalCC (replay): a fresh node holding the given keys, then the creation under test
func evalCC(f []string) string {
	max, e1 := strconv.Atoi(f[1])
	ub, e2 := hex.DecodeString(strings.TrimPrefix(f[2], "-"))
	cb, e3 := hex.DecodeString(strings.TrimPrefix(f[3], "-"))
	if e1 != nil || e2 != nil || e3 != nil {
		return "bad-op"
	}
	e, err := newNode(10)
	if err != nil {
		return "error:" + err.Error()
	}
	defer e.close()
	if f[4] != "-" {
		for _, kh := range strings.Split(f[4], ",") {
			kb, err := hex.DecodeString(kh)
			if err != nil {
				return "bad-op"
			}
			parts := strings.SplitN(string(kb), "/", 2)
			if len(parts) != 2 {
				return "bad-op"
			}
			if err := e.node.CreateCollection(models.Collection{UserId: parts[0], Id: parts[1], UserPlan: plan(1<<30, 1<<40)}); err != nil {
				return "error:" + err.Error()
			}
		}
	}
	return createOutcome(e.node.CreateCollection(models.Collection{UserId: string(ub), Id: string(cb), UserPlan: plan(max, 1<<40)}))
}

func evalOp(line string) string {
	f := strings.Fields(line)
	switch {
	case len(f) == 6 && f[0] == "dp":
		return evalDP(f)
	case len(f) == 6 && f[0] == "ins":
		return evalIns(f)
	case len(f) == 5 && f[0] == "cc":
		return evalCC(f)
	}
	return "bad-op"
}

func doReplay(path string) {
	fl, err := os.Open(path)
	if err != nil {
		fmt.Println(err)
		os.Exit(2)
	}
	sc := bufio.NewScanner(fl)
	sc.Buffer(make([]byte, 1<<20), 1<<26)
	for sc.Scan() {
		l := strings.TrimSpace(sc.Text())
		if l == "" || strings.HasPrefix(l, "#") {
			continue
		}
		fmt.Println(evalOp(l))
	}
}

// ---------------------------------------------------------------------------- generation

func main() {
	seed := flag.Uint64("seed", 1, "PRNG seed")
	n := flag.Int("n", 3000, "random distributePoints cases")
	hist := flag.Int("hist", 6, "end-to-end histories (one node each)")
	steps := flag.Int("steps", 25, "steps per history")
	dir := flag.String("out", "", "output directory")
	replay := flag.String("replay", "", "replay the op lines of this file against the implementation")
	noGrid := flag.Bool("nogrid", false, "skip the deterministic boundary grid of part A")
	e2eChild := flag.Bool("e2e-child", false, "internal: run part B and write <out>/e2e.jsonl")
	flag.Parse()
	zerolog.SetGlobalLevel(zerolog.Disabled)
	if *replay != "" {
		doReplay(*replay)
		return
	}
	if *e2eChild {
		runE2EChild(*seed, *hist, *steps, *dir)
		return
	}
	rng := vh.NewRng(*seed)
	o := vh.NewOut(*dir)
	nodeParent = *dir
	stillCreating, nonFits, fitsCases, createErrs := 0, 0, 0, 0
	emptyCreated := 0

	oneDP := func(kind string, maxS, maxC int64, cap int, shards []shardSpec, sizes []int) {
		op := fmt.Sprintf("dp %d %d %d %s %s", maxS, maxC, cap, fmtShards(shards), fmtInts(sizes))
		r := runDP(maxS, maxC, cap, shards, sizes, 0)
		o.Emit(kind, op, r.String(), len(sizes) > 0)
		if r.kind == "panic" {
			o.Fail("panic:"+kind, "distributePoints panics", op)
			return
		}
		if sig, what := oracleDP(maxS, maxC, shards, sizes, r); sig != "" {
			o.Fail(sig+":"+kind, what, op)
		}
		ft := fits(maxS, maxC, sizes)
		if ft {
			fitsCases++
			// termination and success under fits when createShardFn cannot fail: uncapped run, aborted after 5000 creations
			r2 := runDP(maxS, maxC, 0, shards, sizes, 5000)
			if r2.kind != "ok" {
				o.Fail("termination:"+kind, "every point fits an empty shard and createShardFn succeeds, yet distributePoints does not return assignments ("+r2.kind+" after "+strconv.Itoa(r2.created)+" created shards)", op)
			} else {
				used := map[string]bool{}
				for _, a := range r2.as {
					used[a.id] = true
				}
				for i := 0; i < r2.created; i++ {
					if !used[fmt.Sprintf("n%d", i)] {
						emptyCreated++
					}
				}
			}
			if r.kind == "err" {
				createErrs++
			}
		} else if len(sizes) > 0 {
			nonFits++
			nonneg := true
			for _, s := range shards {
				if s.size < 0 || s.count < 0 {
					nonneg = false
				}
			}
			r2 := runDP(maxS, maxC, 0, shards, sizes, 5000)
			if r2.kind == "aborted" {
				stillCreating++ // the excluded point: the real loop is still creating shards after 5000 of them
			} else if nonneg && r2.kind == "ok" {
				// C15_diverges_without_fits says the loop cannot end here; if the real code ends, the model is wrong — the diff shows it
				o.Stats["nonfits-terminated"]++
			}
		}
	}

	// ---------------------------------------------------------------- boundary grid (deterministic)
	for _, maxC := range []int64{1, 2, 3} {
		if *noGrid {
			break
		}
		for _, maxS := range []int64{16, 24, 40, 48} {
			for _, nsh := range []int{0, 1, 2} {
				for _, np := range []int{0, 1, 2, 3, 4} {
					for _, fillC := range []int64{0, maxC - 1, maxC, maxC + 1} {
						for _, fillS := range []int64{0, maxS - 24, maxS - 23, maxS, maxS + 1} {
							if fillS < 0 || fillC < 0 || (nsh == 0 && (fillC != 0 || fillS != 0)) {
								continue
							}
							sh := make([]shardSpec, nsh)
							for i := range sh {
								sh[i] = shardSpec{fillS, fillC}
							}
							for _, psz := range []int{16, 24} {
								sizes := make([]int, np)
								for i := range sizes {
									sizes[i] = psz
								}
								cap := 1000
								if !fits(maxS, maxC, sizes) {
									cap = 7
								}
								oneDP("dp-grid", maxS, maxC, cap, sh, sizes)
							}
						}
					}
				}
			}
		}
	}
	// ---------------------------------------------------------------- random cases
	for i := 0; i < *n; i++ {
		maxC := vh.Pick(rng, []int64{1, 1, 2, 3, 5, 10, 250000})
		maxS := vh.Pick(rng, []int64{16, 24, 40, 64, 100, 1000, 1 << 28})
		if rng.Chance(4) {
			maxC = vh.Pick(rng, []int64{0, -1})
		}
		if rng.Chance(3) {
			maxS = vh.Pick(rng, []int64{0, 15, -5})
		}
		nsh := rng.Intn(6)
		sh := make([]shardSpec, nsh)
		for j := range sh {
			c := vh.Pick(rng, []int64{0, 0, maxC - 2, maxC - 1, maxC, maxC + 1, int64(rng.Intn(12))})
			s := vh.Pick(rng, []int64{0, 0, maxS - 48, maxS - 24, maxS - 17, maxS - 16, maxS - 15, maxS, maxS + 1, int64(rng.Intn(200))})
			if c < 0 {
				c = 0
			}
			if s < 0 {
				s = 0
			}
			if rng.Chance(1) {
				c, s = -int64(rng.Intn(3)), -int64(rng.Intn(50)) // never produced by the real GetShardsInfo; int64 all the same
			}
			sh[j] = shardSpec{s, c}
		}
		np := rng.Intn(14)
		if rng.Chance(15) {
			np = 0
		}
		sizes := make([]int, np)
		for j := range sizes {
			sizes[j] = 16 + vh.Pick(rng, []int{0, 0, 1, 8, 8, 24, rng.Intn(40)})
			if rng.Chance(5) && maxS >= 16 && maxS < 1<<20 {
				sizes[j] = int(maxS) + vh.Pick(rng, []int{-1, 0, 0, 1}) // at / just below / just above a whole shard
				if sizes[j] < 16 {
					sizes[j] = 16
				}
			}
		}
		cap := 1000
		if !fits(maxS, maxC, sizes) {
			cap = rng.Intn(30)
		} else if rng.Chance(8) {
			cap = rng.Intn(3) // createShardFn fails early
		}
		oneDP("dp-random", maxS, maxC, cap, sh, sizes)
	}

	// ---------------------------------------------------------------- part B (child process)
	e2eSummary := collectE2E(o, *seed, *hist, *steps, *dir)

	o.Close(map[string]any{
		"rule":                  "distinct op lines with a non-empty batch (dp / ins) or a collection creation (cc)",
		"dp_cases_fits":         fitsCases,
		"dp_cases_outside_fits": nonFits,
		"dp_outside_fits_still_creating_after_5000_shards": stillCreating,
		"dp_fits_cases_ending_in_createShardFn_error":      createErrs,
		"dp_fits_created_shards_left_empty":                emptyCreated,
		"e2e":                                              e2eSummary,
	})
}

// ---------------------------------------------------------------------------- part B runs in a child process
// (a panic inside a goroutine of the real code cannot be recovered; the parent survives it)

type e2eRec struct {
	Type       string         `json:"type"` // emit | fail | pending | summary
	Kind       string         `json:"kind,omitempty"`
	Op         string         `json:"op,omitempty"`
	Ans        string         `json:"ans,omitempty"`
	Nontrivial bool           `json:"nontrivial,omitempty"`
	Sig        string         `json:"sig,omitempty"`
	What       string         `json:"what,omitempty"`
	Replay     string         `json:"replay,omitempty"`
	Summary    map[string]any `json:"summary,omitempty"`
}

type childSink struct {
	f     *os.File
	enc   *json.Encoder
	Stats map[string]int
}

func (c *childSink) put(r e2eRec) { c.enc.Encode(r) }
func (c *childSink) Emit(kind, op, ans string, nontrivial bool) {
	c.put(e2eRec{Type: "emit", Kind: kind, Op: op, Ans: ans, Nontrivial: nontrivial})
}
func (c *childSink) Fail(sig, what, replay string) {
	c.put(e2eRec{Type: "fail", Sig: sig, What: what, Replay: replay})
}
func (c *childSink) Pending(desc string) { c.put(e2eRec{Type: "pending", Op: desc}) }

func runE2EChild(seedv uint64, histv, stepsv int, dirv string) {
	seed, hist, steps := &seedv, &histv, &stepsv
	f, err := os.Create(filepath.Join(dirv, "e2e.jsonl"))
	if err != nil {
		fmt.Fprintln(os.Stderr, err)
		os.Exit(3)
	}
	o := &childSink{f: f, enc: json.NewEncoder(f), Stats: map[string]int{}}
	nodeParent = dirv
	rng := vh.NewRng(*seed ^ 0xe2e0e2e0)
	e2eSteps, refusedIns, acceptedIns, failedRanges := 0, 0, 0, 0
	ccOutcomes := map[string]int{}
	hung := false
	for h := 0; h < *hist && !hung; h++ {
		maxC := vh.Pick(rng, []int64{1, 2, 3, 5})
		e, err := newNode(maxC)
		if err != nil {
			o.Stats["e2e-setup-error"]++
			continue
		}
		users := []string{"u1", "u10", "v"}
		maxCols := map[string]int{"u1": 1 + rng.Intn(2), "u10": rng.Intn(2), "v": 2}
		quota := map[string]int64{}
		var keys []string
		type colState struct {
			user, id string
			ids      []uuid.UUID
		}
		var cols []*colState
		var trace []string
		for s := 0; s < *steps; s++ {
			if len(cols) == 0 || rng.Chance(25) {
				u := vh.Pick(rng, users)
				cid := vh.Pick(rng, []string{"a", "b", "c"})
				op := ccLine(maxCols[u], u, cid, keys)
				o.Pending(op)
				out := createOutcome(e.node.CreateCollection(models.Collection{UserId: u, Id: cid, UserPlan: plan(maxCols[u], 1<<40)}))
				o.Emit("cc", op, out, true)
				trace = append(trace, op)
				ccOutcomes[out]++
				e2eSteps++
				// oracle: per-user collection quota, no side effect on refusal
				have, exists := 0, false
				for _, k := range keys {
					if strings.HasPrefix(k, u+"/") {
						have++
					}
					if k == u+"/"+cid {
						exists = true
					}
				}
				lst, lerr := e.node.ListCollections(u)
				wantAfter := have
				switch {
				case exists && out != "exists":
					o.Fail("create-exists", "creating an existing collection is not reported as existing: "+out, strings.Join(trace, "\n"))
				case !exists && have >= maxCols[u] && out != "quota":
					o.Fail("create-quota-exceeded", fmt.Sprintf("user %s has %d collections, plan allows %d, creation answered %q", u, have, maxCols[u], out), strings.Join(trace, "\n"))
				case !exists && have < maxCols[u] && out != "created":
					o.Fail("create-false-refusal", fmt.Sprintf("user %s has %d collections, plan allows %d, creation answered %q", u, have, maxCols[u], out), strings.Join(trace, "\n"))
				}
				if out == "created" {
					wantAfter++
					keys = append(keys, u+"/"+cid)
					sort.Strings(keys)
					cols = append(cols, &colState{user: u, id: cid})
					quota[u+"/"+cid] = int64(3 + rng.Intn(10))
				}
				if lerr == nil && len(lst) != wantAfter {
					o.Fail("create-side-effect", fmt.Sprintf("user %s lists %d collections after a creation answered %q, expected %d", u, len(lst), out, wantAfter), strings.Join(trace, "\n"))
				}
				continue
			}
			c := vh.Pick(rng, cols)
			q := quota[c.user+"/"+c.id]
			_, pre0, err := observe(e, c.user, c.id, plan(9, q))
			if err != nil {
				o.Stats["e2e-observe-error"]++
				continue
			}
			tot := int64(0)
			for _, s := range pre0 {
				tot += s.PointCount
			}
			room := q - tot
			nb := vh.Pick(rng, []int{0, 1, 2, 3, int(room) - 1, int(room), int(room) + 1, rng.Intn(8)})
			if nb < 0 {
				nb = 0
			}
			pts := make([]models.Point, nb)
			sizes := make([]int, nb)
			for i := range pts {
				var id uuid.UUID
				if i > 0 && rng.Chance(10) {
					id = pts[i-1].Id // the same id twice in one batch: the shard receiving both refuses its whole range
				} else if len(c.ids) > 0 && rng.Chance(12) {
					id = c.ids[len(c.ids)-1-rng.Intn(min(3, len(c.ids)))] // already stored: the shard will refuse its range
				} else {
					for j := 0; j < 16; j += 8 {
						x := rng.U64()
						for b := 0; b < 8; b++ {
							id[j+b] = byte(x >> (8 * b))
						}
					}
				}
				sizes[i] = 16 + int(id[0])%24 // a function of the id: the sort by id is then unambiguous for the sizes
				pts[i] = mkPoint(id, sizes[i])
			}
			// InsertPoints sorts the batch by id before distributing: give the model the sizes in that order
			order := make([]int, nb)
			for i := range order {
				order[i] = i
			}
			sort.SliceStable(order, func(a, b int) bool {
				return strings.Compare(string(pts[order[a]].Id[:]), string(pts[order[b]].Id[:])) < 0
			})
			sorted := make([]int, nb)
			for i, k := range order {
				sorted[i] = sizes[k]
			}
			o.Pending(insLine(maxC, q, pre0, sorted))
			pre, obs := doInsert(e, c.user, c.id, plan(9, q), maxC, pts)
			op := insLine(maxC, q, pre, sorted)
			o.Emit("ins", op, obs.answer, nb > 0)
			trace = append(trace, op)
			e2eSteps++
			if obs.hang {
				hung = true
			}
			if obs.fail[0] != "" {
				o.Fail("e2e-"+obs.fail[0], obs.fail[1], "# history on one node (seed "+strconv.FormatUint(*seed, 10)+", history "+strconv.Itoa(h)+"); the last line is the failing step\n"+strings.Join(trace, "\n"))
			}
			switch {
			case obs.answer == "refused":
				refusedIns++
			case strings.HasPrefix(obs.answer, "ok"):
				acceptedIns++
				failedRanges += obs.nfailed
				// remember what is stored now (ids of ranges that did not fail are stored; keep it simple: re-read nothing, remember all)
				for _, p := range pts {
					c.ids = append(c.ids, p.Id)
				}
			}
			if strings.HasPrefix(obs.answer, "error") {
				o.Stats["e2e-error"]++
			}
			if hung {
				break
			}
		}
		if !hung {
			e.close()
		}
	}

	o.put(e2eRec{Type: "summary", Summary: map[string]any{
		"e2e_steps":                    e2eSteps,
		"e2e_inserts_refused_by_quota": refusedIns,
		"e2e_inserts_accepted":         acceptedIns,
		"e2e_failed_ranges_reported":   failedRanges,
		"e2e_create_outcomes":          ccOutcomes,
		"e2e_stats":                    o.Stats,
	}})
	f.Close()
	os.Exit(0) // do not wait for a hanging InsertPoints goroutine
}

// collectE2E runs part B in a child process and feeds what it recorded into the parent's output
func collectE2E(o *vh.Out, seed uint64, hist, steps int, dir string) map[string]any {
	summary := map[string]any{}
	if hist <= 0 {
		return summary
	}
	cmd := exec.Command(os.Args[0], "-e2e-child", "-seed", strconv.FormatUint(seed, 10), "-hist", strconv.Itoa(hist), "-steps", strconv.Itoa(steps), "-out", dir)
	var stderr strings.Builder
	cmd.Stderr = &stderr
	done := make(chan error, 1)
	if err := cmd.Start(); err != nil {
		o.Stats["e2e-child-start-error"]++
		return summary
	}
	go func() { done <- cmd.Wait() }()
	var werr error
	timedOut := false
	select {
	case werr = <-done:
	case <-time.After(time.Duration(60+hist*steps/2) * time.Second):
		cmd.Process.Kill()
		werr = <-done
		timedOut = true
	}
	var trace []string
	pending := ""
	sawSummary := false
	if fl, err := os.Open(filepath.Join(dir, "e2e.jsonl")); err == nil {
		sc := bufio.NewScanner(fl)
		sc.Buffer(make([]byte, 1<<20), 1<<28)
		for sc.Scan() {
			var r e2eRec
			if json.Unmarshal(sc.Bytes(), &r) != nil {
				continue
			}
			switch r.Type {
			case "emit":
				o.Emit(r.Kind, r.Op, r.Ans, r.Nontrivial)
				trace = append(trace, r.Op)
				pending = ""
			case "fail":
				o.Fail(r.Sig, r.What, r.Replay)
			case "pending":
				pending = r.Op
			case "summary":
				summary = r.Summary
				sawSummary = true
			}
		}
		fl.Close()
		os.Remove(filepath.Join(dir, "e2e.jsonl"))
	}
	if !sawSummary {
		// the child died (panic in a goroutine of the real code, os.Exit, kill on timeout)
		if len(trace) > 12 {
			trace = trace[len(trace)-12:]
		}
		what := "the single-node history run crashed"
		if timedOut {
			what = "the single-node history run did not finish in time"
		}
		tail := stderr.String()
		if i := strings.Index(tail, "panic:"); i >= 0 {
			tail = tail[i:]
		}
		if len(tail) > 600 {
			tail = tail[:600]
		}
		o.Fail("e2e-crash", fmt.Sprintf("%s (%v) while executing: %s; stderr: %s", what, werr, pending, strings.ReplaceAll(tail, "\n", " | ")),
			"# steps of the history before the crash; the crashing step is the last line\n"+strings.Join(append(trace, pending), "\n"))
	}
	return summary
}
