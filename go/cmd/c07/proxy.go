package main

// Storage proxy installed through (*shard.Shard).VerifWrapDB: implements diskstore.DiskStore /
// BucketManager / Bucket by delegation, counts every storage call issued inside an armed Write and
// injects one fault: an error from the k-th fallible call, an error from the k-th bucket-manager
// Get ("index construction fails"), an error from the COMMIT STEP ITSELF (the Write callback runs to
// completion and returns nil, then the storage refuses the commit: everything is rolled back and
// Write returns an error - full disk, I/O error on the meta page), or os.Exit at the k-th call /
// right before commit / right after commit.  Bucket.Get cannot return an error in this interface, so reads are only counted (and can
// be crash points); the scans (ForEach/PrefixScan/RangeScan) can fail.
import (
	"encoding/hex"
	"errors"
	"fmt"
	"os"
	"strings"
	"sync"

	"github.com/semafind/semadb/diskstore"
)

const exitCodeInjected = 77

var errInjected = errors.New("verif: injected storage fault")

// the commit of the write transaction fails: returned from the closure that wraps the shard's
// callback AFTER the callback has returned nil, so that bbolt rolls the transaction back and
// DiskStore.Write returns an error although the callback succeeded (what tx.Commit failing looks
// like to the caller of Write)
var errInjectedCommit = errors.New("verif: injected storage fault at commit")

type Fault struct {
	Kind string // none | err | psErr | bmget | commitErr | exit | psExit | exitPre | exitPost
	K    int
}

func parseFault(s string) Fault {
	if s == "" || s == "none" {
		return Fault{Kind: "none"}
	}
	parts := strings.SplitN(s, ":", 2)
	f := Fault{Kind: parts[0]}
	if len(parts) == 2 {
		fmt.Sscanf(parts[1], "%d", &f.K)
	}
	return f
}

func (f Fault) String() string {
	switch f.Kind {
	case "none", "exitPre", "exitPost", "commitErr":
		return f.Kind
	}
	return fmt.Sprintf("%s:%d", f.Kind, f.K)
}

type ctl struct {
	mu      sync.Mutex
	armed   bool
	inWrite bool
	fault   Fault
	marker  func(string)
	// counters of the armed write
	kinds    []byte   // one letter per storage call in arrival order: G P D F(orEach) S(prefixScan) R(angeScan)
	fallible []int    // indices (into kinds) of the fallible calls
	ps       []int    // indices of the calls on the point store buckets ("points", "internal")
	psTrace  []string // "<letter>:<bucket>:<keyhex>" for the point store calls
	nBmGet   int
	late     int // calls that arrived after the Write closure had returned (runaway goroutines)
	lateOps  []string
	fired    string
}

func isPS(bucket string) bool { return bucket == "points" || bucket == "internal" }

// op is called before every storage call; it returns true when the call must fail.
func (c *ctl) op(letter byte, bucket string, key []byte) bool {
	c.mu.Lock()
	defer c.mu.Unlock()
	if !c.armed {
		return false
	}
	if !c.inWrite {
		c.late++
		if len(c.lateOps) < 4 {
			c.lateOps = append(c.lateOps, fmt.Sprintf("%c:%s", letter, bucket))
		}
		if c.late == 1 && c.marker != nil {
			c.marker(fmt.Sprintf("late-op %c:%s", letter, bucket))
		}
		return false
	}
	idx := len(c.kinds)
	c.kinds = append(c.kinds, letter)
	canFail := letter != 'G'
	fidx := -1
	if canFail {
		fidx = len(c.fallible)
		c.fallible = append(c.fallible, idx)
	}
	pidx := -1
	if isPS(bucket) {
		pidx = len(c.ps)
		c.ps = append(c.ps, idx)
		c.psTrace = append(c.psTrace, fmt.Sprintf("%c:%s:%s", letter, bucket, hex.EncodeToString(key)))
	}
	if c.fired != "" {
		return false
	}
	switch c.fault.Kind {
	case "exit":
		if idx == c.fault.K {
			c.die(fmt.Sprintf("exit at call %d %c:%s", idx, letter, bucket))
		}
	case "psExit":
		if pidx == c.fault.K {
			c.die(fmt.Sprintf("exit at point-store call %d %c:%s", pidx, letter, bucket))
		}
	case "err":
		if fidx == c.fault.K {
			c.fired = fmt.Sprintf("%c:%s", letter, bucket)
			return true
		}
	case "psErr":
		if pidx == c.fault.K && canFail {
			c.fired = fmt.Sprintf("%c:%s", letter, bucket)
			return true
		}
	}
	return false
}

func (c *ctl) bmGet(name string) bool {
	c.mu.Lock()
	defer c.mu.Unlock()
	if !c.armed || !c.inWrite {
		return false
	}
	i := c.nBmGet
	c.nBmGet++
	if c.fault.Kind == "bmget" && i == c.fault.K && c.fired == "" {
		c.fired = "B:" + name
		return true
	}
	return false
}

func (c *ctl) die(why string) {
	if c.marker != nil {
		c.marker("injected-exit " + why)
	}
	os.Exit(exitCodeInjected)
}

// ------------------------------------------------------------------------------------------

type proxyStore struct {
	inner diskstore.DiskStore
	c     *ctl
}

func (p proxyStore) Path() string                   { return p.inner.Path() }
func (p proxyStore) BackupToFile(path string) error { return p.inner.BackupToFile(path) }
func (p proxyStore) SizeInBytes() (int64, error)    { return p.inner.SizeInBytes() }
func (p proxyStore) Close() error                   { return p.inner.Close() }

func (p proxyStore) Read(f func(diskstore.BucketManager) error) error {
	// read transactions are never faulted; their calls are not counted (inWrite is false only
	// for them when no write is running: the harness is single-threaded around batches)
	return p.inner.Read(f)
}

func (p proxyStore) Write(f func(diskstore.BucketManager) error) error {
	c := p.c
	c.mu.Lock()
	armed := c.armed
	c.mu.Unlock()
	if !armed {
		return p.inner.Write(f)
	}
	err := p.inner.Write(func(bm diskstore.BucketManager) error {
		c.mu.Lock()
		c.inWrite = true
		c.mu.Unlock()
		e := f(proxyBM{inner: bm, c: c})
		c.mu.Lock()
		c.inWrite = false
		c.mu.Unlock()
		if e != nil {
			c.marker("closure-returned err")
		} else {
			c.marker("closure-returned ok")
			if c.fault.Kind == "exitPre" {
				c.die("right before commit")
			}
			if c.fault.Kind == "commitErr" {
				c.mu.Lock()
				c.fired = "C:commit"
				c.mu.Unlock()
				c.marker("commit-fault-injected")
				return errInjectedCommit // bbolt rolls back; Write returns this error
			}
		}
		return e
	})
	if err == nil {
		c.marker("write-returned ok")
		if c.fault.Kind == "exitPost" {
			c.die("right after commit")
		}
	} else {
		c.marker("write-returned err")
	}
	return err
}

type proxyBM struct {
	inner diskstore.BucketManager
	c     *ctl
}

func (b proxyBM) Get(name string) (diskstore.Bucket, error) {
	if b.c.bmGet(name) {
		return nil, fmt.Errorf("bucket %s: %w", name, errInjected)
	}
	bk, err := b.inner.Get(name)
	if err != nil {
		return nil, err
	}
	return proxyBucket{inner: bk, name: name, c: b.c}, nil
}

func (b proxyBM) Delete(name string) error { return b.inner.Delete(name) }

type proxyBucket struct {
	inner diskstore.Bucket
	name  string
	c     *ctl
}

func (b proxyBucket) IsReadOnly() bool { return b.inner.IsReadOnly() }
func (b proxyBucket) Get(k []byte) []byte {
	b.c.op('G', b.name, k)
	return b.inner.Get(k)
}
func (b proxyBucket) Put(k, v []byte) error {
	if b.c.op('P', b.name, k) {
		return errInjected
	}
	return b.inner.Put(k, v)
}
func (b proxyBucket) Delete(k []byte) error {
	if b.c.op('D', b.name, k) {
		return errInjected
	}
	return b.inner.Delete(k)
}
func (b proxyBucket) ForEach(f func(k, v []byte) error) error {
	if b.c.op('F', b.name, nil) {
		return errInjected
	}
	return b.inner.ForEach(f)
}
func (b proxyBucket) PrefixScan(prefix []byte, f func(k, v []byte) error) error {
	if b.c.op('S', b.name, prefix) {
		return errInjected
	}
	return b.inner.PrefixScan(prefix, f)
}
func (b proxyBucket) RangeScan(start, end []byte, inclusive bool, f func(k, v []byte) error) error {
	if b.c.op('R', b.name, start) {
		return errInjected
	}
	return b.inner.RangeScan(start, end, inclusive, f)
}
