package main

// Observation of a shard: a fixed query set (ids by `_id`, filters, text, flat and graph vector
// searches, Info().PointCount) and digests of every bucket, raw (exact bytes) and canonical
// (everything that legitimately differs between two fault-free runs of the same batch is
// normalised: Go-map order inside msgpack maps, roaring container layout, the order of the free
// node id list, which free node id a point received, the random edges of the graph).
import (
	"bytes"
	"crypto/sha256"
	"encoding/binary"
	"encoding/hex"
	"fmt"
	"math"
	"sort"
	"strings"

	"github.com/RoaringBitmap/roaring/roaring64"
	"github.com/google/uuid"
	"github.com/semafind/semadb/diskstore"
	"github.com/semafind/semadb/models"
	"github.com/semafind/semadb/shard"
	"github.com/vmihailenco/msgpack/v5"
)

type Answers struct {
	Q     []string          `json:"q"`     // "label=answer", fixed order
	Raw   map[string]string `json:"raw"`   // bucket -> sha256 of the exact content
	Canon map[string]string `json:"canon"` // bucket -> sha256 of the canonical content
	PS    string            `json:"ps"`    // point store (points + internal) in the form the Lean model keeps it: count/fnv
	Err   string            `json:"err,omitempty"`
}

func canonVal(v any) string {
	switch x := v.(type) {
	case nil:
		return "null"
	case map[string]any:
		ks := make([]string, 0, len(x))
		for k := range x {
			ks = append(ks, k)
		}
		sort.Strings(ks)
		var sb strings.Builder
		sb.WriteString("{")
		for i, k := range ks {
			if i > 0 {
				sb.WriteString(",")
			}
			fmt.Fprintf(&sb, "%q:%s", k, canonVal(x[k]))
		}
		sb.WriteString("}")
		return sb.String()
	case []any:
		ps := make([]string, len(x))
		for i, e := range x {
			ps[i] = canonVal(e)
		}
		return "[" + strings.Join(ps, ",") + "]"
	case string:
		return fmt.Sprintf("%q", x)
	case float32:
		return fmt.Sprintf("f32:%08x", math.Float32bits(x))
	case float64:
		return fmt.Sprintf("f64:%016x", math.Float64bits(x))
	case []byte:
		return "b:" + hex.EncodeToString(x)
	default:
		return fmt.Sprintf("%T:%v", v, v)
	}
}

func canonDoc(data []byte) string {
	if len(data) == 0 {
		return "<empty>"
	}
	var m map[string]any
	if err := msgpack.Unmarshal(data, &m); err != nil {
		return "undecodable:" + hex.EncodeToString(data)
	}
	return canonVal(m)
}

func canonAny(data []byte) string {
	var v any
	if err := msgpack.Unmarshal(data, &v); err != nil {
		return "undecodable:" + hex.EncodeToString(data)
	}
	return canonVal(v)
}

func f32(x float32) string { return fmt.Sprintf("%08x", math.Float32bits(x)) }

type ranked struct {
	id   string
	bits string
	key  float32
}

func rankedAnswer(res []models.SearchResult, byScore bool) string {
	rs := make([]ranked, 0, len(res))
	for _, r := range res {
		x := ranked{id: r.Point.Id.String()}
		switch {
		case byScore && r.Score != nil:
			x.bits, x.key = f32(*r.Score), -*r.Score
		case !byScore && r.Distance != nil:
			x.bits, x.key = f32(*r.Distance), *r.Distance
		default:
			x.bits = "none"
		}
		rs = append(rs, x)
	}
	sort.SliceStable(rs, func(i, j int) bool {
		if rs[i].key != rs[j].key {
			return rs[i].key < rs[j].key
		}
		return rs[i].id < rs[j].id
	})
	ps := make([]string, len(rs))
	for i, r := range rs {
		ps[i] = r.id[:8] + "@" + r.bits
	}
	return strings.Join(ps, " ")
}

func idsAnswer(res []models.SearchResult) string {
	ids := make([]string, len(res))
	for i, r := range res {
		ids[i] = r.Point.Id.String()[:8]
	}
	sort.Strings(ids)
	return strings.Join(ids, " ")
}

type namedQuery struct {
	label string
	req   models.SearchRequest
	kind  string // ids | docs | dist | score
}

func querySet(sc *Scenario) []namedQuery {
	var qs []namedQuery
	add := func(label, kind string, q models.Query) {
		qs = append(qs, namedQuery{label: label, kind: kind, req: models.SearchRequest{Query: q, Select: []string{"*"}}})
	}
	add("_id", "docs", models.Query{Property: "_id", StringArray: &models.SearchStringArrayOptions{Value: sc.AllIds, Operator: models.OperatorContainsAny}})
	for _, c := range catPool {
		add("cat="+c, "ids", models.Query{Property: "cat", String: &models.SearchStringOptions{Value: c, Operator: models.OperatorEquals}})
	}
	add("cat>=c", "ids", models.Query{Property: "cat", String: &models.SearchStringOptions{Value: "c", Operator: models.OperatorGreaterOrEq}})
	for _, l := range labelPool[:2] {
		add("labels~"+l, "ids", models.Query{Property: "labels", StringArray: &models.SearchStringArrayOptions{Value: []string{l}, Operator: models.OperatorContainsAny}})
	}
	add("labels=x&y", "ids", models.Query{Property: "labels", StringArray: &models.SearchStringArrayOptions{Value: []string{"x", "y"}, Operator: models.OperatorContainsAll}})
	for _, s := range sizePool {
		add(fmt.Sprintf("size=%d", s), "ids", models.Query{Property: "size", Integer: &models.SearchIntegerOptions{Value: s, Operator: models.OperatorEquals}})
	}
	add("size in[-3,7]", "ids", models.Query{Property: "size", Integer: &models.SearchIntegerOptions{Value: -3, EndValue: 7, Operator: models.OperatorInRange}})
	add("size>1", "ids", models.Query{Property: "size", Integer: &models.SearchIntegerOptions{Value: 1, Operator: models.OperatorGreaterThan}})
	add("price<2", "ids", models.Query{Property: "price", Float: &models.SearchFloatOptions{Value: 2, Operator: models.OperatorLessThan}})
	add("price in[0.25,100]", "ids", models.Query{Property: "price", Float: &models.SearchFloatOptions{Value: 0.25, EndValue: 100, Operator: models.OperatorInRange}})
	for _, w := range wordPool {
		add("desc~"+w, "score", models.Query{Property: "desc", Text: &models.SearchTextOptions{Value: w, Operator: models.OperatorContainsAny, Limit: 75}})
	}
	add("desc=alpha&beta", "ids", models.Query{Property: "desc", Text: &models.SearchTextOptions{Value: "alpha beta", Operator: models.OperatorContainsAll, Limit: 75}})
	for i, v := range [][]float32{{0.5, -0.25}, {-3, 4.125}} {
		add(fmt.Sprintf("flat#%d", i), "dist", models.Query{Property: "flat", VectorFlat: &models.SearchVectorFlatOptions{Vector: v, Operator: models.OperatorNear, Limit: 75}})
		add(fmt.Sprintf("vec#%d", i), "dist", models.Query{Property: "vec", VectorVamana: &models.SearchVectorVamanaOptions{Vector: v, Operator: models.OperatorNear, SearchSize: 75, Limit: 75}})
	}
	add("and(cat=red,size>1)", "ids", models.Query{Property: "_and", And: []models.Query{
		{Property: "cat", String: &models.SearchStringOptions{Value: "red", Operator: models.OperatorEquals}},
		{Property: "size", Integer: &models.SearchIntegerOptions{Value: 1, Operator: models.OperatorGreaterThan}}}})
	return qs
}

func observe(s *shard.Shard, sc *Scenario) (a Answers) {
	defer func() {
		if r := recover(); r != nil {
			a.Err = fmt.Sprintf("panic while observing: %v", r)
		}
	}()
	for _, nq := range querySet(sc) {
		res, err := s.SearchPoints(nq.req)
		var ans string
		switch {
		case err != nil:
			ans = "ERROR " + classify(err)
		case nq.kind == "ids":
			ans = idsAnswer(res)
		case nq.kind == "dist":
			ans = rankedAnswer(res, false)
		case nq.kind == "score":
			ans = rankedAnswer(res, true)
		case nq.kind == "docs":
			ps := make([]string, len(res))
			for i, r := range res {
				ps[i] = r.Point.Id.String()[:8] + "=" + canonDoc(r.Point.Data)
			}
			sort.Strings(ps)
			ans = strings.Join(ps, " ")
		}
		a.Q = append(a.Q, nq.label+" => "+ans)
	}
	si, err := s.Info()
	if err != nil {
		a.Q = append(a.Q, "pointCount => ERROR")
	} else {
		a.Q = append(a.Q, fmt.Sprintf("pointCount => %d", si.PointCount))
	}
	a.Raw, a.Canon, a.PS = digests(s.VerifDB())
	return a
}

type kv struct{ k, v []byte }

func dump(b diskstore.Bucket) []kv {
	var es []kv
	b.ForEach(func(k, v []byte) error {
		es = append(es, kv{append([]byte{}, k...), append([]byte{}, v...)})
		return nil
	})
	sort.Slice(es, func(i, j int) bool { return bytes.Compare(es[i].k, es[j].k) < 0 })
	return es
}

func shaOf(lines []string) string {
	h := sha256.New()
	for _, l := range lines {
		h.Write([]byte(l))
		h.Write([]byte{'\n'})
	}
	return hex.EncodeToString(h.Sum(nil))[:24]
}

func nodeIdOf(k []byte) (uint64, byte, bool) {
	if len(k) == 10 && k[0] == 'n' {
		return binary.LittleEndian.Uint64(k[1:9]), k[9], true
	}
	return 0, 0, false
}

func setToNames(v []byte, name func(uint64) string) string {
	bm := roaring64.New()
	if _, err := bm.ReadFrom(bytes.NewReader(v)); err != nil {
		return "undecodable-set:" + hex.EncodeToString(v)
	}
	var ns []string
	it := bm.Iterator()
	for it.HasNext() {
		ns = append(ns, name(it.Next()))
	}
	sort.Strings(ns)
	return strings.Join(ns, ",")
}

// fnv-1a 64 over length-prefixed entries: the Lean driver computes the same over its model buckets
type fnv struct{ h uint64 }

func newFnv() *fnv { return &fnv{h: 0xcbf29ce484222325} }
func (f *fnv) bytes(b []byte) {
	for _, x := range b {
		f.h ^= uint64(x)
		f.h *= 0x100000001b3
	}
}
func (f *fnv) entry(k, v []byte) {
	var l [4]byte
	binary.LittleEndian.PutUint32(l[:], uint32(len(k)))
	f.bytes(l[:])
	f.bytes(k)
	binary.LittleEndian.PutUint32(l[:], uint32(len(v)))
	f.bytes(l[:])
	f.bytes(v)
}

func digests(db diskstore.DiskStore) (raw, canon map[string]string, ps string) {
	raw, canon = map[string]string{}, map[string]string{}
	db.Read(func(bm diskstore.BucketManager) error {
		dumps := map[string][]kv{}
		for _, name := range allBuckets {
			b, err := bm.Get(name)
			if err != nil {
				raw[name] = "ERROR"
				continue
			}
			es := dump(b)
			dumps[name] = es
			lines := make([]string, len(es))
			for i, e := range es {
				lines[i] = hex.EncodeToString(e.k) + "=" + hex.EncodeToString(e.v)
			}
			raw[name] = fmt.Sprintf("%d:%s", len(es), shaOf(lines))
		}
		// node id -> uuid through the point store
		names := map[uint64]string{}
		for _, e := range dumps["points"] {
			if id, suf, ok := nodeIdOf(e.k); ok && suf == 'i' && len(e.v) == 16 {
				u, _ := uuid.FromBytes(e.v)
				names[id] = u.String()[:8]
			}
		}
		name := func(id uint64) string {
			if n, ok := names[id]; ok {
				return n
			}
			return fmt.Sprintf("node#%d", id)
		}
		for _, bn := range allBuckets {
			var lines []string
			for _, e := range dumps[bn] {
				id, suf, isNode := nodeIdOf(e.k)
				switch {
				case bn == "points" && isNode && suf == 'i':
					lines = append(lines, "point "+name(id))
				case bn == "points" && isNode && suf == 'd':
					lines = append(lines, "data "+name(id)+" "+canonDoc(e.v))
				case bn == "points" && len(e.k) == 18 && e.k[0] == 'p' && len(e.v) == 8:
					u, _ := uuid.FromBytes(e.k[1:17])
					lines = append(lines, "id "+u.String()[:8]+" -> "+name(binary.LittleEndian.Uint64(e.v)))
				case bn == "internal" && string(e.k) == "freeNodeIds":
					var ids []uint64
					for i := 0; i+8 <= len(e.v); i += 8 {
						ids = append(ids, binary.LittleEndian.Uint64(e.v[i:]))
					}
					sort.Slice(ids, func(i, j int) bool { return ids[i] < ids[j] })
					lines = append(lines, fmt.Sprintf("free %d", len(ids))) // which ids are free depends on the allocation choice; the count does not
				case bn == "internal":
					lines = append(lines, string(e.k)+" "+hex.EncodeToString(e.v))
				case strings.HasPrefix(bn, "index/vectorVamana/"):
					switch {
					case isNode && id == 1:
						lines = append(lines, fmt.Sprintf("start %c", suf)) // random start vector, edges
					case isNode && suf == 'e':
						lines = append(lines, "edges "+name(id))
					case isNode:
						lines = append(lines, fmt.Sprintf("node %s %c %s", name(id), suf, hex.EncodeToString(e.v)))
					case string(e.k) == "_vamanaMaxNodeId":
						lines = append(lines, "maxNodeId") // an upper bound that depends on the allocation choice
					default:
						lines = append(lines, hex.EncodeToString(e.k)+"="+hex.EncodeToString(e.v))
					}
				case strings.HasPrefix(bn, "index/vectorFlat/"):
					if isNode {
						lines = append(lines, fmt.Sprintf("node %s %c %s", name(id), suf, hex.EncodeToString(e.v)))
					} else {
						lines = append(lines, hex.EncodeToString(e.k)+"="+hex.EncodeToString(e.v))
					}
				case strings.HasPrefix(bn, "index/text/"):
					switch {
					case len(e.k) == 9 && e.k[0] == 'd':
						lines = append(lines, "doc "+name(binary.LittleEndian.Uint64(e.k[1:]))+" "+canonAny(e.v))
					case len(e.k) >= 2 && e.k[0] == 't' && e.k[len(e.k)-1] == 's':
						lines = append(lines, "term "+string(e.k[1:len(e.k)-1])+" "+setToNames(e.v, name))
					default:
						lines = append(lines, string(e.k)+"="+hex.EncodeToString(e.v))
					}
				default: // inverted indexes: sortable key -> roaring set of node ids
					lines = append(lines, hex.EncodeToString(e.k)+" "+setToNames(e.v, name))
				}
			}
			sort.Strings(lines)
			canon[bn] = fmt.Sprintf("%d:%s", len(lines), shaOf(lines))
		}
		// the point store as the Lean model keeps it (documents are canonical strings), in a form
		// that does not depend on which free node id a point received: for every p<uuid>i entry
		// in key order: uuid, document reached through the node id, whether n<id>i points back;
		// then the size of the bucket, the point counter, the next fresh node id, the number of
		// free node ids.
		f := newFnv()
		n := 0
		pts := map[string][]byte{}
		for _, e := range dumps["points"] {
			pts[string(e.k)] = e.v
		}
		nodeKey := func(id uint64, suf byte) string {
			k := make([]byte, 10)
			k[0] = 'n'
			binary.LittleEndian.PutUint64(k[1:], id)
			k[9] = suf
			return string(k)
		}
		for _, e := range dumps["points"] {
			if len(e.k) != 18 || e.k[0] != 'p' {
				continue
			}
			id := uint64(0)
			if len(e.v) == 8 {
				id = binary.LittleEndian.Uint64(e.v)
			}
			var doc []byte
			if d, ok := pts[nodeKey(id, 'd')]; ok {
				doc = []byte(canonDoc(d))
			}
			f.entry(e.k[1:17], doc)
			if bytes.Equal(pts[nodeKey(id, 'i')], e.k[1:17]) {
				f.bytes([]byte{1})
			} else {
				f.bytes([]byte{0})
			}
			n++
		}
		var l8 [8]byte
		binary.LittleEndian.PutUint64(l8[:], uint64(len(dumps["points"])))
		f.entry([]byte("count"), l8[:])
		internal := map[string][]byte{}
		for _, e := range dumps["internal"] {
			internal[string(e.k)] = e.v
		}
		f.entry([]byte("pointCount"), internal["pointCount"])
		f.entry([]byte("nextFreeNodeId"), internal["nextFreeNodeId"])
		binary.LittleEndian.PutUint64(l8[:], uint64(len(internal["freeNodeIds"])/8))
		f.entry([]byte("free"), l8[:])
		ps = fmt.Sprintf("%d/%016x", n, f.h)
		return nil
	})
	return
}

func classify(err error) string {
	if err == nil {
		return "ok"
	}
	s := err.Error()
	switch {
	case strings.Contains(s, "verif: injected"):
		return "err:injected"
	case strings.Contains(s, "duplicate point id"):
		return "err:dupid"
	case strings.Contains(s, "point already exists"):
		return "err:existing"
	case strings.Contains(s, "point size exceeds limit"):
		return "err:oversize"
	case strings.Contains(s, "could not cast") || strings.Contains(s, "expected vector got") || strings.Contains(s, "expected float32 got"):
		return "err:badtype"
	case strings.Contains(s, "context canceled"):
		return "err:cancelled"
	default:
		return "err:other"
	}
}
