package main

// Child process: opens the shard on a private copy of the database file, warms the caches by
// answering the query set (pre answers), runs one batch with one fault through the storage proxy,
// answers the query set again on the RUNNING instance, optionally re-issues the batch fault-free,
// and writes a JSON report.  Progress markers go to <report>.log so that the parent knows how far
// a child got that died (injected exit, or a genuine crash of the code under test).
import (
	"encoding/json"
	"fmt"
	"os"
	"sort"
	"strings"
	"time"

	"github.com/google/uuid"
	"github.com/rs/zerolog"
	"github.com/semafind/semadb/diskstore"
	"github.com/semafind/semadb/shard"
	"github.com/semafind/semadb/shard/cache"
)

type ChildSpec struct {
	Scenario Scenario `json:"scenario"`
	Batch    Batch    `json:"batch"`
	Fault    string   `json:"fault"`
	Retry    bool     `json:"retry"`
	Mode     string   `json:"mode"` // run | cold | apply (apply: run the batch fault-free, no observation: builds the history)
}

type Report struct {
	Pre        Answers           `json:"pre"`
	CachesPre  map[string]string `json:"cachesPre"`
	Result     string            `json:"result"`
	ErrText    string            `json:"errText,omitempty"`
	Post       Answers           `json:"post"`
	CachesPost map[string]string `json:"cachesPost"`
	Kinds      string            `json:"kinds"`
	Fallible   []int             `json:"fallible"`
	PS         []int             `json:"ps"`
	PSTrace    []string          `json:"psTrace"`
	BmGets     int               `json:"bmGets"`
	Late       int               `json:"late"`
	LateOps    []string          `json:"lateOps,omitempty"`
	Fired      string            `json:"fired,omitempty"`
	LockLeaked bool              `json:"lockLeaked"`
	Retried    bool              `json:"retried"`
	RetryRes   string            `json:"retryResult,omitempty"`
	RetryPost  Answers           `json:"retryPost"`
}

func runBatch(s *shard.Shard, b Batch) error {
	switch b.Kind {
	case "ins":
		return s.InsertPoints(b.Points())
	case "upd":
		_, err := s.UpdatePoints(b.Points())
		return err
	case "del":
		set := map[uuid.UUID]struct{}{}
		for _, id := range b.Ids {
			set[uuid.MustParse(id)] = struct{}{}
		}
		_, err := s.DeletePoints(set)
		return err
	}
	return fmt.Errorf("unknown batch kind %q", b.Kind)
}

func childMain(specPath, dbPath, outPath string) {
	zerolog.SetGlobalLevel(zerolog.Disabled)
	var spec ChildSpec
	raw, err := os.ReadFile(specPath)
	if err == nil {
		err = json.Unmarshal(raw, &spec)
	}
	if err != nil {
		fmt.Fprintln(os.Stderr, "child: bad spec:", err)
		os.Exit(3)
	}
	logf, _ := os.OpenFile(outPath+".log", os.O_CREATE|os.O_WRONLY|os.O_APPEND, 0o644)
	marker := func(s string) {
		if logf != nil {
			fmt.Fprintln(logf, s)
		}
	}
	mgr := cache.NewManager(-1)
	s, err := shard.NewShard(dbPath, collection(), mgr)
	if err != nil {
		fmt.Fprintln(os.Stderr, "child: cannot open shard:", err)
		os.Exit(4)
	}
	c := &ctl{marker: marker, fault: parseFault(spec.Fault)}
	s.VerifWrapDB(func(inner diskstore.DiskStore) diskstore.DiskStore { return proxyStore{inner: inner, c: c} })
	var rep Report
	write := func() {
		b, _ := json.Marshal(rep)
		if err := os.WriteFile(outPath, b, 0o644); err != nil {
			fmt.Fprintln(os.Stderr, "child: cannot write report:", err)
			os.Exit(5)
		}
	}
	switch spec.Mode {
	case "cold":
		rep.Post = observe(s, &spec.Scenario)
		write()
		s.Close()
		return
	case "apply":
		err := runBatch(s, spec.Batch)
		rep.Result = classify(err)
		write()
		s.Close()
		return
	}
	caches := func() map[string]string {
		out := map[string]string{}
		for name, tok := range mgr.VerifSharedCaches() {
			out[strings.TrimPrefix(name, dbPath+"/")] = tok // the cache root is the file name: differs between copies
		}
		return out
	}
	rep.Pre = observe(s, &spec.Scenario)
	rep.CachesPre = caches()
	marker("armed")
	c.mu.Lock()
	c.armed = true
	c.mu.Unlock()
	err = runBatch(s, spec.Batch)
	rep.Result = classify(err)
	if err != nil {
		rep.ErrText = err.Error()
	}
	marker("call-returned " + rep.Result)
	// give goroutines that outlived the call a moment: if they are going to hurt they do it now,
	// while the instance is still "running" (a server would keep running, too)
	time.Sleep(2 * time.Millisecond)
	rep.CachesPost = caches()
	rep.Post = observe(s, &spec.Scenario)
	c.mu.Lock()
	c.armed = false
	rep.Kinds, rep.Fallible, rep.PS, rep.PSTrace = string(c.kinds), c.fallible, c.ps, c.psTrace
	rep.BmGets, rep.Late, rep.LateOps, rep.Fired = c.nBmGet, c.late, c.lateOps, c.fired
	c.mu.Unlock()
	sort.Strings(rep.LateOps)
	marker("observed")
	for _, tok := range caches() {
		if strings.Contains(tok, "locked=true") {
			rep.LockLeaked = true // a write lock on a shared cache survived Commit: every later writer would block for ever
		}
	}
	if spec.Retry && err != nil && !rep.LockLeaked {
		rep.Retried = true
		rep.RetryRes = classify(runBatch(s, spec.Batch))
		rep.RetryPost = observe(s, &spec.Scenario)
		marker("retried " + rep.RetryRes)
	}
	write()
	marker("done")
	s.Close()
}
