package main

// Scenario: a fixed collection (one index of every kind the dispatcher knows: vamana, flat, text,
// string, stringArray, integer, float) and a random history of insert / update / delete batches.
// Documents are typed so that the JSON scenario file reproduces them exactly.
import (
	"bytes"
	"fmt"
	"sort"
	"strings"

	"github.com/google/uuid"
	"github.com/semafind/semadb/models"
	"github.com/vmihailenco/msgpack/v5"
	"verifharness/vh"
)

const maxPointSize = 320

func collection() models.Collection {
	vam := func() *models.IndexVectorVamanaParameters {
		return &models.IndexVectorVamanaParameters{VectorSize: 2, DistanceMetric: "euclidean", SearchSize: 75, DegreeBound: 64, Alpha: 1.2}
	}
	return models.Collection{
		UserId: "verif", Id: "c07", Replicas: 1,
		UserPlan: models.UserPlan{Name: "verif", MaxCollections: 1, MaxCollectionPointCount: 100000, MaxPointSize: maxPointSize},
		IndexSchema: models.IndexSchema{
			"vec":    {Type: models.IndexTypeVectorVamana, VectorVamana: vam()},
			"flat":   {Type: models.IndexTypeVectorFlat, VectorFlat: &models.IndexVectorFlatParameters{VectorSize: 2, DistanceMetric: "euclidean"}},
			"desc":   {Type: models.IndexTypeText, Text: &models.IndexTextParameters{Analyser: "standard"}},
			"cat":    {Type: models.IndexTypeString, String: &models.IndexStringParameters{CaseSensitive: false}},
			"labels": {Type: models.IndexTypeStringArray, StringArray: &models.IndexStringArrayParameters{IndexStringParameters: models.IndexStringParameters{CaseSensitive: false}}},
			"size":   {Type: models.IndexTypeInteger},
			"price":  {Type: models.IndexTypeFloat},
		},
	}
}

// bucket names of the shard file for this collection
var allBuckets = []string{"points", "internal", "index/vectorVamana/vec", "index/vectorFlat/flat", "index/text/desc", "index/string/cat", "index/stringArray/labels", "index/integer/size", "index/float/price"}

// shared caches exist for the two vector indexes only
var cacheProps = map[string]string{"vec": "index/vectorVamana/vec", "flat": "index/vectorFlat/flat"}

var (
	catPool   = []string{"red", "green", "blue", "amber"}
	labelPool = []string{"x", "y", "z", "w"}
	wordPool  = []string{"alpha", "beta", "gamma", "delta", "omega", "sigma"}
	sizePool  = []int64{-3, 0, 1, 7, 42}
	pricePool = []float64{-1.5, 0.25, 2, 9.75, 100}
)

type Doc struct {
	Vec     []float32 `json:"vec,omitempty"`
	Flat    []float32 `json:"flat,omitempty"`
	Desc    *string   `json:"desc,omitempty"`
	Cat     *string   `json:"cat,omitempty"`
	Labels  []string  `json:"labels,omitempty"`
	Size    *int64    `json:"size,omitempty"`
	Price   *float64  `json:"price,omitempty"`
	Extra   *string   `json:"extra,omitempty"`   // not indexed
	BadSize *string   `json:"badSize,omitempty"` // "size" given as a string: wrong type for the integer index
	BadVec  *string   `json:"badVec,omitempty"`  // "vec" given as a string: wrong type for the vamana index
	Del     []string  `json:"del,omitempty"`     // fields set to "_delete" (updates)
}

func (d Doc) Map() map[string]any {
	m := map[string]any{}
	if d.Vec != nil {
		m["vec"] = d.Vec
	}
	if d.Flat != nil {
		m["flat"] = d.Flat
	}
	if d.Desc != nil {
		m["desc"] = *d.Desc
	}
	if d.Cat != nil {
		m["cat"] = *d.Cat
	}
	if d.Labels != nil {
		m["labels"] = d.Labels
	}
	if d.Size != nil {
		m["size"] = *d.Size
	}
	if d.Price != nil {
		m["price"] = *d.Price
	}
	if d.Extra != nil {
		m["extra"] = *d.Extra
	}
	if d.BadSize != nil {
		m["size"] = *d.BadSize
	}
	if d.BadVec != nil {
		m["vec"] = *d.BadVec
	}
	for _, f := range d.Del {
		m[f] = "_delete"
	}
	return m
}

func mpack(m map[string]any) []byte {
	var buf bytes.Buffer
	enc := msgpack.NewEncoder(&buf)
	enc.SetSortMapKeys(true)
	if err := enc.Encode(m); err != nil {
		panic(err)
	}
	return buf.Bytes()
}

type Batch struct {
	Kind string   `json:"kind"` // ins | upd | del
	Ids  []string `json:"ids"`
	Docs []Doc    `json:"docs,omitempty"`
}

func (b Batch) Points() []models.Point {
	ps := make([]models.Point, len(b.Ids))
	for i, id := range b.Ids {
		ps[i] = models.Point{Id: uuid.MustParse(id), Data: mpack(b.Docs[i].Map())}
	}
	return ps
}

type Scenario struct {
	Seed    uint64   `json:"seed"`
	Batches []Batch  `json:"batches"`
	AllIds  []string `json:"allIds"` // every id that occurs anywhere (sorted): the `_id` query asks for all of them
}

func sp[T any](v T) *T { return &v }

func randVec(r *vh.Rng) []float32 {
	// multiples of 1/64 in [-8, 8): exact in float32, ties between distinct points are unlikely and harmless
	return []float32{float32(r.Intn(1024)-512) / 64, float32(r.Intn(1024)-512) / 64}
}

func randText(r *vh.Rng) string {
	n := 1 + r.Intn(5)
	ws := make([]string, n)
	for i := range ws {
		ws[i] = vh.Pick(r, wordPool)
	}
	return strings.Join(ws, " ")
}

func randDoc(r *vh.Rng, full bool) Doc {
	var d Doc
	p := 55
	if full {
		p = 85
	}
	if r.Chance(p) {
		d.Vec = randVec(r)
	}
	if r.Chance(p) {
		d.Flat = randVec(r)
	}
	if r.Chance(p) {
		d.Desc = sp(randText(r))
	}
	if r.Chance(p) {
		d.Cat = sp(vh.Pick(r, catPool))
	}
	if r.Chance(p - 20) {
		n := 1 + r.Intn(2)
		for i := 0; i < n; i++ {
			d.Labels = append(d.Labels, vh.Pick(r, labelPool))
		}
	}
	if r.Chance(p) {
		d.Size = sp(vh.Pick(r, sizePool))
	}
	if r.Chance(p) {
		d.Price = sp(vh.Pick(r, pricePool))
	}
	if r.Chance(30) {
		d.Extra = sp(fmt.Sprintf("e%d", r.Intn(1000)))
	}
	return d
}

func newId(r *vh.Rng) string {
	var u uuid.UUID
	for i := 0; i < 16; i += 8 {
		x := r.U64()
		for j := 0; j < 8; j++ {
			u[i+j] = byte(x >> (8 * j))
		}
	}
	u[6] = (u[6] & 0x0f) | 0x40
	u[8] = (u[8] & 0x3f) | 0x80
	return u.String()
}

// genScenario: nBatches batches; live tracks which ids exist so that updates / deletes mostly hit.
func genScenario(seed uint64, nBatches, maxIns int) Scenario {
	r := vh.NewRng(seed ^ 0xC07)
	sc := Scenario{Seed: seed}
	live := []string{}
	ids := map[string]struct{}{}
	for b := 0; b < nBatches; b++ {
		kind := "ins"
		prefix := []string{"ins", "ins", "upd", "del", "ins", "upd", "del"} // every kind occurs in every history
		if b < len(prefix) {
			kind = prefix[b]
		} else if len(live) >= 4 {
			switch x := r.Intn(20); {
			case x < 7:
				kind = "ins"
			case x < 14:
				kind = "upd"
			default:
				kind = "del"
			}
		}
		var bt Batch
		bt.Kind = kind
		switch kind {
		case "ins":
			n := 2 + r.Intn(maxIns-1)
			for i := 0; i < n; i++ {
				id := newId(r)
				bt.Ids = append(bt.Ids, id)
				bt.Docs = append(bt.Docs, randDoc(r, true))
				live = append(live, id)
			}
		case "upd":
			n := 2 + r.Intn(3)
			seen := map[string]bool{}
			for i := 0; i < n; i++ {
				id := vh.Pick(r, live)
				if r.Chance(15) {
					id = newId(r) // not in the shard: skipped by UpdatePoints
				}
				if seen[id] {
					continue // the same point twice in one update batch is C03/C05's business
				}
				seen[id] = true
				d := randDoc(r, false)
				for _, f := range []string{"vec", "flat", "desc", "cat", "labels", "size", "price", "extra"} {
					if r.Chance(12) {
						d.Del = append(d.Del, f)
					}
				}
				bt.Ids = append(bt.Ids, id)
				bt.Docs = append(bt.Docs, d)
			}
		case "del":
			n := 1 + r.Intn(3)
			seen := map[string]bool{}
			for i := 0; i < n; i++ {
				id := vh.Pick(r, live)
				if r.Chance(15) {
					id = newId(r)
				}
				if seen[id] {
					continue
				}
				seen[id] = true
				bt.Ids = append(bt.Ids, id)
			}
			nl := live[:0]
			for _, id := range live {
				if !seen[id] {
					nl = append(nl, id)
				}
			}
			live = nl
		}
		for _, id := range bt.Ids {
			ids[id] = struct{}{}
		}
		sc.Batches = append(sc.Batches, bt)
	}
	for id := range ids {
		sc.AllIds = append(sc.AllIds, id)
	}
	sort.Strings(sc.AllIds)
	return sc
}

// variant derives a batch that must be rejected from batch bt; liveBefore are ids present before
// the batch (in insertion order). ok=false when the variant does not apply.
func variant(name string, bt Batch, liveBefore []string, r *vh.Rng) (Batch, bool) {
	cp := Batch{Kind: bt.Kind, Ids: append([]string{}, bt.Ids...), Docs: append([]Doc{}, bt.Docs...)}
	switch name {
	case "base":
		return cp, true
	case "dupid": // duplicate id inside an insert batch (rejected before the storage transaction)
		if bt.Kind != "ins" || len(bt.Ids) < 2 {
			return cp, false
		}
		j := 1 + r.Intn(len(cp.Ids)-1)
		cp.Ids[j] = cp.Ids[r.Intn(j)]
		return cp, true
	case "existing": // an id that is already in the shard, at a random position
		if bt.Kind != "ins" || len(liveBefore) == 0 {
			return cp, false
		}
		j := r.Intn(len(cp.Ids))
		if r.Chance(50) {
			j = len(cp.Ids) - 1
		}
		cp.Ids[j] = vh.Pick(r, liveBefore)
		return cp, true
	case "oversize": // merged document larger than UserPlan.MaxPointSize (updates only)
		if bt.Kind != "upd" {
			return cp, false
		}
		for try := 0; try < 8; try++ {
			j := r.Intn(len(cp.Ids))
			if r.Chance(50) {
				j = len(cp.Ids) - 1
			}
			for _, l := range liveBefore {
				if l == cp.Ids[j] {
					d := cp.Docs[j]
					d.Extra = sp(strings.Repeat("x", maxPointSize+20))
					nd := d.Del[:0:0]
					for _, f := range d.Del {
						if f != "extra" {
							nd = append(nd, f)
						}
					}
					d.Del = nd
					cp.Docs[j] = d
					return cp, true
				}
			}
		}
		return cp, false
	case "badtype", "badvec": // wrong field type for an indexed field: the index stage refuses it
		if bt.Kind == "del" {
			return cp, false
		}
		for try := 0; try < 8; try++ {
			j := r.Intn(len(cp.Ids))
			if r.Chance(50) {
				j = len(cp.Ids) - 1
			}
			if bt.Kind == "upd" {
				found := false
				for _, l := range liveBefore {
					found = found || l == cp.Ids[j]
				}
				if !found {
					continue
				}
			}
			d := cp.Docs[j]
			if name == "badtype" {
				d.BadSize = sp("seven")
				d.Size = nil
			} else {
				d.BadVec = sp("north")
				d.Vec = nil
			}
			nd := d.Del[:0:0]
			for _, f := range d.Del {
				if f != "size" && f != "vec" {
					nd = append(nd, f)
				}
			}
			d.Del = nd
			cp.Docs[j] = d
			return cp, true
		}
		return cp, false
	}
	return cp, false
}

var variantNames = []string{"dupid", "existing", "oversize", "badtype", "badvec"}
