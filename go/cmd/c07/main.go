// C07 fault-enumeration harness: a write batch is all-or-nothing under rejection, storage faults
// and crashes.  For every batch of a random history and every fault position k (thorough) or a
// sample (quick) the batch runs with the fault in a CHILD process on a copy of the database file;
// the child answers a fixed query set and bucket digests on the running instance, the parent has
// the file reopened cold (another child) and compares with the pre-batch values (error reported or
// process died before commit) or with the values of a fault-free run (success reported / died
// right after commit).  Fault kinds: the k-th fallible storage call fails, the k-th point-store call
// fails, the k-th bucket-manager Get fails, THE COMMIT ITSELF FAILS (the callback returned nil, the
// storage rolls back, Write returns an error), exit at the k-th call / before / after commit.  The point-store part of every run is also sent to the Lean model.
package main

import (
	"encoding/hex"
	"encoding/json"
	"flag"
	"fmt"
	"io"
	"os"
	"os/exec"
	"path/filepath"
	"regexp"
	"runtime"
	"slices"
	"sort"
	"strings"
	"sync"
	"syscall"
	"time"

	"github.com/google/uuid"
	"github.com/vmihailenco/msgpack/v5"
	"verifharness/vh"
)

type task struct {
	batch   int
	variant string
	b       Batch
	fault   Fault
	rep     int // repetition number (races)
	idx     int
	retry   bool // re-issue the batch without a fault after it failed (same running instance)
}

type outcome struct {
	t        task
	exit     int
	signal   string
	timedOut bool
	stderr   string
	markers  []string
	rep      *Report
	cold     *Answers
	coldErr  string
	dur      time.Duration
}

func (o *outcome) has(m string) bool {
	for _, x := range o.markers {
		if strings.HasPrefix(x, m) {
			return true
		}
	}
	return false
}

var self string

func copyFile(src, dst string) error {
	in, err := os.Open(src)
	if err != nil {
		if os.IsNotExist(err) {
			os.Remove(dst)
			return nil // the empty shard: NewShard creates the file
		}
		return err
	}
	defer in.Close()
	out, err := os.Create(dst)
	if err != nil {
		return err
	}
	if _, err := io.Copy(out, in); err != nil {
		out.Close()
		return err
	}
	return out.Close()
}

type tailBuf struct {
	head, tail []byte
}

func (t *tailBuf) Write(p []byte) (int, error) {
	if len(t.head) < 60000 {
		n := 60000 - len(t.head)
		if n > len(p) {
			n = len(p)
		}
		t.head = append(t.head, p[:n]...)
	}
	t.tail = append(t.tail, p...)
	if len(t.tail) > 3000 {
		t.tail = t.tail[len(t.tail)-3000:]
	}
	return len(p), nil
}

func spawn(spec ChildSpec, db, out string, timeout time.Duration) (exit int, sig string, timedOut bool, stderr string, rep *Report, markers []string) {
	specPath := out + ".spec"
	b, _ := json.Marshal(spec)
	os.WriteFile(specPath, b, 0o644)
	os.Remove(out)
	os.Remove(out + ".log")
	cmd := exec.Command(self, "-child", specPath, "-db", db, "-report", out)
	tb := &tailBuf{}
	cmd.Stderr = tb
	cmd.Stdout = io.Discard
	if err := cmd.Start(); err != nil {
		return -1, "", false, "cannot start child: " + err.Error(), nil, nil
	}
	done := make(chan error, 1)
	go func() { done <- cmd.Wait() }()
	var werr error
	select {
	case werr = <-done:
	case <-time.After(timeout):
		// ask the Go runtime for a goroutine dump first (it goes to stderr), then kill
		cmd.Process.Signal(syscall.SIGQUIT)
		select {
		case werr = <-done:
		case <-time.After(3 * time.Second):
			cmd.Process.Kill()
			werr = <-done
		}
		timedOut = true
	}
	if werr != nil {
		if ee, ok := werr.(*exec.ExitError); ok {
			exit = ee.ExitCode()
			if ws, ok := ee.Sys().(syscall.WaitStatus); ok && ws.Signaled() {
				sig = ws.Signal().String()
			}
		} else {
			exit = -1
		}
	}
	stderr = string(tb.head)
	if lb, err := os.ReadFile(out + ".log"); err == nil {
		for _, l := range strings.Split(strings.TrimSpace(string(lb)), "\n") {
			if l != "" {
				markers = append(markers, l)
			}
		}
	}
	if rb, err := os.ReadFile(out); err == nil {
		var r Report
		if json.Unmarshal(rb, &r) == nil {
			rep = &r
		}
	}
	os.Remove(specPath)
	os.Remove(out)
	os.Remove(out + ".log")
	return
}

func coldObserve(sc *Scenario, db, out string) (*Answers, string) {
	exit, sig, to, stderr, rep, _ := spawn(ChildSpec{Scenario: *sc, Mode: "cold"}, db, out, 60*time.Second)
	if rep == nil || exit != 0 {
		return nil, fmt.Sprintf("reopening failed: exit=%d signal=%s timeout=%v %s", exit, sig, to, firstLines(stderr, 6))
	}
	if rep.Post.Err != "" {
		return nil, rep.Post.Err
	}
	return &rep.Post, ""
}

func firstLines(s string, n int) string {
	ls := strings.Split(s, "\n")
	if len(ls) > n {
		ls = ls[:n]
	}
	return strings.Join(ls, " | ")
}

var frameRe = regexp.MustCompile(`(?m)^(go\.etcd\.io/bbolt[^\s(]*|github\.com/semafind/semadb/[^\s(]*)\(`)

func crashSummary(stderr string) string {
	first := ""
	for _, l := range strings.Split(stderr, "\n") {
		if strings.HasPrefix(l, "panic:") || strings.HasPrefix(l, "fatal error:") || strings.Contains(l, "SIGSEGV") || strings.HasPrefix(l, "unexpected fault address") {
			first = l
			break
		}
	}
	fr := frameRe.FindAllStringSubmatch(stderr, 6)
	var fs []string
	for _, f := range fr {
		fs = append(fs, f[1])
	}
	return first + " @ " + strings.Join(fs, " < ")
}

// ------------------------------------------------------------------------------------------

type batchCtx struct {
	i        int
	b        Batch
	pre      string // db file before the batch
	ref      *Report
	coldPre  *Answers
	coldPost *Answers
	live     []string          // ids present before the batch
	docsPre  map[string][]byte // spec documents before the batch
}

type harness struct {
	sc                             Scenario
	dir                            string
	timeout                        time.Duration
	o                              *vh.Out
	mu                             sync.Mutex
	stats                          map[string]int
	crashes                        map[string]int
	hangs                          map[string]int
	runsKind, hangsKind, crashKind map[string]int // the same per (stage, batch kind)
	runsBy                         map[string]int
	lateRuns                       int
	fails                          map[string]bool
	leanOps                        []leanLine
	scnHex                         string
	samples                        []string
}

type leanLine struct {
	batch, idx int
	op, impl   string
	kind       string
}

func (h *harness) fail(sig, what string, t task, detail string) {
	h.mu.Lock()
	defer h.mu.Unlock()
	h.stats["oracle:"+sig]++
	if h.fails[sig] {
		return
	}
	h.fails[sig] = true
	bj, _ := json.Marshal(t.b)
	replay := fmt.Sprintf("scenario %s\nrun batch=%d variant=%s fault=%s retry=%v times=100 derived=%s", h.scnHex, t.batch, t.variant, t.fault, t.retry, hex.EncodeToString(bj))
	if detail != "" {
		for _, l := range strings.Split(detail, "\n") {
			replay += "\n# " + l
		}
	}
	h.o.Fail(sig, what, replay)
}

func diffAnswers(a, b []string, limit int) string {
	var ds []string
	n := len(a)
	if len(b) > n {
		n = len(b)
	}
	for i := 0; i < n && len(ds) < limit; i++ {
		x, y := "<missing>", "<missing>"
		if i < len(a) {
			x = a[i]
		}
		if i < len(b) {
			y = b[i]
		}
		if x != y {
			ds = append(ds, "expected: "+clip(x)+"\nactual:   "+clip(y))
		}
	}
	return strings.Join(ds, "\n")
}

func clip(s string) string {
	if len(s) > 400 {
		return s[:400] + "…"
	}
	return s
}

func diffMaps(a, b map[string]string) string {
	var ds []string
	for _, k := range allBuckets {
		if a[k] != b[k] {
			ds = append(ds, fmt.Sprintf("bucket %s: expected %s actual %s", k, a[k], b[k]))
		}
	}
	return strings.Join(ds, "\n")
}

func sameQ(a, b []string) bool { return strings.Join(a, "\n") == strings.Join(b, "\n") }
func sameM(a, b map[string]string) bool {
	for _, k := range allBuckets {
		if a[k] != b[k] {
			return false
		}
	}
	return true
}

func stageOf(t task) string {
	if t.variant != "base" {
		return t.variant
	}
	switch t.fault.Kind {
	case "err", "psErr":
		return "storage-error"
	case "bmget":
		return "index-construction"
	case "commitErr":
		return "commit-error"
	}
	return "fault-" + t.fault.Kind
}

// evaluate applies the property oracle to one run.
func (h *harness) evaluate(bc *batchCtx, oc *outcome) {
	t := oc.t
	tag := t.variant + ":" + t.fault.Kind
	h.mu.Lock()
	h.stats["runs"]++
	h.stats["fault:"+t.fault.Kind]++
	h.stats["variant:"+t.variant]++
	h.runsBy[stageOf(t)]++
	h.runsKind[stageOf(t)+"/"+t.b.Kind]++
	h.mu.Unlock()
	count := func(k string) {
		h.mu.Lock()
		h.stats[k]++
		h.mu.Unlock()
	}
	expectPost := false // which state must the reopened file show?
	switch {
	case oc.timedOut:
		count("outcome:hang")
		blocked := strings.Contains(oc.stderr, "cache.(*Transaction).With") && strings.Contains(oc.stderr, "sync.(*RWMutex).Lock")
		if oc.has("call-returned err") && blocked && t.fault.Kind == "commitErr" {
			h.fail("hang-after-commit-fault:"+tag, "the commit of the batch failed (the Write callback had returned nil, every stage had finished) and the error was reported; afterwards a write on the same running instance blocks for ever in cache.Transaction.With: a shared cache written by the batch is still write-locked", t, strings.Join(oc.markers, "\n"))
		} else if oc.has("call-returned err") && blocked {
			h.mu.Lock()
			h.hangs[stageOf(t)]++
			h.hangsKind[stageOf(t)+"/"+t.b.Kind]++
			h.mu.Unlock()
			h.fail("hang-after-reject:"+stageOf(t), "the batch was refused ("+stageOf(t)+") and reported its error; afterwards a write on the same running instance blocks for ever in cache.Transaction.With (RWMutex.Lock on a shared cache whose lock a goroutine of the failed batch took after Commit(true))", t, strings.Join(oc.markers, "\n"))
		} else {
			h.fail("hang:"+tag, "the batch (or the queries after it) did not return within the time limit", t, strings.Join(oc.markers, "\n")+"\n"+firstLines(oc.stderr, 10))
		}
		return
	case oc.exit == exitCodeInjected:
		count("outcome:injected-exit")
		expectPost = oc.has("write-returned ok")
		if t.fault.Kind == "exitPost" && !expectPost {
			h.fail("no-commit-before-post-exit:"+tag, "exit right after commit requested but the write never committed", t, strings.Join(oc.markers, "\n"))
		}
	case oc.exit == 0 && oc.rep != nil:
		rep := oc.rep
		count("outcome:" + rep.Result)
		if rep.Late > 0 {
			h.mu.Lock()
			h.lateRuns++
			h.stats["late-ops-seen:"+stageOf(t)]++
			h.mu.Unlock()
		}
		if rep.LockLeaked && t.fault.Kind == "commitErr" {
			count("outcome:cache-lock-leaked")
			h.fail("cache-lock-leaked-after-commit-fault:"+tag, "the commit of the batch failed after the Write callback had returned nil (no stage of the batch is running any more) and the error was reported, but a shared cache written by the batch is left write-locked: every later write touching that index blocks for ever", t, fmt.Sprintf("caches after: %v", rep.CachesPost))
		} else if rep.LockLeaked {
			h.mu.Lock()
			h.hangs[stageOf(t)]++
			h.hangsKind[stageOf(t)+"/"+t.b.Kind]++
			h.mu.Unlock()
			count("outcome:cache-lock-leaked")
			h.fail("cache-lock-leaked-after-reject:"+stageOf(t), "the batch was refused ("+stageOf(t)+") and reported its error, but a shared cache is left write-locked (a goroutine of the failed batch entered cache.Transaction.With after Commit(true)): every later write touching that index blocks for ever", t, fmt.Sprintf("caches after: %v", rep.CachesPost))
		}
		if rep.Pre.Err != "" || rep.Post.Err != "" {
			h.fail("observe-panicked:"+tag, "answering the query set panicked: "+rep.Pre.Err+rep.Post.Err, t, "")
			return
		}
		if t.fault.Kind == "commitErr" && (!oc.has("closure-returned ok") || !oc.has("write-returned err")) {
			h.fail("harness-broken", "commit fault requested but the proxy did not see 'callback returned nil, Write returned an error'", t, strings.Join(oc.markers, "\n"))
		}
		if rep.Result == "ok" && t.fault.Kind == "commitErr" {
			// the storage rolled the transaction back and Write returned an error: success must not be reported
			h.fail("success-reported-after-commit-fault:"+tag, "the commit of the write transaction failed (everything was rolled back, Write returned an error) but the batch reported success", t, strings.Join(oc.markers, "\n"))
		} else if rep.Result == "ok" {
			expectPost = true
			if bc.ref != nil && bc.ref.Result == "ok" && t.variant == "base" {
				if !sameQ(bc.ref.Post.Q, rep.Post.Q) || !sameM(bc.ref.Post.Canon, rep.Post.Canon) {
					h.fail("running-differs-after-success:"+tag, "success reported but the running instance does not answer like after a fault-free run of the batch", t,
						diffAnswers(bc.ref.Post.Q, rep.Post.Q, 4)+"\n"+diffMaps(bc.ref.Post.Canon, rep.Post.Canon))
				}
				for name := range bc.ref.CachesPost {
					if _, ok := rep.CachesPost[name]; !ok {
						h.fail("cache-missing-after-success:"+tag, "success reported but shared cache "+name+" (kept by a fault-free run) is gone", t, "")
					}
				}
			} else if t.variant != "base" {
				h.fail("rejection-variant-accepted:"+tag, "a batch that the fault-free run rejects was reported successful", t, "")
			}
		} else {
			if !sameQ(rep.Pre.Q, rep.Post.Q) || !sameM(rep.Pre.Raw, rep.Post.Raw) {
				h.fail("running-differs-after-error:"+tag, "the batch reported "+rep.Result+" but the running instance answers differently from before the batch", t,
					"error: "+rep.ErrText+"\n"+diffAnswers(rep.Pre.Q, rep.Post.Q, 4)+"\n"+diffMaps(rep.Pre.Raw, rep.Post.Raw))
			}
			for name, tok := range rep.CachesPost {
				tok = strings.Replace(tok, "locked=true", "locked=false", 1) // a leaked lock is reported separately
				if pre, ok := rep.CachesPre[name]; !ok || pre != tok || strings.Contains(tok, "scrapped=true") {
					h.fail("cache-retained-after-error:"+tag, "the batch reported "+rep.Result+" but shared cache "+name+" created or scrapped by it is still in the manager", t, fmt.Sprintf("before: %v\nafter: %v", rep.CachesPre, rep.CachesPost))
				}
			}
			if rep.Retried {
				want := "ok"
				if bc.ref != nil && t.variant == "base" {
					want = bc.ref.Result
				} else if t.variant != "base" {
					want = "" // same rejection again, whatever its class
				}
				switch {
				case want == "ok" && rep.RetryRes != "ok":
					h.fail("retry-fails:"+tag, "after the failed batch the same batch, re-issued without a fault, is refused: "+rep.RetryRes, t, "")
				case want == "ok" && (!sameQ(bc.ref.Post.Q, rep.RetryPost.Q) || !sameM(bc.ref.Post.Canon, rep.RetryPost.Canon)):
					h.fail("retry-differs:"+tag, "after the failed batch the same batch, re-issued without a fault, leaves a different state than a fault-free run", t,
						diffAnswers(bc.ref.Post.Q, rep.RetryPost.Q, 4)+"\n"+diffMaps(bc.ref.Post.Canon, rep.RetryPost.Canon))
				case want == "" && rep.RetryRes == "ok":
					h.fail("retry-accepted:"+tag, "a rejected batch was accepted when re-issued", t, "")
				case want == "" && (!sameQ(rep.Pre.Q, rep.RetryPost.Q) || !sameM(rep.Pre.Raw, rep.RetryPost.Raw)):
					h.fail("running-differs-after-error:"+tag, "rejected twice, but the running instance answers differently from before", t, diffAnswers(rep.Pre.Q, rep.RetryPost.Q, 4))
				}
				// the retry wrote to the file on purpose: the reopened file must show the state after the retry
				expectPost = rep.RetryRes == "ok"
			}
		}
	default:
		// the child died on its own: a crash of the code under test
		sum := crashSummary(oc.stderr)
		expectPost = oc.has("write-returned ok")
		h.mu.Lock()
		h.crashes[stageOf(t)]++
		h.crashKind[stageOf(t)+"/"+t.b.Kind]++
		if len(h.samples) < 6 {
			h.samples = append(h.samples, fmt.Sprintf("crash batch=%d variant=%s fault=%s: %s", t.batch, t.variant, t.fault, clip(sum)))
		}
		h.mu.Unlock()
		detail := fmt.Sprintf("exit=%d signal=%s markers=%v\n%s\n%s", oc.exit, oc.signal, oc.markers, sum, firstLines(oc.stderr, 14))
		if oc.has("closure-returned err") || (oc.has("call-returned err") && !oc.has("closure-returned")) {
			count("outcome:crash-after-reject")
			h.fail("crash-after-reject:"+stageOf(t), "the batch was refused ("+stageOf(t)+": the Write closure returned an error, bbolt rolled back) and then the process died: "+sum, t, detail)
		} else {
			count("outcome:crash-unexpected")
			h.fail("crash-unexpected:"+tag, "the process died although no stage had reported an error: "+sum, t, detail)
		}
	}
	// the reopened file
	if oc.cold == nil {
		h.fail("reopen-fails:"+tag, "the database file cannot be reopened / queried after the run: "+oc.coldErr, t, "")
		return
	}
	if expectPost {
		if bc.coldPost != nil && (!sameQ(bc.coldPost.Q, oc.cold.Q) || !sameM(bc.coldPost.Canon, oc.cold.Canon)) {
			h.fail("reopened-differs-after-success:"+tag, "the write committed (success reported or process died right after commit) but the reopened file does not show all effects of the batch", t,
				diffAnswers(bc.coldPost.Q, oc.cold.Q, 4)+"\n"+diffMaps(bc.coldPost.Canon, oc.cold.Canon))
		}
	} else {
		// A run with retry=true issues the batch a second time, without a fault, after the failure.  When the child DIED
		// (the known race of a refused batch kills the process at an arbitrary later instant), it may have died after the
		// re-issued batch committed and before its `write-returned ok` marker: then the file rightly shows that batch.
		// All-or-nothing for the re-issued batch is what can be demanded: the pre-batch state or the complete post state.
		diedInRetry := oc.rep == nil && t.retry && bc.coldPost != nil && sameQ(bc.coldPost.Q, oc.cold.Q) && sameM(bc.coldPost.Canon, oc.cold.Canon)
		if diedInRetry {
			count("outcome:died-after-retry-committed")
		} else if !sameQ(bc.coldPre.Q, oc.cold.Q) || !sameM(bc.coldPre.Raw, oc.cold.Raw) {
			h.fail("reopened-differs-after-failure:"+tag, "the batch failed / the process died before commit but the reopened file differs from the pre-batch file", t,
				diffAnswers(bc.coldPre.Q, oc.cold.Q, 4)+"\n"+diffMaps(bc.coldPre.Raw, oc.cold.Raw))
		}
	}
}

// ------------------------------------------------------------------------------------------ Lean op lines

func hexs(b []byte) string {
	if len(b) == 0 {
		return "-"
	}
	return hex.EncodeToString(b)
}

func uuidHex(id string) string { u := uuid.MustParse(id); return hex.EncodeToString(u[:]) }

// mergeDoc replicates UpdatePoints' merge with the same library calls (decode both, apply, marshal)
func mergeDoc(existing, incoming []byte) []byte {
	var e, in map[string]any
	if err := msgpack.Unmarshal(existing, &e); err != nil || e == nil {
		e = map[string]any{}
	}
	msgpack.Unmarshal(incoming, &in)
	for k, v := range in {
		if vs, ok := v.(string); ok && vs == "_delete" {
			delete(e, k)
		} else {
			e[k] = v
		}
	}
	return mpack(e)
}

// nodeIdsFromTrace: node ids allocated by an insert, in order (Put n<id>i on "points")
func allocFromTrace(tr []string) []uint64 {
	var ids []uint64
	for _, t := range tr {
		if strings.HasPrefix(t, "P:points:6e") && strings.HasSuffix(t, "69") && len(t) == len("P:points:")+20 {
			kb, _ := hex.DecodeString(t[len("P:points:"):])
			id, _, _ := nodeIdOf(kb)
			ids = append(ids, id)
		}
	}
	return ids
}

// order in which a delete batch was processed (Get p<uuid>i on "points")
func orderFromTrace(tr []string) []string {
	var ids []string
	for _, t := range tr {
		if strings.HasPrefix(t, "G:points:70") && len(t) == len("G:points:")+36 {
			ids = append(ids, t[len("G:points:")+2:len(t)-2])
		}
	}
	return ids
}

func batchSpecLine(bc *batchCtx, b Batch, tr []string) string {
	var items []string
	switch b.Kind {
	case "ins":
		alloc := allocFromTrace(tr)
		for i, id := range b.Ids {
			n := uint64(0)
			if i < len(alloc) {
				n = alloc[i]
			}
			items = append(items, fmt.Sprintf("%s:%d:%s", uuidHex(id), n, hexs([]byte(canonDoc(mpack(b.Docs[i].Map()))))))
		}
	case "upd":
		cur := map[string][]byte{}
		for k, v := range bc.docsPre {
			cur[k] = v
		}
		for i, id := range b.Ids {
			in := mpack(b.Docs[i].Map())
			ex, ok := cur[id]
			if !ok {
				items = append(items, fmt.Sprintf("%s:0:-", uuidHex(id)))
				continue
			}
			m := mergeDoc(ex, in)
			items = append(items, fmt.Sprintf("%s:%d:%s", uuidHex(id), len(m), hexs([]byte(canonDoc(m)))))
			if len(m) <= maxPointSize {
				cur[id] = m
			}
		}
	case "del":
		seen := map[string]bool{}
		for _, u := range orderFromTrace(tr) {
			if !seen[u] {
				seen[u] = true
				items = append(items, u)
			}
		}
		var rest []string
		for _, id := range b.Ids {
			if u := uuidHex(id); !seen[u] {
				rest = append(rest, u)
			}
		}
		sort.Strings(rest)
		items = append(items, rest...)
	}
	return b.Kind + " " + strings.Join(items, " ")
}

func implOutcome(res string, committed bool, ps string) string {
	if committed {
		return "K:ok " + ps
	}
	r := "fault" // storage error, index failure, process death before commit: all the error branch of the write
	switch res {
	case "err:dupid":
		r = "dupid"
	case "err:existing":
		r = "existing"
	case "err:oversize":
		r = "oversize"
	}
	return "E:" + r + " " + ps
}

func traceDigest(tr []string) string {
	f := newFnv()
	for _, t := range tr {
		f.bytes([]byte(t))
		f.bytes([]byte{' '})
	}
	return fmt.Sprintf("%d/%016x", len(tr), f.h)
}

func (h *harness) leanFor(bc *batchCtx, oc *outcome) {
	t := oc.t
	var fault string
	var tr []string
	if oc.rep != nil {
		tr = oc.rep.PSTrace
	}
	switch t.fault.Kind {
	case "none":
		switch t.variant {
		case "base", "dupid", "existing", "oversize":
			fault = "none"
		default:
			fault = "idx"
		}
	case "psExit":
		fault = fmt.Sprintf("ps:%d", t.fault.K)
	case "psErr":
		// a delete batch is processed in Go-map order: the k-th point-store call of THIS run may be a
		// Get (cannot fail) although it was a Put/Delete in the reference run; then no fault fired
		fault = fmt.Sprintf("ps:%d", t.fault.K)
		if oc.rep != nil && oc.rep.Fired == "" {
			fault = "none"
		}
	case "exitPre":
		fault = "crashpre"
	case "exitPost":
		fault = "crashpost"
	case "bmget":
		fault = "idx"
	case "commitErr":
		// the model's fault position "number of storage calls": after the last one, i.e. the commit
		fault = "commit"
	case "err":
		if oc.rep == nil || oc.rep.Fired == "" {
			return
		}
		if isPS(strings.SplitN(oc.rep.Fired, ":", 2)[1]) {
			g := oc.rep.Fallible[t.fault.K]
			j := sort.SearchInts(oc.rep.PS, g)
			fault = fmt.Sprintf("ps:%d", j)
		} else {
			fault = "idx"
		}
	default:
		return
	}
	if oc.cold == nil || (oc.rep != nil && oc.rep.Retried) {
		return
	}
	var impl string
	switch {
	case oc.rep != nil && oc.exit == 0:
		impl = implOutcome(oc.rep.Result, oc.rep.Result == "ok", oc.cold.PS)
	case oc.exit == exitCodeInjected:
		impl = implOutcome("crash", oc.has("write-returned ok"), oc.cold.PS)
	default:
		return // genuine crash: reported by the oracle, nothing to compare with the model
	}
	if t.variant == "dupid" && oc.rep != nil {
		tr = nil
	}
	line := "try " + fault + " " + batchSpecLine(bc, t.b, tr)
	h.mu.Lock()
	h.leanOps = append(h.leanOps, leanLine{batch: t.batch, idx: t.idx + 10, op: line, impl: impl, kind: "try-" + strings.SplitN(fault, ":", 2)[0]})
	h.mu.Unlock()
}

// ------------------------------------------------------------------------------------------ shared caches (Lean `caches` lines)

func hasProp(doc []byte, prop string) bool {
	if len(doc) == 0 {
		return false
	}
	var m map[string]any
	if err := msgpack.Unmarshal(doc, &m); err != nil {
		return false
	}
	return m[prop] != nil
}

// touchSet: the shared caches the batch opens when every stage runs to completion.  dispatch.go builds the
// drain function of an index (and with it cacheTx.With(name, false, ...)) on the first point change whose
// property is present before or after (getOperation != skip); only the two vector indexes use shared caches.
func touchSet(bc *batchCtx, b Batch) []string {
	set := map[string]bool{}
	mark := func(prev, cur []byte) {
		for prop, name := range cacheProps {
			if hasProp(prev, prop) || hasProp(cur, prop) {
				set[name] = true
			}
		}
	}
	switch b.Kind {
	case "ins":
		for i := range b.Ids {
			mark(nil, mpack(b.Docs[i].Map()))
		}
	case "upd":
		cur := map[string][]byte{}
		for k, v := range bc.docsPre {
			cur[k] = v
		}
		for i, id := range b.Ids {
			ex, ok := cur[id]
			if !ok {
				continue
			}
			m := mergeDoc(ex, mpack(b.Docs[i].Map()))
			mark(ex, m)
			if len(m) <= maxPointSize {
				cur[id] = m
			}
		}
	case "del":
		for _, id := range b.Ids {
			if ex, ok := bc.docsPre[id]; ok {
				mark(ex, nil)
			}
		}
	}
	var names []string
	for n := range set {
		names = append(names, n)
	}
	sort.Strings(names)
	return names
}

func nameList(l []string) string {
	if len(l) == 0 {
		return "-"
	}
	return strings.Join(l, ",")
}

// leanCaches: one `caches` line per run that returned: which shared caches the manager holds after the
// batch (name, same object as before?, scrapped?) against the model's Commit(fail) bookkeeping.
//   caches <ok|err|commit> <caches before> <caches the whole batch opens> <caches of `before` that are gone>
// ok / commit (every stage finished): the model predicts from the first two lists alone.  err (a stage
// failed while the others were running): how far the other stages got is a race, so the caches that
// vanished are an oracle argument (DESIGN 3.3) which the model checks against the batch (a cache the batch
// does not open must not vanish) before it applies Commit(true).
// Runs in which a stage of the failed batch outlived the closure (the known defect: late storage calls, a
// leaked cache lock) are not compared: the model is the sequential program.
func (h *harness) leanCaches(bc *batchCtx, oc *outcome) {
	rep := oc.rep
	if rep == nil || oc.exit != 0 || oc.timedOut || rep.CachesPre == nil || rep.CachesPost == nil {
		return
	}
	if rep.LockLeaked || rep.Late > 0 {
		h.mu.Lock()
		h.stats["caches-line-skipped-late-stage"]++
		h.mu.Unlock()
		return
	}
	t := oc.t
	res := "err"
	if rep.Result == "ok" {
		res = "ok"
	} else if t.fault.Kind == "commitErr" {
		res = "commit"
	}
	var pre, gone, post []string
	for n := range rep.CachesPre {
		pre = append(pre, n)
		if _, ok := rep.CachesPost[n]; !ok {
			gone = append(gone, n)
		}
	}
	for n, tok := range rep.CachesPost {
		flag := ""
		if p, ok := rep.CachesPre[n]; ok && strings.Fields(p)[0] != strings.Fields(tok)[0] {
			flag += "!replaced"
		}
		if strings.Contains(tok, "scrapped=true") {
			flag += "!scrapped"
		}
		post = append(post, n+flag)
	}
	sort.Strings(pre)
	sort.Strings(gone)
	sort.Strings(post)
	impl := "E:" + nameList(post)
	if res == "ok" {
		impl = "K:" + nameList(post)
	}
	line := fmt.Sprintf("caches %s %s %s %s", res, nameList(pre), nameList(touchSet(bc, t.b)), nameList(gone))
	h.mu.Lock()
	h.leanOps = append(h.leanOps, leanLine{batch: t.batch, idx: t.idx + 10 + (1 << 20), op: line, impl: impl, kind: "caches-" + res})
	h.mu.Unlock()
}

// ------------------------------------------------------------------------------------------ driver

func (h *harness) run(bc *batchCtx, t task, slot int) *outcome {
	db := filepath.Join(h.dir, fmt.Sprintf("work-%d.db", slot))
	out := filepath.Join(h.dir, fmt.Sprintf("rep-%d.json", slot))
	if err := copyFile(bc.pre, db); err != nil {
		panic(err)
	}
	oc := &outcome{t: t}
	t0 := time.Now()
	oc.exit, oc.signal, oc.timedOut, oc.stderr, oc.rep, oc.markers = spawn(ChildSpec{Scenario: h.sc, Batch: t.b, Fault: t.fault.String(), Retry: t.retry, Mode: "run"}, db, out, h.timeout)
	oc.dur = time.Since(t0)
	if !oc.timedOut {
		oc.cold, oc.coldErr = coldObserve(&h.sc, db, out+".c")
	}
	os.Remove(db)
	return oc
}

func pickKs(r *vh.Rng, n, want int, all bool) []int {
	if n <= 0 {
		return nil
	}
	if all || n <= want {
		ks := make([]int, n)
		for i := range ks {
			ks[i] = i
		}
		return ks
	}
	set := map[int]bool{0: true, n - 1: true}
	for len(set) < want {
		set[r.Intn(n)] = true
	}
	var ks []int
	for k := range set {
		ks = append(ks, k)
	}
	sort.Ints(ks)
	return ks
}

func main() {
	seed := flag.Uint64("seed", 1, "PRNG seed")
	dir := flag.String("out", "", "output directory")
	tier := flag.String("tier", "quick", "quick | thorough")
	replay := flag.String("replay", "", "replay file")
	child := flag.String("child", "", "(internal) child spec file")
	db := flag.String("db", "", "(internal) database file of the child")
	report := flag.String("report", "", "(internal) report file of the child")
	par := flag.Int("par", 0, "parallel children (default: cores/3)")
	nb := flag.Int("batches", 0, "history length (default by tier)")
	reps := flag.Int("reps", 0, "repetitions of every rejection variant (the known defect is a race)")
	flag.Parse()
	var err error
	self, err = os.Executable()
	if err != nil {
		panic(err)
	}
	if *child != "" {
		childMain(*child, *db, *report)
		return
	}
	if *replay != "" {
		doReplay(*replay)
		return
	}
	thorough := *tier == "thorough"
	if *par == 0 {
		*par = runtime.NumCPU() / 3
		if *par < 2 {
			*par = 2
		}
	}
	nBatches, maxIns, nreps := 14, 5, 6
	if thorough {
		nBatches, maxIns, nreps = 36, 7, 20
	}
	if *nb > 0 {
		nBatches = *nb
	}
	if *reps > 0 {
		nreps = *reps
	}
	rng := vh.NewRng(*seed)
	h := &harness{sc: genScenario(*seed, nBatches, maxIns), dir: filepath.Join(*dir, "work"), timeout: 15 * time.Second, o: vh.NewOut(*dir),
		stats: map[string]int{}, crashes: map[string]int{}, hangs: map[string]int{}, runsKind: map[string]int{}, hangsKind: map[string]int{}, crashKind: map[string]int{}, runsBy: map[string]int{}, fails: map[string]bool{}}
	os.MkdirAll(h.dir, 0o755)
	sj, _ := json.Marshal(h.sc)
	h.scnHex = hex.EncodeToString(sj)
	h.leanOps = append(h.leanOps, leanLine{batch: -1, op: fmt.Sprintf("maxsize %d", maxPointSize), impl: "-", kind: "config"})

	// ---- the fault-free history: reference run of every batch, pre/post files, cold answers
	var bcs []*batchCtx
	pre := filepath.Join(h.dir, "pre-0.db")
	live := []string{}
	docs := map[string][]byte{}
	broken := ""
	for i, b := range h.sc.Batches {
		bc := &batchCtx{i: i, b: b, pre: pre, live: append([]string{}, live...), docsPre: map[string][]byte{}}
		for k, v := range docs {
			bc.docsPre[k] = v
		}
		if i == 0 {
			bc.coldPre, _ = coldObserve(&h.sc, filepath.Join(h.dir, "empty.db"), filepath.Join(h.dir, "c.json"))
			os.Remove(filepath.Join(h.dir, "empty.db"))
		} else {
			bc.coldPre = bcs[i-1].coldPost
		}
		next := filepath.Join(h.dir, fmt.Sprintf("pre-%d.db", i+1))
		copyFile(pre, next)
		exit, sig, to, stderr, rep, _ := spawn(ChildSpec{Scenario: h.sc, Batch: b, Fault: "none", Mode: "run"}, next, filepath.Join(h.dir, "ref.json"), h.timeout)
		if rep == nil || exit != 0 || rep.Result != "ok" {
			res := ""
			if rep != nil {
				res = rep.Result + " " + rep.ErrText
			}
			broken = fmt.Sprintf("fault-free run of batch %d (%s) did not succeed: exit=%d signal=%s timeout=%v %s %s", i, b.Kind, exit, sig, to, res, firstLines(stderr, 8))
			break
		}
		bc.ref = rep
		var cerr string
		bc.coldPost, cerr = coldObserve(&h.sc, next, filepath.Join(h.dir, "c.json"))
		if bc.coldPost == nil || bc.coldPre == nil {
			broken = "cannot reopen after fault-free batch: " + cerr
			break
		}
		bcs = append(bcs, bc)
		// Lean: the model's program for this batch issues the same point-store calls; commit it
		spec := batchSpecLine(bc, b, rep.PSTrace)
		h.leanOps = append(h.leanOps, leanLine{batch: i, idx: 0, op: "trace " + spec, impl: traceDigest(rep.PSTrace), kind: "trace"})
		h.leanOps = append(h.leanOps, leanLine{batch: i, idx: 1 << 30, op: "commit " + spec, impl: implOutcome("ok", true, bc.coldPost.PS), kind: "commit"})
		// spec state
		switch b.Kind {
		case "ins":
			for j, id := range b.Ids {
				docs[id] = mpack(b.Docs[j].Map())
				live = append(live, id)
			}
		case "upd":
			for j, id := range b.Ids {
				if ex, ok := docs[id]; ok {
					docs[id] = mergeDoc(ex, mpack(b.Docs[j].Map()))
				}
			}
		case "del":
			for _, id := range b.Ids {
				delete(docs, id)
				nl := live[:0:0]
				for _, l := range live {
					if l != id {
						nl = append(nl, l)
					}
				}
				live = nl
			}
		}
		pre = next
	}
	if broken != "" {
		h.o.Fail("harness-broken", broken, "scenario "+h.scnHex)
	}

	// ---- tasks
	type job struct {
		bc *batchCtx
		t  task
	}
	var jobs []job
	for _, bc := range bcs {
		n := 0
		add := func(variantName string, b Batch, f Fault, rep int) {
			// every other failing run re-issues the batch on the same running instance afterwards
			retry := (f.Kind == "err" || f.Kind == "bmget" || f.Kind == "psErr" || f.Kind == "commitErr" || variantName != "base") && (n+rep)%2 == 1
			jobs = append(jobs, job{bc, task{batch: bc.i, variant: variantName, b: b, fault: f, rep: rep, idx: n, retry: retry}})
			n++
		}
		ref := bc.ref
		want := func(q, t int) int {
			if thorough {
				return t
			}
			return q
		}
		add("base", bc.b, Fault{Kind: "none"}, 0) // a second fault-free run: guards the canonicaliser against false alarms
		for _, k := range pickKs(rng, len(ref.Fallible)+1, want(16, 0), thorough) {
			add("base", bc.b, Fault{Kind: "err", K: k}, 0) // k = len: no fault fires, must equal the fault-free run
		}
		for _, k := range pickKs(rng, len(ref.Kinds)+1, want(10, 0), thorough) {
			add("base", bc.b, Fault{Kind: "exit", K: k}, 0)
		}
		for _, k := range pickKs(rng, ref.BmGets, want(3, 0), thorough) {
			add("base", bc.b, Fault{Kind: "bmget", K: k}, 0)
		}
		var psMut []int
		for j, g := range ref.PS {
			if ref.Kinds[g] != 'G' {
				psMut = append(psMut, j)
			}
		}
		psSel := pickKs(rng, len(psMut), want(3, 0), thorough)
		if !thorough {
			// the last three mutating calls are the counter tail (pointCount, nextFreeNodeId,
			// freeNodeIds): distinct code, always covered
			for x := len(psMut) - 3; x < len(psMut); x++ {
				if x >= 0 && !slices.Contains(psSel, x) {
					psSel = append(psSel, x)
				}
			}
		}
		for _, x := range psSel {
			add("base", bc.b, Fault{Kind: "psErr", K: psMut[x]}, 0)
		}
		for _, k := range pickKs(rng, len(ref.PS), want(3, 0), thorough) {
			add("base", bc.b, Fault{Kind: "psExit", K: k}, 0)
		}
		// the commit step itself fails: the callback ran to completion and returned nil, the storage rolls
		// back and Write returns an error (fault position = number of storage calls).  Twice: once judged
		// as is (and replayed by the model), once with the batch re-issued on the same running instance
		add("base", bc.b, Fault{Kind: "commitErr"}, n%2)   // retry=false
		add("base", bc.b, Fault{Kind: "commitErr"}, 1-n%2) // retry=true
		add("base", bc.b, Fault{Kind: "exitPre"}, 0)
		add("base", bc.b, Fault{Kind: "exitPost"}, 0)
		for _, vn := range variantNames {
			for rep := 0; rep < nreps; rep++ {
				vb, ok := variant(vn, bc.b, bc.live, rng)
				if !ok {
					break
				}
				add(vn, vb, Fault{Kind: "none"}, rep)
				if vn == "dupid" {
					break // rejected before the storage transaction: deterministic
				}
			}
		}
	}
	// ---- run them
	var wg sync.WaitGroup
	ch := make(chan job)
	t0 := time.Now()
	for w := 0; w < *par; w++ {
		wg.Add(1)
		go func(slot int) {
			defer wg.Done()
			for j := range ch {
				oc := h.run(j.bc, j.t, slot)
				h.evaluate(j.bc, oc)
				h.leanFor(j.bc, oc)
				h.leanCaches(j.bc, oc)
			}
		}(w)
	}
	for _, j := range jobs {
		ch <- j
	}
	close(ch)
	wg.Wait()
	// ---- op lines for the Lean driver, in a deterministic order
	sort.SliceStable(h.leanOps, func(i, j int) bool {
		a, b := h.leanOps[i], h.leanOps[j]
		if a.batch != b.batch {
			return a.batch < b.batch
		}
		return a.idx < b.idx
	})
	for _, l := range h.leanOps {
		h.o.Emit(l.kind, l.op, l.impl, l.kind != "config")
	}
	for k, v := range h.stats {
		h.o.Stats[k] += v
	}
	crashTotal := 0
	for _, v := range h.crashes {
		crashTotal += v
	}
	// The known defect is a race: a few percent of the failing batches.  A failure mode that hits a
	// large share of the failing runs of a stage is not that race (e.g. a Commit that is never
	// called leaks the lock every time): report it under its own signature.
	for stage, n := range h.runsKind {
		if n < 12 {
			continue
		}
		if c := h.crashKind[stage]; c >= 5 && c*100 > n*35 {
			h.o.Fail("crash-systematic:"+stage, fmt.Sprintf("%d of %d runs of a failing batch (%s) killed the process: far above the rate of the known race", c, n, stage), "scenario "+h.scnHex)
		}
		if c := h.hangsKind[stage]; c >= 5 && c*100 > n*25 {
			h.o.Fail("cache-lock-leaked-systematic:"+stage, fmt.Sprintf("%d of %d runs of a failing batch (%s) left a shared cache write-locked: far above the rate of the known race", c, n, stage), "scenario "+h.scnHex)
		}
	}
	kinds := map[string]int{}
	for _, b := range h.sc.Batches {
		kinds[b.Kind]++
	}
	h.o.Samples = append(h.samples, h.o.Samples...)
	h.o.Close(map[string]any{
		"evaluations":                    h.stats["runs"],
		"distinct_nontrivial":            len(jobs),
		"rule":                           "one (batch of the history, rejection variant, fault kind, fault position k, repetition) executed in its own child process and judged by the property oracle on the running instance and on the reopened file; op_lines = point-store part of those runs replayed by the Lean model",
		"history":                        map[string]any{"batches": len(h.sc.Batches), "kinds": kinds, "ids": len(h.sc.AllIds)},
		"crashes_by_stage":               h.crashes,
		"runs_by_stage":                  h.runsBy,
		"crash_total":                    crashTotal,
		"hangs_or_leaked_locks_by_stage": h.hangs,
		"runs_with_late_ops":             h.lateRuns,
		"children_wall_s":                time.Since(t0).Seconds(),
		"parallel":                       *par,
	})
	os.RemoveAll(h.dir)
}

// ------------------------------------------------------------------------------------------ replay

// replay file: "scenario <hex json>" then "run batch=<i> variant=<v> fault=<f> [times=<n>]".  Rebuilds
// the history fault-free up to the batch, then runs the batch with the fault n times (the known
// defect is a race) and prints one summary line per input line.
func doReplay(path string) {
	data, err := os.ReadFile(path)
	if err != nil {
		fmt.Println("cannot read replay file:", err)
		os.Exit(2)
	}
	dir, _ := os.MkdirTemp("", "c07-replay-")
	defer os.RemoveAll(dir)
	var sc Scenario
	loaded := false
	for _, line := range strings.Split(string(data), "\n") {
		line = strings.TrimSpace(line)
		if line == "" || strings.HasPrefix(line, "#") {
			continue
		}
		f := strings.Fields(line)
		switch f[0] {
		case "scenario":
			b, err := hex.DecodeString(f[1])
			if err == nil {
				err = json.Unmarshal(b, &sc)
			}
			loaded = err == nil
			fmt.Printf("scenario loaded=%v batches=%d\n", loaded, len(sc.Batches))
		case "run":
			if !loaded {
				fmt.Println("no scenario")
				continue
			}
			kv := map[string]string{"times": "1", "variant": "base", "fault": "none"}
			for _, x := range f[1:] {
				if p := strings.SplitN(x, "=", 2); len(p) == 2 {
					kv[p[0]] = p[1]
				}
			}
			var bi, times int
			fmt.Sscanf(kv["batch"], "%d", &bi)
			fmt.Sscanf(kv["times"], "%d", &times)
			if bi < 0 || bi >= len(sc.Batches) {
				fmt.Println("bad batch index")
				continue
			}
			pre := filepath.Join(dir, "pre.db")
			os.Remove(pre)
			live := []string{}
			for i := 0; i < bi; i++ {
				spawn(ChildSpec{Scenario: sc, Batch: sc.Batches[i], Mode: "apply"}, pre, filepath.Join(dir, "a.json"), 60*time.Second)
				b := sc.Batches[i]
				if b.Kind == "ins" {
					live = append(live, b.Ids...)
				} else if b.Kind == "del" {
					for _, id := range b.Ids {
						nl := live[:0:0]
						for _, l := range live {
							if l != id {
								nl = append(nl, l)
							}
						}
						live = nl
					}
				}
			}
			coldPre, _ := coldObserve(&sc, pre, filepath.Join(dir, "c.json"))
			// the variant generator is seeded from the scenario seed: same derived batch as long as the
			// generator is unchanged; the base batch is always exact
			b := sc.Batches[bi]
			if d, ok := kv["derived"]; ok {
				db, err := hex.DecodeString(d)
				if err == nil {
					err = json.Unmarshal(db, &b)
				}
				if err != nil {
					fmt.Println("bad derived batch")
					continue
				}
			} else if kv["variant"] != "base" {
				var ok bool
				if b, ok = variant(kv["variant"], sc.Batches[bi], live, vh.NewRng(sc.Seed+uint64(bi)*977)); !ok {
					fmt.Println("variant does not apply")
					continue
				}
			}
			tally := map[string]int{}
			for n := 0; n < times; n++ {
				db := filepath.Join(dir, "work.db")
				copyFile(pre, db)
				committedByRetry := false
				exit, sig, to, stderr, rep, markers := spawn(ChildSpec{Scenario: sc, Batch: b, Fault: kv["fault"], Retry: kv["retry"] == "true", Mode: "run"}, db, filepath.Join(dir, "r.json"), 15*time.Second)
				var res string
				switch {
				case to:
					res = "hang"
					if os.Getenv("C07_VERBOSE") != "" {
						fmt.Fprintln(os.Stderr, stderr)
					}
				case exit == exitCodeInjected:
					res = "injected-exit"
				case exit == 0 && rep != nil:
					res = rep.Result
					if rep.Result != "ok" && (!sameQ(rep.Pre.Q, rep.Post.Q) || !sameM(rep.Pre.Raw, rep.Post.Raw)) {
						res += " RUNNING-INSTANCE-DIFFERS-FROM-PRE-STATE"
					}
					if rep.Result != "ok" {
						for name, tok := range rep.CachesPost {
							if pre, ok := rep.CachesPre[name]; !ok || pre != tok {
								res += " CACHE-RETAINED:" + name
							}
						}
					}
					if rep.Retried {
						res += " retry=" + rep.RetryRes
						committedByRetry = rep.RetryRes == "ok"
					}
				default:
					res = fmt.Sprintf("CRASH exit=%d %s markers=%v %s", exit, sig, markers, clip(crashSummary(stderr)))
				}
				if !to {
					cold, cerr := coldObserve(&sc, db, filepath.Join(dir, "c.json"))
					committed := committedByRetry
					for _, m := range markers {
						committed = committed || m == "write-returned ok"
					}
					switch {
					case cold == nil:
						res += " REOPEN-FAILS " + cerr
					case !committed && coldPre != nil && (!sameQ(coldPre.Q, cold.Q) || !sameM(coldPre.Raw, cold.Raw)):
						res += " REOPENED-FILE-DIFFERS-FROM-PRE-STATE"
					}
				}
				tally[res]++
			}
			var ks []string
			for k := range tally {
				ks = append(ks, k)
			}
			sort.Strings(ks)
			var parts []string
			for _, k := range ks {
				parts = append(parts, fmt.Sprintf("%dx %s", tally[k], k))
			}
			fmt.Println(strings.Join(parts, " ; "))
		default:
			fmt.Println("-")
		}
	}
}
