// C05 correspondence harness: drives a real shard (file-backed and in-memory) through histories
// that insert, rewrite, blank out and delete a text field, and answers text queries through
// Shard.SearchPoints.  After every batch the text index bucket is dumped and compared with the Lean
// model's state; every query answer is (a) judged directly against the property, using a corpus
// kept by the harness itself and the real bleve analyser (the oracle: a failure here is a concrete
// violation), and (b) compared exactly with the Lean model driver's answer (structure: match set,
// cut, order; the float32 scores travel as opaque bit patterns taken from the real code).
// Score *values* are compared with a float64 recomputation of the documented formula within a
// rounding tolerance — that comparison is a TEST (signature prefix "score-value"), not a proof.
package main

import (
	"bufio"
	"bytes"
	"encoding/hex"
	"flag"
	"fmt"
	"math"
	"os"
	"path/filepath"
	"sort"
	"strconv"
	"strings"

	"github.com/RoaringBitmap/roaring/roaring64"
	_ "github.com/blevesearch/bleve/v2/analysis/analyzer/standard"
	"github.com/blevesearch/bleve/v2/registry"
	"github.com/google/uuid"
	"github.com/rs/zerolog"
	"github.com/semafind/semadb/conversion"
	"github.com/semafind/semadb/diskstore"
	"github.com/semafind/semadb/models"
	"github.com/semafind/semadb/shard"
	"github.com/semafind/semadb/shard/cache"
	"github.com/vmihailenco/msgpack/v5"
	"verifharness/vh"
)

// ---------------------------------------------------------------- analyser (the real one)

var analyserCache = registry.NewCache()

func analyse(text string) []string {
	a, err := analyserCache.AnalyzerNamed("standard")
	if err != nil {
		panic(err)
	}
	ts := a.Analyze([]byte(text))
	out := make([]string, len(ts))
	for i, t := range ts {
		out[i] = string(t.Term)
	}
	return out
}

func hexTerms(ts []string) string {
	if len(ts) == 0 {
		return "-"
	}
	hs := make([]string, len(ts))
	for i, t := range ts {
		hs[i] = hex.EncodeToString([]byte(t))
	}
	return strings.Join(hs, ",")
}

// ---------------------------------------------------------------- generators

var (
	wNormal = []string{"alpha", "beta", "gamma", "delta", "omega", "wizard", "gandalf", "ring", "shire", "dress", "summer", "floral"}
	wStop   = []string{"the", "a", "and", "of", "is", "to", "in", "it", "The", "AND"}
	wMixed  = []string{"Alpha", "BETA", "GaNdAlF", "Shire", "OMEGA", "Ring"}
	wUni    = []string{"café", "CAFÉ", "naïve", "über", "Über", "日本", "Straße", "ñandú", "Ωmega", "ωmega", "résumé"}
	wPunct  = []string{"!!!", "...", "--", "?", "(", ")", ",", ";", "'"}
)

func genWord(r *vh.Rng) string {
	switch p := r.Intn(100); {
	case p < 50:
		return vh.Pick(r, wNormal)
	case p < 65:
		return vh.Pick(r, wStop)
	case p < 77:
		return vh.Pick(r, wMixed)
	case p < 90:
		return vh.Pick(r, wUni)
	}
	return vh.Pick(r, wPunct)
}

func genText(r *vh.Rng, maxWords int) string {
	n := r.Intn(maxWords + 1)
	ws := make([]string, 0, n)
	if r.Chance(35) {
		// few distinct words, repeated: term frequencies above one
		voc := make([]string, 1+r.Intn(3))
		for i := range voc {
			voc[i] = genWord(r)
		}
		for i := 0; i < n; i++ {
			ws = append(ws, vh.Pick(r, voc))
		}
		return strings.Join(ws, " ")
	}
	for i := 0; i < n; i++ {
		ws = append(ws, genWord(r))
	}
	return strings.Join(ws, " ")
}

// text that analyses to zero tokens: only stop words and punctuation
func genBlank(r *vh.Rng) string {
	n := r.Intn(4)
	ws := make([]string, 0, n)
	for i := 0; i < n; i++ {
		if r.Bool() {
			ws = append(ws, vh.Pick(r, wStop))
		} else {
			ws = append(ws, vh.Pick(r, wPunct))
		}
	}
	return strings.Join(ws, " ")
}

// ---------------------------------------------------------------- related rewrites
//
// A rewrite drawn independently of the old text almost always changes every statistic of the
// document at once (vocabulary, length, frequencies, the document frequency of its terms).  The
// rewrites below are derived from a text the point has or had, so that SOME statistics survive the
// change while others move: same token sequence under a different raw text, same multiset in another
// order, same vocabulary and length with an occurrence moved from one term to another, two terms
// exchanged everywhere, a term renamed, one occurrence replaced / doubled / dropped, every
// occurrence doubled (tf unchanged), the text of another live document, an earlier text of the same
// point (A -> B -> A, A -> blank -> A, A -> field removed -> A, deleted point re-inserted with its
// text).  `rewriteClass` measures afterwards what a change really preserved; the counts go into
// the evidence.

var tokenPool []string // every token the word lists can produce

func initTokenPool() {
	seen := map[string]bool{}
	for _, ws := range [][]string{wNormal, wMixed, wUni} {
		for _, w := range ws {
			for _, t := range analyse(w) {
				if !seen[t] {
					seen[t] = true
					tokenPool = append(tokenPool, t)
				}
			}
		}
	}
	sort.Strings(tokenPool)
}

func sameSeq(a, b []string) bool {
	if len(a) != len(b) {
		return false
	}
	for i := range a {
		if a[i] != b[i] {
			return false
		}
	}
	return true
}

func counts(ts []string) map[string]int {
	m := map[string]int{}
	for _, t := range ts {
		m[t]++
	}
	return m
}

func firstOccurrences(ts []string) []string {
	seen := map[string]bool{}
	var out []string
	for _, t := range ts {
		if !seen[t] {
			seen[t] = true
			out = append(out, t)
		}
	}
	return out
}

// a raw text that analyses to exactly `ts`: case variants, stop words and punctuation sprinkled in
func decorate(r *vh.Rng, ts []string) string {
	ws := make([]string, 0, len(ts)+2)
	for _, t := range ts {
		if r.Chance(15) {
			if r.Bool() {
				ws = append(ws, vh.Pick(r, wStop))
			} else {
				ws = append(ws, vh.Pick(r, wPunct))
			}
		}
		v := t
		if r.Chance(25) {
			if up := strings.ToUpper(t); sameSeq(analyse(up), []string{t}) {
				v = up
			}
		}
		ws = append(ws, v)
	}
	if r.Chance(15) {
		ws = append(ws, vh.Pick(r, wStop))
	}
	text := strings.Join(ws, " ")
	if !sameSeq(analyse(text), ts) {
		text = strings.Join(ts, " ")
	}
	return text
}


// kinds 3 and 4 (frequencies move inside an unchanged vocabulary) and 11 (back to an earlier text)
// need a document with a repeated term / a past, so they are drawn more often
var relatedKindWeights = []int{0, 1, 2, 3, 3, 3, 3, 4, 4, 4, 5, 6, 7, 8, 9, 10, 11, 11}

func pickRelatedKind(r *vh.Rng) int { return vh.Pick(r, relatedKindWeights) }

// a text derived from what the point holds now (or held before, when it holds no token now)
func (w *world) relatedText(r *vh.Rng, mp *mpoint, kind int) (string, bool) {
	var base []string
	if mp.text != nil {
		base = analyse(*mp.text)
	}
	if len(base) == 0 {
		// blanked out or field removed: back to an earlier text of this point, or to a variant of it
		if len(mp.past) == 0 {
			return "", false
		}
		t := vh.Pick(r, mp.past)
		if r.Chance(60) {
			return t, true
		}
		base = analyse(t)
	}
	ts := append([]string(nil), base...)
	// The same edits are also made on the raw words of the text as it stands (stop words, case and
	// punctuation included): then the raw word set / word count survive as well, not only token
	// statistics.  Otherwise the edited token list is written out plainly or decorated.
	style := r.Intn(100)
	if style < 35 && mp.text != nil && len(analyse(*mp.text)) > 0 {
		ts = strings.Fields(*mp.text)
	}
	terms := firstOccurrences(ts)
	has := counts(ts)
	fresh := func() string {
		for k := 0; k < 20; k++ {
			if t := vh.Pick(r, tokenPool); has[t] == 0 {
				return t
			}
		}
		return "zulu"
	}
	switch kind {
	case 0: // the very same raw text again
		if mp.text != nil && len(analyse(*mp.text)) > 0 {
			return *mp.text, true
		}
	case 1: // same token sequence, other raw text
		style = 99
	case 2: // same multiset, other order
		for i := len(ts) - 1; i > 0; i-- {
			j := r.Intn(i + 1)
			ts[i], ts[j] = ts[j], ts[i]
		}
	case 3: // one occurrence moves to another term of the document: length kept, vocabulary kept or shrunk by one
		if len(terms) >= 2 {
			i := r.Intn(len(ts))
			for k := 0; k < 8 && has[ts[i]] < 2; k++ { // rather an occurrence of a repeated term: the vocabulary stays
				i = r.Intn(len(ts))
			}
			for k := 0; k < 20; k++ {
				if t := vh.Pick(r, terms); t != ts[i] {
					ts[i] = t
					break
				}
			}
		}
	case 4: // two terms exchanged everywhere: vocabulary, length and the multiset of frequencies kept
		if len(terms) >= 2 {
			a := vh.Pick(r, terms)
			b := vh.Pick(r, terms)
			for k := 0; k < 8 && has[a] == has[b]; k++ { // rather two terms of different frequency
				b = vh.Pick(r, terms)
			}
			for i, t := range ts {
				if t == a {
					ts[i] = b
				} else if t == b {
					ts[i] = a
				}
			}
		}
	case 5: // one term renamed everywhere: length and frequency profile kept, vocabulary changed
		a, b := vh.Pick(r, terms), fresh()
		for i, t := range ts {
			if t == a {
				ts[i] = b
			}
		}
	case 6: // one occurrence replaced by a term the document does not have
		ts[r.Intn(len(ts))] = fresh()
	case 7: // one occurrence doubled: vocabulary kept, length + 1
		ts = append(ts, ts[r.Intn(len(ts))])
	case 8: // one occurrence dropped: length - 1, vocabulary kept or shrunk by one
		if len(ts) >= 2 {
			i := r.Intn(len(ts))
			ts = append(ts[:i], ts[i+1:]...)
		}
	case 9: // every occurrence doubled: every tf unchanged, length doubled
		if len(ts) <= 8 {
			ts = append(ts, ts...)
		}
	case 10: // the text of another live document
		var others []string
		for _, id := range w.liveIds() {
			if o := w.points[id]; o != mp && o.text != nil && len(analyse(*o.text)) > 0 {
				others = append(others, *o.text)
			}
		}
		if len(others) > 0 {
			return vh.Pick(r, others), true
		}
	case 11: // an earlier text of this point
		if len(mp.past) > 0 {
			return vh.Pick(r, mp.past), true
		}
	}
	if style < 60 {
		return strings.Join(ts, " "), true
	}
	return decorate(r, ts), true
}

// what a change of a non-empty token list into a non-empty token list preserved
func rewriteClass(prev, cur []string) string {
	if sameSeq(prev, cur) {
		return "rewrite:same-token-sequence"
	}
	cp, cc := counts(prev), counts(cur)
	sameVocab := len(cp) == len(cc)
	sameCounts := sameVocab
	for t, n := range cp {
		if cc[t] == 0 {
			sameVocab, sameCounts = false, false
		} else if cc[t] != n {
			sameCounts = false
		}
	}
	switch {
	case sameCounts:
		return "rewrite:same-multiset-other-order"
	case sameVocab && len(prev) == len(cur):
		return "rewrite:same-vocabulary-same-length-frequencies-moved"
	case sameVocab:
		return "rewrite:same-vocabulary-other-length"
	case len(prev) == len(cur):
		return "rewrite:other-vocabulary-same-length"
	}
	return "rewrite:other-vocabulary-other-length"
}

// ---------------------------------------------------------------- the harness' own picture of the collection

type mpoint struct {
	id   uuid.UUID
	node uint64
	text *string // nil: the point has no text property
	g    int64
	past []string // earlier texts of this point (of this uuid, across deletion) with at least one token
}

func (mp *mpoint) remember(old *string) {
	if old == nil || len(analyse(*old)) == 0 {
		return
	}
	for _, t := range mp.past {
		if t == *old {
			return
		}
	}
	mp.past = append(mp.past, *old)
	if len(mp.past) > 4 {
		mp.past = mp.past[1:]
	}
}

type world struct {
	prop   string
	s      *shard.Shard
	points map[uuid.UUID]*mpoint
	hist   []string // op lines since `new` (replay of a failure)
	grave  map[uuid.UUID][]string // texts a deleted point had, by uuid
	focus  []string               // raw words of the texts the last batch replaced or wrote
	state  map[uint64][][]string  // token lists each node has gone through (to measure returns to an earlier state)
	suspects []string             // terms on which the bucket differs from the corpus statistics (aims queries)
}

func (w *world) liveIds() []uuid.UUID {
	ids := make([]uuid.UUID, 0, len(w.points))
	for id := range w.points {
		ids = append(ids, id)
	}
	sort.Slice(ids, func(i, j int) bool { return ids[i].String() < ids[j].String() })
	return ids
}

func encodePoint(prop string, text *string, g int64, withG bool) []byte {
	m := map[string]any{}
	if withG {
		m["g"] = g
	}
	if text != nil {
		if strings.Contains(prop, ".") {
			parts := strings.SplitN(prop, ".", 2)
			m[parts[0]] = map[string]any{parts[1]: *text, "other": "x"}
		} else {
			m[prop] = *text
		}
	}
	b, err := msgpack.Marshal(m)
	if err != nil {
		panic(err)
	}
	return b
}

func newWorld(prop string, dir string, file bool, n int) *world {
	col := models.Collection{UserId: "u", Id: "c", UserPlan: models.UserPlan{MaxPointSize: 1 << 20},
		IndexSchema: models.IndexSchema{
			prop: {Type: models.IndexTypeText, Text: &models.IndexTextParameters{Analyser: "standard"}},
			"g":  {Type: models.IndexTypeInteger},
		}}
	path := ""
	if file {
		path = filepath.Join(dir, fmt.Sprintf("c05-%d.bbolt", n))
		os.Remove(path)
	}
	s, err := shard.NewShard(path, col, cache.NewManager(-1))
	if err != nil {
		panic(err)
	}
	return &world{prop: prop, s: s, points: map[uuid.UUID]*mpoint{}, grave: map[uuid.UUID][]string{}, state: map[uint64][][]string{}}
}

// tokens of the live documents whose token list is non-empty, by node id
func (w *world) corpus() map[uint64][]string {
	c := map[uint64][]string{}
	for _, p := range w.points {
		if p.text != nil {
			if ts := analyse(*p.text); len(ts) > 0 {
				c[p.node] = ts
			}
		}
	}
	return c
}

func (w *world) nodeIds(ids []uuid.UUID) map[uuid.UUID]uint64 {
	if len(ids) == 0 {
		return nil
	}
	ss := make([]string, len(ids))
	for i, id := range ids {
		ss[i] = id.String()
	}
	res, err := w.s.SearchPoints(models.SearchRequest{Query: models.Query{Property: "_id", StringArray: &models.SearchStringArrayOptions{Value: ss, Operator: models.OperatorContainsAny}}})
	if err != nil {
		panic(err)
	}
	m := map[uuid.UUID]uint64{}
	for _, r := range res {
		m[r.Point.Id] = r.NodeId
	}
	return m
}

// the text index bucket, decoded
type docState struct {
	length int
	freqs  map[string]int
}

type idxState struct {
	numDocs uint64
	sets    map[string][]uint64 // term -> posting (ascending)
	docs    map[uint64]docState
	odd     []string // keys of no known shape
	err     error
}

func (w *world) readIndex() idxState {
	type docRec struct {
		Terms map[string]struct {
			Frequency int `msgpack:"frequency"`
		} `msgpack:"terms"`
		Length int `msgpack:"length"`
	}
	st := idxState{sets: map[string][]uint64{}, docs: map[uint64]docState{}}
	st.err = w.s.VerifDB().Read(func(bm diskstore.BucketManager) error {
		b, err := bm.Get("index/text/" + w.prop)
		if err != nil {
			return nil
		}
		return b.ForEach(func(k, v []byte) error {
			switch {
			case string(k) == "_numDocuments":
				st.numDocs = conversion.BytesToUint64(v)
			case len(k) >= 2 && k[0] == 't' && k[len(k)-1] == 's':
				rs := roaring64.New()
				if _, err := rs.ReadFrom(bytes.NewReader(v)); err != nil {
					return err
				}
				st.sets[string(k[1:len(k)-1])] = rs.ToArray()
			case len(k) == 9 && k[0] == 'd':
				var rec docRec
				if err := msgpack.Unmarshal(v, &rec); err != nil {
					return err
				}
				d := docState{length: rec.Length, freqs: map[string]int{}}
				for t, f := range rec.Terms {
					d.freqs[t] = f.Frequency
				}
				st.docs[conversion.BytesToUint64(k[1:])] = d
			default:
				st.odd = append(st.odd, "?"+hex.EncodeToString(k))
			}
			return nil
		})
	})
	return st
}

// canonical dump, same format as the model driver's `dumpIndex` (postings ordered by the hex term)
func (st idxState) String() string {
	if st.err != nil {
		return "dump-error:" + st.err.Error()
	}
	keys := make([]string, 0, len(st.sets))
	for t := range st.sets {
		keys = append(keys, hex.EncodeToString([]byte(t)))
	}
	sort.Strings(keys)
	sets := append([]string(nil), st.odd...)
	sort.Strings(sets)
	for _, hk := range keys {
		t, _ := hex.DecodeString(hk)
		ids := st.sets[string(t)]
		ss := make([]string, len(ids))
		for i, id := range ids {
			ss[i] = strconv.FormatUint(id, 10)
		}
		sets = append(sets, hk+":"+strings.Join(ss, ","))
	}
	ids := make([]uint64, 0, len(st.docs))
	for id := range st.docs {
		ids = append(ids, id)
	}
	sort.Slice(ids, func(i, j int) bool { return ids[i] < ids[j] })
	docs := make([]string, 0, len(ids))
	for _, id := range ids {
		d := st.docs[id]
		var fs []string
		for t, f := range d.freqs {
			fs = append(fs, hex.EncodeToString([]byte(t))+"="+strconv.Itoa(f))
		}
		sort.Strings(fs)
		docs = append(docs, fmt.Sprintf("%d:%d:%s", id, d.length, strings.Join(fs, ",")))
	}
	return fmt.Sprintf("n=%d sets=%s docs=%s", st.numDocs, strings.Join(sets, "|"), strings.Join(docs, "|"))
}

func (w *world) dumpIndex() string { return w.readIndex().String() }

// Terms on which the stored bucket differs from the statistics of the harness' corpus computed from
// scratch (corpus size, posting of a term, record of a document).  Used ONLY to aim extra queries:
// the verdict always comes from the property oracle on a real query answer.  Empty on a tree that
// maintains the index correctly.
func (w *world) suspectTerms(st idxState) []string {
	corpus := w.corpus()
	sus := map[string]bool{}
	post := map[string][]uint64{}
	for node, ts := range corpus {
		for t := range counts(ts) {
			post[t] = append(post[t], node)
		}
	}
	allOf := func(node uint64) {
		for _, t := range corpus[node] {
			sus[t] = true
		}
		for t := range st.docs[node].freqs {
			sus[t] = true
		}
	}
	for t, ids := range post {
		sort.Slice(ids, func(i, j int) bool { return ids[i] < ids[j] })
		got := st.sets[t]
		if len(got) != len(ids) {
			sus[t] = true
			continue
		}
		for i := range ids {
			if ids[i] != got[i] {
				sus[t] = true
			}
		}
	}
	for t, ids := range st.sets {
		if len(post[t]) == 0 && len(ids) > 0 {
			sus[t] = true
		}
	}
	for node, ts := range corpus {
		d, ok := st.docs[node]
		if !ok || d.length != len(ts) {
			allOf(node)
			continue
		}
		c := counts(ts)
		if len(c) != len(d.freqs) {
			allOf(node)
			continue
		}
		for t, n := range c {
			if d.freqs[t] != n {
				sus[t] = true
			}
		}
	}
	for node := range st.docs {
		if _, ok := corpus[node]; !ok {
			allOf(node)
		}
	}
	if st.numDocs != uint64(len(corpus)) {
		for _, ts := range corpus {
			for _, t := range ts {
				sus[t] = true
			}
		}
	}
	out := make([]string, 0, len(sus))
	for t := range sus {
		out = append(out, t)
	}
	sort.Strings(out)
	return out
}

// ---------------------------------------------------------------- batches

type change struct {
	node      uint64
	prev, cur *string
}

func (c change) entry() string {
	pc := "a"
	if c.prev != nil {
		pc = "p"
	}
	terms := ""
	if c.cur != nil {
		pc += "p"
		if ts := analyse(*c.cur); len(ts) > 0 {
			terms = hexTerms(ts)
		}
	} else {
		pc += "a"
	}
	return fmt.Sprintf("%d:%s:%s", c.node, pc, terms)
}

func batchLine(cs []change) string {
	if len(cs) == 0 {
		return "batch -"
	}
	es := make([]string, len(cs))
	for i, c := range cs {
		es[i] = c.entry()
	}
	return "batch " + strings.Join(es, ";")
}

func (w *world) emitBatch(o *vh.Out, kind string, cs []change) {
	line := batchLine(cs)
	nontrivial := false
	w.focus = w.focus[:0]
	var raw []string
	for _, c := range cs {
		if c.prev != nil || c.cur != nil {
			nontrivial = true
		}
		var pt, ct []string
		if c.prev != nil {
			pt = analyse(*c.prev)
			w.focus = append(w.focus, strings.Fields(*c.prev)...)
		}
		if c.cur != nil {
			ct = analyse(*c.cur)
			w.focus = append(w.focus, strings.Fields(*c.cur)...)
			raw = append(raw, fmt.Sprintf("%d=%q", c.node, *c.cur))
		}
		// what did the change preserve?  (measured, not intended)
		switch {
		case len(pt) > 0 && len(ct) > 0:
			o.Stats[rewriteClass(pt, ct)]++
		case len(pt) > 0 && c.cur != nil:
			o.Stats["rewrite:tokens-to-none"]++
		case len(pt) == 0 && len(ct) > 0 && c.prev != nil:
			o.Stats["rewrite:none-to-tokens"]++
		}
		past := w.state[c.node]
		if n := len(past); n > 0 && !sameSeq(past[n-1], ct) {
			for _, old := range past[:n-1] {
				if sameSeq(old, ct) && len(ct) > 0 {
					o.Stats["rewrite:back-to-an-earlier-token-list"]++
					break
				}
			}
		}
		if n := len(past); n == 0 || !sameSeq(past[n-1], ct) {
			w.state[c.node] = append(past, ct)
		}
	}
	sort.Strings(w.focus)
	if len(raw) > 0 {
		w.hist = append(w.hist, "# raw texts of the next batch: "+strings.Join(raw, " "))
	}
	w.hist = append(w.hist, line)
	st := w.readIndex()
	o.Emit(kind, line, st.String(), nontrivial)
	w.suspects = w.suspectTerms(st)
}

func sp(s string) *string { return &s }

// ---- applying a batch to the real shard and to the harness' picture

func (w *world) applyInsert(o *vh.Out, fresh []*mpoint) {
	if len(fresh) == 0 {
		return
	}
	pts := make([]models.Point, len(fresh))
	ids := make([]uuid.UUID, len(fresh))
	for i, mp := range fresh {
		pts[i] = models.Point{Id: mp.id, Data: encodePoint(w.prop, mp.text, mp.g, true)}
		ids[i] = mp.id
	}
	if err := w.s.InsertPoints(pts); err != nil {
		panic(fmt.Sprintf("valid insert batch rejected: %v", err))
	}
	nodes := w.nodeIds(ids)
	var cs []change
	for _, mp := range fresh {
		mp.node = nodes[mp.id]
		mp.past = append([]string(nil), w.grave[mp.id]...)
		for _, t := range mp.past {
			if mp.text != nil && t == *mp.text {
				o.Stats["insert:deleted-point-returns-with-a-text-it-had"]++
				break
			}
		}
		w.points[mp.id] = mp
		delete(w.state, mp.node) // a node id may be reused by a new point
		cs = append(cs, change{node: mp.node, prev: nil, cur: mp.text})
	}
	w.emitBatch(o, "batch-insert", cs)
}

const (
	uSet    = iota // write the text property
	uRemove        // `_delete` the text property
	uOther         // leave the text alone, write `g`
)

type upd struct {
	id   uuid.UUID
	mode int
	text string
	g    int64
}

func (w *world) applyUpdate(o *vh.Out, us []upd) {
	var pts []models.Point
	var cs []change
	top := strings.SplitN(w.prop, ".", 2)
	for _, u := range us {
		m := map[string]any{}
		switch u.mode {
		case uSet:
			if len(top) == 2 {
				m[top[0]] = map[string]any{top[1]: u.text, "other": "y"}
			} else {
				m[w.prop] = u.text
			}
		case uRemove:
			m[top[0]] = "_delete"
		default:
			m["g"] = u.g
		}
		data, _ := msgpack.Marshal(m)
		pts = append(pts, models.Point{Id: u.id, Data: data})
		if mp, live := w.points[u.id]; live {
			cur := mp.text
			switch u.mode {
			case uSet:
				cur = sp(u.text)
			case uRemove:
				cur = nil
			default:
				mp.g = u.g
			}
			cs = append(cs, change{node: mp.node, prev: mp.text, cur: cur})
			mp.remember(mp.text)
			mp.text = cur
		}
	}
	if _, err := w.s.UpdatePoints(pts); err != nil {
		panic(fmt.Sprintf("valid update batch rejected: %v", err))
	}
	w.emitBatch(o, "batch-update", cs)
}

func (w *world) applyDelete(o *vh.Out, set map[uuid.UUID]struct{}) {
	var cs []change
	// deterministic entry order for the op line (ids are distinct, the order is irrelevant: C05_order_distinct)
	var ids []uuid.UUID
	for id := range set {
		ids = append(ids, id)
	}
	sort.Slice(ids, func(i, j int) bool { return ids[i].String() < ids[j].String() })
	for _, id := range ids {
		if mp, live := w.points[id]; live {
			cs = append(cs, change{node: mp.node, prev: mp.text, cur: nil})
			mp.remember(mp.text)
			w.grave[id] = mp.past
			delete(w.points, id)
		}
	}
	if _, err := w.s.DeletePoints(set); err != nil {
		panic(fmt.Sprintf("delete batch rejected: %v", err))
	}
	w.emitBatch(o, "batch-delete", cs)
}

// ---- generated batches

func (w *world) insert(o *vh.Out, r *vh.Rng, pool []uuid.UUID) {
	n := 1 + r.Intn(9)
	var fresh []*mpoint
	seen := map[uuid.UUID]bool{}
	for i := 0; i < n; i++ {
		id := vh.Pick(r, pool)
		if _, live := w.points[id]; live || seen[id] {
			continue
		}
		seen[id] = true
		mp := &mpoint{id: id, g: int64(r.Intn(4))}
		switch p := r.Intn(100); {
		case p < 50:
			mp.text = sp(genText(r, 9))
		case p < 60: // a point deleted earlier comes back with a text it had (else: any text)
			if old := w.grave[id]; len(old) > 0 {
				mp.text = sp(old[len(old)-1])
				if r.Chance(30) {
					mp.text = sp(vh.Pick(r, old))
				}
			} else {
				mp.text = sp(genText(r, 9))
			}
		case p < 70: // a text related to one that is live (copy or variant), or to one this uuid had
			var src []*mpoint
			for _, lid := range w.liveIds() {
				if q := w.points[lid]; q.text != nil && len(analyse(*q.text)) > 0 {
					src = append(src, q)
				}
			}
			if old := w.grave[id]; len(old) > 0 && (len(src) == 0 || r.Bool()) {
				src = []*mpoint{{text: sp(vh.Pick(r, old))}}
			}
			if len(src) == 0 {
				mp.text = sp(genText(r, 9))
			} else if t, ok := w.relatedText(r, vh.Pick(r, src), r.Intn(10)); ok {
				mp.text = sp(t)
			}
		case p < 82:
			mp.text = sp(genBlank(r))
		case p < 88:
			mp.text = sp("")
		}
		fresh = append(fresh, mp)
	}
	w.applyInsert(o, fresh)
}

// the texts of two or three live documents rotate: corpus size and every document frequency stay,
// every record involved changes
func (w *world) rotate(r *vh.Rng) []upd {
	var with []*mpoint
	for _, id := range w.liveIds() {
		if mp := w.points[id]; mp.text != nil && len(analyse(*mp.text)) > 0 {
			with = append(with, mp)
		}
	}
	if len(with) < 2 {
		return nil
	}
	k := 2 + r.Intn(2)
	if k > len(with) {
		k = len(with)
	}
	for i := 0; i < k; i++ { // partial shuffle: the first k are the chosen ones
		j := i + r.Intn(len(with)-i)
		with[i], with[j] = with[j], with[i]
	}
	us := make([]upd, k)
	for i := 0; i < k; i++ {
		us[i] = upd{id: with[i].id, mode: uSet, text: *with[(i+1)%k].text}
	}
	return us
}

func (w *world) update(o *vh.Out, r *vh.Rng, pool []uuid.UUID, allowDup bool) {
	if r.Chance(10) {
		if us := w.rotate(r); us != nil {
			o.Stats["batch-rotates-texts"]++
			w.applyUpdate(o, us)
			return
		}
	}
	n := 1 + r.Intn(6)
	var us []upd
	seen := map[uuid.UUID]bool{}
	// texts as they will stand when the entries before this one are applied (a batch may name a point twice)
	type pending struct {
		text *string
		past []string
	}
	now := map[uuid.UUID]*pending{}
	for i := 0; i < n; i++ {
		id := vh.Pick(r, pool)
		if seen[id] && !(allowDup && r.Chance(60)) {
			continue
		}
		seen[id] = true
		mp, live := w.points[id]
		u := upd{id: id}
		var view *mpoint
		if live {
			pd := now[id]
			if pd == nil {
				pd = &pending{text: mp.text, past: mp.past}
				now[id] = pd
			}
			view = &mpoint{id: id, node: mp.node, text: pd.text, past: pd.past}
		}
		switch p := r.Intn(100); {
		case p < 27: // rewrite, unrelated to the old text
			u.mode, u.text = uSet, genText(r, 9)
		case p < 52: // rewrite related to the old text (or to an earlier one)
			u.mode, u.text = uSet, genText(r, 9)
			if view != nil {
				if t, ok := w.relatedText(r, view, pickRelatedKind(r)); ok {
					u.text = t
				}
			}
		case p < 67: // blank out: only stop words / punctuation
			u.mode, u.text = uSet, genBlank(r)
		case p < 80: // remove the field
			u.mode = uRemove
		default: // leave the text alone, change something else
			u.mode, u.g = uOther, int64(r.Intn(4))
		}
		if view != nil && u.mode != uOther {
			pd := now[id]
			v := &mpoint{past: append([]string(nil), pd.past...)}
			v.remember(pd.text)
			pd.past = v.past
			if u.mode == uSet {
				pd.text = sp(u.text)
			} else {
				pd.text = nil
			}
		}
		us = append(us, u)
	}
	w.applyUpdate(o, us)
}

func (w *world) delete(o *vh.Out, r *vh.Rng, pool []uuid.UUID) {
	n := 1 + r.Intn(4)
	set := map[uuid.UUID]struct{}{}
	for i := 0; i < n; i++ {
		set[vh.Pick(r, pool)] = struct{}{}
	}
	w.applyDelete(o, set)
}

// ---------------------------------------------------------------- queries

type query struct {
	text    string
	all     bool
	limit   int
	weight  *float32
	filter  *models.Query
	fids    []uint64 // the pre-filter as a node id set (nil = no filter)
	hasFilt bool
}

func f32p(f float32) *float32 { return &f }

func (w *world) genQuery(r *vh.Rng) query {
	q := query{all: r.Bool(), limit: vh.Pick(r, []int{1, 1, 2, 2, 3, 5, 10, 75})}
	// words that occur in the live documents (raw, so case / stop words / punctuation still vary)
	var live []string
	for _, mp := range w.points {
		if mp.text != nil {
			live = append(live, strings.Fields(*mp.text)...)
		}
	}
	sort.Strings(live)
	switch p := r.Intn(100); {
	case p < 20 && len(w.focus) > 0: // words of the texts the last batch replaced or wrote
		n := 1 + r.Intn(2)
		var ws []string
		for i := 0; i < n; i++ {
			ws = append(ws, vh.Pick(r, w.focus))
		}
		q.text = strings.Join(ws, " ")
	case p < 50 && len(live) > 0:
		n := 1 + r.Intn(3)
		var ws []string
		for i := 0; i < n; i++ {
			ws = append(ws, vh.Pick(r, live))
		}
		if r.Chance(30) {
			ws = append(ws, strings.ToUpper(ws[0]))
		}
		q.text = strings.Join(ws, " ")
	case p < 62:
		q.text = genText(r, 4)
	case p < 68:
		q.text = genBlank(r) // analyses to zero terms
	case p < 80: // repeated terms
		t := vh.Pick(r, wNormal)
		q.text = t + " " + vh.Pick(r, wMixed) + " " + t
	default:
		q.text = vh.Pick(r, wUni) + " " + vh.Pick(r, wNormal)
	}
	if q.text == "" {
		q.text = "?" // the API rejects an empty value; this one analyses to zero terms
	}
	q.weight = vh.Pick(r, []*float32{nil, nil, f32p(0), f32p(0.5), f32p(2), f32p(-1), f32p(1.5), f32p(-0.25)})
	switch p := r.Intn(100); {
	case p < 55:
	case p < 80:
		k := int64(r.Intn(4))
		q.filter = &models.Query{Property: "g", Integer: &models.SearchIntegerOptions{Value: k, Operator: models.OperatorEquals}}
		q.hasFilt = true
		for _, mp := range w.points {
			if mp.g == k {
				q.fids = append(q.fids, mp.node)
			}
		}
	default:
		q.hasFilt = true
		var ss []string
		for _, id := range w.liveIds() { // fixed order: every random choice derives from the seed
			if r.Bool() {
				ss = append(ss, id.String())
				q.fids = append(q.fids, w.points[id].node)
			}
		}
		ss = append(ss, uuid.New().String()) // an unknown id is simply not found
		sort.Strings(ss)
		q.filter = &models.Query{Property: "_id", StringArray: &models.SearchStringArrayOptions{Value: ss, Operator: models.OperatorContainsAny}}
	}
	sort.Slice(q.fids, func(i, j int) bool { return q.fids[i] < q.fids[j] })
	return q
}

func (w *world) run(q query, limit int) ([]models.SearchResult, error) {
	op := models.OperatorContainsAny
	if q.all {
		op = models.OperatorContainsAll
	}
	return w.s.SearchPoints(models.SearchRequest{
		Query: models.Query{Property: w.prop, Text: &models.SearchTextOptions{Value: q.text, Operator: op, Limit: limit, Filter: q.filter, Weight: q.weight}},
		Limit: 1000,
	})
}

func bits(f float32) string { return fmt.Sprintf("%08x", math.Float32bits(f)) }

// order key of a float32 under Go's cmp.Compare on non-NaN values (-0 = +0)
func okey(f float32) int64 {
	b := math.Float32bits(f)
	m := int64(b & 0x7fffffff)
	if b>>31 == 1 {
		return -m
	}
	return m
}

func idsStr(ids []uint64) string {
	if len(ids) == 0 {
		return "-"
	}
	ss := make([]string, len(ids))
	for i, id := range ids {
		ss[i] = strconv.FormatUint(id, 10)
	}
	return strings.Join(ss, ",")
}

type specDoc struct {
	node   uint64
	score  float64 // float64 evaluation of the documented formula
	absSum float64 // Σ |term| (scale of the rounding error of a float32 evaluation)
}

// the documented answer, computed from scratch from the harness' corpus
func (w *world) spec(q query) (qterms []string, matches []specDoc) {
	corpus := w.corpus()
	seen := map[string]bool{}
	for _, t := range analyse(q.text) {
		if !seen[t] {
			seen[t] = true
			qterms = append(qterms, t)
		}
	}
	if len(qterms) == 0 {
		return qterms, nil // a query without terms matches nothing
	}
	df := map[string]int{}
	for _, ts := range corpus {
		has := map[string]bool{}
		for _, t := range ts {
			has[t] = true
		}
		for t := range has {
			df[t]++
		}
	}
	inFilter := map[uint64]bool{}
	for _, id := range q.fids {
		inFilter[id] = true
	}
	for node, ts := range corpus {
		freq := map[string]int{}
		for _, t := range ts {
			freq[t]++
		}
		nAll, nAny := true, false
		for _, t := range qterms {
			if freq[t] > 0 {
				nAny = true
			} else {
				nAll = false
			}
		}
		if (q.all && !nAll) || (!q.all && !nAny) {
			continue
		}
		if q.hasFilt && !inFilter[node] {
			continue
		}
		d := specDoc{node: node}
		for _, t := range qterms {
			term := float64(freq[t]) / float64(len(ts)) * math.Log10(float64(len(corpus))/float64(df[t]+1))
			d.score += term
			d.absSum += math.Abs(term)
		}
		matches = append(matches, d)
	}
	sort.Slice(matches, func(i, j int) bool { return matches[i].node < matches[j].node })
	return qterms, matches
}

const eps32 = 1.0 / (1 << 23)

func tol(d specDoc, nterms int) float64 {
	return float64(nterms+4)*eps32*d.absSum + 1e-30
}

func (w *world) search(o *vh.Out, r *vh.Rng, q query) {
	qterms, matches := w.spec(q)
	res, err := w.run(q, q.limit)
	full, err2 := w.run(q, 1<<30)
	head := fmt.Sprintf("search %s limit=%d filter=%s q=%s", map[bool]string{true: "all", false: "any"}[q.all], q.limit,
		map[bool]string{true: idsStr(q.fids), false: "-"}[q.hasFilt], hexTerms(analyse(q.text)))
	if q.hasFilt && len(q.fids) == 0 {
		head = strings.Replace(head, "filter=-", "filter=,", 1) // an empty filter set is still a filter
	}
	replay := func(line string) string { return "new\n" + strings.Join(w.hist, "\n") + "\n" + line }
	if err != nil || err2 != nil {
		line := head + " sc=- pick=-"
		o.Emit("search-error", line, fmt.Sprintf("error:%v%v", err, err2), true)
		o.Fail("search-error:"+head, fmt.Sprintf("text search failed: %v %v", err, err2), replay(line))
		return
	}
	// ---- the implementation's answer
	var ranked []models.SearchResult
	var allIds []uint64
	for _, x := range res {
		allIds = append(allIds, x.NodeId)
		if x.Score != nil {
			ranked = append(ranked, x)
		}
	}
	sort.Slice(allIds, func(i, j int) bool { return allIds[i] < allIds[j] })
	fullScore := map[uint64]models.SearchResult{}
	for _, x := range full {
		if x.Score != nil {
			fullScore[x.NodeId] = x
		}
	}
	// ---- the op line: real scores as opaque patterns, the implementation's order as tie-break
	var sc, pick, resStr []string
	returned := map[uint64]bool{}
	for _, x := range ranked {
		returned[x.NodeId] = true
		sc = append(sc, fmt.Sprintf("%d:%s:%s", x.NodeId, bits(*x.Score), bits(x.HybridScore)))
		pick = append(pick, strconv.FormatUint(x.NodeId, 10))
		resStr = append(resStr, fmt.Sprintf("%d:%s:%s", x.NodeId, bits(*x.Score), bits(x.HybridScore)))
	}
	specBy := map[uint64]specDoc{}
	for _, d := range matches {
		specBy[d.node] = d
	}
	clamped := 0
	for _, d := range matches {
		if returned[d.node] {
			continue
		}
		fx, ok := fullScore[d.node]
		if !ok {
			continue // the model will report the missing score; the oracle below reports the missing match
		}
		s := *fx.Score
		if len(ranked) > 0 {
			last := *ranked[len(ranked)-1].Score
			// the two runs sum the per-term contributions in different (Go map) orders: a candidate
			// that was cut may come out a few ulp above the last returned one.  Not judged (near-tie).
			if okey(s) > okey(last) && math.Abs(float64(s)-float64(last)) <= 2*tol(d, len(qterms)) {
				s = last
				clamped++
			}
		}
		sc = append(sc, fmt.Sprintf("%d:%s:%s", d.node, bits(s), bits(fx.HybridScore)))
	}
	if clamped > 0 {
		o.Stats["near-tie-clamped"] += clamped
	}
	join := func(ss []string) string {
		if len(ss) == 0 {
			return "-"
		}
		return strings.Join(ss, ",")
	}
	line := head + " sc=" + join(sc) + " pick=" + join(pick)
	impl := "set=" + strings.ReplaceAll(idsStr(allIds), "-", "") + " res=" + strings.Join(resStr, ",")
	kind := "search"
	switch {
	case len(qterms) == 0:
		kind = "search-zero-terms"
	case len(matches) > q.limit:
		kind = "search-cut"
	case len(matches) == 0:
		kind = "search-nomatch"
	}
	if q.hasFilt {
		kind += "+filter"
	}
	o.Emit(kind, line, impl, len(ranked) > 0)
	// ---- the formula line: the driver evaluates the scoring expression generated from text.go on the model's
	// index state and compares it with the real _score / _hybridScore of every returned document
	if len(ranked) > 0 {
		wf := "-"
		if q.weight != nil {
			wf = bits(*q.weight)
		}
		o.Emit("scorecheck", fmt.Sprintf("scorecheck w=%s q=%s sc=%s", wf, hexTerms(analyse(q.text)), strings.Join(resStr, ",")), fmt.Sprintf("ok n=%d", len(ranked)), true)
		o.Stats[fmt.Sprintf("scorecheck-terms-%d", len(qterms))]++
	}
	// ---- the property, judged on the real answer
	fail := func(sig, what string) { o.Fail(sig, what+" | query "+strconv.Quote(q.text), replay(line)) }
	if len(res) != len(ranked) {
		fail("unranked-result", fmt.Sprintf("%d returned points carry no _score (ids outside the returned ranking)", len(res)-len(ranked)))
	}
	dup := map[uint64]bool{}
	for _, x := range ranked {
		if dup[x.NodeId] {
			fail("duplicate-result", fmt.Sprintf("node %d returned twice", x.NodeId))
		}
		dup[x.NodeId] = true
		if _, ok := specBy[x.NodeId]; !ok {
			fail("match-extra", fmt.Sprintf("node %d returned but does not match (operator all=%v, terms %v, filter %v)", x.NodeId, q.all, qterms, q.hasFilt))
		}
	}
	want := len(matches)
	if want > q.limit {
		want = q.limit
	}
	if len(ranked) != want {
		fail("match-count", fmt.Sprintf("%d documents returned, %d match, limit %d", len(ranked), len(matches), q.limit))
	}
	for i := 1; i < len(ranked); i++ {
		if okey(*ranked[i-1].Score) < okey(*ranked[i].Score) {
			fail("order", fmt.Sprintf("scores not non-increasing at position %d: %v then %v", i, *ranked[i-1].Score, *ranked[i].Score))
		}
	}
	weight := float32(1)
	if q.weight != nil {
		weight = *q.weight
	}
	for _, x := range ranked {
		if h := *x.Score * weight; math.Float32bits(h) != math.Float32bits(x.HybridScore) {
			fail("hybrid-score", fmt.Sprintf("node %d: _hybridScore %v is not weight %v times _score %v", x.NodeId, x.HybridScore, weight, *x.Score))
		}
		if d, ok := specBy[x.NodeId]; ok {
			o.Stats["score-values-compared"]++
			if math.Abs(float64(*x.Score)-d.score) > tol(d, len(qterms)) {
				fail("score-value", fmt.Sprintf("node %d: _score %v, formula over the current corpus gives %v (TEST within rounding tolerance)", x.NodeId, *x.Score, d.score))
			}
		}
	}
	if len(ranked) > 0 && len(matches) > len(ranked) {
		last := float64(*ranked[len(ranked)-1].Score)
		for _, d := range matches {
			if !returned[d.node] && d.score > last+2*tol(d, len(qterms)) {
				fail("cut-not-best", fmt.Sprintf("node %d (score %v) was cut although the last returned score is %v", d.node, d.score, last))
			}
		}
	}
}

// Queries aimed at the terms on which the stored bucket and the corpus statistics differ (none on a
// tree that maintains the index): each term alone, uncut and cut to one, then with a second term.
// They are ordinary queries: the answer goes to the model and to the property oracle like any other.
var aimQueries = true

func (w *world) aimed(o *vh.Out, r *vh.Rng) {
	sus := w.suspects
	if len(sus) == 0 || !aimQueries {
		return
	}
	if len(sus) > 6 {
		sus = sus[:6]
	}
	for i, t := range sus {
		o.Stats["queries-aimed-at-a-bucket-difference"] += 3
		w.search(o, r, query{text: t, limit: 75})
		w.search(o, r, query{text: t, limit: 1})
		w.search(o, r, query{text: t + " " + sus[(i+1)%len(sus)], all: r.Bool(), limit: 2})
	}
}

// ---------------------------------------------------------------- DESIGN.md §8 no. 12: the same point twice in one update batch

func dupProbe(o *vh.Out, dir string, runs int) (failed int) {
	for i := 0; i < runs; i++ {
		w := newWorld("t", dir, i%2 == 0, 9000+i)
		id := uuid.New()
		if err := w.s.InsertPoints([]models.Point{{Id: id, Data: encodePoint("t", sp("start"), 0, true)}}); err != nil {
			panic(err)
		}
		node := w.nodeIds([]uuid.UUID{id})[id]
		long := strings.Repeat("alpha beta gamma ", 1500)
		cs0 := []change{{node: node, prev: nil, cur: sp("start")}}
		cs := []change{{node: node, prev: sp("start"), cur: sp("alpha beta gamma")}, {node: node, prev: sp("alpha beta gamma"), cur: sp("omega")}}
		if _, err := w.s.UpdatePoints([]models.Point{{Id: id, Data: encodePoint("t", &long, 0, false)}, {Id: id, Data: encodePoint("t", sp("omega"), 0, false)}}); err != nil {
			panic(err)
		}
		r1, _ := w.s.SearchPoints(models.SearchRequest{Query: models.Query{Property: "t", Text: &models.SearchTextOptions{Value: "omega", Operator: models.OperatorContainsAll, Limit: 10}}})
		r2, _ := w.s.SearchPoints(models.SearchRequest{Query: models.Query{Property: "t", Text: &models.SearchTextOptions{Value: "alpha", Operator: models.OperatorContainsAll, Limit: 10}}})
		w.s.Close()
		if len(r1) != 1 || len(r2) != 0 {
			failed++
			if failed == 1 {
				o.Fail("dup-id-batch:index-keeps-earlier-text",
					fmt.Sprintf("update batch naming one point twice (long text, then \"omega\"): the stored text is \"omega\" but the text index matches \"omega\" on %d and \"alpha\" on %d documents (analyser workers deliver the two changes out of order)", len(r1), len(r2)),
					"new\n"+batchLine(cs0)+"\n"+batchLine(cs)+
						"\nsearch all limit=10 filter=- q=6f6d656761 sc="+fmt.Sprintf("%d:00000000:00000000", node)+" pick=-\ndupprobe\n# expected (model, batch order): set="+fmt.Sprint(node)+" ; the implementation returns nothing. `dupprobe` repeats the witness with the long first text 20 times")
			}
		}
	}
	return failed
}

// ---------------------------------------------------------------- main

func main() {
	seed := flag.Uint64("seed", 1, "PRNG seed")
	nh := flag.Int("n", 30, "number of histories")
	nq := flag.Int("q", 6, "queries after each batch")
	dir := flag.String("out", "", "output directory")
	flag.BoolVar(&aimQueries, "aim", true, "after a batch, query the terms on which the stored bucket differs from the corpus statistics")
	scen := flag.Bool("scenarios", true, "replay scenarios.txt before the random histories")
	replay := flag.String("replay", "", "replay the op lines of this file against the implementation")
	flag.Parse()
	zerolog.SetGlobalLevel(zerolog.Disabled)
	if *replay != "" {
		doReplay(*replay)
		return
	}
	rng := vh.NewRng(*seed)
	o := vh.NewOut(*dir)
	defer func() {
		if e := recover(); e != nil {
			o.Fail("harness-panic", fmt.Sprint(e), "")
			o.Close(nil)
			fmt.Fprintln(os.Stderr, "harness panic:", e)
			os.Exit(3)
		}
	}()
	initTokenPool()
	if *scen {
		runScenarios(o, rng, *dir)
	}
	// which variant is the code?  (DESIGN.md 2.3)
	dupFailed := dupProbe(o, *dir, 6)
	allowDup := dupFailed == 0
	pool := make([]uuid.UUID, 16)
	for h := 0; h < *nh; h++ {
		for i := range pool {
			var b [16]byte
			for j := range b {
				b[j] = byte(rng.U64())
			}
			pool[i], _ = uuid.FromBytes(b[:])
		}
		prop := "t"
		if rng.Chance(30) {
			prop = "m.t"
		}
		w := newWorld(prop, *dir, h%2 == 0, h)
		o.Emit("new", "new", "ok", false)
		nb := 4 + rng.Intn(9)
		for b := 0; b < nb; b++ {
			switch p := rng.Intn(100); {
			case p < 35 || len(w.points) == 0:
				w.insert(o, rng, pool)
			case p < 80:
				w.update(o, rng, pool, allowDup)
			default:
				w.delete(o, rng, pool)
			}
			w.aimed(o, rng)
			for k := 0; k < *nq; k++ {
				w.search(o, rng, w.genQuery(rng))
			}
		}
		w.s.Close()
	}
	o.Close(map[string]any{
		"rule":             "distinct search op lines with a non-empty ranked answer, plus distinct batch lines that carry a text change",
		"dup_probe_failed": dupFailed, "dup_batches_in_main_stream": allowDup,
		"score_value_comparison": "TEST: float32 _score vs float64 recomputation of the formula, tolerance (k+4)*2^-23*sum|term|",
	})
}

// replay: re-run recorded model-level op lines on a fresh in-memory shard.  Points are created on
// first mention (entry `ap`); texts are the recorded tokens joined by blanks (a token analyses to
// itself).  Prints the implementation's answer per line.
func doReplay(path string) {
	f, err := os.Open(path)
	if err != nil {
		panic(err)
	}
	defer f.Close()
	var w *world
	uid := map[uint64]uuid.UUID{}
	real2model := map[uint64]uint64{}
	sc := bufio.NewScanner(f)
	sc.Buffer(make([]byte, 1<<20), 1<<26)
	unhex := func(s string) string {
		if s == "" || s == "-" {
			return ""
		}
		var ws []string
		for _, h := range strings.Split(s, ",") {
			b, _ := hex.DecodeString(h)
			ws = append(ws, string(b))
		}
		return strings.Join(ws, " ")
	}
	for sc.Scan() {
		line := strings.TrimSpace(sc.Text())
		if line == "" || strings.HasPrefix(line, "#") {
			continue
		}
		fs := strings.Fields(line)
		switch fs[0] {
		case "new":
			w = newWorld("t", "", false, 0)
			uid = map[uint64]uuid.UUID{}
			real2model = map[uint64]uint64{}
			fmt.Println("ok")
		case "batch":
			if w == nil {
				w = newWorld("t", "", false, 0)
			}
			var ins, upd []models.Point
			if fs[1] != "-" {
				for _, e := range strings.Split(fs[1], ";") {
					p := strings.SplitN(e, ":", 3)
					mid, _ := strconv.ParseUint(p[0], 10, 64)
					id, known := uid[mid]
					text := unhex(p[2])
					var data []byte
					if strings.HasSuffix(p[1], "p") {
						data = encodePoint("t", &text, 0, !known)
					} else if known {
						data, _ = msgpack.Marshal(map[string]any{"t": "_delete"})
					} else {
						data = encodePoint("t", nil, 0, true)
					}
					if !known {
						id = uuid.New()
						uid[mid] = id
						ins = append(ins, models.Point{Id: id, Data: data})
					} else {
						upd = append(upd, models.Point{Id: id, Data: data})
					}
				}
			}
			if len(ins) > 0 {
				if err := w.s.InsertPoints(ins); err != nil {
					fmt.Println("error:" + err.Error())
					continue
				}
				var ids []uuid.UUID
				for _, p := range ins {
					ids = append(ids, p.Id)
				}
				nodes := w.nodeIds(ids)
				for m, u := range uid {
					if n, ok := nodes[u]; ok {
						real2model[n] = m
					}
				}
			}
			if len(upd) > 0 {
				if _, err := w.s.UpdatePoints(upd); err != nil {
					fmt.Println("error:" + err.Error())
					continue
				}
			}
			fmt.Println(w.dumpIndex() + "   (node ids of this replay; the recorded ids may differ)")
		case "search":
			q := query{all: fs[1] == "all"}
			for _, kv := range fs[2:] {
				p := strings.SplitN(kv, "=", 2)
				switch p[0] {
				case "limit":
					q.limit, _ = strconv.Atoi(p[1])
				case "q":
					q.text = unhex(p[1])
					if q.text == "" {
						q.text = "?"
					}
				case "filter":
					if p[1] != "-" {
						var ss []string
						for _, s := range strings.Split(p[1], ",") {
							if m, err := strconv.ParseUint(s, 10, 64); err == nil {
								if u, ok := uid[m]; ok {
									ss = append(ss, u.String())
								}
							}
						}
						ss = append(ss, uuid.New().String())
						q.filter = &models.Query{Property: "_id", StringArray: &models.SearchStringArrayOptions{Value: ss, Operator: models.OperatorContainsAny}}
					}
				}
			}
			res, err := w.run(q, q.limit)
			if err != nil {
				fmt.Println("error:" + err.Error())
				continue
			}
			var ids []uint64
			var rs []string
			for _, x := range res {
				m := real2model[x.NodeId]
				ids = append(ids, m)
				if x.Score != nil {
					rs = append(rs, fmt.Sprintf("%d:%s:%s", m, bits(*x.Score), bits(x.HybridScore)))
				}
			}
			sort.Slice(ids, func(i, j int) bool { return ids[i] < ids[j] })
			fmt.Println("set=" + strings.ReplaceAll(idsStr(ids), "-", "") + " res=" + strings.Join(rs, ","))
		case "scorecheck":
			fmt.Println("(formula line: carries the recorded scores; judged by the model, `semadriver C05`)")
		case "dupprobe":
			o := vh.NewOut(os.TempDir() + "/c05-dupprobe")
			fmt.Printf("dupprobe: %d of 20 runs violate the property\n", dupProbe(o, os.TempDir(), 20))
		default:
			fmt.Println("bad-op")
		}
	}
}
