package main

import (
	_ "embed"
	"sort"
	"strconv"
	"strings"

	"github.com/google/uuid"
	"github.com/semafind/semadb/models"
	"verifharness/vh"
)

//go:embed scenarios.txt
var scenarioText string

func (w *world) filterG(q *query, k int64) {
	q.filter = &models.Query{Property: "g", Integer: &models.SearchIntegerOptions{Value: k, Operator: models.OperatorEquals}}
	q.hasFilt = true
	for _, mp := range w.points {
		if mp.g == k {
			q.fids = append(q.fids, mp.node)
		}
	}
	sort.Slice(q.fids, func(i, j int) bool { return q.fids[i] < q.fids[j] })
}

func (w *world) filterIds(q *query, ids []uuid.UUID) {
	q.hasFilt = true
	ss := []string{uuid.New().String()} // an unknown id is simply not found
	for _, id := range ids {
		if mp, ok := w.points[id]; ok {
			ss = append(ss, id.String())
			q.fids = append(q.fids, mp.node)
		}
	}
	sort.Strings(ss)
	sort.Slice(q.fids, func(i, j int) bool { return q.fids[i] < q.fids[j] })
	q.filter = &models.Query{Property: "_id", StringArray: &models.SearchStringArrayOptions{Value: ss, Operator: models.OperatorContainsAny}}
}

// every word of the texts the last batch touched and of the live texts, alone: uncut, cut to one,
// under the filter g=0
func (w *world) sweep(o *vh.Out, r *vh.Rng) {
	seen := map[string]bool{}
	var words []string
	add := func(ws []string) {
		for _, x := range ws {
			if !seen[x] {
				seen[x] = true
				words = append(words, x)
			}
		}
	}
	add(w.focus)
	for _, id := range w.liveIds() {
		if mp := w.points[id]; mp.text != nil {
			add(strings.Fields(*mp.text))
		}
	}
	sort.Strings(words)
	for _, x := range words {
		w.search(o, r, query{text: x, limit: 75})
		w.search(o, r, query{text: x, limit: 1, weight: f32p(0.5)})
		q := query{text: x, limit: 2}
		w.filterG(&q, 0)
		w.search(o, r, q)
	}
}

func runScenarios(o *vh.Out, r *vh.Rng, dir string) {
	var w *world
	name := ""
	key := func(k string) uuid.UUID { return uuid.NewSHA1(uuid.Nil, []byte(name+"/"+k)) }
	var ins []*mpoint
	var ups []upd
	dels := map[uuid.UUID]struct{}{}
	commit := func() {
		if w == nil {
			return
		}
		switch {
		case len(ins) > 0:
			w.applyInsert(o, ins)
		case len(ups) > 0:
			w.applyUpdate(o, ups)
		case len(dels) > 0:
			w.applyDelete(o, dels)
		default:
			return
		}
		ins, ups, dels = nil, nil, map[uuid.UUID]struct{}{}
		w.aimed(o, r)
		w.sweep(o, r)
	}
	text := func(fs []string) *string {
		t := strings.Join(fs, " ")
		switch t {
		case "<none>":
			return nil
		case "<empty>":
			t = ""
		}
		return &t
	}
	n := 0
	for _, raw := range strings.Split(scenarioText, "\n") {
		line := strings.TrimSpace(raw)
		if line == "" || strings.HasPrefix(line, "#") {
			continue
		}
		fs := strings.Fields(line)
		bad := func() { panic("scenarios.txt: bad line: " + line) }
		switch fs[0] {
		case "scenario":
			commit()
			if w != nil {
				w.s.Close()
			}
			prop := "t"
			if len(fs) > 2 {
				prop = fs[2]
			}
			name = fs[1]
			n++
			w = newWorld(prop, dir, n%2 == 0, 8000+n)
			o.Emit("new", "new", "ok", false)
			o.Stats["scenarios"]++
		case "+":
			if len(fs) < 4 {
				bad()
			}
			if len(ups) > 0 || len(dels) > 0 {
				commit()
			}
			g, _ := strconv.ParseInt(fs[2], 10, 64)
			ins = append(ins, &mpoint{id: key(fs[1]), g: g, text: text(fs[3:])})
		case "=", "x", "g":
			if len(ins) > 0 || len(dels) > 0 {
				commit()
			}
			switch {
			case fs[0] == "=" && len(fs) >= 3:
				ups = append(ups, upd{id: key(fs[1]), mode: uSet, text: *text(fs[2:])})
			case fs[0] == "x" && len(fs) == 2:
				ups = append(ups, upd{id: key(fs[1]), mode: uRemove})
			case fs[0] == "g" && len(fs) == 3:
				g, _ := strconv.ParseInt(fs[2], 10, 64)
				ups = append(ups, upd{id: key(fs[1]), mode: uOther, g: g})
			default:
				bad()
			}
		case "-":
			if len(ins) > 0 || len(ups) > 0 {
				commit()
			}
			dels[key(fs[1])] = struct{}{}
		case "--":
			commit()
		case "?":
			commit()
			if len(fs) < 5 {
				bad()
			}
			q := query{all: fs[1] == "all", text: strings.Join(fs[4:], " ")}
			q.limit, _ = strconv.Atoi(fs[2])
			switch {
			case fs[3] == "*":
			case strings.HasPrefix(fs[3], "g="):
				k, _ := strconv.ParseInt(fs[3][2:], 10, 64)
				w.filterG(&q, k)
			default:
				var ids []uuid.UUID
				for _, k := range strings.Split(fs[3], ",") {
					ids = append(ids, key(k))
				}
				w.filterIds(&q, ids)
			}
			w.search(o, r, q)
		default:
			bad()
		}
	}
	commit()
	if w != nil {
		w.s.Close()
	}
}
