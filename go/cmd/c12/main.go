// Harness for property C12 (shard loading, idle unloading, collection deletion).
//
//	c12 -scheds FILE -seed N -out DIR     forced schedules: every line `sched <variant> <acts>` of FILE
//	                                      (produced by `semadriver C12 gen`) is driven through the real
//	                                      ShardManager via the verifYield hooks; writes ops.txt /
//	                                      impl.txt (observable trace, same format as the model driver)
//	                                      and stats.json with the property oracle's failures
//	c12 -stress -seed N -dur SEC -out DIR unforced stress (hooks inactive) with a watchdog
//	c12 -replay FILE                      prints the trace of every sched line of FILE
//	c12 -worker / -stressworker           child processes (never run by hand)
//
// Every forced schedule and the stress run execute in a child process with a watchdog, so that a
// deadlock of the code under test can never hang the check.
package main

import (
	"bufio"
	"bytes"
	"encoding/json"
	"errors"
	"flag"
	"fmt"
	"os"
	"os/exec"
	"path/filepath"
	"regexp"
	"runtime"
	"sort"
	"strconv"
	"strings"
	"sync"
	"sync/atomic"
	"syscall"
	"time"

	"github.com/rs/zerolog"
	"github.com/semafind/semadb/cluster"
	"github.com/semafind/semadb/models"
	"github.com/semafind/semadb/shard"
	"verifharness/vh"
)

// ------------------------------------------------------------------------------------ goroutines

func curGid() int64 {
	var buf [64]byte
	n := runtime.Stack(buf[:], false)
	// "goroutine 123 [running]:"
	f := bytes.Fields(buf[:n])
	id, _ := strconv.ParseInt(string(f[1]), 10, 64)
	return id
}

var hdrRe = regexp.MustCompile(`(?m)^goroutine (\d+) \[([^\]]*)\]:$`)

type ginfo struct {
	state string
	stack string
}

// snapshot of all goroutines: id -> (wait state, stack text)
var snapBuf = make([]byte, 1<<18)

func snapshot() map[int64]ginfo {
	var buf []byte
	for {
		n := runtime.Stack(snapBuf, true)
		if n < len(snapBuf) {
			buf = snapBuf[:n]
			break
		}
		snapBuf = make([]byte, 2*len(snapBuf))
	}
	out := map[int64]ginfo{}
	idx := hdrRe.FindAllSubmatchIndex(buf, -1)
	for i, m := range idx {
		id, _ := strconv.ParseInt(string(buf[m[2]:m[3]]), 10, 64)
		end := len(buf)
		if i+1 < len(idx) {
			end = idx[i+1][0]
		}
		st := string(buf[m[4]:m[5]])
		if k := strings.Index(st, ","); k >= 0 {
			st = st[:k]
		}
		out[id] = ginfo{state: st, stack: string(buf[m[1]:end])}
	}
	return out
}

// classify a goroutine that is not at a yield point: "" = still moving
func blockedKind(g ginfo) string {
	inMgr := strings.Contains(g.stack, "cluster.(*ShardManager)")
	switch g.state {
	case "sync.RWMutex.RLock":
		return "rlock"
	case "sync.RWMutex.Lock":
		return "wlock"
	case "sync.Mutex.Lock", "semacquire":
		if strings.Contains(g.stack, "sync.(*RWMutex).Lock") {
			return "wlock"
		}
		if strings.Contains(g.stack, "sync.(*RWMutex).RLock") {
			return "rlock"
		}
		if inMgr {
			return "store"
		}
		return ""
	case "select":
		if strings.Contains(g.stack, "cleanupRoutine") {
			return "select"
		}
		return ""
	case "chan send":
		if inMgr {
			return "chansend"
		}
		return ""
	case "chan receive":
		if strings.Contains(g.stack, "cleanupRoutine") {
			return "timerdrain"
		}
		return ""
	case "sleep":
		if strings.Contains(g.stack, "bbolt.flock") {
			return "flock"
		}
		return ""
	}
	return ""
}

// ------------------------------------------------------------------------------------ controller

type thread struct {
	id      int
	kind    string // req | del | cleanup
	gid     int64
	dir     string // req / cleanup: shard directory
	coll    int    // del: collection number
	release chan struct{}
	parked  bool
	at      string
	done    bool
	result  string
	wake    bool     // the next `r` act of this thread only waits (second phase of Lock / RLock / select)
	snap    []string // del: directory listing taken at del.readdir
	lookups int      // del: number of del.lookup points passed
	inCb    bool
}

type ctl struct {
	mu       sync.Mutex
	root     string
	sm       *cluster.ShardManager
	threads  []*thread
	byGid    map[int64]*thread
	timers   map[int64]*time.Timer
	pending  []*thread // cleanup goroutines announced by VerifTimer, not yet given an id
	freeRun  bool
	backups  bool
	fails    []vh.OracleFailure
	line     string
	failSeen map[string]bool
}

var cur atomic.Pointer[ctl]

func (c *ctl) fail(sig, what string) {
	c.mu.Lock()
	defer c.mu.Unlock()
	if c.failSeen[sig] {
		return
	}
	c.failSeen[sig] = true
	bk := "backups=off"
	if c.backups {
		bk = "backups=on"
	}
	c.fails = append(c.fails, vh.OracleFailure{Signature: sig, What: what + " (" + bk + ")", Replay: c.line})
}

// a free-running request did not return: if it waits for shardLock although every call of the
// schedule has returned, the lock was leaked (nobody is left to release it) - the manager is dead
func (c *ctl) failHang(what string) {
	var who []string
	for id, g := range snapshot() {
		if k := blockedKind(g); k != "" && strings.Contains(g.stack, "cluster.(*ShardManager)") {
			fn := "?"
			for _, name := range []string{"loadShard", "DeleteCollectionShards", "cleanupRoutine", "DoWithShard"} {
				if strings.Contains(g.stack, "ShardManager)."+name) {
					fn = name
					break
				}
			}
			who = append(who, fmt.Sprintf("g%d:%s:blocked_%s(%s)", id, fn, k, g.state))
		}
	}
	sort.Strings(who)
	for _, w := range who {
		if strings.Contains(w, "blocked_store") {
			c.fail("deadlock", what+": it waits for shardLock, which no running call holds any more (leaked by a call that returned): "+strings.Join(who, " "))
			return
		}
	}
	c.fail("reload-failed", what+": "+strings.Join(who, " "))
}

func yieldHook(point string) {
	c := cur.Load()
	if c == nil {
		return
	}
	gid := curGid()
	c.mu.Lock()
	t := c.byGid[gid]
	if t == nil || c.freeRun {
		c.mu.Unlock()
		return
	}
	t.parked = true
	t.at = point
	ch := t.release
	c.mu.Unlock()
	<-ch
}

func timerHook(dir string, tm *time.Timer) {
	c := cur.Load()
	if c == nil || !strings.HasPrefix(dir, c.root) {
		return
	}
	gid := curGid()
	c.mu.Lock()
	defer c.mu.Unlock()
	t := &thread{kind: "cleanup", gid: gid, dir: dir, release: make(chan struct{}, 1), id: -1}
	c.byGid[gid] = t
	c.timers[gid] = tm
	c.pending = append(c.pending, t)
}

func (c *ctl) adopt() *thread { // give the oldest announced cleanup goroutine the next thread id
	c.mu.Lock()
	defer c.mu.Unlock()
	if len(c.pending) == 0 {
		return nil
	}
	t := c.pending[0]
	c.pending = c.pending[1:]
	t.id = len(c.threads)
	c.threads = append(c.threads, t)
	return t
}

func shardDir(root string, coll, sh int) string {
	return filepath.Join(root, cluster.USERCOLSDIR, "u", fmt.Sprintf("c%d", coll), fmt.Sprintf("s%d", sh))
}

func (c *ctl) collection(coll int) models.Collection {
	col := models.Collection{UserId: "u", Id: fmt.Sprintf("c%d", coll)}
	if c.backups {
		col.UserPlan.ShardBackupFrequency = 1
		col.UserPlan.ShardBackupCount = 2
	}
	return col
}

func (c *ctl) spawnCall(t *thread, body func() string) {
	c.mu.Lock()
	t.id = len(c.threads)
	t.release = make(chan struct{}, 1)
	c.threads = append(c.threads, t)
	c.mu.Unlock()
	ready := make(chan struct{})
	go func() {
		gid := curGid()
		c.mu.Lock()
		t.gid = gid
		c.byGid[gid] = t
		c.mu.Unlock()
		close(ready)
		res := "panic"
		defer func() {
			if r := recover(); r != nil {
				c.fail("panic", fmt.Sprintf("shard manager call panicked: %v", r))
			}
			c.mu.Lock()
			t.done, t.parked, t.result = true, false, res
			c.mu.Unlock()
		}()
		res = body()
	}()
	<-ready
}

func (c *ctl) newReq(coll, sh int) *thread {
	t := &thread{kind: "req", dir: shardDir(c.root, coll, sh)}
	c.spawnCall(t, func() string {
		ran := false
		err := c.sm.DoWithShard(c.collection(coll), fmt.Sprintf("s%d", sh), func(s *shard.Shard) error {
			c.mu.Lock()
			t.inCb = true
			c.mu.Unlock()
			yieldHook("cb.in")
			ran = true
			var uerr error
			func() {
				defer func() {
					if r := recover(); r != nil {
						uerr = fmt.Errorf("panic: %v", r)
					}
				}()
				_, uerr = s.Info()
			}()
			if uerr != nil {
				c.fail("use-after-close", "a DoWithShard callback ran on a shard that was not open: "+uerr.Error())
			}
			if !flockHeld(filepath.Join(t.dir, "sharddb.bbolt")) {
				c.fail("use-after-close", "a DoWithShard callback ran while the shard database file was not locked (handle closed)")
			}
			c.mu.Lock()
			t.inCb = false
			c.mu.Unlock()
			return uerr
		})
		if err == nil {
			if !ran {
				c.fail("clean-error", "DoWithShard returned nil although the callback did not run")
			}
			return "ok"
		}
		if ran {
			c.fail("clean-error", "DoWithShard ran the callback and returned an error: "+err.Error())
		} else if !strings.Contains(err.Error(), "already closed") && !strings.Contains(err.Error(), "could not load shard") {
			c.fail("clean-error", "DoWithShard failed with an unexpected error: "+err.Error())
		}
		if strings.Contains(err.Error(), "timeout") {
			c.fail("double-open", "loadShard tried to open a database file that is still open: "+err.Error())
		}
		return "err"
	})
	return t
}

func (c *ctl) newDel(coll int) *thread {
	t := &thread{kind: "del", coll: coll}
	c.spawnCall(t, func() string {
		_, err := c.sm.DeleteCollectionShards(c.collection(coll))
		if err != nil {
			return "err"
		}
		return "ok"
	})
	return t
}

// wait until thread t parks, returns, or is stably blocked
func (c *ctl) await(t *thread, timeout time.Duration, ignore ...string) string {
	deadline := time.Now().Add(timeout)
	last, cnt := "", 0
	sleep := 50 * time.Microsecond
	// most steps finish within microseconds: spin before looking at goroutine dumps
	for i := 0; i < 600; i++ {
		c.mu.Lock()
		parked, at, done, res := t.parked, t.at, t.done, t.result
		c.mu.Unlock()
		if parked {
			return "at_" + at
		}
		if done {
			return "ret_" + res
		}
		runtime.Gosched()
	}
	for {
		c.mu.Lock()
		parked, at, done, res, gid := t.parked, t.at, t.done, t.result, t.gid
		c.mu.Unlock()
		if parked {
			return "at_" + at
		}
		if done {
			return "ret_" + res
		}
		snap := snapshot()
		g, alive := snap[gid]
		if !alive {
			if t.kind == "cleanup" {
				c.mu.Lock()
				t.done, t.result = true, "exit"
				c.mu.Unlock()
				return "ret_exit"
			}
		} else if k := blockedKind(g); k != "" && !(len(ignore) > 0 && ignore[0] == k) {
			if k == last {
				cnt++
			} else {
				last, cnt = k, 1
			}
			if cnt >= 3 {
				// re-check that it did not park in the meantime
				c.mu.Lock()
				parked = t.parked
				c.mu.Unlock()
				if !parked {
					if k == "flock" {
						c.fail("double-open", "loadShard opened a database file that is still open: bbolt waits for the file lock while holding shardLock")
					}
					return "blocked_" + k
				}
			}
		} else {
			last, cnt = "", 0
		}
		if time.Now().After(deadline) {
			st := "?"
			if alive {
				st = g.state
			}
			return "timeout_" + strings.ReplaceAll(st, " ", "-")
		}
		time.Sleep(sleep)
		if sleep < time.Millisecond {
			sleep *= 2
		}
	}
}

func (c *ctl) statusNow(t *thread) string {
	c.mu.Lock()
	parked, at, done, res, gid := t.parked, t.at, t.done, t.result, t.gid
	c.mu.Unlock()
	if parked {
		return "at_" + at
	}
	if done {
		return "ret_" + res
	}
	g, alive := snapshot()[gid]
	if !alive {
		return "ret_exit"
	}
	if k := blockedKind(g); k != "" {
		return "blocked_" + k
	}
	return "running_" + strings.ReplaceAll(g.state, " ", "-")
}

var twoPhase = map[string]bool{"cleanup.lockW": true, "del.lockW": true, "cleanup.select": true}

func flockHeld(path string) bool {
	f, err := os.Open(path)
	if err != nil {
		return false
	}
	defer f.Close()
	err = syscall.Flock(int(f.Fd()), syscall.LOCK_EX|syscall.LOCK_NB)
	if err != nil {
		return true
	}
	syscall.Flock(int(f.Fd()), syscall.LOCK_UN)
	return false
}

// ---- loads that fail: an unopenable database file, a non-directory at the shard path

const garbageLen = 64 << 10

var garbageMagic = []byte("C12-torn-shard-file\x00\xff\x00\xff")

// garbage: 64 KiB that bbolt cannot open (what a torn / half-transferred sharddb.bbolt looks like):
// a recognisable marker, then seeded random bytes
func garbage(seed uint64) []byte {
	b := make([]byte, garbageLen)
	copy(b, garbageMagic)
	r := vh.NewRng(seed ^ 0xC12BAD)
	for i := len(garbageMagic); i+8 <= len(b); i += 8 {
		x := r.U64()
		for j := 0; j < 8; j++ {
			b[i+j] = byte(x >> (8 * j))
		}
	}
	return b
}

// corruptShard makes the database file of the shard directory unopenable (directory created if need be)
func corruptShard(dir string, seed uint64) error {
	if err := os.MkdirAll(dir, 0o755); err != nil {
		return err
	}
	return os.WriteFile(filepath.Join(dir, "sharddb.bbolt"), garbage(seed), 0o644)
}

// blockShardDir puts a regular file at the path of the shard directory: os.MkdirAll fails
func blockShardDir(dir string) error {
	if err := os.MkdirAll(filepath.Dir(dir), 0o755); err != nil {
		return err
	}
	return os.WriteFile(dir, []byte("not a directory\n"), 0o644)
}

func isGarbageFile(path string) bool {
	f, err := os.Open(path)
	if err != nil {
		return false
	}
	defer f.Close()
	buf := make([]byte, len(garbageMagic))
	if n, _ := f.Read(buf); n != len(buf) {
		return false
	}
	return bytes.Equal(buf, garbageMagic)
}

func isRegularFile(path string) bool {
	st, err := os.Lstat(path)
	return err == nil && st.Mode().IsRegular()
}

func (c *ctl) dirObs(d [2]int) string {
	dir := shardDir(c.root, d[0], d[1])
	e, o, s, n := "-", "-", "-", "-"
	if st, err := os.Stat(dir); err == nil && st.IsDir() {
		e = "E"
	}
	if flockHeld(filepath.Join(dir, "sharddb.bbolt")) {
		o = "O"
	}
	in, isNil := c.sm.VerifShardState(dir)
	if in {
		s = "S"
		if isNil {
			n = "N"
		}
	}
	b, f := "-", "-"
	if isGarbageFile(filepath.Join(dir, "sharddb.bbolt")) {
		b = "B"
	}
	if isRegularFile(dir) {
		f = "F"
	}
	return fmt.Sprintf("%d.%d:%s%s%s%s%s%s", d[0], d[1], e, o, s, n, b, f)
}

func (c *ctl) obsAll(ds [][2]int) string {
	parts := make([]string, len(ds))
	for i, d := range ds {
		parts[i] = c.dirObs(d)
	}
	return strings.Join(parts, ",")
}

// property oracle, evaluated on the real state right before the released step runs
func (c *ctl) preStepOracle(t *thread, point string) {
	switch point {
	case "del.readdir":
		colDir := filepath.Join(c.root, cluster.USERCOLSDIR, "u", fmt.Sprintf("c%d", t.coll))
		ents, _ := os.ReadDir(colDir)
		t.snap = nil
		for _, e := range ents {
			if e.IsDir() {
				t.snap = append(t.snap, filepath.Join(colDir, e.Name()))
			}
		}
	case "del.lookup":
		t.lookups++
	case "del.remove":
		if t.lookups >= 1 && t.lookups <= len(t.snap) {
			dir := t.snap[t.lookups-1]
			c.mu.Lock()
			for _, o := range c.threads {
				if o.kind == "req" && o.dir == dir && o.inCb && !o.done {
					defer c.fail("remove-in-use", "DeleteCollectionShards removes the files of a shard while a request is inside its callback on that shard")
				}
			}
			c.mu.Unlock()
			if flockHeld(filepath.Join(dir, "sharddb.bbolt")) {
				c.fail("remove-in-use", "DeleteCollectionShards removes the files of a shard whose database handle is still open")
			}
		}
	}
}

func (c *ctl) postStepOracle(t *thread, from, status string) {
	if from == "cleanup.backup" && c.backups && status == "at_cleanup.close" {
		ents, _ := os.ReadDir(t.dir)
		n := 0
		for _, e := range ents {
			if strings.HasSuffix(e.Name(), ".backup") {
				n++
			}
		}
		if n == 0 {
			c.fail("backup-missing", "idle unload with backups enabled produced no backup file (backup ran on a closed shard?)")
		}
	}
}

type act struct {
	kind string // nR nD r f xB xF xR
	a, b int
	tok  string
}

func parseActs(toks []string) ([]act, error) {
	var out []act
	for _, tok := range toks {
		switch {
		case strings.HasPrefix(tok, "nR"), strings.HasPrefix(tok, "xB"), strings.HasPrefix(tok, "xF"), strings.HasPrefix(tok, "xR"):
			p := strings.Split(tok[2:], ".")
			if len(p) != 2 {
				return nil, fmt.Errorf("bad act %s", tok)
			}
			a, e1 := strconv.Atoi(p[0])
			b, e2 := strconv.Atoi(p[1])
			if e1 != nil || e2 != nil {
				return nil, fmt.Errorf("bad act %s", tok)
			}
			out = append(out, act{tok[:2], a, b, tok})
		case strings.HasPrefix(tok, "nD"):
			a, err := strconv.Atoi(tok[2:])
			if err != nil {
				return nil, fmt.Errorf("bad act %s", tok)
			}
			out = append(out, act{"nD", a, 0, tok})
		case strings.HasPrefix(tok, "r"), strings.HasPrefix(tok, "f"):
			a, err := strconv.Atoi(tok[1:])
			if err != nil {
				return nil, fmt.Errorf("bad act %s", tok)
			}
			out = append(out, act{tok[:1], a, 0, tok})
		default:
			return nil, fmt.Errorf("bad act %s", tok)
		}
	}
	return out, nil
}

const stepTimeout = 4 * time.Second

// runSchedule drives one schedule and returns the observable trace
func runSchedule(line string, base string, idx int, backups bool) (string, []vh.OracleFailure) {
	f := strings.Fields(line)
	if len(f) < 2 || f[0] != "sched" {
		return "bad-op", nil
	}
	acts, err := parseActs(f[2:])
	if err != nil {
		return "bad-op", nil
	}
	root, err := os.MkdirTemp(base, fmt.Sprintf("s%d-", idx))
	if err != nil {
		panic(err)
	}
	defer os.RemoveAll(root)
	c := &ctl{root: root, byGid: map[int64]*thread{}, timers: map[int64]*time.Timer{}, backups: backups, line: line, failSeen: map[string]bool{}}
	if backups {
		c.line = line + "   # backups=on"
	}
	c.sm = cluster.NewShardManager(cluster.ShardManagerConfig{RootDir: root, ShardTimeout: 3600, MaxCacheSize: -1})
	cur.Store(c)
	// universe of directories: every nR / xB / xF of the line, sorted
	seen := map[[2]int]bool{}
	var ds [][2]int
	for _, a := range acts {
		if (a.kind == "nR" || a.kind == "xB" || a.kind == "xF" || a.kind == "xR") && !seen[[2]int{a.a, a.b}] {
			seen[[2]int{a.a, a.b}] = true
			ds = append(ds, [2]int{a.a, a.b})
		}
	}
	sort.Slice(ds, func(i, j int) bool { return ds[i][0] < ds[j][0] || (ds[i][0] == ds[j][0] && ds[i][1] < ds[j][1]) })

	var trace []string
	stopped := false
	for _, a := range acts {
		var st string
		switch a.kind {
		case "nR":
			t := c.newReq(a.a, a.b)
			st = c.await(t, stepTimeout)
		case "nD":
			t := c.newDel(a.a)
			st = c.await(t, stepTimeout)
		case "xB", "xF", "xR":
			// environment acts (the model enables xB only while no handle is open on the file, xF only
			// while the directory does not exist, xR only while the file is garbage)
			dir := shardDir(root, a.a, a.b)
			var err error
			switch {
			case a.kind == "xB" && flockHeld(filepath.Join(dir, "sharddb.bbolt")):
				err = errors.New("database file is open")
			case a.kind == "xB":
				err = corruptShard(dir, uint64(idx)*31+uint64(a.a)*7+uint64(a.b))
			case a.kind == "xR":
				// the failure was transient: the garbage goes away, the next load creates / opens a database
				if !isGarbageFile(filepath.Join(dir, "sharddb.bbolt")) {
					err = errors.New("database file is not garbage")
				} else {
					err = os.Remove(filepath.Join(dir, "sharddb.bbolt"))
				}
			default:
				if _, serr := os.Lstat(dir); serr == nil {
					err = errors.New("path exists")
				} else {
					err = blockShardDir(dir)
				}
			}
			if err != nil {
				st = "IMPOSSIBLE(" + a.kind + ":" + strings.ReplaceAll(err.Error(), " ", "-") + ")"
				stopped = true
				break
			}
			st = "env"
		case "r", "f":
			c.mu.Lock()
			var t *thread
			if a.a < len(c.threads) {
				t = c.threads[a.a]
			}
			c.mu.Unlock()
			if t == nil {
				st = "IMPOSSIBLE(no-such-thread)"
				stopped = true
				break
			}
			if a.kind == "f" {
				c.mu.Lock()
				tm := c.timers[t.gid]
				parked := t.parked
				c.mu.Unlock()
				if tm == nil || parked || !t.wake {
					st = "IMPOSSIBLE(fire:" + c.statusNow(t) + ")"
					stopped = true
					break
				}
				t.wake = false
				tm.Reset(0)
				// the runtime delivers the expired timer asynchronously: still sitting in the select for a
				// moment is not "blocked"
				st = c.await(t, stepTimeout, "select")
				break
			}
			if t.wake {
				// second phase of Lock / RLock / select: the goroutine proceeds by itself
				t.wake = false
				st = c.await(t, stepTimeout)
				break
			}
			c.mu.Lock()
			parked, point := t.parked, t.at
			c.mu.Unlock()
			if !parked {
				st = "IMPOSSIBLE(" + c.statusNow(t) + ")"
				stopped = true
				break
			}
			c.preStepOracle(t, point)
			c.mu.Lock()
			t.parked = false
			c.mu.Unlock()
			t.release <- struct{}{}
			st = c.await(t, stepTimeout)
			if twoPhase[point] || (point == "dws.rlock" && strings.HasPrefix(st, "blocked_")) {
				// Lock and select are two acts in the model (announce / enter, then proceed); RLock is
				// two acts only when it has to queue behind a writer
				t.wake = true
			}
			c.postStepOracle(t, point, st)
			if point == "load.spawn" {
				// the new cleanup goroutine gets the next thread id and runs to its first yield point
				dl := time.Now().Add(stepTimeout)
				var nt *thread
				for nt == nil && time.Now().Before(dl) {
					nt = c.adopt()
					if nt == nil {
						time.Sleep(50 * time.Microsecond)
					}
				}
				if nt != nil {
					c.await(nt, stepTimeout)
				}
			}
		}
		if stopped {
			trace = append(trace, a.tok+"="+st)
			break
		}
		trace = append(trace, a.tok+"="+st+"/"+c.obsAll(ds))
		if strings.HasPrefix(st, "timeout_") || strings.HasPrefix(st, "blocked_store") || strings.HasPrefix(st, "blocked_flock") || strings.HasPrefix(st, "blocked_chansend") || strings.HasPrefix(st, "blocked_timerdrain") {
			// the model never schedules such a step; stop here, the end check decides
			stopped = true
			break
		}
	}
	// end of schedule
	c.mu.Lock()
	ths := append([]*thread(nil), c.threads...)
	c.mu.Unlock()
	sts := make([]string, len(ths))
	for i, t := range ths {
		sts[i] = c.statusNow(t)
	}
	obs := c.obsAll(ds)
	// do all calls return when everything is let go? (deadlock check)
	c.mu.Lock()
	c.freeRun = true
	for _, t := range c.threads {
		if t.parked {
			t.parked = false
			select {
			case t.release <- struct{}{}:
			default:
			}
		}
	}
	for _, t := range c.pending {
		_ = t
	}
	c.mu.Unlock()
	callsDone := func() bool {
		c.mu.Lock()
		defer c.mu.Unlock()
		for _, t := range c.threads {
			if t.kind != "cleanup" && !t.done {
				return false
			}
		}
		return true
	}
	dl := 0
	deadline := time.Now().Add(2 * time.Second)
	for !callsDone() && time.Now().Before(deadline) {
		time.Sleep(time.Millisecond)
	}
	if !callsDone() {
		dl = 1
		var who []string
		snap := snapshot()
		c.mu.Lock()
		for _, t := range c.threads {
			if !t.done {
				if g, ok := snap[t.gid]; ok {
					who = append(who, fmt.Sprintf("t%d(%s):%s", t.id, t.kind, g.state))
				}
			}
		}
		c.mu.Unlock()
		c.fail("deadlock", "shard manager calls never return: "+strings.Join(who, " "))
	} else {
		// afterwards new requests can load shards again (free running).  Shards that cannot be loaded at
		// this point (garbage database file, non-directory at the path) come FIRST: their requests must
		// return (a clean error), and the requests on all the other shards after them must still succeed
		var order [][2]int
		unloadable := map[[2]int]bool{}
		for _, d := range ds {
			dir := shardDir(c.root, d[0], d[1])
			if isGarbageFile(filepath.Join(dir, "sharddb.bbolt")) || isRegularFile(dir) {
				unloadable[d] = true
				order = append(order, d)
			}
		}
		for _, d := range ds {
			if !unloadable[d] {
				order = append(order, d)
			}
		}
		for _, d := range order {
			if unloadable[d] {
				res := make(chan error, 1)
				go func() {
					res <- c.sm.DoWithShard(c.collection(d[0]), fmt.Sprintf("s%d", d[1]), func(s *shard.Shard) error {
						_, err := s.Info()
						return err
					})
				}()
				select {
				case err := <-res:
					if err != nil && !strings.Contains(err.Error(), "could not load shard") && !strings.Contains(err.Error(), "already closed") {
						c.fail("clean-error", fmt.Sprintf("a request on shard %d.%d, which cannot be loaded, failed with an unexpected error: %v", d[0], d[1], err))
					}
				case <-time.After(5 * time.Second):
					c.failHang(fmt.Sprintf("after all calls returned a new request on shard %d.%d (which cannot be loaded) does not return", d[0], d[1]))
				}
				continue
			}
			res := make(chan error, 1)
			go func() {
				res <- c.sm.DoWithShard(c.collection(d[0]), fmt.Sprintf("s%d", d[1]), func(s *shard.Shard) error {
					_, err := s.Info()
					return err
				})
			}()
			select {
			case err := <-res:
				if err != nil {
					// a request may lose the race against an unload that is still in flight: retry once
					time.Sleep(20 * time.Millisecond)
					err2 := c.sm.DoWithShard(c.collection(d[0]), fmt.Sprintf("s%d", d[1]), func(s *shard.Shard) error {
						_, err := s.Info()
						return err
					})
					if err2 != nil {
						c.fail("reload-failed", fmt.Sprintf("after all calls returned a new request on shard %d.%d fails: %v", d[0], d[1], err2))
					}
				}
			case <-time.After(5 * time.Second):
				c.failHang(fmt.Sprintf("after all calls returned a new request on shard %d.%d does not return", d[0], d[1]))
			}
		}
	}
	// let the cleanup goroutines unload and exit before the directory is removed (a goroutine that
	// has just been sent `false` re-arms its timer, so fire repeatedly); goroutines stuck on a lock
	// (deadlocked schedule) are left behind
	tdl := time.Now().Add(800 * time.Millisecond)
	for {
		c.mu.Lock()
		for _, tm := range c.timers {
			tm.Reset(0)
		}
		gids := make([]int64, 0, len(c.timers))
		for gid := range c.timers {
			gids = append(gids, gid)
		}
		c.mu.Unlock()
		time.Sleep(200 * time.Microsecond)
		snap := snapshot()
		remaining := 0
		for _, gid := range gids {
			if g, ok := snap[gid]; ok {
				k := blockedKind(g)
				if k == "store" || k == "wlock" || k == "rlock" || k == "flock" {
					continue
				}
				remaining++
			}
		}
		if remaining == 0 || time.Now().After(tdl) {
			break
		}
	}
	if !stopped || true {
		trace = append(trace, fmt.Sprintf("end=%s/%s/dl=%d", strings.Join(sts, ","), obs, dl))
	}
	cur.Store(nil)
	return strings.Join(trace, " "), c.fails
}

// ------------------------------------------------------------------------------------ worker

type result struct {
	Idx   int                `json:"idx"`
	Trace string             `json:"trace"`
	Fails []vh.OracleFailure `json:"fails"`
}

func tmpBase() string {
	for _, d := range []string{"/dev/shm", os.TempDir()} {
		if st, err := os.Stat(d); err == nil && st.IsDir() {
			b, err := os.MkdirTemp(d, "c12-")
			if err == nil {
				return b
			}
		}
	}
	panic("no temp dir")
}

func worker() {
	zerolog.SetGlobalLevel(zerolog.Disabled)
	cluster.VerifYield = yieldHook
	cluster.VerifTimer = timerHook
	base := tmpBase()
	defer os.RemoveAll(base)
	in := bufio.NewScanner(os.Stdin)
	in.Buffer(make([]byte, 1<<20), 1<<24)
	out := bufio.NewWriter(os.Stdout)
	enc := json.NewEncoder(out)
	for in.Scan() {
		// "<idx> <backups 0|1> sched ..."
		parts := strings.SplitN(in.Text(), " ", 3)
		if len(parts) < 3 {
			continue
		}
		idx, _ := strconv.Atoi(parts[0])
		tr, fails := runSchedule(parts[2], base, idx, parts[1] == "1")
		if os.Getenv("C12_DEBUG") != "" {
			fmt.Fprintf(os.Stderr, "idx %d goroutines %d\n", idx, runtime.NumGoroutine())
		}
		enc.Encode(result{idx, tr, fails})
		out.Flush()
	}
	if os.Getenv("C12_DEBUG") != "" {
		time.Sleep(200 * time.Millisecond)
		cnt := map[string]int{}
		for _, g := range snapshot() {
			l := strings.Split(g.stack, "\n")
			key := g.state
			for _, x := range l {
				if strings.Contains(x, "semadb") || strings.Contains(x, "main.") {
					key += " @ " + strings.TrimSpace(x)
					break
				}
			}
			cnt[key]++
		}
		for k, v := range cnt {
			fmt.Fprintf(os.Stderr, "LEAK %d %s\n", v, k)
		}
	}
}

// tailBuf keeps the first lines of what a child wrote to stderr after its last complete log line
type tailBuf struct {
	mu sync.Mutex
	b  []byte
}

func (t *tailBuf) Write(p []byte) (int, error) {
	t.mu.Lock()
	defer t.mu.Unlock()
	if len(t.b) < 1<<16 {
		t.b = append(t.b, p...)
	}
	return len(p), nil
}

func (t *tailBuf) head() string {
	t.mu.Lock()
	defer t.mu.Unlock()
	var keep []string
	for _, l := range strings.Split(string(t.b), "\n") {
		if strings.HasPrefix(l, "{") || strings.TrimSpace(l) == "" {
			continue // zerolog lines
		}
		keep = append(keep, l)
		if len(keep) >= 6 {
			break
		}
	}
	return strings.Join(keep, " | ")
}

// run the schedules in child processes (several in parallel); a child that stops answering is
// killed and the schedule it was working on is reported as a hang
func runForced(lines []string, seed uint64, par int) ([]string, []vh.OracleFailure, int) {
	traces := make([]string, len(lines))
	var mu sync.Mutex
	var fails []vh.OracleFailure
	restarts := 0
	self, _ := os.Executable()
	var nextIdx atomic.Int64
	var wg sync.WaitGroup
	if par < 1 {
		par = 1
	}
	if par > len(lines) {
		par = len(lines)
	}
	for w := 0; w < par; w++ {
		wg.Add(1)
		go func() {
			defer wg.Done()
			for int(nextIdx.Load()) < len(lines) {
				cmd := exec.Command(self, "-worker")
				// one P per child: the controller and the goroutine it released hand the processor to each
				// other directly, which is faster and insensitive to machine load (the schedule is
				// sequential anyway); the unforced stress children keep the default
				cmd.Env = append(os.Environ(), "GOMAXPROCS=1")
				stdin, _ := cmd.StdinPipe()
				stdout, _ := cmd.StdoutPipe()
				var errBuf tailBuf
				cmd.Stderr = &errBuf
				if err := cmd.Start(); err != nil {
					panic(err)
				}
				resCh := make(chan result)
				go func() {
					sc := bufio.NewScanner(stdout)
					sc.Buffer(make([]byte, 1<<20), 1<<26)
					for sc.Scan() {
						var r result
						if json.Unmarshal(sc.Bytes(), &r) == nil {
							resCh <- r
						}
					}
					close(resCh)
				}()
				alive := true
				for alive {
					i := int(nextIdx.Add(1)) - 1
					if i >= len(lines) {
						break
					}
					bk := 0
					if (uint64(i)+seed)%2 == 1 {
						bk = 1
					}
					fmt.Fprintf(stdin, "%d %d %s\n", i, bk, lines[i])
					select {
					case r, ok := <-resCh:
						mu.Lock()
						if !ok {
							traces[i] = "CRASH"
							cmd.Wait()
							fails = append(fails, vh.OracleFailure{Signature: "crash", What: "the process died while running this schedule: " + errBuf.head(), Replay: lines[i]})
							alive = false
							restarts++
						} else {
							traces[i] = r.Trace
							fails = append(fails, r.Fails...)
						}
						mu.Unlock()
					case <-time.After(90 * time.Second):
						mu.Lock()
						traces[i] = "HANG"
						fails = append(fails, vh.OracleFailure{Signature: "deadlock", What: "the schedule never finished (harness child killed after 90 s)", Replay: lines[i]})
						alive = false
						restarts++
						mu.Unlock()
					}
				}
				stdin.Close()
				cmd.Process.Kill()
				cmd.Wait()
			}
		}()
	}
	wg.Wait()
	return traces, fails, restarts
}

// ------------------------------------------------------------------------------------ stress

type stressReport struct {
	Ops      int64    `json:"ops"`
	Ok       int64    `json:"ok"`
	Errs     int64    `json:"errs"`
	Dels     int64    `json:"dels"`
	LoadErrs int64    `json:"load_errs"` // requests on shards that cannot be loaded (garbage file / blocked path)
	Fails    []string `json:"fails"`
	Hung     bool     `json:"hung"`
	Stacks   string   `json:"stacks"`
}

func stressWorker(seed uint64, dur time.Duration, timeout int) {
	zerolog.SetGlobalLevel(zerolog.Disabled)
	base := tmpBase()
	defer os.RemoveAll(base)
	sm := cluster.NewShardManager(cluster.ShardManagerConfig{RootDir: base, ShardTimeout: timeout, MaxCacheSize: -1})
	var rep stressReport
	var mu sync.Mutex
	addFail := func(s string) {
		mu.Lock()
		if len(rep.Fails) < 20 {
			rep.Fails = append(rep.Fails, s)
		}
		mu.Unlock()
	}
	// a collection that is never deleted, with two shards that cannot be loaded: s0 has a garbage
	// database file, a regular file sits at the path of s1.  Requests on them must get the clean
	// error and must not disturb anybody else (shardLock is shared by the whole manager)
	badCol := models.Collection{UserId: "u", Id: "cbad"}
	if err := corruptShard(filepath.Join(base, cluster.USERCOLSDIR, "u", "cbad", "s0"), seed); err != nil {
		panic(err)
	}
	if err := blockShardDir(filepath.Join(base, cluster.USERCOLSDIR, "u", "cbad", "s1")); err != nil {
		panic(err)
	}
	var progress atomic.Int64
	stop := make(chan struct{})
	var wg sync.WaitGroup
	col := func(c int, bk bool) models.Collection {
		m := models.Collection{UserId: "u", Id: fmt.Sprintf("c%d", c)}
		if bk {
			m.UserPlan.ShardBackupFrequency = 1
			m.UserPlan.ShardBackupCount = 2
		}
		return m
	}
	for g := 0; g < 12; g++ {
		wg.Add(1)
		go func(g int) {
			defer wg.Done()
			defer func() {
				if r := recover(); r != nil {
					addFail(fmt.Sprintf("panic: %v", r))
				}
			}()
			r := vh.NewRng(seed*131 + uint64(g))
			for {
				select {
				case <-stop:
					return
				default:
				}
				c, sh := r.Intn(2), r.Intn(2)
				if r.Intn(8) == 0 {
					ran := false
					err := sm.DoWithShard(badCol, fmt.Sprintf("s%d", sh), func(s *shard.Shard) error {
						ran = true
						_, err := s.Info()
						return err
					})
					atomic.AddInt64(&rep.LoadErrs, 1)
					if err == nil || ran {
						addFail(fmt.Sprintf("clean-error: a request on a shard that cannot be loaded (cbad/s%d) ran its callback (err=%v)", sh, err))
					} else if !strings.Contains(err.Error(), "could not load shard") && !strings.Contains(err.Error(), "already closed") {
						addFail("unexpected error: " + err.Error())
					}
				} else if r.Intn(10) == 0 {
					sm.DeleteCollectionShards(col(c, c == 1))
					atomic.AddInt64(&rep.Dels, 1)
				} else {
					ran := false
					t0 := time.Now()
					err := sm.DoWithShard(col(c, c == 1), fmt.Sprintf("s%d", sh), func(s *shard.Shard) error {
						ran = true
						if r.Intn(4) == 0 {
							time.Sleep(time.Duration(r.Intn(300)) * time.Microsecond)
						}
						_, err := s.Info()
						if err != nil {
							addFail("use-after-close: callback on a closed shard: " + err.Error())
						}
						return err
					})
					if err == nil {
						atomic.AddInt64(&rep.Ok, 1)
					} else {
						atomic.AddInt64(&rep.Errs, 1)
						if !ran && strings.Contains(err.Error(), "timeout") {
							addFail("double-open: " + err.Error())
						} else if !ran && !strings.Contains(err.Error(), "already closed") && !strings.Contains(err.Error(), "could not load shard") {
							addFail("unexpected error: " + err.Error())
						}
					}
					if time.Since(t0) > 20*time.Second {
						addFail("double-open or stall: one DoWithShard call took " + time.Since(t0).String())
					}
				}
				atomic.AddInt64(&rep.Ops, 1)
				progress.Add(1)
			}
		}(g)
	}
	deadline := time.After(dur)
	lastP, lastT := int64(0), time.Now()
	tick := time.NewTicker(200 * time.Millisecond)
loop:
	for {
		select {
		case <-deadline:
			break loop
		case <-tick.C:
			p := progress.Load()
			if p != lastP {
				lastP, lastT = p, time.Now()
			} else if time.Since(lastT) > 5*time.Second {
				rep.Hung = true
				buf := make([]byte, 1<<20)
				n := runtime.Stack(buf, true)
				var keep []string
				for _, blk := range strings.Split(string(buf[:n]), "\n\n") {
					if strings.Contains(blk, "ShardManager") {
						l := strings.Split(blk, "\n")
						if len(l) > 7 {
							l = l[:7]
						}
						keep = append(keep, strings.Join(l, "\n"))
					}
				}
				if len(keep) > 8 {
					keep = keep[:8]
				}
				rep.Stacks = strings.Join(keep, "\n\n")
				b, _ := json.Marshal(rep)
				fmt.Println(string(b))
				os.Exit(0)
			}
		}
	}
	close(stop)
	done := make(chan struct{})
	go func() { wg.Wait(); close(done) }()
	select {
	case <-done:
	case <-time.After(10 * time.Second):
		rep.Hung = true
	}
	b, _ := json.Marshal(rep)
	fmt.Println(string(b))
}

func runStress(seed uint64, dur time.Duration) (stressReport, []vh.OracleFailure) {
	self, _ := os.Executable()
	var total stressReport
	var fails []vh.OracleFailure
	for _, to := range []int{0, 1} {
		cmd := exec.Command(self, "-stressworker", "-seed", fmt.Sprint(seed), "-dur", fmt.Sprint(int(dur/time.Millisecond/2)), "-timeout", fmt.Sprint(to))
		var outb bytes.Buffer
		var errBuf tailBuf
		cmd.Stdout = &outb
		cmd.Stderr = &errBuf
		if err := cmd.Start(); err != nil {
			panic(err)
		}
		done := make(chan error, 1)
		go func() { done <- cmd.Wait() }()
		replay := fmt.Sprintf("stress seed=%d shardTimeout=%d   # c12 -stressworker -seed %d -dur %d -timeout %d", seed, to, seed, int(dur/time.Millisecond/2), to)
		select {
		case <-done:
		case <-time.After(dur/2 + 40*time.Second):
			cmd.Process.Kill()
			fails = append(fails, vh.OracleFailure{Signature: "deadlock", What: "unforced stress: the child process stopped answering", Replay: replay})
			continue
		}
		var rep stressReport
		lines := strings.Split(strings.TrimSpace(outb.String()), "\n")
		if err := json.Unmarshal([]byte(lines[len(lines)-1]), &rep); err != nil {
			fails = append(fails, vh.OracleFailure{Signature: "crash", What: "unforced stress: the process died: " + errBuf.head(), Replay: replay})
			continue
		}
		total.Ops += rep.Ops
		total.Ok += rep.Ok
		total.Errs += rep.Errs
		total.Dels += rep.Dels
		total.LoadErrs += rep.LoadErrs
		if rep.Hung {
			total.Hung = true
			fails = append(fails, vh.OracleFailure{Signature: "deadlock", What: "unforced stress: no shard manager call made progress for 5 s; blocked goroutines:\n" + rep.Stacks, Replay: replay})
		}
		for _, f := range rep.Fails {
			sig := strings.SplitN(f, ":", 2)[0]
			sig = strings.ReplaceAll(sig, " ", "-")
			fails = append(fails, vh.OracleFailure{Signature: sig, What: "unforced stress: " + f, Replay: replay})
		}
	}
	return total, fails
}

// ------------------------------------------------------------------------------------ main

func readSchedLines(path string) ([]string, error) {
	b, err := os.ReadFile(path)
	if err != nil {
		return nil, err
	}
	var out []string
	for _, l := range strings.Split(string(b), "\n") {
		l = strings.TrimSpace(l)
		if k := strings.Index(l, "#"); k >= 0 {
			l = strings.TrimSpace(l[:k])
		}
		if strings.HasPrefix(l, "sched ") {
			out = append(out, l)
		}
	}
	return out, nil
}

func main() {
	seed := flag.Uint64("seed", 1, "seed")
	out := flag.String("out", "", "output directory")
	scheds := flag.String("scheds", "", "file with schedule lines")
	replay := flag.String("replay", "", "replay file")
	isWorker := flag.Bool("worker", false, "child: forced schedules")
	isStressWorker := flag.Bool("stressworker", false, "child: stress")
	stress := flag.Bool("stress", false, "run the unforced stress part as well")
	dur := flag.Int("dur", 8000, "stress duration in ms")
	timeout := flag.Int("timeout", 0, "stress worker: ShardTimeout")
	par := flag.Int("par", 4, "number of forced-schedule child processes run in parallel")
	flag.Parse()
	switch {
	case *isWorker:
		worker()
		return
	case *isStressWorker:
		stressWorker(*seed, time.Duration(*dur)*time.Millisecond, *timeout)
		return
	case *replay != "":
		lines, err := readSchedLines(*replay)
		if err != nil {
			fmt.Println(err)
			os.Exit(2)
		}
		traces, fails, _ := runForced(lines, 0, 1)
		for _, t := range traces {
			fmt.Println(t)
		}
		b, _ := json.Marshal(map[string]any{"oracle_failures": fails})
		fmt.Println(string(b))
		return
	}
	if *out == "" || *scheds == "" {
		fmt.Println("usage: c12 -scheds FILE -seed N -out DIR [-stress -dur MS]")
		os.Exit(2)
	}
	lines, err := readSchedLines(*scheds)
	if err != nil {
		fmt.Println(err)
		os.Exit(2)
	}
	o := vh.NewOut(*out)
	t0 := time.Now()
	traces, fails, restarts := runForced(lines, *seed, *par)
	forcedS := time.Since(t0).Seconds()
	blocked, longest := 0, 0
	for i, l := range lines {
		flags := ""
		for _, fl := range [][2]string{{"=blocked_rlock", "R"}, {"=blocked_wlock", "W"}, {"=ret_err", "E"}, {" nD", "D"}, {" f", "T"}, {"dl=1", "X"}, {" xB", "B"}, {" xF", "F"}, {" xR", "P"}} {
			if strings.Contains(traces[i], fl[0]) || strings.Contains(l, fl[0]) {
				flags += fl[1]
			}
		}
		// R: an RLock queued behind a writer, W: a Lock waited for readers, E: a request got the clean
		// error, D: a deletion ran, T: an idle timer fired, X: deadlock, B: the database file of a shard was made
		// garbage (NewShard fails), F: a non-directory was put at a shard path (MkdirAll fails), P: a garbage file was repaired
		kind := "sched[" + flags + "]"
		if strings.Contains(traces[i], "=blocked_rlock") || strings.Contains(traces[i], "=blocked_wlock") {
			blocked++
		}
		if n := len(strings.Fields(l)); n > longest {
			longest = n
		}
		o.Emit(kind, l, traces[i], true)
	}
	extra := map[string]any{"rule": "distinct schedules (act sequences) driven through the real ShardManager and compared step by step with the model", "forced_seconds": forcedS, "child_restarts": restarts, "longest_schedule_acts": longest - 2, "schedules_with_lock_waits": blocked}
	if *stress {
		rep, sf := runStress(*seed, time.Duration(*dur)*time.Millisecond)
		fails = append(fails, sf...)
		extra["stress"] = rep
	}
	seen := map[string]bool{}
	for _, f := range fails {
		if !seen[f.Signature] {
			seen[f.Signature] = true
			o.Fail(f.Signature, f.What, f.Replay)
		}
	}
	o.Close(extra)
	_ = errors.New
}
