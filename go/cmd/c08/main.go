// C08 correspondence harness.
//
// Phase A (cache level): random programs on the real generic cache.ItemCache over a two-suffix
// Storable (code under 'q', else vector under 'v', its own dirty flag) on a memory bucket — Get /
// Put / Delete / in-place mutation / ForEach / Count / Flush / eviction — compared line by line with
// the Lean model of itemcache.go.
//
// Phase B (shard level): histories of insert / update / field-removal / delete batches on real
// shards carrying every index kind (two flat vector indexes, a Vamana graph, text, string, integer,
// float, string array). After every batch the same queries are answered by
//
//	(a) the live shard (warm, unlimited cache),
//	(b) fresh shards opened on a copy of the db file: cold; cache disabled; tiny cache asked twice,
//	(c) shards that ran the whole history with cache disabled / tiny cache / LRU-limited cache,
//	(d) a memory-backed shard fed the same batches,
//
// and the answers must coincide (exactly for filters and graph search, modulo ties for flat search,
// modulo 4 ulp score reordering for text). Durability is judged against the shadow collection on
// the reopened copy (point count, _id lookups, integer filters, flat kNN).
package main

import (
	"encoding/base64"
	"encoding/json"
	"errors"
	"flag"
	"fmt"
	"math"
	"os"
	"sort"
	"strings"

	"github.com/google/uuid"
	"github.com/rs/zerolog"
	"github.com/semafind/semadb/conversion"
	"github.com/semafind/semadb/diskstore"
	"github.com/semafind/semadb/models"
	"github.com/semafind/semadb/shard"
	"github.com/semafind/semadb/shard/cache"
	"verifharness/c04lib"
	"verifharness/vh"
)

// ---------------------------------------------------------------- phase A: the generic item cache

type hPoint struct {
	vec, code []byte
	dirty     bool
}

func (p *hPoint) SizeInMemory() int64 { return int64(len(p.vec) + len(p.code)) }
func (p *hPoint) IdFromKey(key []byte) (uint64, bool) {
	if id, ok := conversion.NodeIdFromKey(key, 'q'); ok {
		return id, true
	}
	return conversion.NodeIdFromKey(key, 'v')
}
func (p *hPoint) CheckAndClearDirty() bool { d := p.dirty; p.dirty = false; return d }
func (p *hPoint) ReadFrom(id uint64, b diskstore.Bucket) (*hPoint, error) {
	out := &hPoint{}
	if q := b.Get(conversion.NodeKey(id, 'q')); q != nil {
		out.code = append([]byte{}, q...)
		return out, nil
	}
	v := b.Get(conversion.NodeKey(id, 'v'))
	if v == nil {
		return out, cache.ErrNotFound
	}
	out.vec = append([]byte{}, v...)
	return out, nil
}
func (p *hPoint) WriteTo(id uint64, b diskstore.Bucket) error {
	if len(p.code) != 0 {
		return b.Put(conversion.NodeKey(id, 'q'), append([]byte{}, p.code...))
	}
	if len(p.vec) != 0 {
		return b.Put(conversion.NodeKey(id, 'v'), append([]byte{}, p.vec...))
	}
	return nil
}
func (p *hPoint) DeleteFrom(id uint64, b diskstore.Bucket) error {
	if err := b.Delete(conversion.NodeKey(id, 'v')); err != nil {
		return err
	}
	return b.Delete(conversion.NodeKey(id, 'q'))
}

type cacheH struct {
	bucket diskstore.Bucket
	ic     *cache.ItemCache[uint64, *hPoint]
}

func hexOr(s string) []byte {
	if s == "-" {
		return nil
	}
	b := make([]byte, len(s)/2)
	fmt.Sscanf(s, "%x", &b)
	return b
}

func (h *cacheH) exec(line string) string {
	f := strings.Fields(line)
	var id uint64
	if len(f) > 1 {
		fmt.Sscanf(f[1], "%x", &id)
	}
	switch f[0] {
	case "reset":
		h.bucket = diskstore.NewMemBucket(false)
		h.ic = cache.NewItemCache[uint64, *hPoint](h.bucket)
		return "ok"
	case "evict":
		h.ic = cache.NewItemCache[uint64, *hPoint](h.bucket)
		return "ok"
	case "get":
		p, err := h.ic.Get(id)
		if err != nil {
			if errors.Is(err, cache.ErrNotFound) {
				return "notfound"
			}
			return "error"
		}
		return fmt.Sprintf("%s/%s/%s", c04lib.Hex(p.vec), c04lib.Hex(p.code), vh.B01(p.dirty))
	case "put":
		h.ic.Put(id, &hPoint{vec: hexOr(f[2]), code: hexOr(f[3]), dirty: f[4] == "1"})
		return "ok"
	case "del":
		if err := h.ic.Delete(id); err != nil {
			return "error"
		}
		return "ok"
	case "mutate":
		p, err := h.ic.Get(id)
		if err != nil {
			return "notfound"
		}
		p.code = hexOr(f[2])
		p.dirty = true
		return "ok"
	case "foreach":
		type kv struct {
			id uint64
			s  string
		}
		var out []kv
		err := h.ic.ForEach(func(id uint64, p *hPoint) error {
			out = append(out, kv{id, fmt.Sprintf("%016x:%s/%s", id, c04lib.Hex(p.vec), c04lib.Hex(p.code))})
			return nil
		})
		if err != nil {
			return "error"
		}
		if len(out) == 0 {
			return "-"
		}
		sort.Slice(out, func(i, j int) bool { return out[i].id < out[j].id })
		p := make([]string, len(out))
		for i, x := range out {
			p[i] = x.s
		}
		return strings.Join(p, ",")
	case "count":
		return fmt.Sprint(h.ic.Count())
	case "flush":
		if err := h.ic.Flush(); err != nil {
			return "error"
		}
		d := c04lib.Dump{}
		h.bucket.ForEach(func(k, v []byte) error { d[string(k)] = append([]byte{}, v...); return nil })
		return d.Digest()
	}
	return "bad-op"
}

func phaseCache(r *vh.Rng, o *vh.Out, nseq, nops int) {
	h := &cacheH{}
	rb := func() string {
		if r.Chance(25) {
			return "-"
		}
		n := 1 + r.Intn(2)
		b := make([]byte, n)
		for i := range b {
			b[i] = byte(r.Intn(4))
		}
		return c04lib.Hex(b)
	}
	for q := 0; q < nseq; q++ {
		cacheSeq(r, o, h, nops, rb)
	}
}

func cacheSeq(r *vh.Rng, o *vh.Out, h *cacheH, nops int, rb func() string) {
	{
		var trace []string
		defer func() {
			if rec := recover(); rec != nil {
				o.Fail("cache-panic", fmt.Sprintf("the item cache panics: %v", rec), strings.Join(trace, "\n"))
			}
		}()
		// spec: what a plain map would hold, committed and uncommitted; projection = code if present else vector
		type val struct{ vec, code string }
		live, disk := map[uint64]val{}, map[uint64]val{}
		cp := func(m map[uint64]val) map[uint64]val {
			c := map[uint64]val{}
			for k, v := range m {
				c[k] = v
			}
			return c
		}
		emit := func(kind, line string) string {
			trace = append(trace, line)
			impl := h.exec(line)
			o.Emit(kind, line, impl, kind != "put" && kind != "del" && kind != "reset" && kind != "evict")
			return impl
		}
		emit("reset", "reset")
		for i := 0; i < nops; i++ {
			id := uint64(2 + r.Intn(7))
			ids := fmt.Sprintf("%016x", id)
			switch x := r.Intn(100); {
			case x < 28:
				v, c := rb(), rb()
				if v == "-" && c == "-" {
					v = "07"
				}
				emit("put", fmt.Sprintf("put %s %s %s %s", ids, v, c, vh.B01(r.Chance(20))))
				live[id] = val{v, c}
			case x < 40:
				emit("del", "del "+ids)
				delete(live, id)
			case x < 50:
				c := rb()
				if c == "-" {
					c = "09"
				}
				if emit("mutate", fmt.Sprintf("mutate %s %s", ids, c)) == "ok" {
					v := live[id]
					v.code = c
					live[id] = v
				}
			case x < 62:
				impl := emit("get", "get "+ids)
				// the overlay map, judged directly: present iff live, and with the live content
				if v, ok := live[id]; ok != (impl != "notfound") || (ok && v.code != "-" && !strings.Contains(impl, "/"+v.code+"/")) {
					o.Fail("cache-get", fmt.Sprintf("Get(%d) answers %s, the transaction wrote %v (present %v)", id, impl, v, ok), strings.Join(trace, "\n"))
				}
			case x < 74:
				impl := emit("foreach", "foreach")
				n := 0
				if impl != "-" {
					n = len(strings.Split(impl, ","))
				}
				if impl == "error" || n != len(live) {
					o.Fail("cache-foreach", fmt.Sprintf("ForEach visits %s, the map holds %d items", impl, len(live)), strings.Join(trace, "\n"))
				}
			case x < 80:
				emit("count", "count")
			case x < 92:
				emit("flush", "flush")
				disk = cp(live)
			default:
				emit("evict", "evict")
				live = cp(disk) // uncommitted changes die with the cache; committed ones must survive
			}
		}
	}
}

// ---------------------------------------------------------------- phase B: shards with every index kind

var vocab = []string{"alpha", "beta", "gamma", "delta", "omega", "kappa", "the", "and", "Alpha"}
var strs = []string{"red", "Red", "green", "grey", "blue", "b"}
var labels = []string{"x", "y", "z", "xy"}

type allCase struct {
	Cfgs       []c04lib.FlatCfg
	Gq         *c04lib.FlatCfg `json:",omitempty"` // a second Vamana index "gq" carrying this quantiser
	PoisonLive bool            `json:",omitempty"` // the live shard runs behind the poisoning storage proxy too
	Shape      string          `json:",omitempty"` // "chain": graph vectors on a geometric line, small insert batches, deletes of runs of consecutive points
	Batches    []jBatch
}
type jBatch struct {
	Kind    string
	Changes []jChange
	Restart bool `json:",omitempty"` // after this batch the "restart" shard is closed and reopened
	Fault   bool `json:",omitempty"` // the storage transaction of this batch fails at commit time on the shards behind the proxy; nothing of it is committed
}
type jChange struct {
	Id  string
	Vec map[string][]float32 `json:",omitempty"`
	T   *string              `json:",omitempty"`
	S   *string              `json:",omitempty"`
	N   *int64               `json:",omitempty"`
	F   *float64             `json:",omitempty"`
	A   []string             `json:",omitempty"`
	Del []string             `json:",omitempty"`
}

func (b jBatch) toBatch() c04lib.Batch {
	out := c04lib.Batch{Kind: b.Kind}
	for _, c := range b.Changes {
		ch := c04lib.Change{Id: uuid.MustParse(c.Id)}
		if b.Kind != "delete" {
			d := c04lib.Doc{}
			for k, v := range c.Vec {
				d[k] = v
			}
			if c.T != nil {
				d["t"] = *c.T
			}
			if c.S != nil {
				d["s"] = *c.S
			}
			if c.N != nil {
				d["n"] = *c.N
			}
			if c.F != nil {
				d["f"] = *c.F
			}
			if c.A != nil {
				d["a"] = c.A
			}
			for _, k := range c.Del {
				d[k] = "_delete"
			}
			ch.Doc = d
		}
		out.Changes = append(out.Changes, ch)
	}
	return out
}

var vamanaCfg = c04lib.FlatCfg{Prop: "g", Metric: "euclidean", Dim: 2}

func (ac allCase) vamanaCfgs() []c04lib.FlatCfg {
	out := []c04lib.FlatCfg{vamanaCfg}
	if ac.Gq != nil {
		out = append(out, *ac.Gq)
	}
	return out
}

func vamanaBucket(prop string) string { return "index/" + models.IndexTypeVectorVamana + "/" + prop }

func (ac allCase) variants() []string {
	live := "live"
	if ac.PoisonLive {
		live = "live+poison"
	}
	return []string{live, "disabled", "evicting", "lru", "mem", "restart"}
}

func (ac allCase) newSim(dir string) *c04lib.Sim { return c04lib.NewSim(dir, schemaAll(ac), ac.variants()) }

// applyTo: one batch on every shard of the simulation, then the scheduled restart
func (jb jBatch) applyTo(sim *c04lib.Sim) error {
	if jb.Fault {
		if why := sim.ApplyFaulted(jb.toBatch()); why != "" {
			return errors.New(why)
		}
		return nil
	}
	_, _, err := sim.Apply(jb.toBatch())
	if err == nil && jb.Restart {
		sim.Reopen("restart")
	}
	return err
}

func schemaAll(ac allCase) models.IndexSchema {
	cfgs := ac.Cfgs
	s := models.IndexSchema{
		"g": {Type: models.IndexTypeVectorVamana, VectorVamana: &models.IndexVectorVamanaParameters{VectorSize: 2, DistanceMetric: "euclidean", SearchSize: 75, DegreeBound: 64, Alpha: 1.2}},
		"t": {Type: models.IndexTypeText, Text: &models.IndexTextParameters{Analyser: "standard"}},
		"s": {Type: models.IndexTypeString, String: &models.IndexStringParameters{CaseSensitive: false}},
		"n": {Type: models.IndexTypeInteger},
		"f": {Type: models.IndexTypeFloat},
		"a": {Type: models.IndexTypeStringArray, StringArray: &models.IndexStringArrayParameters{IndexStringParameters: models.IndexStringParameters{CaseSensitive: true}}},
	}
	for _, c := range cfgs {
		s[c.Prop] = c.Schema()
	}
	if q := ac.Gq; q != nil {
		s[q.Prop] = models.IndexSchemaValue{Type: models.IndexTypeVectorVamana, VectorVamana: &models.IndexVectorVamanaParameters{
			VectorSize: uint(q.Dim), DistanceMetric: q.Metric, SearchSize: 75, DegreeBound: 64, Alpha: 1.2, Quantizer: q.Quantizer()}}
	}
	return s
}

type anyQuery struct {
	Kind   string // flat | vamana | text | int | float | string | array | id
	Prop   string
	Vec    []float32 `json:",omitempty"`
	Limit  int       `json:",omitempty"`
	Weight *float32  `json:",omitempty"`
	FiltN  *int64    `json:",omitempty"` // pre-filter n >= FiltN
	Op     string    `json:",omitempty"`
	I, I2  int64     `json:",omitempty"`
	Fl     float64   `json:",omitempty"`
	Str    string    `json:",omitempty"`
	Strs   []string  `json:",omitempty"`
}

func (q anyQuery) show() string {
	j, _ := json.Marshal(q)
	return string(j)
}

func (q anyQuery) filter() *models.Query {
	if q.FiltN == nil {
		return nil
	}
	return &models.Query{Property: "n", Integer: &models.SearchIntegerOptions{Value: *q.FiltN, Operator: models.OperatorGreaterOrEq}}
}

func (q anyQuery) toQuery() models.Query {
	switch q.Kind {
	case "flat":
		return models.Query{Property: q.Prop, VectorFlat: &models.SearchVectorFlatOptions{Vector: q.Vec, Operator: "near", Limit: q.Limit, Weight: q.Weight, Filter: q.filter()}}
	case "vamana":
		return models.Query{Property: q.Prop, VectorVamana: &models.SearchVectorVamanaOptions{Vector: q.Vec, Operator: "near", SearchSize: 75, Limit: q.Limit, Weight: q.Weight, Filter: q.filter()}}
	case "text":
		return models.Query{Property: q.Prop, Text: &models.SearchTextOptions{Value: q.Str, Operator: q.Op, Limit: q.Limit, Weight: q.Weight, Filter: q.filter()}}
	case "int":
		return models.Query{Property: q.Prop, Integer: &models.SearchIntegerOptions{Value: q.I, EndValue: q.I2, Operator: q.Op}}
	case "float":
		return models.Query{Property: q.Prop, Float: &models.SearchFloatOptions{Value: q.Fl, Operator: q.Op}}
	case "string":
		return models.Query{Property: q.Prop, String: &models.SearchStringOptions{Value: q.Str, Operator: q.Op}}
	case "array":
		return models.Query{Property: q.Prop, StringArray: &models.SearchStringArrayOptions{Value: q.Strs, Operator: q.Op}}
	case "id":
		return models.Query{Property: "_id", StringArray: &models.SearchStringArrayOptions{Value: q.Strs, Operator: models.OperatorContainsAny}}
	}
	panic("kind")
}

func (q anyQuery) pass(d c04lib.Doc) bool {
	if q.FiltN == nil {
		return true
	}
	n, ok := d["n"].(int64)
	return ok && n >= *q.FiltN
}

type runner struct {
	nextK   int // chain shape: position of the next graph vector on the line
	r       *vh.Rng
	o       *vh.Out
	ac      allCase
	sim     *c04lib.Sim
	shrinks int
	curQ    *anyQuery
}

func (rn *runner) replayOf(q *anyQuery, what string) string {
	j, _ := json.Marshal(struct {
		Case  allCase
		Query *anyQuery
		What  string
	}{rn.ac, q, what})
	return "shardcase " + base64.StdEncoding.EncodeToString(j)
}

func pick[T any](r *vh.Rng, xs []T) *T { x := vh.Pick(r, xs); return &x }

func (rn *runner) genChange(id uuid.UUID, insert bool) jChange {
	r := rn.r
	c := jChange{Id: id.String(), Vec: map[string][]float32{}}
	fields := append(rn.ac.vamanaCfgs(), rn.ac.Cfgs...)
	nvam := len(rn.ac.vamanaCfgs())
	for i, cf := range fields {
		x := r.Intn(100)
		if rn.ac.Shape == "chain" && i < nvam {
			// every inserted point joins the chain; an update moves few of them (to the end of the line)
			if insert {
				x = 0
			} else if x < 80 {
				x = 99
			}
		}
		switch {
		case x < 60 || (insert && x < 85):
			c.Vec[cf.Prop] = c04lib.RandVec(r, cf)
			if rn.ac.Shape == "chain" && i < nvam {
				c.Vec[cf.Prop] = rn.chainVec(cf)
			}
		case !insert && x < 75:
			c.Del = append(c.Del, cf.Prop)
		}
	}
	opt := func(name string, set func()) {
		switch x := r.Intn(100); {
		case x < 55 || (insert && x < 80):
			set()
		case !insert && x < 70:
			c.Del = append(c.Del, name)
		}
	}
	opt("t", func() {
		n := 1 + r.Intn(5)
		w := make([]string, n)
		for i := range w {
			w[i] = vh.Pick(r, vocab)
		}
		s := strings.Join(w, " ")
		c.T = &s
	})
	opt("s", func() { c.S = pick(r, strs) })
	opt("n", func() { n := int64(r.Intn(5) - 1); c.N = &n })
	opt("f", func() { f := float64(r.Intn(7)-3) / 2; c.F = &f })
	opt("a", func() {
		n := 1 + r.Intn(3)
		for i := 0; i < n; i++ {
			c.A = append(c.A, vh.Pick(r, labels))
		}
	})
	return c
}

// chainVec: the next point of a geometric line (x = 1.5^k, everything else 0). Under the alpha rule of
// the Vamana construction (1.2) each such point keeps only its predecessor as neighbour, so the graph
// is a sparse chain hanging off the entry node: a delete / vector-update batch that takes a run of
// consecutive points leaves survivors without any inbound edge (the "save" step of
// removeInboundEdges re-attaches them to the entry node), nodes without outgoing edges, and an entry
// node that is otherwise untouched by the batch — the states dense random graphs never reach.
func (rn *runner) chainVec(cf c04lib.FlatCfg) []float32 {
	v := chainAt(cf, rn.nextK)
	rn.nextK++
	return v
}

func chainAt(cf c04lib.FlatCfg, pos int) []float32 {
	v := make([]float32, cf.Dim)
	k := pos % 90
	v[0] = float32(math.Pow(1.5, float64(k)))
	if (pos/90)%2 == 1 {
		v[0] = -v[0]
	}
	return v
}

func (rn *runner) genBatch() jBatch {
	r, sim := rn.r, rn.sim
	chain := rn.ac.Shape == "chain"
	kind := "insert"
	switch x := r.Intn(100); {
	case len(sim.Order) == 0 || (chain && len(sim.Order) < 5):
		// an empty collection; a chain is built up before it is cut
	case chain && x < 12, !chain && x < 35:
		kind = "update"
	case chain && x < 62, !chain && x < 55:
		kind = "delete"
	}
	jb := jBatch{Kind: kind, Restart: r.Chance(30)}
	maxIns := 7
	if chain {
		maxIns = 1 + 2*r.Intn(2) // one point per batch half of the time: the chain grows link by link
	}
	switch kind {
	case "insert":
		for i, n := 0, 1+r.Intn(maxIns); i < n; i++ {
			var u uuid.UUID
			x, y := r.U64(), r.U64()
			for k := 0; k < 8; k++ {
				u[k], u[8+k] = byte(x>>(8*k)), byte(y>>(8*k))
			}
			jb.Changes = append(jb.Changes, rn.genChange(u, true))
		}
	default:
		// distinct ids inside one batch (DESIGN §8 nos. 12, 13: repeated ids are another property's finding)
		seen := map[uuid.UUID]bool{}
		// chain shape: a run of consecutive points (in insertion order); more often than not the run
		// of 2 or 3 that leaves exactly one survivor behind it and the first point of the chain (the
		// entry node's neighbour) alone
		run, runLen := -1, 0
		if chain {
			run, runLen = r.Intn(len(sim.Order)), 1+r.Intn(3)
			if m := 2 + r.Intn(2); r.Chance(60) && len(sim.Order) >= m+2 {
				run, runLen = len(sim.Order)-1-m, m
			}
		}
		n := 1 + r.Intn(5)
		if run >= 0 {
			n = runLen
		}
		for i := 0; i < n; i++ {
			id := vh.Pick(r, sim.Order)
			if run >= 0 {
				if run+i >= len(sim.Order) {
					break
				}
				id = sim.Order[run+i]
			}
			if seen[id] {
				continue
			}
			seen[id] = true
			if kind == "update" {
				jb.Changes = append(jb.Changes, rn.genChange(id, false))
			} else {
				jb.Changes = append(jb.Changes, jChange{Id: id.String()})
			}
		}
	}
	return jb
}

func (rn *runner) genQueries(n int) []anyQuery {
	r := rn.r
	var out []anyQuery
	lim := func() int {
		switch r.Intn(4) {
		case 0:
			return 1
		case 1:
			return 75
		}
		return 1 + r.Intn(len(rn.sim.Order)+2)%75
	}
	wgt := func() *float32 {
		if r.Chance(40) {
			return pick(r, []float32{0, 0.5, 2, -1})
		}
		return nil
	}
	filt := func() *int64 {
		if r.Chance(35) {
			n := int64(r.Intn(4))
			return &n
		}
		return nil
	}
	kinds := []string{"flat", "flat", "vamana", "text", "vamana", "int", "float", "string", "array", "id", "text"}
	vams := rn.ac.vamanaCfgs()
	nvam := 0
	for i := 0; i < n; i++ {
		k := kinds[(i+r.Intn(len(kinds)))%len(kinds)]
		if i < len(kinds) {
			k = kinds[i] // every kind after every batch when n allows
		}
		q := anyQuery{Kind: k}
		switch k {
		case "flat":
			cf := vh.Pick(r, rn.ac.Cfgs)
			q.Prop, q.Vec, q.Limit, q.Weight, q.FiltN = cf.Prop, c04lib.RandVec(r, cf), lim(), wgt(), filt()
		case "vamana":
			cf := vams[(nvam+len(vams)-1)%len(vams)] // the quantised graph first, then alternating
			nvam++
			q.Prop, q.Vec, q.Limit, q.Weight, q.FiltN = cf.Prop, c04lib.RandVec(r, cf), lim(), wgt(), filt()
			if rn.ac.Shape == "chain" && rn.nextK > 0 && r.Chance(60) {
				// somewhere along the line, most often near its far end (where the stragglers are)
				pos := rn.nextK - 1 - r.Intn(min(rn.nextK, 6))
				if r.Chance(30) {
					pos = r.Intn(rn.nextK)
				}
				q.Vec = chainAt(cf, pos)
			}
		case "text":
			nw := 1 + r.Intn(3)
			w := make([]string, nw)
			for j := range w {
				w[j] = vh.Pick(r, vocab)
			}
			q.Prop, q.Str, q.Op, q.Limit, q.Weight, q.FiltN = "t", strings.Join(w, " "), vh.Pick(r, []string{models.OperatorContainsAll, models.OperatorContainsAny}), lim(), wgt(), filt()
		case "int":
			q.Prop, q.I, q.I2 = "n", int64(r.Intn(5)-1), int64(r.Intn(5))
			q.Op = vh.Pick(r, []string{models.OperatorEquals, models.OperatorNotEquals, models.OperatorLessThan, models.OperatorGreaterOrEq, models.OperatorInRange})
		case "float":
			q.Prop, q.Fl = "f", float64(r.Intn(7)-3)/2
			q.Op = vh.Pick(r, []string{models.OperatorEquals, models.OperatorGreaterThan, models.OperatorLessOrEq, models.OperatorNotEquals})
		case "string":
			q.Prop, q.Str = "s", vh.Pick(r, strs)
			q.Op = vh.Pick(r, []string{models.OperatorEquals, models.OperatorStartsWith, models.OperatorNotEquals, models.OperatorGreaterThan})
		case "array":
			q.Prop, q.Strs = "a", []string{vh.Pick(r, labels), vh.Pick(r, labels)}
			q.Op = vh.Pick(r, []string{models.OperatorContainsAll, models.OperatorContainsAny})
		case "id":
			if len(rn.sim.Order) > 0 {
				q.Strs = append(q.Strs, vh.Pick(r, rn.sim.Order).String())
			}
			q.Strs = append(q.Strs, uuid.UUID{0xee, byte(r.Intn(50))}.String())
		}
		out = append(out, q)
	}
	return out
}

func ulps(a, b float32) int64 {
	ka, kb := int64(c04lib.OrdKey(a)), int64(c04lib.OrdKey(b))
	if ka > kb {
		return ka - kb
	}
	return kb - ka
}

// canonical answer of the order-free kinds
func setCanon(h []c04lib.Hit) string {
	ids := make([]string, len(h))
	for i, x := range h {
		ids[i] = x.Id.String()[:8]
	}
	sort.Strings(ids)
	return fmt.Sprintf("%d:%s", len(ids), strings.Join(ids, ","))
}

func exactCanon(h []c04lib.Hit) string {
	p := make([]string, len(h))
	for i, x := range h {
		d := uint32(0)
		if x.Dist != nil {
			d = math.Float32bits(*x.Dist)
		}
		p[i] = fmt.Sprintf("%s/%08x/%08x", x.Id.String()[:8], d, math.Float32bits(x.Hybrid))
	}
	return strings.Join(p, ",")
}

// textSame: same matches with scores within 4 ulp; order and the cut may differ only among
// scores within 4 ulp of each other (the score is a float sum taken in Go map order)
// set by textSame when it meets an answer that is not in score order but is identical on both sides (see there)
var textOrderNote string

func textSame(a, b []c04lib.Hit) string {
	if len(a) != len(b) {
		return fmt.Sprintf("%d vs %d results", len(a), len(b))
	}
	sa, sb := map[uuid.UUID]float32{}, map[uuid.UUID]float32{}
	for _, x := range a {
		sa[x.Id] = *x.Score
	}
	for _, x := range b {
		sb[x.Id] = *x.Score
	}
	for i := range a {
		if ulps(*a[i].Score, *b[i].Score) > 4 {
			return fmt.Sprintf("score %d: %v vs %v", i, *a[i].Score, *b[i].Score)
		}
		if i > 0 && *a[i-1].Score < *a[i].Score {
			// The tolerance below (order and cut among near-equal scores) presupposes answers in score order.  That order is
			// the text index's statement (C05), not this property's: when the two answers are the same sequence of points
			// with the same scores, "same answer warm and cold" holds whatever the order is - the caller notes the order
			// for C05's check (textOrderNote) and nothing is reported here.  Otherwise nothing can be tolerated.
			// "the same": the same scores position by position; a point in both has the same score in both; points in
			// only one of the answers pair up with points of the same score in the other (ties ordered / cut differently)
			for k := range a {
				if ulps(*a[k].Score, *b[k].Score) > 4 {
					return fmt.Sprintf("scores not descending, and the answers differ at position %d: %s (score %v) vs %s (score %v)", k, a[k].Id, *a[k].Score, b[k].Id, *b[k].Score)
				}
			}
			var onlyA, onlyB []float32
			for id, x := range sa {
				if y, ok := sb[id]; !ok {
					onlyA = append(onlyA, x)
				} else if ulps(x, y) > 4 {
					return fmt.Sprintf("scores not descending, and %s scored %v vs %v", id, x, y)
				}
			}
			for id, y := range sb {
				if _, ok := sa[id]; !ok {
					onlyB = append(onlyB, y)
				}
			}
			sort.Slice(onlyA, func(i, j int) bool { return onlyA[i] < onlyA[j] })
			sort.Slice(onlyB, func(i, j int) bool { return onlyB[i] < onlyB[j] })
			if len(onlyA) != len(onlyB) {
				return "scores not descending, and the answers hold different points"
			}
			for k := range onlyA {
				if ulps(onlyA[k], onlyB[k]) > 4 {
					return fmt.Sprintf("scores not descending, and a point of score %v is only in one answer, one of score %v only in the other", onlyA[k], onlyB[k])
				}
			}
			textOrderNote = fmt.Sprintf("the text answer is not in descending score order (position %d: %v then %v); it is the same sequence on both shards", i, *a[i-1].Score, *a[i].Score)
			return ""
		}
	}
	for id, s := range sa {
		if t, ok := sb[id]; ok {
			if ulps(s, t) > 4 {
				return fmt.Sprintf("%s scored %v vs %v", id, s, t)
			}
		} else if len(b) > 0 && ulps(s, *b[len(b)-1].Score) > 4 {
			return fmt.Sprintf("%s (score %v) missing from the other answer", id, s)
		}
	}
	return ""
}

type shardRef struct {
	name  string
	sh    *shard.Shard
	own   bool // a separate instance that ran the history itself (own k-means, own graph)
	nodes map[uuid.UUID]uint64
}

func (rn *runner) compareAll(q anyQuery, refs []shardRef) {
	o, sim := rn.o, rn.sim
	live := refs[0] // the base of this group: the live shard, or a long-lived variant compared with copies of its own file
	warm := live.name
	if warm == "live" {
		warm = "warm"
	}
	lh, lerr := c04lib.Search(live.sh, q.toQuery())
	if live.name == "live" {
		o.Stats["query-"+q.Kind]++
		if len(lh) > 0 {
			o.Nontrivial++ // a shard-level query with a non-empty answer, compared across all shards
			o.Stats["query-nonempty"]++
		}
	}
	if lerr != nil {
		o.Fail("query-error:"+warm+":"+q.Kind, fmt.Sprintf("%s query failed on the %s shard: %v", q.Kind, live.name, lerr), rn.replayOf(&q, warm))
		return
	}
	var liveCands []c04lib.Cand
	var liveCfg c04lib.FlatCfg
	liveCanon := ""
	if q.Kind == "flat" {
		for _, c := range rn.ac.Cfgs {
			if c.Prop == q.Prop {
				liveCfg = c
			}
		}
	}
	flatCands := func(ref shardRef) ([]c04lib.Cand, c04lib.StoreState, bool) {
		d := c04lib.DumpBucket(ref.sh, liveCfg.Bucket())
		st := c04lib.ReadStoreState(liveCfg, d)
		var out []c04lib.Cand
		for _, id := range sim.Order {
			doc := sim.Docs[id]
			v, ok := doc[q.Prop].([]float32)
			if !ok {
				continue
			}
			var code []byte
			if st.Cfg.Quant == c04lib.QProduct && st.Trained {
				code = d[c04lib.NodeKey(ref.nodes[id], 'q')]
				if len(code) != st.Cfg.NumSub {
					code = make([]byte, st.Cfg.NumSub)
				}
			}
			dist := st.Dist(q.Vec, v, code)
			if dist != dist {
				return nil, st, false
			}
			out = append(out, c04lib.Cand{Id: id, Node: live.nodes[id], Dist: dist, Pass: q.pass(doc)})
		}
		return out, st, true
	}
	var liveSt c04lib.StoreState
	if q.Kind == "flat" {
		var ok bool
		liveCands, liveSt, ok = flatCands(live)
		if !ok {
			o.Stats["query-with-NaN-distance-skipped"]++
			return
		}
		liveCanon = c04lib.FlatCanon(liveCands, lh)
		if why := c04lib.FlatOracle(q.Limit, q.Weight, liveCands, lh); why != "" {
			// The exact-kNN oracle is C04's statement.  It is evaluated here because a stale cache or a lost write shows as a
			// departure from it - but then the other shards (cold, reopened, other cache sizes, memory backend) answer
			// DIFFERENTLY.  If every comparable shard gives the same answer (modulo distance ties), the answer is a function of the
			// committed history and the same warm and cold: this property holds on the query and the departure from exact
			// kNN belongs to C04 (noted for its check).  Anything else is reported here as before.
			same, compared := true, 0
			hyb := func(hs []c04lib.Hit) string {
				p := make([]string, len(hs))
				for i, x := range hs {
					p[i] = fmt.Sprintf("%08x", math.Float32bits(x.Hybrid))
				}
				return strings.Join(p, ",")
			}
			for _, ref := range refs[1:] {
				// the same comparison as below for an answer that passes the oracle: canonical modulo distance ties, against
				// the candidates of that shard; a shard with its own k-means under a trained product quantiser is not comparable
				cands := liveCands
				if ref.own {
					c, st, ok := flatCands(ref)
					if !ok || (st.Cfg.Quant == c04lib.QProduct && (st.Trained || liveSt.Trained)) {
						continue
					}
					cands = c
				}
				h, err := c04lib.Search(ref.sh, q.toQuery())
				compared++
				if err != nil || c04lib.FlatCanon(cands, h) != liveCanon || hyb(h) != hyb(lh) {
					same = false
					break
				}
			}
			sig := "flat-knn:" + warm + ":" + liveCfg.Eff().Metric + "/" + liveCfg.Eff().Quant.String()
			if same && compared > 0 {
				o.Note("C04", "c08 flat queries, exact-kNN oracle", sig, fmt.Sprintf("%s shard: %s; the %d comparable shards (cold / reopened / other cache sizes / memory backend) return the same answer (canonical modulo distance ties, same hybrid scores), so the answer is the same warm and cold and only its exactness (C04) is in question", live.name, why, compared), rn.replayOf(&q, warm))
				return
			}
			o.Fail(sig, live.name+" shard: "+why, rn.replayOf(&q, warm))
			return
		}
	}
	// ground truth where it is cheap: effects of committed batches are visible
	switch {
	case q.Kind == "int" && q.Op == models.OperatorEquals:
		want := 0
		for _, id := range sim.Order {
			if n, ok := sim.Docs[id]["n"].(int64); ok && n == q.I {
				want++
			}
		}
		if len(lh) != want {
			o.Fail("durable-int-equals", fmt.Sprintf("n == %d matches %d live points, the %s shard answers %d", q.I, want, live.name, len(lh)), rn.replayOf(&q, warm))
		}
	case q.Kind == "id":
		want := 0
		for _, s := range q.Strs {
			if _, ok := sim.Docs[uuid.MustParse(s)]; ok {
				want++
			}
		}
		if len(lh) != want {
			o.Fail("durable-id-lookup", fmt.Sprintf("_id lookup on the %s shard finds %d points, %d are live", live.name, len(lh), want), rn.replayOf(&q, warm))
		}
	}
	for _, ref := range refs[1:] {
		h, err := c04lib.Search(ref.sh, q.toQuery())
		o.Stats["answers-compared"]++
		sig := fmt.Sprintf("%s:%s", q.Kind, ref.name)
		if err != nil {
			o.Fail("query-error:"+sig, fmt.Sprintf("%s query failed on the %s shard: %v", q.Kind, ref.name, err), rn.replayOf(&q, ref.name))
			continue
		}
		diff := ""
		switch q.Kind {
		case "int", "float", "string", "array", "id":
			if a, b := setCanon(lh), setCanon(h); a != b {
				diff = fmt.Sprintf("%s %s, %s %s", warm, a, ref.name, b)
			}
		case "vamana":
			if ref.own {
				continue // its own random entry vector and insertion interleaving: another graph
			}
			if a, b := exactCanon(lh), exactCanon(h); a != b {
				diff = fmt.Sprintf("%s %s, %s %s", warm, a, ref.name, b)
			}
		case "text":
			textOrderNote = ""
			diff = textSame(lh, h)
			if diff == "" && textOrderNote != "" {
				o.Note("C05", "c08 text queries", "text-order:"+ref.name, fmt.Sprintf("text query %s: %s (%s and %s)", q.show(), textOrderNote, warm, ref.name), rn.replayOf(&q, ref.name))
			}
		case "flat":
			cands := liveCands
			det := true
			if ref.own {
				var ok bool
				var st c04lib.StoreState
				cands, st, ok = flatCands(ref)
				if !ok {
					continue
				}
				det = !(st.Cfg.Quant == c04lib.QProduct && (st.Trained || liveSt.Trained))
			}
			if why := c04lib.FlatOracle(q.Limit, q.Weight, cands, h); why != "" {
				o.Fail("flat-knn:"+ref.name+":"+liveCfg.Eff().Metric+"/"+liveCfg.Eff().Quant.String(), ref.name+" shard: "+why, rn.replayOf(&q, ref.name))
				continue
			}
			if det {
				if c := c04lib.FlatCanon(cands, h); c != liveCanon {
					diff = fmt.Sprintf("%s %s, %s %s", warm, liveCanon, ref.name, c)
				}
			}
		}
		if diff != "" {
			o.Fail("answer-differs:"+sig, fmt.Sprintf("%s query %s: %s", q.Kind, q.show(), diff), rn.replayOf(&q, ref.name))
		}
	}
}

func (rn *runner) history(dir string, nb, nq int) {
	o := rn.o
	defer func() {
		if rec := recover(); rec != nil {
			o.Fail("shard-panic", fmt.Sprintf("panic while running a history: %v", rec), rn.replayOf(rn.curQ, "panic"))
		}
	}()
	sim := rn.ac.newSim(dir)
	rn.sim = sim
	defer sim.Close()
	defer rn.poisonStats()
	trained := map[string]bool{}
	for bi := 0; bi < nb; bi++ {
		jb := rn.genBatch()
		if len(jb.Changes) == 0 {
			continue
		}
		if rn.r.Chance(20) {
			// the same batch first fails at commit time (on the shards behind the storage proxy), is
			// answered for like any other state, and is then applied for good
			fb := jb
			fb.Fault, fb.Restart = true, false
			rn.ac.Batches = append(rn.ac.Batches, fb)
			c04lib.Progress("applying a "+jb.Kind+" batch whose commit fails (the last one of this case)", rn.replayOf(nil, "batch"))
			if err := fb.applyTo(sim); err != nil {
				o.Fail("faulted-batch:"+jb.Kind, err.Error(), rn.replayOf(nil, "batch"))
				return
			}
			o.Stats["batch-failing-at-commit"]++
			rn.answerAll(nq / 2)
		}
		rn.ac.Batches = append(rn.ac.Batches, jb)
		rn.curQ = nil
		c04lib.Progress("applying a "+jb.Kind+" batch (the last one of this case)", rn.replayOf(nil, "batch"))
		err := jb.applyTo(sim)
		o.Stats["batch-"+jb.Kind]++
		if jb.Restart {
			o.Stats["restart-after-batch"]++
		}
		if err != nil {
			o.Fail("batch-rejected:"+jb.Kind, fmt.Sprintf("a valid %s batch was rejected: %v", jb.Kind, err), rn.replayOf(nil, "batch"))
			return
		}
		rn.trainingStats(trained)
		rn.graphStats(jb.Kind)
		rn.answerAll(nq)
	}
}

// answerAll: the current committed state is answered for by every shard
func (rn *runner) answerAll(nq int) {
	o, sim := rn.o, rn.sim
	groups, closeRefs := refsFor(sim)
	defer closeRefs()
	// durability on every shard and on the reopened copies: the point count
	for _, refs := range groups {
		for _, ref := range refs {
			info, err := ref.sh.Info()
			if err != nil || int(info.PointCount) != len(sim.Order) {
				o.Fail("durable-count:"+ref.name, fmt.Sprintf("%s shard reports %d points (err %v), %d are live", ref.name, info.PointCount, err, len(sim.Order)), rn.replayOf(nil, ref.name))
			}
		}
	}
	for _, q := range rn.genQueries(nq) {
		q := q
		rn.curQ = &q
		c04lib.Progress("answering a "+q.Kind+" query on every shard", rn.replayOf(&q, "query"))
		before := len(o.Oracle)
		for _, refs := range groups {
			rn.compareAll(q, refs)
		}
		if len(o.Oracle) > before && rn.shrinks < 2 {
			rn.shrinks++
			rn.shrink(o.Oracle[before].Signature, q, &o.Oracle[before])
		}
		if len(o.Oracle) > before {
			c04lib.SaveFailures(o.Oracle)
		}
	}
}

// trainingStats: which quantisers crossed their trigger inside the batch just applied ("trained in
// this very batch": the answers right after it are the ones that depend on the order of training
// and persisting), which are queried trained from an earlier batch, which never trained
func (rn *runner) trainingStats(trained map[string]bool) {
	type ix struct {
		kind, bucket string
		cfg          c04lib.FlatCfg
	}
	var all []ix
	for _, c := range rn.ac.Cfgs {
		all = append(all, ix{"flat", c.Bucket(), c})
	}
	if rn.ac.Gq != nil {
		all = append(all, ix{"vamana", vamanaBucket(rn.ac.Gq.Prop), *rn.ac.Gq})
	}
	for _, x := range all {
		e := x.cfg.Eff()
		if e.Quant != c04lib.QBinLearned && e.Quant != c04lib.QProduct {
			continue
		}
		st := c04lib.ReadStoreState(x.cfg, c04lib.DumpBucket(rn.sim.Live(), x.bucket))
		key := x.kind + "/" + e.Quant.String()
		switch {
		case st.Trained && !trained[x.bucket]:
			trained[x.bucket] = true
			rn.o.Stats["queried-right-after-training:"+key]++
		case st.Trained:
			rn.o.Stats["queried-trained-earlier:"+key]++
		default:
			rn.o.Stats["queried-untrained:"+key]++
		}
	}
}

// graphStats: how often the committed graphs are in the sparse states that matter for C08: the entry
// node (id 1) holding more than one edge after a delete / update batch on a chain (= the "save"
// step of removeInboundEdges has re-attached a straggler), nodes without outgoing edges
func (rn *runner) graphStats(kind string) {
	for _, cf := range rn.ac.vamanaCfgs() {
		d := c04lib.DumpBucket(rn.sim.Live(), vamanaBucket(cf.Prop))
		if e, ok := d[c04lib.NodeKey(1, 'e')]; ok && len(e) > 8 && rn.ac.Shape == "chain" && kind != "insert" {
			rn.o.Stats["chain-entry-node-with-rescue-edges-after-"+kind]++
		}
		for k, v := range d {
			if len(k) == 10 && k[9] == 'e' && len(v) == 0 {
				rn.o.Stats["graph-node-without-edges"]++
			}
		}
	}
}

func (rn *runner) poisonStats() {
	if rn.sim == nil {
		return
	}
	for _, v := range rn.sim.Variants {
		if v.Poison != nil {
			rn.o.Stats["poisoned-transactions"] += int(v.Poison.Txs.Load())
			rn.o.Stats["poisoned-slices"] += int(v.Poison.Slices.Load())
		}
		if v.Name == "restart" {
			rn.o.Stats["restarts"] += v.Opens - 1
		}
	}
}

// refsFor: the groups of shards that answer every query; the first of a group is its base, the
// others are compared with it.
//
//	group 0: the live shard, the separately run variants, and fresh shards on a copy of the live
//	         file (cold, cache disabled, tiny cache asked twice);
//	group 1: the "restart" shard — restarted at some points of the history, its cache filled by
//	         reads, alive across the following batches, behind the poisoning storage proxy — and a
//	         fresh shard on a copy of ITS file: the same graph, the same codes, so every kind of
//	         answer is compared exactly;
//	group 2: the same for the "lru" shard (whole caches evicted and re-read now and then, on bbolt
//	         directly: what a retained alias does there depends on bbolt's page recycling).
func refsFor(sim *c04lib.Sim) ([][]shardRef, func()) {
	refs := []shardRef{}
	var closers []func()
	var more [][]shardRef
	for _, v := range sim.Variants {
		ref := shardRef{name: v.Name, sh: v.Shard, own: v.Name != "live", nodes: c04lib.NodeIds(c04lib.DumpBucket(v.Shard, c04lib.PointsBucket))}
		refs = append(refs, ref)
		if v.Name == "restart" || v.Name == "lru" {
			sh, done := sim.OpenCopyOf(v, -1)
			closers = append(closers, done)
			more = append(more, []shardRef{{name: v.Name, sh: v.Shard, nodes: ref.nodes}, {name: v.Name + "-cold", sh: sh, nodes: ref.nodes}})
		}
	}
	for _, cs := range []struct {
		name string
		size int64
	}{{"cold", -1}, {"cold-disabled", 0}, {"cold-tiny", 64}, {"cold-tiny-again", 64}} {
		if cs.name == "cold-tiny-again" {
			prev := refs[len(refs)-1]
			refs = append(refs, shardRef{name: cs.name, sh: prev.sh, nodes: prev.nodes})
			continue
		}
		sh, done := sim.OpenCopy(cs.size)
		closers = append(closers, done)
		refs = append(refs, shardRef{name: cs.name, sh: sh, nodes: refs[0].nodes})
	}
	groups := append([][]shardRef{refs}, more...)
	return groups, func() {
		for _, c := range closers {
			c()
		}
	}
}

func (rn *runner) stillFails(ac allCase, q anyQuery, sig string) (bad bool) {
	defer func() {
		if r := recover(); r != nil {
			bad = false
		}
	}()
	tmp, err := os.MkdirTemp("", "c08s-")
	if err != nil {
		return false
	}
	defer os.RemoveAll(tmp)
	sim := ac.newSim(tmp)
	defer sim.Close()
	for _, jb := range ac.Batches {
		if err := jb.applyTo(sim); err != nil {
			return false
		}
	}
	sb := &runner{r: vh.NewRng(1), o: vh.NewOut(tmp + "/out"), ac: ac, sim: sim, shrinks: 99}
	groups, closeRefs := refsFor(sim)
	defer closeRefs()
	for _, refs := range groups {
		sb.compareAll(q, refs)
	}
	for _, f := range sb.o.Oracle {
		if f.Signature == sig {
			return true
		}
	}
	return false
}

func (rn *runner) shrink(sig string, q anyQuery, f *vh.OracleFailure) {
	cur := rn.ac
	cur.Batches = append([]jBatch{}, rn.ac.Batches...)
	if !rn.stillFails(cur, q, sig) {
		return
	}
	for i := len(cur.Batches) - 1; i >= 0; i-- {
		cand := allCase{Cfgs: cur.Cfgs, Batches: append(append([]jBatch{}, cur.Batches[:i]...), cur.Batches[i+1:]...)}
		if rn.stillFails(cand, q, sig) {
			cur = cand
		}
	}
	for bi := len(cur.Batches) - 1; bi >= 0; bi-- {
		for ci := len(cur.Batches[bi].Changes) - 1; ci >= 0 && len(cur.Batches[bi].Changes) > 1; ci-- {
			cand := cur
			cand.Batches = append([]jBatch{}, cur.Batches...)
			nb := cand.Batches[bi]
			nb.Changes = append(append([]jChange{}, nb.Changes[:ci]...), nb.Changes[ci+1:]...)
			cand.Batches[bi] = nb
			if rn.stillFails(cand, q, sig) {
				cur = cand
			}
		}
	}
	save := rn.ac
	rn.ac = cur
	f.Replay = rn.replayOf(&q, fmt.Sprintf("shrunk from %d batches", len(save.Batches)))
	rn.ac = save
}

// ---------------------------------------------------------------- corpus: small scripted histories that run first

type scripted struct {
	name    string
	ac      allCase
	queries []anyQuery
}

func uid(i int) string { return uuid.UUID{0xc0, byte(i)}.String() }

func insOf(prop string, from int, vecs ...[]float32) jBatch {
	b := jBatch{Kind: "insert"}
	for i, v := range vecs {
		b.Changes = append(b.Changes, jChange{Id: uid(from + i), Vec: map[string][]float32{prop: v}})
	}
	return b
}

func delOf(ids ...int) jBatch {
	b := jBatch{Kind: "delete"}
	for _, i := range ids {
		b.Changes = append(b.Changes, jChange{Id: uid(i)})
	}
	return b
}

// corpus: the minimal shapes of the state classes that random histories reach only sometimes —
// a chain that is cut so that its last point loses every inbound edge; a quantiser whose trigger is
// crossed inside a batch (per index kind and quantiser); a cache filled by reads after a restart and
// used again; a batch whose commit fails. Each is answered for after every batch like any history.
func corpus() []scripted {
	flat := []c04lib.FlatCfg{{Prop: "v0", Metric: "euclidean", Dim: 2}, {Prop: "v1", Metric: "euclidean", Dim: 4, Quant: c04lib.QProduct, NumSub: 2, NumCent: 2, Trigger: 4}}
	var out []scripted
	// chain start - p0 - … - p5, one point per batch; p3 and p4 deleted together: p5 is a straggler
	ch := allCase{Cfgs: flat, Shape: "chain"}
	for k := 0; k < 6; k++ {
		ch.Batches = append(ch.Batches, insOf("g", k, chainAt(vamanaCfg, k)))
	}
	ch.Batches = append(ch.Batches, delOf(3, 4), insOf("g", 6, chainAt(vamanaCfg, 6)), delOf(5, 6))
	out = append(out, scripted{"chain-cut", ch, []anyQuery{
		{Kind: "vamana", Prop: "g", Vec: []float32{0, 0}, Limit: 75}, {Kind: "vamana", Prop: "g", Vec: chainAt(vamanaCfg, 5), Limit: 1}, {Kind: "vamana", Prop: "g", Vec: chainAt(vamanaCfg, 6), Limit: 2}}})
	// the trigger of the quantised Vamana index / of the flat product index is crossed inside the second batch
	pts := [][]float32{{1, 0, 2, -1}, {-2, 1, 0, 1}, {0, -1, 1, 2}, {2, 2, -1, 0}, {-1, 0, -2, 1}, {1, 1, 1, -2}}
	for _, gq := range []c04lib.FlatCfg{
		{Prop: "gq", Metric: "euclidean", Dim: 4, Quant: c04lib.QBinLearned, BitMetric: "hamming", Trigger: 4},
		{Prop: "gq", Metric: "euclidean", Dim: 4, Quant: c04lib.QProduct, NumSub: 2, NumCent: 2, Trigger: 4},
	} {
		gq := gq
		for _, prop := range []string{"gq", "v1"} {
			tr := allCase{Cfgs: flat, Gq: &gq, PoisonLive: prop == "v1"}
			tr.Batches = []jBatch{insOf(prop, 0, pts[0], pts[1]), insOf(prop, 2, pts[2], pts[3]), insOf(prop, 4, pts[4]), delOf(1), insOf(prop, 5, pts[5])}
			tr.Batches[1].Restart = true // the restarted shard reads what the training batch committed
			kind := "vamana"
			if prop == "v1" {
				kind = "flat"
			}
			out = append(out, scripted{"train-in-batch:" + prop + ":" + gq.Eff().Quant.String(), tr, []anyQuery{
				{Kind: kind, Prop: prop, Vec: []float32{1, 0, 1, 0}, Limit: 75}, {Kind: kind, Prop: prop, Vec: []float32{-1, 1, 0, 2}, Limit: 2}, {Kind: kind, Prop: prop, Vec: []float32{1, 0, 1, 0}, Limit: 3}}})
		}
	}
	// a batch whose commit fails between two that succeed
	ft := allCase{Cfgs: flat, PoisonLive: true}
	bad := insOf("g", 3, []float32{2, 2}, []float32{-1, 2})
	bad.Fault = true
	good := bad
	good.Fault = false
	badDel := delOf(0, 3)
	badDel.Fault = true
	ft.Batches = []jBatch{insOf("g", 0, []float32{1, 0}, []float32{0, 1}, []float32{-2, -1}), bad, good, badDel, delOf(0, 3)}
	out = append(out, scripted{"commit-fails", ft, []anyQuery{{Kind: "vamana", Prop: "g", Vec: []float32{1, 1}, Limit: 75}, {Kind: "id", Strs: []string{uid(0), uid(3)}}}})
	return out
}

func (rn *runner) scripted(dir string, sc scripted) {
	o := rn.o
	defer func() {
		if rec := recover(); rec != nil {
			o.Fail("shard-panic", fmt.Sprintf("panic while running corpus case %s: %v", sc.name, rec), rn.replayOf(rn.curQ, "panic"))
		}
	}()
	rn.ac = sc.ac
	rn.ac.Batches = nil
	sim := rn.ac.newSim(dir)
	rn.sim = sim
	defer sim.Close()
	defer rn.poisonStats()
	for _, jb := range sc.ac.Batches {
		rn.ac.Batches = append(rn.ac.Batches, jb)
		rn.curQ = nil
		c04lib.Progress("corpus "+sc.name+": applying a "+jb.Kind+" batch (the last one of this case)", rn.replayOf(nil, "batch"))
		if err := jb.applyTo(sim); err != nil {
			o.Fail("batch-rejected:"+jb.Kind, fmt.Sprintf("corpus %s: a valid %s batch was rejected: %v", sc.name, jb.Kind, err), rn.replayOf(nil, "batch"))
			return
		}
		o.Stats["corpus-batch"]++
		groups, closeRefs := refsFor(sim)
		// the queries twice: the second round is served from what the first one read
		for round := 0; round < 2; round++ {
			for _, q := range sc.queries {
				q := q
				rn.curQ = &q
				c04lib.Progress("corpus "+sc.name+": answering a "+q.Kind+" query on every shard", rn.replayOf(&q, "query"))
				before := len(o.Oracle)
				for _, refs := range groups {
					rn.compareAll(q, refs)
				}
				if len(o.Oracle) > before {
					c04lib.SaveFailures(o.Oracle)
				}
			}
		}
		closeRefs()
	}
}

func main() {
	zerolog.SetGlobalLevel(zerolog.Disabled)
	seed := flag.Uint64("seed", 1, "PRNG seed")
	dir := flag.String("out", "", "output directory")
	replay := flag.String("replay", "", "replay the op lines of this file against the implementation")
	nseq := flag.Int("cache", 60, "cache-level programs")
	nops := flag.Int("ops", 50, "ops per cache-level program")
	nhist := flag.Int("hist", 8, "shard-level histories")
	nb := flag.Int("batches", 8, "batches per history")
	nq := flag.Int("queries", 12, "queries after every batch")
	flag.Parse()
	if *replay != "" {
		doReplay(*replay)
		return
	}
	c04lib.Isolate(*dir)
	r := vh.NewRng(*seed)
	o := vh.NewOut(*dir)
	tmp, err := os.MkdirTemp("", "c08-")
	if err != nil {
		panic(err)
	}
	defer os.RemoveAll(tmp)
	phaseCache(r, o, *nseq, *nops)
	quants := [][2]c04lib.FlatCfg{
		{{Prop: "v0", Metric: "hamming", Dim: 8}, {Prop: "v1", Metric: "euclidean", Dim: 4, Quant: c04lib.QProduct, NumSub: 2, NumCent: 2, Trigger: 6}},
		{{Prop: "v0", Metric: "cosine", Dim: 4, Quant: c04lib.QBinLearned, BitMetric: "jaccard", Trigger: 5}, {Prop: "v1", Metric: "dot", Dim: 2}},
		{{Prop: "v0", Metric: "jaccard", Dim: 65}, {Prop: "v1", Metric: "haversine", Dim: 2}},
		{{Prop: "v0", Metric: "euclidean", Dim: 2, Quant: c04lib.QBinFixed, Thr: 0, BitMetric: "hamming"}, {Prop: "v1", Metric: "dot", Dim: 4, Quant: c04lib.QBinLearned, BitMetric: "hamming", Trigger: 8}},
	}
	// the second Vamana index: every quantiser; triggers small enough to be crossed INSIDE a batch in
	// the middle of a history (so that answers are compared right after the training batch, while
	// trained in an earlier batch / an earlier life of the process, and before any training), and one
	// that never trains
	gqs := []c04lib.FlatCfg{
		{Prop: "gq", Metric: "euclidean", Dim: 4, Quant: c04lib.QBinLearned, BitMetric: "hamming", Trigger: 6},
		{Prop: "gq", Metric: "euclidean", Dim: 4, Quant: c04lib.QProduct, NumSub: 2, NumCent: 2, Trigger: 7},
		{Prop: "gq", Metric: "cosine", Dim: 4, Quant: c04lib.QBinLearned, BitMetric: "jaccard", Trigger: 9},
		{Prop: "gq", Metric: "dot", Dim: 4, Quant: c04lib.QProduct, NumSub: 2, NumCent: 3, Trigger: 5},
		{Prop: "gq", Metric: "euclidean", Dim: 2, Quant: c04lib.QBinFixed, Thr: 0, BitMetric: "hamming"},
		{Prop: "gq", Metric: "cosine", Dim: 4, Quant: c04lib.QProduct, NumSub: 2, NumCent: 2, Trigger: 11},
		{Prop: "gq", Metric: "dot", Dim: 2, Quant: c04lib.QBinLearned, BitMetric: "hamming", Trigger: 1000},
	}
	for i, sc := range corpus() {
		rn := &runner{r: r, o: o, shrinks: 99}
		cd := fmt.Sprintf("%s/c%d", tmp, i)
		os.MkdirAll(cd, 0o755)
		rn.scripted(cd, sc)
		os.RemoveAll(cd)
	}
	for h := 0; h < *nhist; h++ {
		pair := quants[h%len(quants)]
		gq := gqs[h%len(gqs)]
		rn := &runner{r: r, o: o, ac: allCase{Cfgs: []c04lib.FlatCfg{pair[0], pair[1]}, Gq: &gq, PoisonLive: h%2 == 1}}
		if h%3 == 2 {
			rn.ac.Shape = "chain"
		}
		hd := fmt.Sprintf("%s/h%d", tmp, h)
		os.MkdirAll(hd, 0o755)
		rn.history(hd, *nb, *nq)
		os.RemoveAll(hd)
	}
	o.Close(map[string]any{"rule": "distinct cache-level op lines whose answer depends on the cache / bucket state (get, mutate, foreach, count, flush) + shard-level queries with a non-empty answer on the live shard (each compared with 8 other shards: distribution.answers-compared)"})
}

func doReplay(path string) {
	data, err := os.ReadFile(path)
	if err != nil {
		panic(err)
	}
	h := &cacheH{}
	h.exec("reset")
	for _, line := range strings.Split(string(data), "\n") {
		line = strings.TrimSpace(line)
		if line == "" || strings.HasPrefix(line, "#") {
			continue
		}
		f := strings.Fields(line)
		if f[0] == "shardcase" {
			replayShard(f[1])
			continue
		}
		fmt.Println(h.exec(line))
	}
}

func replayShard(b64 string) {
	j, err := base64.StdEncoding.DecodeString(b64)
	if err != nil {
		panic(err)
	}
	var rc struct {
		Case  allCase
		Query *anyQuery
		What  string
	}
	if err := json.Unmarshal(j, &rc); err != nil {
		panic(err)
	}
	tmp, _ := os.MkdirTemp("", "c08r-")
	defer os.RemoveAll(tmp)
	sim := rc.Case.newSim(tmp)
	defer sim.Close()
	var sb strings.Builder
	for _, jb := range rc.Case.Batches {
		if err := jb.applyTo(sim); err != nil {
			fmt.Fprintf(&sb, "batch %s rejected: %v; ", jb.Kind, err)
		}
	}
	fmt.Fprintf(&sb, "%d batches, %d live points; ", len(rc.Case.Batches), len(sim.Order))
	if rc.Query != nil {
		q := *rc.Query
		fmt.Fprintf(&sb, "query %+v: ", q)
		render := func(sh *shard.Shard) string {
			h, e := c04lib.Search(sh, q.toQuery())
			if e != nil {
				return fmt.Sprintf("error %v", e)
			}
			switch q.Kind {
			case "int", "float", "string", "array", "id":
				return setCanon(h)
			}
			if q.Kind == "flat" {
				// a flat scan visits the points in Go map order: ties are printed in id order
				sort.SliceStable(h, func(i, j int) bool {
					return h[i].Dist != nil && h[j].Dist != nil && *h[i].Dist == *h[j].Dist && h[i].Id.String() < h[j].Id.String()
				})
			}
			p := make([]string, len(h))
			for i, x := range h {
				v := float32(0)
				if x.Dist != nil {
					v = *x.Dist
				} else if x.Score != nil {
					v = *x.Score
				}
				p[i] = fmt.Sprintf("%s@%v", x.Id.String()[:8], v)
			}
			return "[" + strings.Join(p, " ") + "]"
		}
		// every shard is asked twice: the second answer is served from what the first one cached
		show := func(name string, sh *shard.Shard) {
			a, b := render(sh), render(sh)
			if a == b {
				fmt.Fprintf(&sb, "%s: %s; ", name, a)
			} else {
				fmt.Fprintf(&sb, "%s: %s, asked again: %s; ", name, a, b)
			}
		}
		show("warm", sim.Live())
		sh, done := sim.OpenCopy(-1)
		show("cold", sh)
		done()
		for _, v := range sim.Variants[1:] {
			show(v.Name, v.Shard)
			if v.Name == "restart" {
				sh, done := sim.OpenCopyOf(v, -1)
				show(v.Name+"-cold", sh)
				done()
			}
		}
	}
	fmt.Println(sb.String())
}
