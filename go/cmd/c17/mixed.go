// Sort properties whose values mix kinds the way MessagePack produces them, and the independent
// reference order the merged results are judged by.
//
// A value written through MessagePack keeps the width it was sent with: decoded into `any` it is an
// int8 … int64, uint8 … uint64, float32 or float64 (or nil, bool, string, []byte, []any, map), and the
// values of one property differ in kind from point to point.  Every point carries three such
// properties, functions of (token, initial k) so that a replay stores the same documents:
//
//	x    mostly numbers: small / large unsigned, negative, beyond 2^53, at the ends of int64 / uint64,
//	     floats incl. negative, −0, huge, ±Inf, fractions, floats equal to integers, float32; rarely NaN;
//	     missing in some points
//	y    every class: missing, strings, numbers, nil, bool, []any, map, []byte
//	n.z  nested: numbers and strings under n.z; n a scalar (the path runs into it) or missing
//
// The reference order (refCmp) is written from the documentation, not from utils.CompareAny: numbers by
// their exact value (math/big rationals, ±Inf beyond every finite value), strings byte-wise, numbers
// before strings, a missing property last whatever the direction.  NaN, nil, bool, slices and maps are
// not judged (the documentation says nothing about them); the model comparison covers them.
package main

import (
	"encoding/hex"
	"fmt"
	"math"
	"math/big"
	"sort"
	"strings"

	"github.com/semafind/semadb/models"
)

func mix64(z uint64) uint64 {
	z += 0x9E3779B97F4A7C15
	z = (z ^ (z >> 30)) * 0xBF58476D1CE4E5B9
	z = (z ^ (z >> 27)) * 0x94D049BB133111EB
	return z ^ (z >> 31)
}

type hrng struct{ s uint64 }

func (h *hrng) next() uint64   { h.s = mix64(h.s); return h.s }
func (h *hrng) intn(n int) int { return int(h.next() % uint64(n)) }
func pick[T any](h *hrng, xs []T) T {
	return xs[h.intn(len(xs))]
}

// the same integer in every width / signedness it fits
func widths(v int64) []any {
	c := []any{v}
	if v >= 0 {
		c = append(c, uint64(v))
	}
	if int64(int32(v)) == v {
		c = append(c, int32(v))
	}
	if v >= 0 && v <= math.MaxUint32 {
		c = append(c, uint32(v))
	}
	if int64(int16(v)) == v {
		c = append(c, int16(v))
	}
	if v >= 0 && v <= math.MaxUint16 {
		c = append(c, uint16(v))
	}
	if int64(int8(v)) == v {
		c = append(c, int8(v))
	}
	if v >= 0 && v <= math.MaxUint8 {
		c = append(c, uint8(v))
	}
	return c
}

// what a MessagePack client that picks the smallest encoding sends for v
func smallest(v int64) any {
	switch {
	case v >= 0 && v <= math.MaxInt8:
		return int8(v) // positive fixint
	case v >= 0 && v <= math.MaxUint8:
		return uint8(v)
	case v >= 0 && v <= math.MaxUint16:
		return uint16(v)
	case v >= 0 && v <= math.MaxUint32:
		return uint32(v)
	case v >= 0:
		return uint64(v)
	case v >= math.MinInt8:
		return int8(v)
	case v >= math.MinInt16:
		return int16(v)
	case v >= math.MinInt32:
		return int32(v)
	}
	return v
}

var smallInts = []int64{-32769, -32768, -1000, -200, -129, -128, -127, -3, -2, -1, 0, 1, 2, 3, 127, 128, 129, 200, 255, 256, 257, 1000, 32767, 32768, 65535, 65536,
	math.MaxInt32, math.MaxInt32 + 1, math.MaxUint32, math.MaxUint32 + 1, 1 << 24, 1<<24 + 1}

var floatPool = []any{-1.5, -2.0, -0.5, math.Copysign(0, -1), 0.0, 0.5, 1.0, 1.5, 2.0, 2.5, 127.5, 128.0, 200.0, 200.5, 255.0, 256.0, -128.0, -129.5, -200.0, -1000.25,
	float32(0.5), float32(-1.5), float32(200), float32(-2), float32(1 << 24), float32(0.1), 0.1, float64(float32(0.1)), float32(math.Copysign(0, -1)),
	1e300, -1e300, float32(3e38), float32(-3e38), 5e-324, -5e-324, math.Inf(1), math.Inf(-1), float32(math.Inf(1)), float32(math.Inf(-1)),
	float64(1 << 53), float64(1<<53) + 2, -float64(1 << 53), float64(1 << 62), float64(1 << 63), -float64(1 << 63), float64(1<<63) * 2, math.Nextafter(float64(1<<63), 0),
	math.Nextafter(float64(1<<63)*2, 0), math.Nextafter(-float64(1<<63), 0), 1.7e18, -1.7e18, 4294967295.5, -32768.5}

var bigInts = []any{int64(1<<53 - 1), int64(1 << 53), int64(1<<53 + 1), uint64(1<<53 + 1), int64(-(1 << 53) - 1), int64(1 << 62), uint64(1 << 62),
	int64(math.MaxInt64), uint64(math.MaxInt64), int64(math.MaxInt64 - 1), uint64(1 << 63), uint64(1<<63 + 1), uint64(1<<63 + 1024), uint64(math.MaxUint64), uint64(math.MaxUint64 - 1),
	uint64(math.MaxUint64 - 2047), int64(math.MinInt64), int64(math.MinInt64 + 1), int64(math.MinInt64 + 1024), int64(1700000000000000000), int64(1700000000000000001), uint64(1700000000000000002),
	int64(-1700000000000000001)}

// a number of some kind; `style` chooses how a scenario's writers encode small integers
func mixedNum(h *hrng, style int) any {
	switch p := h.intn(100); {
	case p < 34:
		v := pick(h, smallInts)
		switch style {
		case 0:
			return smallest(v)
		case 1:
			return v // a writer that always sends int64
		}
		return pick(h, widths(v))
	case p < 62:
		return pick(h, floatPool)
	case p < 76:
		return pick(h, bigInts)
	case p < 86:
		f := float64(h.intn(41)-20) / 4
		if h.intn(3) == 0 {
			return float32(f)
		}
		return f
	case p < 93:
		return smallest(int64(h.intn(601) - 300))
	case p < 99:
		return uint8(128 + h.intn(128)) // unsigned beside the negative values of the pool
	}
	return math.NaN()
}

var mixedStrs = []string{"", "a", "A", "ab", "aB", "b", "é", "zz", "10", "9"}

// the mixed-kind properties of a point
func mixedProps(d map[string]any, id int, k int64) {
	h := &hrng{s: uint64(id)*0x9E3779B97F4A7C15 ^ uint64(k)*0xD1B54A32D192ED03}
	style := h.intn(3)
	if h.intn(100) < 88 {
		d["x"] = mixedNum(h, style)
	}
	switch p := h.intn(100); {
	case p < 25: // missing
	case p < 42:
		d["y"] = pick(h, mixedStrs)
	case p < 80:
		d["y"] = mixedNum(h, style)
	case p < 85:
		d["y"] = nil
	case p < 90:
		d["y"] = h.intn(2) == 0
	case p < 94:
		d["y"] = []any{int8(1), "two"}
	case p < 97:
		d["y"] = map[string]any{"q": int8(1)}
	default:
		d["y"] = []byte{1, 2, 3}
	}
	switch p := h.intn(100); {
	case p < 55:
		d["n"] = map[string]any{"z": mixedNum(h, style), "w": int8(1)}
	case p < 70:
		d["n"] = map[string]any{"z": pick(h, mixedStrs)}
	case p < 78:
		d["n"] = map[string]any{"w": int8(2)} // n.z missing below an existing n
	case p < 86:
		d["n"] = mixedNum(h, style) // the path n.z runs into a scalar
	}
}

// ---------------------------------------------------------------- canonical value syntax (the C06 stream's)

func valTok(v any) string {
	switch x := v.(type) {
	case nil:
		return "N"
	case bool:
		if x {
			return "B1"
		}
		return "B0"
	case int8:
		return fmt.Sprintf("I8:%d", x)
	case int16:
		return fmt.Sprintf("I16:%d", x)
	case int32:
		return fmt.Sprintf("I32:%d", x)
	case int64:
		return fmt.Sprintf("I64:%d", x)
	case uint8:
		return fmt.Sprintf("U8:%d", x)
	case uint16:
		return fmt.Sprintf("U16:%d", x)
	case uint32:
		return fmt.Sprintf("U32:%d", x)
	case uint64:
		return fmt.Sprintf("U64:%d", x)
	case float32:
		return fmt.Sprintf("F%08x", math.Float32bits(x))
	case float64:
		return fmt.Sprintf("D%016x", math.Float64bits(x))
	case string:
		return "S" + hex.EncodeToString([]byte(x))
	case []byte:
		return "X" + hex.EncodeToString(x)
	case []any:
		ss := make([]string, len(x))
		for i, e := range x {
			ss[i] = valTok(e)
		}
		return "A[" + strings.Join(ss, ",") + "]"
	case models.PointAsMap:
		return valTok(map[string]any(x))
	case map[string]any:
		keys := make([]string, 0, len(x))
		for k := range x {
			keys = append(keys, k)
		}
		sort.Strings(keys)
		ss := make([]string, len(keys))
		for i, k := range keys {
			ss[i] = k + "=" + valTok(x[k])
		}
		return "M{" + strings.Join(ss, ",") + "}"
	}
	return fmt.Sprintf("?%T", v)
}

// utils.AccessNestedProperty written again: the value at a dotted path
func lookupPath(d map[string]any, path string) (any, bool) {
	var cur any = d
	for _, seg := range strings.Split(path, ".") {
		m, ok := cur.(map[string]any)
		if !ok {
			if pm, ok2 := cur.(models.PointAsMap); ok2 {
				m, ok = map[string]any(pm), true
			}
		}
		if !ok {
			return nil, false
		}
		cur, ok = m[seg]
		if !ok {
			return nil, false
		}
	}
	return cur, true
}

// ---------------------------------------------------------------- the reference order

// exact value of a number: class −1 / 0 / +1 for −Inf / finite / +Inf and the rational; ok=false for
// NaN and for anything that is not a number
func exactNum(v any) (class int, r *big.Rat, ok bool) {
	fl := func(f float64) (int, *big.Rat, bool) {
		switch {
		case f != f:
			return 0, nil, false
		case math.IsInf(f, 1):
			return 1, nil, true
		case math.IsInf(f, -1):
			return -1, nil, true
		}
		return 0, new(big.Rat).SetFloat64(f), true // exact; −0 → 0
	}
	switch x := v.(type) {
	case int8:
		return 0, new(big.Rat).SetInt64(int64(x)), true
	case int16:
		return 0, new(big.Rat).SetInt64(int64(x)), true
	case int32:
		return 0, new(big.Rat).SetInt64(int64(x)), true
	case int64:
		return 0, new(big.Rat).SetInt64(x), true
	case uint8:
		return 0, new(big.Rat).SetUint64(uint64(x)), true
	case uint16:
		return 0, new(big.Rat).SetUint64(uint64(x)), true
	case uint32:
		return 0, new(big.Rat).SetUint64(uint64(x)), true
	case uint64:
		return 0, new(big.Rat).SetUint64(x), true
	case float32:
		return fl(float64(x)) // the widening is exact
	case float64:
		return fl(x)
	}
	return 0, nil, false
}

func isNum(v any) bool {
	switch v.(type) {
	case int8, int16, int32, int64, uint8, uint16, uint32, uint64, float32, float64:
		return true
	}
	return false
}

// documented order of two present values of one sort key: −1 / 0 / +1, judged=false where the
// documentation is silent
func refCmp(a, b any) (c int, judged bool) {
	sa, aStr := a.(string)
	sb, bStr := b.(string)
	switch {
	case aStr && bStr:
		return strings.Compare(sa, sb), true
	case aStr && isNum(b):
		if _, _, ok := exactNum(b); !ok {
			return 0, false
		}
		return 1, true
	case bStr && isNum(a):
		if _, _, ok := exactNum(a); !ok {
			return 0, false
		}
		return -1, true
	}
	ca, ra, oka := exactNum(a)
	cb, rb, okb := exactNum(b)
	if !oka || !okb {
		return 0, false
	}
	switch {
	case ca != cb:
		if ca < cb {
			return -1, true
		}
		return 1, true
	case ca != 0:
		return 0, true
	}
	return ra.Cmp(rb), true
}

// must result a stand before result b under the sort options?  −1: yes, +1: b must stand before a
// (a violation when a comes first), 0: tied or not judged
func refOrder(a, b map[string]any, props []string, desc []bool) (c int, judged bool) {
	for i, p := range props {
		av, aok := lookupPath(a, p)
		bv, bok := lookupPath(b, p)
		switch {
		case aok && !bok:
			return -1, true
		case !aok && bok:
			return 1, true
		case !aok && !bok:
			continue
		}
		c, judged := refCmp(av, bv)
		if !judged {
			return 0, false
		}
		if desc[i] {
			c = -c
		}
		if c != 0 {
			return c, true
		}
	}
	return 0, true
}

// ---------------------------------------------------------------- rank classes (correspondence only)

// two present values get the same class string iff the comparator ties them: numbers of any kind by
// exact value (NaN with NaN), strings by content; nil, bool, maps and slices ([]any and []byte share a
// reflect.Kind) each form one class — "we don't know how to compare this type, so we just say they are equal"
func classOf(v any) string {
	switch x := v.(type) {
	case nil:
		return "nil"
	case bool:
		return "bool"
	case string:
		return "s" + hex.EncodeToString([]byte(x))
	case []byte, []any, []float32:
		return "slice"
	case map[string]any, models.PointAsMap:
		return "map"
	}
	if isNum(v) {
		c, r, ok := exactNum(v)
		switch {
		case !ok:
			return "nan"
		case c > 0:
			return "+inf"
		case c < 0:
			return "-inf"
		}
		return "n" + r.RatString()
	}
	return fmt.Sprintf("?%T", v)
}

func rankKeys(d map[string]any, props []string) string {
	var s []string
	for _, p := range props {
		v, ok := lookupPath(d, p)
		if !ok {
			s = append(s, "-")
		} else {
			s = append(s, classOf(v))
		}
	}
	return strings.Join(s, "~")
}
