// Fault scenarios: update / delete / search and single routed calls while ONE shard server of a real
// multi-server cluster misbehaves in the ways that lie between "down from the start" and "answers
// normally" (see faultnet.go): it hangs past the RPC time-out, its connections die mid-call or while
// idle (stale cached client on the caller's side), it comes back or stays away.
//
// Scripts (played by server `fault=<server>:<script>` during one op; `+cold` = the entry node has no
// cached client for that server when the op starts, otherwise a live cached client exists):
//
//	ok                 nothing happens
//	err                (route only) the handler answers with an error
//	stale-up           every established connection of the server was closed while idle; it accepts new ones
//	stale-down         … and refuses new ones
//	down+cold          refuses connections
//	hang               swallows every request (no answer) for the whole op
//	hang-die-up        swallows the first request(s); rpcTimeout+1 s after the first arrival (i.e. during the
//	                   caller's back-off) its connections die; new connections are served normally
//	hang-die-down      … new connections are refused
//	midcall-die        the connection dies as soon as the request has arrived (no answer)
//
// Op lines (request part first, oracle part after it):
//
//	update|delete|search … fault=J:script   ans=<0|1 per shard>      (ans: measured — see `answered`)
//	route entry=E fault=J:script            cache=<none|live> evs=<event,…>
//
// `route` drives the real internalRoute once (a harmless RPCGetCollection, or RPCCreateShard for an
// unknown collection for `err`) and reports what it returned, how many requests the server's handlers
// completed, how many it swallowed, how many connections it accepted and the state of the caller's
// cached client afterwards; the Lean model of the retry loop (Sema.C17.route) is run on the event list.
package main

import (
	"fmt"
	"sort"
	"strings"
	"sync"
	"time"

	"github.com/google/uuid"
	"github.com/semafind/semadb/cluster"
	"github.com/semafind/semadb/models"
	"verifharness/vh"
)

const rpcTimeoutS = 1 // RpcTimeout of fault clusters, seconds

type scriptDef struct {
	name     string
	cold     bool
	minRetry int
	maxRetry int
}

func baseScript(s string) (string, bool) {
	if strings.HasSuffix(s, "+cold") {
		return strings.TrimSuffix(s, "+cold"), true
	}
	return s, false
}

// the event list the model is run on: one event per iteration of the retry loop
//
//	x    the cached live client's connection has gone away before the attempt
//	u/d  a fresh dial succeeds / fails (only when nothing is cached)
//	O/E  the request is delivered and answered (nil / handler error)
//	T    no answer within rpcTimeout
//	B    the connection dies before the answer
func scriptEvents(script string, retries int) (cache string, evs []string) {
	b, cold := baseScript(script)
	cache = "live"
	first := func(e string) string {
		if cold {
			return "u" + e
		}
		return e
	}
	if cold {
		cache = "none"
	}
	rep := func(e string, n int) []string {
		var l []string
		for i := 0; i < n; i++ {
			l = append(l, e)
		}
		return l
	}
	switch b {
	case "ok":
		evs = []string{first("O")}
	case "err":
		evs = []string{first("E")}
	case "stale-up":
		evs = []string{"x", "uO"}
	case "stale-down":
		evs = append([]string{"x"}, rep("d", retries)...)
	case "down":
		evs = rep("d", retries)
	case "hang":
		evs = append([]string{first("T")}, rep("T", retries-1)...)
	case "hang-die-up":
		evs = []string{first("T"), "x", "uO"}
	case "hang-die-down":
		evs = append([]string{first("T"), "x"}, rep("d", retries-1)...)
	case "midcall-die":
		evs = []string{first("B")}
	}
	return
}

// worst-case duration of one routed call under the script (seconds): time-outs and back-off sleeps
func scriptCost(script string, retries int) int {
	b, _ := baseScript(script)
	backoff := func(from, to int) int { // sleeps before attempts from..to (attempt index i sleeps 2^i)
		s := 0
		for i := from; i <= to; i++ {
			s += 1 << uint(i)
		}
		return s
	}
	switch b {
	case "stale-down", "down":
		return backoff(1, retries-1)
	case "hang":
		return retries*rpcTimeoutS + backoff(1, retries-1)
	case "hang-die-up":
		// time-out, back-off, the dead client is evicted without counting the attempt — and the loop
		// sleeps the same back-off once more before it dials
		return rpcTimeoutS + 2 + 2
	case "hang-die-down":
		return rpcTimeoutS + 2 + backoff(1, retries-1)
	}
	return 0
}

// ------------------------------------------------------------------------------------------ playing a script

// jitter monitor: the largest oversleep of a 20 ms ticker while an op ran (the timed scripts rely on
// one-second margins; a run in which the process was starved is repeated, never judged)
type jitter struct {
	stop chan struct{}
	done chan time.Duration
}

func startJitter() *jitter {
	j := &jitter{stop: make(chan struct{}), done: make(chan time.Duration, 1)}
	go func() {
		var worst time.Duration
		for {
			t0 := time.Now()
			select {
			case <-j.stop:
				j.done <- worst
				return
			case <-time.After(20 * time.Millisecond):
			}
			if d := time.Since(t0) - 20*time.Millisecond; d > worst {
				worst = d
			}
		}
	}()
	return j
}
func (j *jitter) end() time.Duration { close(j.stop); return <-j.done }

// make the network healthy again and forget every cached client
func (c *clu) heal() {
	for _, fn := range c.fnets {
		fn.set(false, false)
	}
	for _, fn := range c.fnets {
		fn.killAll()
	}
	for _, n := range c.nodes {
		n.VerifDropRPCClients()
	}
	for i, fn := range c.fnets {
		fn.reset()
		c.recs[i].reset()
	}
}

// a cached live client entry → victim (a harmless call), or none
func (c *clu) prepareCache(entry, victim int, cold bool) bool {
	c.nodes[entry].VerifDropRPCClients()
	c.fnets[victim].killAll()
	if cold {
		return true
	}
	req := cluster.RPCGetCollectionRequest{RPCRequestArgs: cluster.RPCRequestArgs{Source: c.names[entry], Dest: c.names[victim]}, UserId: "nobody", CollectionId: "nothing"}
	var resp cluster.RPCGetCollectionResponse
	if err := c.nodes[entry].RPCGetCollection(&req, &resp); err != nil {
		return false
	}
	cached, dead := c.nodes[entry].VerifRPCClientState(c.names[victim])
	return cached && !dead
}

// arm the script on the victim's transport; returns false if the precondition could not be established
func (c *clu) arm(entry, victim int, script string) bool {
	b, cold := baseScript(script)
	if !c.prepareCache(entry, victim, cold) {
		return false
	}
	fn := c.fnets[victim]
	fn.reset()
	c.recs[victim].reset()
	waitDead := func() bool {
		for t := 0; t < 1000; t++ {
			cached, dead := c.nodes[entry].VerifRPCClientState(c.names[victim])
			if !cached || dead {
				return cached
			}
			time.Sleep(5 * time.Millisecond)
		}
		return false
	}
	switch b {
	case "ok", "err":
	case "stale-up":
		fn.killAll()
		return waitDead()
	case "stale-down":
		fn.set(false, true)
		fn.killAll()
		return waitDead()
	case "down":
		fn.set(false, true)
	case "hang":
		fn.set(true, false)
	case "hang-die-up", "hang-die-down":
		fn.set(true, false)
		down := b == "hang-die-down"
		fn.mu.Lock()
		fn.onArrive = func() {
			time.AfterFunc(time.Duration(rpcTimeoutS+1)*time.Second, func() { fn.dieAndBecome(down) })
		}
		fn.mu.Unlock()
	case "midcall-die":
		fn.set(true, false)
		fn.mu.Lock()
		fn.onArrive = func() {
			// stall stays on: nothing is ever answered on a connection that saw the request
			go fn.killAll()
		}
		fn.mu.Unlock()
	default:
		return false
	}
	return true
}

// clusters on which a call never returned: not closed (the call may still run), removed from disk at exit
var abandoned struct {
	mu   sync.Mutex
	dirs []string
}

func abandon(c *clu) {
	abandoned.mu.Lock()
	abandoned.dirs = append(abandoned.dirs, c.dir)
	abandoned.mu.Unlock()
}

// run f with a watchdog; false = it did not return in time (the goroutine is abandoned)
func withWatchdog(d time.Duration, f func()) bool {
	done := make(chan struct{})
	go func() {
		defer close(done)
		defer func() { recover() }()
		f()
	}()
	select {
	case <-done:
		return true
	case <-time.After(d):
		return false
	}
}

func timed(script string) bool {
	b, _ := baseScript(script)
	return strings.HasPrefix(b, "hang")
}

// ------------------------------------------------------------------------------------------ ops under a fault

func (r *runner) execFault(o op) {
	c := r.c
	if c != nil && o.server < 0 && o.entry >= 0 && o.entry < len(c.nodes) {
		// victim chosen at run time: the server (other than the entry node) that owns most shards
		c.heal()
		c.refresh(o.entry)
		cnt := make([]int, len(c.nodes))
		for _, s := range c.col.ShardIds {
			cnt[c.owner(s)]++
		}
		best := -1
		for j := range c.nodes {
			if j != o.entry && (best < 0 || cnt[j] > cnt[best]) {
				best = j
			}
		}
		o.server = best
	}
	if c == nil || len(c.fnets) == 0 || o.server < 0 || o.server >= len(c.nodes) || o.entry < 0 || o.entry >= len(c.nodes) || o.server == o.entry {
		r.emit(o.kind, o.line(), "bad-op", false)
		return
	}
	if o.kind == "route" {
		r.execRoute(o)
		return
	}
	multi := len(c.col.ShardIds) > 1
	c.heal()
	c.refresh(o.entry)
	before := r.dumps()
	method := map[string]string{"update": "RPCUpdatePoints", "delete": "RPCDeletePoints", "search": "RPCSearchPoints"}[o.kind]
	// search: what every shard answers to this query (its full ranking), asked while all is well
	var sp searchSpec
	var perShard [][]hit
	if o.kind == "search" {
		sp = mkSearch(o.skind, o.sarg, o.limit, o.offset)
		for _, s := range c.col.ShardIds {
			pts, err := c.shardSearch(s, sp.sr)
			if err != nil {
				r.emit("skip", "skip setup-failed "+o.line(), "ok", false)
				return
			}
			var hs []hit
			for _, p := range pts {
				hs = append(hs, toHit(p, sp))
			}
			perShard = append(perShard, hs)
		}
	}
	if !c.arm(o.entry, o.server, o.script) {
		c.heal()
		r.emit("skip", "skip setup-failed "+o.line(), "ok", false)
		return
	}
	j := startJitter()
	var fp []cluster.FailedPoint
	var res []models.SearchResult
	var err error
	var req []int
	returned := withWatchdog(90*time.Second, func() {
		switch o.kind {
		case "update":
			fp, err = c.nodes[o.entry].UpdatePoints(c.col, encPoints(o.pts, false))
		case "delete":
			var ids []uuid.UUID
			for _, i := range o.ids {
				ids = append(ids, uuidOf(i))
			}
			fp, err = c.nodes[o.entry].DeletePoints(c.col, ids)
		case "search":
			res, err = c.nodes[o.entry].SearchPoints(c.col, sp.sr)
		}
	})
	// RpcTimeout is one second for the healthy servers too: if the process was starved while the op ran
	// (a 20 ms ticker overslept by more than 300 ms) a healthy server's answer may have come too late
	// for the caller although its handler completed — such a run is not judged (the model still
	// follows the state through the measured `ans` bits)
	starved := j.end() > 300*time.Millisecond
	if starved {
		time.Sleep(500 * time.Millisecond) // let a handler that is still running finish before `ans` is read
	}
	if o.kind == "update" {
		for _, p := range o.pts {
			req = append(req, int(p[0]))
		}
	} else {
		req = o.ids
	}
	// which shards answered: a shard of the entry node is called in-process; for every other shard the
	// recorder of its server saw the handler complete (requests swallowed by a stall never reach it)
	ans := make([]bool, len(c.col.ShardIds))
	var bits []string
	allAns := true
	for i, s := range c.col.ShardIds {
		ow := c.owner(s)
		if ow == o.entry {
			ans[i] = true
		} else {
			_, ok := c.recs[ow].completed(method, s)
			ans[i] = ok > 0
		}
		allAns = allAns && ans[i]
		bits = append(bits, vh.B01(ans[i]))
	}
	c.heal()
	line := o.line() + " ans=" + strings.Join(bits, ",")
	if len(bits) == 0 {
		line = o.line() + " ans=-"
	}
	if starved && returned {
		line += " inconclusive=1"
		if o.kind == "search" {
			line += " mode=- opts=- answers=-"
		}
		r.emit("inconclusive", line, "inconclusive", false)
		return
	}
	if !returned {
		r.emit(o.kind, line, "no-return", false)
		r.fail(fmt.Sprintf("%s-no-return:script=%s", o.kind, o.script), fmt.Sprintf("%s through node %d did not return within 90 s while server %d played %q", o.kind, o.entry, o.server, o.script))
		abandon(r.c)
		r.c = nil // the abandoned call may still be running: nothing more on this cluster
		return
	}
	if o.kind == "search" {
		r.faultSearch(o, sp, perShard, ans, allAns, res, err, line, multi)
		return
	}
	out := showFailed(fp)
	if err != nil {
		out = "err"
	}
	r.emit(o.kind, line, out, multi)
	// ---- oracles on the real response (the property: failed = exactly the requested ids no shard
	// processed; "not found" only if every shard answered)
	held := func(id int) bool {
		for i, d := range before {
			if _, ok := d[id]; ok && ans[i] {
				return true
			}
		}
		return false
	}
	msg := "nf"
	if !allAns {
		msg = "un"
	}
	var want []string
	for _, id := range req {
		if !held(id) {
			want = append(want, fmt.Sprintf("%d:%s", id, msg))
		}
	}
	w := "failed -"
	if len(want) > 0 {
		w = "failed " + strings.Join(want, ",")
	}
	if out != w {
		r.fail(fmt.Sprintf("%s-failed-list:fault=%s:answered=%v", o.kind, o.script, allAns),
			fmt.Sprintf("%s answered %q while server %d played %q and the shards that answered were %v; the requested ids no answering shard holds are %q (\"not found\" only if every shard answered)", o.kind, out, o.server, o.script, bits, w))
	}
	after := r.dumps()
	last := map[int]int64{}
	for _, p := range o.pts {
		last[int(p[0])] = p[1]
	}
	for si := range after {
		if si >= len(before) {
			continue
		}
		for id, v := range before[si] {
			touched := false
			for _, q := range req {
				touched = touched || q == id
			}
			v2, still := after[si][id]
			switch {
			case !touched || !ans[si]:
				// not requested, or its shard never got the request: must be as it was
				if !still || v2 != v {
					r.fail(fmt.Sprintf("%s-collateral:fault=%s", o.kind, o.script), fmt.Sprintf("%s of %v changed point %d of shard %d (answered=%v)", o.kind, req, id, si, ans[si]))
				}
			case o.kind == "delete":
				if still {
					r.fail(fmt.Sprintf("delete-once:fault=%s", o.script), fmt.Sprintf("point %d is still in shard %d, which answered the delete", id, si))
				}
			default:
				if !still || v2 != last[id] {
					r.fail(fmt.Sprintf("update-payload:fault=%s", o.script), fmt.Sprintf("point %d of shard %d (which answered) has payload %d after an update to %d", id, si, v2, last[id]))
				}
			}
		}
	}
}

func (r *runner) faultSearch(o op, sp searchSpec, perShard [][]hit, ans []bool, allAns bool, res []models.SearchResult, err error, line string, multi bool) {
	var answers []string
	var full []hit
	fullBy := map[int]hit{}
	for i, hs := range perShard {
		if !ans[i] {
			answers = append(answers, "x")
			continue
		}
		var e []string
		for _, h := range hs {
			e = append(e, h.enc())
			full = append(full, h)
			fullBy[h.id] = h
		}
		if len(e) == 0 {
			answers = append(answers, "-")
		} else {
			answers = append(answers, strings.Join(e, ";"))
		}
	}
	var rh []hit
	for _, p := range res {
		rh = append(rh, toHit(p, sp))
	}
	impl := "err"
	if err == nil {
		impl = canon(rh, full, sp)
	}
	opts := sp.optsTok()
	line += fmt.Sprintf(" mode=%s opts=%s answers=%s", sp.mode, opts, strings.Join(answers, "|"))
	r.emit("search", line, impl, multi && len(full) > 0)
	sig := fmt.Sprintf("search:fault=%s:", o.script)
	if err == nil && !allAns {
		r.fail(sig+"partial", fmt.Sprintf("search returned %d results without an error although the shards that answered were only %v (server %d played %q)", len(rh), ans, o.server, o.script))
	}
	if err == nil {
		if len(rh) > o.limit {
			r.fail(sig+"limit", fmt.Sprintf("search returned %d results for limit %d", len(rh), o.limit))
		}
		seen := map[int]bool{}
		for _, h := range rh {
			if seen[h.id] {
				r.fail(sig+"duplicate", fmt.Sprintf("point %d is returned twice", h.id))
			}
			seen[h.id] = true
			if f, ok := fullBy[h.id]; !ok {
				r.fail(sig+"foreign", fmt.Sprintf("result %d is in no answering shard's answer", h.id))
			} else if f.enc() != h.enc() {
				r.fail(sig+"altered", fmt.Sprintf("result %s differs from the shard's answer %s", h.enc(), f.enc()))
			}
		}
		if i, j, bad := outOfOrder(rh, sp); bad {
			r.fail(sig+"order", fmt.Sprintf("result %s (position %d) is returned before %s (position %d), which must precede it", rh[i].enc(), i, rh[j].enc(), j))
		}
	}
}

// one routed call (the real internalRoute) under a script
func (r *runner) execRoute(o op) {
	c := r.c
	b, _ := baseScript(o.script)
	cache, evs := scriptEvents(o.script, c.retries)
	line := fmt.Sprintf("%s cache=%s evs=%s", o.line(), cache, strings.Join(evs, ","))
	if len(evs) == 0 {
		r.emit("route", o.line(), "bad-op", false)
		return
	}
	var impl, resClass string
	var handledOk int
	for attempt := 0; ; attempt++ {
		c.heal()
		if !c.arm(o.entry, o.server, o.script) {
			c.heal()
			r.emit("skip", "skip setup-failed "+line, "ok", false)
			return
		}
		fn := c.fnets[o.server]
		j := startJitter()
		t0 := time.Now()
		var err error
		returned := withWatchdog(90*time.Second, func() {
			args := cluster.RPCRequestArgs{Source: c.names[o.entry], Dest: c.names[o.server]}
			if b == "err" {
				var resp cluster.RPCCreateShardResponse
				err = c.nodes[o.entry].RPCCreateShard(&cluster.RPCCreateShardRequest{RPCRequestArgs: args, UserId: "nobody", CollectionId: "nothing"}, &resp)
			} else {
				var resp cluster.RPCGetCollectionResponse
				err = c.nodes[o.entry].RPCGetCollection(&cluster.RPCGetCollectionRequest{RPCRequestArgs: args, UserId: "nobody", CollectionId: "nothing"}, &resp)
			}
		})
		worst := j.end()
		if !returned {
			c.heal()
			r.emit("route", line, "no-return", false)
			r.fail("route-no-return:script="+o.script, fmt.Sprintf("a routed call from node %d did not return within 90 s while server %d played %q", o.entry, o.server, o.script))
			abandon(r.c)
			r.c = nil
			return
		}
		resClass = "nil"
		if err != nil {
			switch e := err.Error(); {
			case strings.Contains(e, "failed to get client"):
				resClass = "dial"
			case strings.Contains(e, "timed out"):
				resClass = "timeout"
			case strings.Contains(e, "failed to call"):
				resClass = "call"
			default:
				resClass = "?" + e
			}
		}
		handled, ok := c.recs[o.server].completed("", "")
		handledOk = ok
		accepted, lost := fn.counts()
		cached, dead := c.nodes[o.entry].VerifRPCClientState(c.names[o.server])
		if b == "err" {
			// after an error response the msgpack codec fails to skip the body and the client's reader
			// stops; that happens a moment after the call completed
			for t := 0; t < 400 && cached && !dead; t++ {
				time.Sleep(5 * time.Millisecond)
				cached, dead = c.nodes[o.entry].VerifRPCClientState(c.names[o.server])
			}
		}
		cs := "none"
		if cached && dead {
			cs = "dead"
		} else if cached {
			cs = "live"
		}
		impl = fmt.Sprintf("res=%s handled=%d lost=%d dials=%d cache=%s", resClass, handled, lost, accepted, cs)
		// the oracle first, whatever the timing was: success only if a request was delivered and answered
		if resClass == "nil" && handledOk == 0 {
			break
		}
		// timed scripts: a starved process (ticker oversleep, or the op took much longer than its
		// script) may have missed the one-second margins — play it again, at most three times
		cost := time.Duration(scriptCost(o.script, c.retries)) * time.Second
		if timed(o.script) && attempt < 3 && (worst > 300*time.Millisecond || time.Since(t0) > cost+700*time.Millisecond) {
			continue
		}
		break
	}
	c.heal()
	r.emit("route", line, impl, true)
	if resClass == "nil" && handledOk == 0 {
		r.fail("route-nil-unanswered:script="+o.script, fmt.Sprintf("internalRoute returned nil (success) to node %d although no request was delivered to and answered by server %d, which played %q: %s", o.entry, o.server, o.script, impl))
	}
}

// ------------------------------------------------------------------------------------------ generation

var fanScripts = []scriptDef{
	{"stale-up", false, 1, 3}, {"stale-down", false, 1, 2}, {"down", true, 1, 2},
	{"hang", false, 1, 2}, {"hang", true, 1, 1},
	{"hang-die-up", false, 2, 3}, {"hang-die-up", true, 2, 3}, {"hang-die-down", false, 2, 2},
	{"midcall-die", false, 1, 3}, {"midcall-die", true, 1, 3},
}
var routeScripts = append([]scriptDef{{"ok", false, 1, 3}, {"ok", true, 1, 3}, {"err", false, 1, 3}, {"err", true, 1, 3}, {"stale-down", false, 3, 3}, {"hang-die-down", false, 3, 3}}, fanScripts...)

func pickScript(rng *vh.Rng, pool []scriptDef, retries int, cheap bool) string {
	for {
		s := vh.Pick(rng, pool)
		if retries < s.minRetry || retries > s.maxRetry {
			continue
		}
		name := s.name
		if s.cold {
			name += "+cold"
		}
		if cheap && scriptCost(name, retries) > 0 {
			continue
		}
		return name
	}
}

// a fault scenario: build-up while all is well, then ops under a fault (one victim server per op)
func genFaultScenario(rng *vh.Rng, idx int) []op {
	servers := 2 + rng.Intn(2)
	retries := []int{1, 2, 2, 3}[idx%4]
	maxShard := vh.Pick(rng, []int{2, 3, 4})
	maxLimit := vh.Pick(rng, []int{0, 5, 75})
	nPoints := maxShard*(2+rng.Intn(4)) - rng.Intn(maxShard)
	ops := []op{{kind: "newcluster", servers: servers, maxShard: maxShard, maxLi: maxLimit, useed: rng.U64() >> 1, retries: retries}}
	next := 1
	for remaining := nPoints; remaining > 0; {
		n := 1 + rng.Intn(remaining)
		o := op{kind: "insert", entry: rng.Intn(servers)}
		for i := 0; i < n; i++ {
			o.pts = append(o.pts, [2]int64{int64(next), int64(rng.Intn(2001)) - 1000})
			next++
		}
		ops = append(ops, o)
		remaining -= n
	}
	ops = append(ops, op{kind: "state"})
	pickId := func() int {
		if rng.Chance(25) {
			return 1 + rng.Intn(next+5)
		}
		return 1 + rng.Intn(next)
	}
	// seconds of scripted waiting this scenario may spend (scenarios run side by side)
	budget := 11
	steps := 5 + rng.Intn(4)
	for i := 0; i < steps; i++ {
		entry := rng.Intn(servers)
		victim := (entry + 1 + rng.Intn(servers-1)) % servers
		w := rng.Intn(100)
		var o op
		pool := fanScripts
		switch {
		case w < 30:
			o = op{kind: "route"}
			pool = routeScripts
		case w < 55:
			o = op{kind: "update"}
			for j := 0; j < 1+rng.Intn(4); j++ {
				o.pts = append(o.pts, [2]int64{int64(pickId()), int64(rng.Intn(2001)) - 1000})
			}
			if rng.Chance(20) {
				o.pts = repeatSome(rng, o.pts, func(p [2]int64) [2]int64 { return [2]int64{p[0], int64(rng.Intn(2001)) - 1000} })
			}
		case w < 80:
			o = op{kind: "delete"}
			for j := 0; j < 1+rng.Intn(3); j++ {
				o.ids = append(o.ids, pickId())
			}
			if rng.Chance(20) {
				o.ids = repeatSome(rng, o.ids, func(i int) int { return i })
			}
		default:
			o = op{kind: "search", skind: vh.Pick(rng, []int{0, 1, 2, 4, 5, 6, 8, 9, 14}), sarg: rng.Intn(64), limit: vh.Pick(rng, []int{2, 5, 10, 100})}
		}
		o.entry, o.server = entry, victim
		if o.kind != "route" && rng.Chance(70) {
			o.server = -1 // resolved when the op runs
		}
		o.script = pickScript(rng, pool, retries, budget <= 0)
		budget -= scriptCost(o.script, retries)
		ops = append(ops, o)
		if rng.Chance(30) {
			ops = append(ops, op{kind: "state"})
		}
	}
	ops = append(ops, op{kind: "state"})
	return ops
}

// the minimised witnesses of this class, run first (corpus): a delete while the only other server
// hangs, then dies during the back-off; an update that meets a stale cached client (retries = 1)
func faultCorpus() [][]op {
	mk := func(retries int, script string, kind string) []op {
		ops := []op{{kind: "newcluster", servers: 2, maxShard: 2, maxLi: 75, useed: 7, retries: retries},
			{kind: "insert", entry: 0, pts: [][2]int64{{1, 10}, {2, 20}, {3, 30}, {4, 40}, {5, 50}, {6, 60}}},
			{kind: "state"}}
		for e := 0; e < 2; e++ {
			o := op{kind: kind, entry: e, server: 1 - e, script: script}
			if kind == "delete" {
				o.ids = []int{1 + e, 4 + e, 99}
			} else {
				o.pts = [][2]int64{{int64(1 + e), 7}, {int64(4 + e), 8}, {99, 9}}
			}
			ops = append(ops, o, op{kind: "route", entry: e, server: 1 - e, script: script})
		}
		return append(ops, op{kind: "state"})
	}
	return [][]op{mk(2, "hang-die-down", "delete"), mk(1, "stale-up", "update"), mk(2, "hang-die-up", "update")}
}

// run the fault scenarios: build-up one after the other (uuid.SetRand is process-wide and the shard ids
// must be a function of the op lines), the ops under faults side by side (they mostly wait)
func runFaultScenarios(out *vh.Out, scs [][]op) map[string]int {
	type job struct {
		r    *runner
		rest []op
	}
	var jobs []*job
	for _, ops := range scs {
		r := &runner{buffered: true}
		i := 0
		for ; i < len(ops); i++ {
			if ops[i].script != "" || ops[i].kind == "route" {
				break
			}
			r.exec(ops[i])
		}
		jobs = append(jobs, &job{r, ops[i:]})
	}
	var wg sync.WaitGroup
	sem := make(chan struct{}, 24)
	for _, j := range jobs {
		wg.Add(1)
		go func(j *job) {
			defer wg.Done()
			sem <- struct{}{}
			defer func() { <-sem }()
			for _, p := range j.rest {
				if j.r.c == nil {
					break
				}
				j.r.exec(p)
			}
		}(j)
	}
	wg.Wait()
	cfgs := map[string]int{}
	for _, j := range jobs {
		for _, e := range j.r.buf {
			out.Emit(e.kind, e.line, e.impl, e.nontrivial)
			if strings.HasPrefix(e.line, "skip setup-failed") {
				out.Stats["fault-setup-failed"]++
			}
			if f := strings.Index(e.line, " fault="); f >= 0 {
				sc := strings.Fields(e.line[f+1:])[0]
				out.Stats["fault:"+sc[strings.Index(sc, ":")+1:]]++
			}
		}
		for _, f := range j.r.fbuf {
			out.Fail(f.Signature, f.What, f.Replay)
		}
		for _, n := range j.r.nbuf {
			out.Note(n.Owners[0], n.Stream, n.Op, n.Why, n.Replay)
		}
		if j.r.c != nil {
			cfgs[fmt.Sprintf("fault servers=%d shards=%d retries=%d", len(j.r.c.nodes), len(j.r.c.col.ShardIds), j.r.c.retries)]++
			j.r.c.close()
		}
	}
	return cfgs
}

func sortedKeys(m map[string]int) []string {
	var k []string
	for s := range m {
		k = append(k, s)
	}
	sort.Strings(k)
	return k
}
