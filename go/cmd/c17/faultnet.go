// Controllable transport for the RPC service of one real ClusterNode, and a recorder in front of its
// RPC handlers.
//
// The node itself is the real thing (cluster.NewNode); instead of ClusterNode.Serve the harness runs
// the same mrpc HTTP/CONNECT server (mrpc.NewHTTPServer + rpc.Server) on a listener it owns, so that
// it can make the server behave like a peer that is neither "down from the start" nor "answering
// normally":
//
//	stall   requests that arrive on an established (handshaken) connection are swallowed: the handler
//	        never runs, no answer is ever written (a peer that accepted the request and hangs);
//	refuse  new connections are closed right after accept (the dial of a client fails);
//	killAll every established connection is closed on the server side (the peer died / was restarted:
//	        the cached client on the other side shuts down as soon as it notices).
//
// Swallowed requests are never delivered later (a stall only ends with killAll), so "the handler of
// shard s completed" is equivalent to "the request for shard s was delivered and answered": that bit,
// read from the recorder, is what the oracles call `answered`.
package main

import (
	"net"
	"net/rpc"
	"sync"
	"sync/atomic"
	"time"

	"github.com/semafind/semadb/cluster"
	"github.com/semafind/semadb/cluster/mrpc"
)

type fnet struct {
	ln       net.Listener
	mu       sync.Mutex
	conns    map[*fconn]struct{}
	stall    bool
	refuse   bool
	accepted int       // connections accepted and handed to the RPC server since the last reset
	lost     int       // request arrivals swallowed while stalled (bursts at least 200 ms apart)
	lastLost time.Time // time of the latest swallowed arrival
	firstArr time.Time // time of the first swallowed arrival since the last reset
	onArrive func()    // called once, at the first swallowed arrival after it was set
}

type fln struct {
	net.Listener
	fn *fnet
}

func (l *fln) Accept() (net.Conn, error) {
	for {
		c, err := l.Listener.Accept()
		if err != nil {
			return nil, err
		}
		l.fn.mu.Lock()
		if l.fn.refuse {
			l.fn.mu.Unlock()
			c.Close()
			continue
		}
		fc := &fconn{Conn: c, fn: l.fn}
		l.fn.conns[fc] = struct{}{}
		l.fn.accepted++
		l.fn.mu.Unlock()
		return fc, nil
	}
}

type fconn struct {
	net.Conn
	fn         *fnet
	handshaken atomic.Bool
	doomed     bool // about to be closed by the harness: whatever still arrives is swallowed (guarded by fn.mu)
}

// the first thing the server writes on a connection is the answer to CONNECT; what is read after
// that are RPC requests
func (c *fconn) Write(p []byte) (int, error) {
	n, err := c.Conn.Write(p)
	c.handshaken.Store(true)
	return n, err
}

func (c *fconn) Read(p []byte) (int, error) {
	for {
		n, err := c.Conn.Read(p)
		if err != nil || n == 0 || !c.handshaken.Load() {
			return n, err
		}
		c.fn.mu.Lock()
		if !c.fn.stall && !c.doomed {
			c.fn.mu.Unlock()
			return n, nil
		}
		now := time.Now()
		if c.fn.lost == 0 || now.Sub(c.fn.lastLost) > 200*time.Millisecond {
			c.fn.lost++
		}
		if c.fn.firstArr.IsZero() {
			c.fn.firstArr = now
		}
		c.fn.lastLost = now
		f := c.fn.onArrive
		c.fn.onArrive = nil
		c.fn.mu.Unlock()
		if f != nil {
			f()
		}
		// swallowed; keep reading (and discarding) until the connection is closed
	}
}

func (c *fconn) Close() error {
	c.fn.mu.Lock()
	delete(c.fn.conns, c)
	c.fn.mu.Unlock()
	return c.Conn.Close()
}

func (f *fnet) set(stall, refuse bool) {
	f.mu.Lock()
	f.stall, f.refuse = stall, refuse
	f.mu.Unlock()
}

func (f *fnet) killAll() {
	f.mu.Lock()
	var cs []*fconn
	for c := range f.conns {
		c.doomed = true
		cs = append(cs, c)
	}
	f.mu.Unlock()
	for _, c := range cs {
		c.Close()
	}
}

// every established connection dies and, atomically with that, the server switches to serving
// (refuse = false) or refusing new connections; no request that arrived before is ever delivered
func (f *fnet) dieAndBecome(refuse bool) {
	f.mu.Lock()
	var cs []*fconn
	for c := range f.conns {
		c.doomed = true
		cs = append(cs, c)
	}
	f.stall, f.refuse = false, refuse
	f.mu.Unlock()
	for _, c := range cs {
		c.Close()
	}
}

func (f *fnet) reset() {
	f.mu.Lock()
	f.accepted, f.lost = 0, 0
	f.firstArr, f.lastLost = time.Time{}, time.Time{}
	f.onArrive = nil
	f.mu.Unlock()
}

func (f *fnet) counts() (accepted, lost int) {
	f.mu.Lock()
	defer f.mu.Unlock()
	return f.accepted, f.lost
}

// ------------------------------------------------------------------------------------------ recorder

type recCall struct {
	method, shard string
	done          bool
	err           bool
}

// rec is registered as "ClusterNode" with the RPC server of a fault cluster's node: every remote call
// goes through it to the real handler of the real node
type rec struct {
	n     *cluster.ClusterNode
	mu    sync.Mutex
	calls []*recCall
}

func (r *rec) begin(method, shard string) *recCall {
	c := &recCall{method: method, shard: shard}
	r.mu.Lock()
	r.calls = append(r.calls, c)
	r.mu.Unlock()
	return c
}
func (r *rec) end(c *recCall, err error) error {
	r.mu.Lock()
	c.done, c.err = true, err != nil
	r.mu.Unlock()
	return err
}
func (r *rec) reset() {
	r.mu.Lock()
	r.calls = nil
	r.mu.Unlock()
}

// number of completed calls of the method for the shard ("" = any): all, and those answered without error
func (r *rec) completed(method, shard string) (all, ok int) {
	r.mu.Lock()
	defer r.mu.Unlock()
	for _, c := range r.calls {
		if c.done && (method == "" || c.method == method) && (shard == "" || c.shard == shard) {
			all++
			if !c.err {
				ok++
			}
		}
	}
	return
}

func (r *rec) RPCSetNodeKeyValue(a *cluster.RPCSetNodeKeyValueRequest, p *cluster.RPCSetNodeKeyValueResponse) error {
	c := r.begin("RPCSetNodeKeyValue", "")
	return r.end(c, r.n.RPCSetNodeKeyValue(a, p))
}
func (r *rec) RPCSendShard(a *cluster.RPCSendShardRequest, p *cluster.RPCSendShardResponse) error {
	c := r.begin("RPCSendShard", a.ShardId)
	return r.end(c, r.n.RPCSendShard(a, p))
}
func (r *rec) RPCCreateCollection(a *cluster.RPCCreateCollectionRequest, p *cluster.RPCCreateCollectionResponse) error {
	c := r.begin("RPCCreateCollection", "")
	return r.end(c, r.n.RPCCreateCollection(a, p))
}
func (r *rec) RPCDeleteCollection(a *cluster.RPCDeleteCollectionRequest, p *cluster.RPCDeleteCollectionResponse) error {
	c := r.begin("RPCDeleteCollection", "")
	return r.end(c, r.n.RPCDeleteCollection(a, p))
}
func (r *rec) RPCListCollections(a *cluster.RPCListCollectionsRequest, p *cluster.RPCListCollectionsResponse) error {
	c := r.begin("RPCListCollections", "")
	return r.end(c, r.n.RPCListCollections(a, p))
}
func (r *rec) RPCGetCollection(a *cluster.RPCGetCollectionRequest, p *cluster.RPCGetCollectionResponse) error {
	c := r.begin("RPCGetCollection", "")
	return r.end(c, r.n.RPCGetCollection(a, p))
}
func (r *rec) RPCCreateShard(a *cluster.RPCCreateShardRequest, p *cluster.RPCCreateShardResponse) error {
	c := r.begin("RPCCreateShard", "")
	return r.end(c, r.n.RPCCreateShard(a, p))
}
func (r *rec) RPCGetShardInfo(a *cluster.RPCGetShardInfoRequest, p *cluster.RPCGetShardInfoResponse) error {
	c := r.begin("RPCGetShardInfo", a.ShardId)
	return r.end(c, r.n.RPCGetShardInfo(a, p))
}
func (r *rec) RPCDeleteCollectionShards(a *cluster.RPCDeleteCollectionShardsRequest, p *cluster.RPCDeleteCollectionShardsResponse) error {
	c := r.begin("RPCDeleteCollectionShards", "")
	return r.end(c, r.n.RPCDeleteCollectionShards(a, p))
}
func (r *rec) RPCInsertPoints(a *cluster.RPCInsertPointsRequest, p *cluster.RPCInsertPointsResponse) error {
	c := r.begin("RPCInsertPoints", a.ShardId)
	return r.end(c, r.n.RPCInsertPoints(a, p))
}
func (r *rec) RPCUpdatePoints(a *cluster.RPCUpdatePointsRequest, p *cluster.RPCUpdatePointsResponse) error {
	c := r.begin("RPCUpdatePoints", a.ShardId)
	return r.end(c, r.n.RPCUpdatePoints(a, p))
}
func (r *rec) RPCDeletePoints(a *cluster.RPCDeletePointsRequest, p *cluster.RPCDeletePointsResponse) error {
	c := r.begin("RPCDeletePoints", a.ShardId)
	return r.end(c, r.n.RPCDeletePoints(a, p))
}
func (r *rec) RPCSearchPoints(a *cluster.RPCSearchPointsRequest, p *cluster.RPCSearchPointsResponse) error {
	c := r.begin("RPCSearchPoints", a.ShardId)
	return r.end(c, r.n.RPCSearchPoints(a, p))
}

// serve the node's RPC handlers (through the recorder) with the real mrpc server on a listener the
// harness controls
func serveNode(n *cluster.ClusterNode, ln net.Listener) (*fnet, *rec, error) {
	fn := &fnet{ln: ln, conns: map[*fconn]struct{}{}}
	rc := &rec{n: n}
	srv := rpc.NewServer()
	if err := srv.RegisterName("ClusterNode", rc); err != nil {
		ln.Close()
		return nil, nil, err
	}
	hs := mrpc.NewHTTPServer(ln.Addr().String(), srv)
	go hs.Serve(&fln{Listener: ln, fn: fn})
	return fn, rc, nil
}
