// C17 correspondence harness: fan-out and merge over 1..3 real in-process servers × 1..6 shards.
//
// Every scenario builds a fresh cluster (NewNode + Serve on loopback ports, small
// MaxShardPointCount so that inserts split over several shards, various MaxSearchLimit), creates
// one collection and then runs inserts (fresh ids), updates, deletes and searches through every
// live node as entry node; in many scenarios one server is stopped half way (its shards become
// unavailable for the remaining updates / deletes / searches).
//
//  1. correspondence: the same op lines are evaluated by the Lean model (semadriver C17);
//     where the code's behaviour is an oracle for the model (which shard distributePoints chose,
//     what each shard answers to a query) the harness reads it from the shards directly
//     (RPCSearchPoints per shard) and puts it on the op line;
//  2. the property oracles, evaluated on the real responses (failed lists and messages, exactly-once
//     in the shard dumps, search: length, duplicates, membership, global order);
//  3. the real curateFailedPoints is also called directly (export hook) on random id lists.
//
// Op lines:
//
//	curate complete=0|1 all=<ids> succ=<ids>
//	newcluster servers=N maxshard=N maxlimit=N
//	insert entry=E ids=<ids>            place=<shard>:<id=k,…>|…          (place: oracle)
//	stop server=J                        — emitted as:  down shards=<indices> server=J
//	update entry=E pts=<id=k,…>
//	delete entry=E ids=<ids>
//	state
//	search entry=E kind=K arg=A limit=L offset=O  mode=score|keys opts=<property:a|d,…> answers=<…>   (answers: oracle)
//
// answers: per shard `x` (unavailable), `-` (no result) or `hit;hit;…`, shards separated by `|`; one hit is
// `id~score~<DecodedData>` with the decoded data in the value syntax of the C06 stream
// (N | B0 | B1 | I<w>:<dec> | U<w>:<dec> | F<hex8> | D<hex16> | S<hex> | X<hex> | A[v,…] | M{key=v,…}): the model
// looks the sort properties up itself and compares them with C06's model of utils.CompareAny
package main

import (
	"bufio"
	"encoding/binary"
	"flag"
	"fmt"
	"math"
	"net"
	"os"
	"sort"
	"strconv"
	"strings"
	"time"

	"github.com/google/uuid"
	"github.com/rs/zerolog"
	"github.com/semafind/semadb/cluster"
	"github.com/semafind/semadb/models"
	"github.com/vmihailenco/msgpack/v5"
	"verifharness/vh"
)

// ------------------------------------------------------------------------------------------ ids and points

// token → uuid: injective, scrambled (so that byte order differs from token order)
func uuidOf(n int) uuid.UUID {
	var u uuid.UUID
	z := uint64(n)*0x9E3779B97F4A7C15 + 0x7F4A7C15
	z = (z ^ (z >> 30)) * 0xBF58476D1CE4E5B9
	binary.BigEndian.PutUint64(u[0:8], z^(z>>27))
	binary.BigEndian.PutUint64(u[8:16], uint64(n))
	return u
}
func tokenOf(u uuid.UUID) int { return int(binary.BigEndian.Uint64(u[8:16])) }

// static fields of a point (functions of the token); "k" is the payload that updates change
func pointData(id int, k int64) map[string]any {
	// all vectors on one line at distinct integer abscissae: with a query at a quarter-integer
	// abscissa no two points are equidistant, so a shard's top-k is the same on every call
	d := map[string]any{"k": k, "g": int64(id % 3), "v": []float32{float32((id*37)%1013) - 500, 0}}
	switch id % 4 {
	case 1:
		d["m"] = int64((id * 7) % 5)
	case 2:
		d["m"] = fmt.Sprintf("s%d", id%3)
	case 3:
		d["m"] = int64(-id)
	}
	mixedProps(d, id, k) // x, y, n.z: values whose kinds mix the way MessagePack produces them (mixed.go)
	return d
}

var schema = models.IndexSchema{
	"k": {Type: models.IndexTypeInteger},
	"g": {Type: models.IndexTypeInteger},
	"v": {Type: models.IndexTypeVectorFlat, VectorFlat: &models.IndexVectorFlatParameters{VectorSize: 2, DistanceMetric: models.DistanceEuclidean}},
}

var plan = models.UserPlan{Name: "P", MaxCollections: 10, MaxCollectionPointCount: 100000, MaxPointSize: 10000}

// ------------------------------------------------------------------------------------------ cluster

var tmpBase = func() string {
	if st, err := os.Stat("/dev/shm"); err == nil && st.IsDir() {
		return "/dev/shm"
	}
	return os.TempDir()
}()

type clu struct {
	dir      string
	nodes    []*cluster.ClusterNode
	alive    []bool
	names    []string
	col      models.Collection
	maxLimit int
	ports    []int
	// fault clusters (net=ctl): the harness owns the transport of every node
	fnets   []*fnet
	recs    []*rec
	retries int
}

func freePorts(n int) []int {
	var ls []net.Listener
	var ps []int
	for i := 0; i < n; i++ {
		l, err := net.Listen("tcp", "127.0.0.1:0")
		if err != nil {
			panic(err)
		}
		ls = append(ls, l)
		ps = append(ps, l.Addr().(*net.TCPAddr).Port)
	}
	for _, l := range ls {
		l.Close()
	}
	return ps
}

// deterministic byte stream for uuid.SetRand: shard ids (uuid.New in RPCCreateShard) and with them the
// rendezvous owners of the shards are then a function of the op lines (ports and seed are recorded on
// the newcluster line), which makes replays of scenarios with a stopped server faithful
type detRand struct{ s uint64 }

func (d *detRand) Read(p []byte) (int, error) {
	for i := range p {
		d.s += 0x9E3779B97F4A7C15
		z := d.s
		z = (z ^ (z >> 30)) * 0xBF58476D1CE4E5B9
		z = (z ^ (z >> 27)) * 0x94D049BB133111EB
		p[i] = byte((z ^ (z >> 31)) >> 24)
	}
	return len(p), nil
}

func portsFree(ports []int) bool {
	for _, p := range ports {
		l, err := net.Listen("tcp", "127.0.0.1:"+strconv.Itoa(p))
		if err != nil {
			return false
		}
		l.Close()
	}
	return true
}

// retries > 0: a fault cluster (RpcTimeout 1 s, RpcRetries retries, RPC served through faultnet.go)
func newCluster(servers, maxShard, maxLimit int, ports []int, useed uint64, retries int) *clu {
	dir, err := os.MkdirTemp(tmpBase, "c17-")
	if err != nil {
		panic(err)
	}
	c := &clu{dir: dir, maxLimit: maxLimit, retries: retries}
	var lns []net.Listener
	if retries > 0 {
		// fault cluster: the harness owns the listeners, so it opens them first and keeps them (no
		// window in which somebody else could take a port); recorded ports are reused if still free
		ok := len(ports) == servers
		for i := 0; ok && i < servers; i++ {
			l, err := net.Listen("tcp", "127.0.0.1:"+strconv.Itoa(ports[i]))
			if err != nil {
				ok = false
				break
			}
			lns = append(lns, l)
		}
		if !ok {
			if len(ports) > 0 {
				fmt.Fprintln(os.Stderr, "c17: recorded ports are not free, shard owners may differ from the recording")
			}
			for _, l := range lns {
				l.Close()
			}
			lns, ports = nil, nil
			for i := 0; i < servers; i++ {
				l, err := net.Listen("tcp", "127.0.0.1:0")
				if err != nil {
					panic(err)
				}
				lns = append(lns, l)
				ports = append(ports, l.Addr().(*net.TCPAddr).Port)
			}
		}
	} else if len(ports) != servers || !portsFree(ports) {
		if len(ports) > 0 {
			fmt.Fprintln(os.Stderr, "c17: recorded ports are not free, shard owners may differ from the recording")
		}
		ports = freePorts(servers)
	}
	c.ports = ports
	uuid.SetRand(&detRand{s: useed})
	for _, p := range ports {
		c.names = append(c.names, "127.0.0.1:"+strconv.Itoa(p))
	}
	for i, p := range ports {
		root := fmt.Sprintf("%s/n%d", dir, i)
		timeout, rt := 5, 1
		if retries > 0 {
			timeout, rt = 1, retries
		}
		n, err := cluster.NewNode(cluster.ClusterNodeConfig{
			RootDir: root, Servers: append([]string{}, c.names...), RpcHost: "127.0.0.1", RpcPort: p, RpcTimeout: timeout, RpcRetries: rt,
			MaxShardSize: 1 << 30, MaxShardPointCount: int64(maxShard), MaxSearchLimit: maxLimit,
			ShardManager: cluster.ShardManagerConfig{RootDir: root, ShardTimeout: 20, MaxCacheSize: 0},
		})
		if err != nil {
			panic(err)
		}
		if retries > 0 {
			fn, rc, err := serveNode(n, lns[i])
			if err != nil {
				panic(err)
			}
			c.fnets, c.recs = append(c.fnets, fn), append(c.recs, rc)
		} else if err := n.Serve(); err != nil {
			panic(err)
		}
		c.nodes = append(c.nodes, n)
		c.alive = append(c.alive, true)
	}
	for _, name := range c.names { // wait until every RPC listener accepts
		for t := 0; t < 200; t++ {
			conn, err := net.DialTimeout("tcp", name, 100*time.Millisecond)
			if err == nil {
				conn.Close()
				break
			}
			time.Sleep(5 * time.Millisecond)
		}
	}
	c.col = models.Collection{UserId: "u17", Id: "c17", Replicas: 1, IndexSchema: schema, UserPlan: plan}
	if err := c.nodes[0].CreateCollection(c.col); err != nil {
		panic(err)
	}
	return c
}

func (c *clu) close() {
	for _, fn := range c.fnets {
		fn.ln.Close()
		fn.killAll()
	}
	for i, n := range c.nodes {
		if c.alive[i] {
			n.Close()
		}
	}
	os.RemoveAll(c.dir)
}

// the collection record (shard list) through the entry node if the user's home server is alive
func (c *clu) refresh(entry int) {
	col, err := c.nodes[entry].GetCollection(c.col.UserId, c.col.Id)
	if err == nil {
		col.UserPlan = plan
		c.col = col
	}
}

func (c *clu) owner(shardId string) int {
	name := cluster.RendezvousHash(shardId, c.names, 1)[0]
	for i, n := range c.names {
		if n == name {
			return i
		}
	}
	return -1
}

func (c *clu) firstAlive() int {
	for i, a := range c.alive {
		if a {
			return i
		}
	}
	return -1
}

// ask one shard directly (through any live node; the RPC handler routes itself)
func (c *clu) shardSearch(shardId string, sr models.SearchRequest) ([]models.SearchResult, error) {
	sr.Limit, sr.Offset = 0, 0
	e := c.firstAlive()
	req := cluster.RPCSearchPointsRequest{RPCRequestArgs: cluster.RPCRequestArgs{Source: c.nodes[e].MyHostname, Dest: c.names[c.owner(shardId)]},
		Collection: c.col, ShardId: shardId, SearchRequest: sr}
	var resp cluster.RPCSearchPointsResponse
	err := c.nodes[e].RPCSearchPoints(&req, &resp)
	return resp.Points, err
}

var allQuery = models.Query{Property: "k", Integer: &models.SearchIntegerOptions{Operator: models.OperatorGreaterOrEq, Value: -1 << 40}}

// id → k of every point of one shard
func (c *clu) dump(shardId string) (map[int]int64, error) {
	pts, err := c.shardSearch(shardId, models.SearchRequest{Query: allQuery, Select: []string{"k"}})
	if err != nil {
		return nil, err
	}
	m := map[int]int64{}
	for _, p := range pts {
		k, _ := p.DecodedData["k"].(int64)
		if _, dup := m[tokenOf(p.Id)]; dup {
			m[-tokenOf(p.Id)-1] = k // a point twice in one shard: keep it visible
		}
		m[tokenOf(p.Id)] = k
	}
	return m, nil
}

func fmtDump(m map[int]int64) string {
	var ids []int
	for i := range m {
		ids = append(ids, i)
	}
	sort.Ints(ids)
	var s []string
	for _, i := range ids {
		s = append(s, fmt.Sprintf("%d=%d", i, m[i]))
	}
	if len(s) == 0 {
		return "-"
	}
	return strings.Join(s, ",")
}

func (c *clu) down(i int) bool { return !c.alive[c.owner(c.col.ShardIds[i])] }

// ------------------------------------------------------------------------------------------ ops

type op struct {
	kind                     string
	servers, maxShard, maxLi int
	ports                    []int
	useed                    uint64
	entry                    int
	ids                      []int
	pts                      [][2]int64 // id, k
	server                   int
	skind, sarg              int
	limit, offset            int
	complete                 bool
	all, succ                []int
	// fault clusters
	retries int    // newcluster: RpcRetries of a fault cluster (0 = ordinary cluster)
	script  string // update / delete / search / route: fault script played by server `server` during the op
}

func fmtInts(p []int) string {
	if len(p) == 0 {
		return "-"
	}
	var s []string
	for _, q := range p {
		s = append(s, strconv.Itoa(q))
	}
	return strings.Join(s, ",")
}
func fmtPts(p [][2]int64) string {
	if len(p) == 0 {
		return "-"
	}
	var s []string
	for _, q := range p {
		s = append(s, fmt.Sprintf("%d=%d", q[0], q[1]))
	}
	return strings.Join(s, ",")
}

// the request part of the op line (what a replay needs)
func (o op) line() string {
	switch o.kind {
	case "curate":
		return fmt.Sprintf("curate complete=%s all=%s succ=%s", vh.B01(o.complete), fmtInts(o.all), fmtInts(o.succ))
	case "newcluster":
		l := fmt.Sprintf("newcluster servers=%d maxshard=%d maxlimit=%d ports=%s useed=%d", o.servers, o.maxShard, o.maxLi, fmtInts(o.ports), o.useed)
		if o.retries > 0 {
			l += fmt.Sprintf(" net=ctl retries=%d", o.retries)
		}
		return l
	case "insert":
		return fmt.Sprintf("insert entry=%d pts=%s", o.entry, fmtPts(o.pts))
	case "stop":
		return fmt.Sprintf("down server=%d", o.server)
	case "update":
		return fmt.Sprintf("update entry=%d pts=%s", o.entry, fmtPts(o.pts)) + o.faultTok()
	case "delete":
		return fmt.Sprintf("delete entry=%d ids=%s", o.entry, fmtInts(o.ids)) + o.faultTok()
	case "state":
		return "state"
	case "search":
		return fmt.Sprintf("search entry=%d kind=%d arg=%d limit=%d offset=%d", o.entry, o.skind, o.sarg, o.limit, o.offset) + o.faultTok()
	case "route":
		return fmt.Sprintf("route entry=%d", o.entry) + o.faultTok()
	}
	return "?"
}

func (o op) faultTok() string {
	if o.script == "" {
		return ""
	}
	return fmt.Sprintf(" fault=%d:%s", o.server, o.script)
}

func parseInts(s string) []int {
	var r []int
	if s == "-" || s == "" {
		return r
	}
	for _, x := range strings.Split(s, ",") {
		n, _ := strconv.Atoi(x)
		r = append(r, n)
	}
	return r
}
func parsePts(s string) [][2]int64 {
	var r [][2]int64
	if s == "-" || s == "" {
		return r
	}
	for _, x := range strings.Split(s, ",") {
		ab := strings.SplitN(x, "=", 2)
		a, _ := strconv.ParseInt(ab[0], 10, 64)
		b, _ := strconv.ParseInt(ab[1], 10, 64)
		r = append(r, [2]int64{a, b})
	}
	return r
}

func parseLine(line string) (op, bool) {
	toks := strings.Fields(line)
	if len(toks) == 0 {
		return op{}, false
	}
	kv := func(k string) string {
		for _, t := range toks {
			if strings.HasPrefix(t, k+"=") {
				return t[len(k)+1:]
			}
		}
		return ""
	}
	num := func(k string) int { n, _ := strconv.Atoi(kv(k)); return n }
	o := op{kind: toks[0]}
	if f := kv("fault"); f != "" {
		ab := strings.SplitN(f, ":", 2)
		if len(ab) == 2 {
			o.server, _ = strconv.Atoi(ab[0])
			o.script = ab[1]
		}
	}
	switch toks[0] {
	case "curate":
		o.complete = kv("complete") == "1"
		o.all, o.succ = parseInts(kv("all")), parseInts(kv("succ"))
	case "newcluster":
		o.servers, o.maxShard, o.maxLi = num("servers"), num("maxshard"), num("maxlimit")
		o.ports = parseInts(kv("ports"))
		o.useed, _ = strconv.ParseUint(kv("useed"), 10, 64)
		o.retries = num("retries")
	case "insert":
		o.entry, o.pts = num("entry"), parsePts(kv("pts"))
	case "down":
		o.kind, o.server = "stop", num("server")
	case "update":
		o.entry, o.pts = num("entry"), parsePts(kv("pts"))
	case "delete":
		o.entry, o.ids = num("entry"), parseInts(kv("ids"))
	case "state":
	case "route":
		o.entry = num("entry")
	case "search":
		o.entry, o.skind, o.sarg, o.limit, o.offset = num("entry"), num("kind"), num("arg"), num("limit"), num("offset")
	default:
		return o, false
	}
	return o, true
}

// ------------------------------------------------------------------------------------------ searches

type searchSpec struct {
	sr    models.SearchRequest
	mode  string
	props []string // sort properties (keys mode)
	desc  []bool
}

func mkSearch(kind, arg, limit, offset int) searchSpec {
	sr := models.SearchRequest{Limit: limit, Offset: offset}
	sp := searchSpec{mode: "score"}
	keys := func(props []string, desc []bool) {
		sp.mode, sp.props, sp.desc = "keys", props, desc
		sr.Select = props
		for i, p := range props {
			sr.Sort = append(sr.Sort, models.SortOption{Property: p, Descending: desc[i]})
		}
	}
	b := func(i int) bool { return (arg>>i)&1 == 1 }
	switch kind {
	case 0: // exact nearest neighbours, hybrid score = -distance
		lq := []int{3, 10, 75}[arg%3]
		q := []float32{float32((arg*131)%900) - 450 + 0.25, 0}
		sr.Query = models.Query{Property: "v", VectorFlat: &models.SearchVectorFlatOptions{Vector: q, Operator: models.OperatorNear, Limit: lq}}
	case 1:
		sr.Query = allQuery
		keys([]string{"k"}, []bool{b(0)})
	case 2:
		sr.Query = allQuery
		keys([]string{"g", "k"}, []bool{b(0), b(1)})
	case 3: // mixed kinds and missing values first, then k
		sr.Query = allQuery
		keys([]string{"m", "k"}, []bool{b(0), b(1)})
	case 4: // filter only: every hybrid score is 0
		sr.Query = allQuery
	case 5: // lookup by id
		var ids []string
		for i := 0; i < 1+arg%5; i++ {
			ids = append(ids, uuidOf(1+(arg/5+i*3)%40).String())
		}
		sr.Query = models.Query{Property: "_id", StringArray: &models.SearchStringArrayOptions{Operator: models.OperatorContainsAny, Value: ids}}
	case 6: // one group, ordered by k
		sr.Query = models.Query{Property: "g", Integer: &models.SearchIntegerOptions{Operator: models.OperatorEquals, Value: int64(arg % 3)}}
		keys([]string{"k"}, []bool{b(2)})
	case 7: // sort property not selected by every result: only "m"
		sr.Query = allQuery
		keys([]string{"m"}, []bool{b(0)})
	// ---- sort properties whose values mix kinds (mixed.go): the cluster's merge compares an uint8 of
	// one shard with a float64 of another, an int64 beyond 2^53 with the float next to it, …
	case 8: // numbers of every kind, some points without the property
		sr.Query = allQuery
		keys([]string{"x"}, []bool{b(0)})
	case 9: // every class of value first, then numbers
		sr.Query = allQuery
		keys([]string{"y", "x"}, []bool{b(0), b(1)})
	case 10: // ties on the first key across shards, mixed numbers decide
		sr.Query = allQuery
		keys([]string{"g", "x"}, []bool{b(0), b(1)})
	case 11: // a first sort property no result has (`_id` is not part of the decoded data), then mixed numbers
		sr.Query = allQuery
		keys([]string{"_id", "x", "k"}, []bool{b(0), b(1), b(2)})
	case 12: // nested path: numbers and strings under n.z, n a scalar, n missing
		sr.Query = allQuery
		keys([]string{"n.z", "k"}, []bool{b(0), b(1)})
	case 13: // three sort options
		sr.Query = allQuery
		keys([]string{"x", "y", "k"}, []bool{b(0), b(1), b(2)})
	case 14: // one group, mixed numbers, k breaks the ties (equal numbers of different kinds)
		sr.Query = models.Query{Property: "g", Integer: &models.SearchIntegerOptions{Operator: models.OperatorEquals, Value: int64(arg % 3)}}
		keys([]string{"x", "k"}, []bool{b(2), b(3)})
	}
	sp.sr = sr
	return sp
}

func sortableScore(f float32) int64 {
	b := math.Float32bits(f)
	if b&0x80000000 != 0 {
		return -int64(b & 0x7fffffff)
	}
	return int64(b)
}

type hit struct {
	id    int
	score int64
	data  map[string]any // DecodedData: the selected properties as msgpack decoded them
}

func toHit(r models.SearchResult, sp searchSpec) hit {
	h := hit{id: tokenOf(r.Id), score: sortableScore(r.HybridScore), data: map[string]any{}}
	for k, v := range r.DecodedData {
		h.data[k] = v
	}
	return h
}

// id~score~<DecodedData in the value syntax of the C06 stream>
func (h hit) enc() string {
	return fmt.Sprintf("%d~%d~%s", h.id, h.score, valTok(h.data))
}

// results with equal rank strings are tied under the comparator of the merge (mixed.go: classOf)
func (h hit) rank(sp searchSpec) string {
	if sp.mode == "score" {
		return strconv.FormatInt(h.score, 10)
	}
	return rankKeys(h.data, sp.props)
}

// independent comparator for the order oracle: > 0 iff b must stand before a (hybrid score: descending;
// sort keys: the documented order of mixed.go — exact numeric value whatever the kinds, strings byte-wise,
// numbers before strings, missing last; pairs the documentation does not order are not judged)
func cmpHits(a, b hit, sp searchSpec) int {
	if sp.mode == "score" {
		switch {
		case a.score > b.score:
			return -1
		case a.score < b.score:
			return 1
		}
		return 0
	}
	c, judged := refOrder(a.data, b.data, sp.props, sp.desc)
	if !judged {
		return 0
	}
	return c
}

// the order oracle: no returned result may stand before one that must precede it — every pair, not only
// neighbours (pairs the documentation does not order break the chain of neighbours)
func outOfOrder(rh []hit, sp searchSpec) (int, int, bool) {
	for j := 1; j < len(rh); j++ {
		for i := j - 1; i >= 0; i-- {
			if cmpHits(rh[i], rh[j], sp) > 0 {
				return i, j, true
			}
		}
	}
	return 0, 0, false
}

// opts=<property>:a|d,… — the sort options of the request
func (sp searchSpec) optsTok() string {
	var od []string
	for i, p := range sp.props {
		od = append(od, p+":"+map[bool]string{false: "a", true: "d"}[sp.desc[i]])
	}
	if len(od) == 0 {
		return "-"
	}
	return strings.Join(od, ",")
}

// canonical form of a merged result (same rule as the driver's `canon`)
func canon(r []hit, full []hit, sp searchSpec) string {
	inR := map[int]bool{}
	for _, h := range r {
		inR[h.id] = true
	}
	var groups [][]hit
	for _, h := range r {
		if n := len(groups); n > 0 && groups[n-1][0].rank(sp) == h.rank(sp) {
			groups[n-1] = append(groups[n-1], h)
		} else {
			groups = append(groups, []hit{h})
		}
	}
	straddle := false
	if n := len(groups); n > 0 {
		last := groups[n-1][0].rank(sp)
		for _, e := range full {
			if !inR[e.id] && e.rank(sp) == last {
				straddle = true
			}
		}
	}
	body := groups
	tail := ""
	if straddle {
		body = groups[:len(groups)-1]
		tail = fmt.Sprintf(" +tie%d", len(groups[len(groups)-1]))
	}
	var ids []string
	for _, g := range body {
		var gi []int
		for _, h := range g {
			gi = append(gi, h.id)
		}
		sort.Ints(gi)
		for _, i := range gi {
			ids = append(ids, strconv.Itoa(i))
		}
	}
	s := "-"
	if len(ids) > 0 {
		s = strings.Join(ids, ",")
	}
	return fmt.Sprintf("ok n=%d r=%s%s", len(r), s, tail)
}

// ------------------------------------------------------------------------------------------ executor

type runner struct {
	c     *clu
	out   *vh.Out // nil in replay mode
	lines []string
	where map[int]int // id → shard index (from the dumps)
	fails int
	// fault clusters run side by side: their lines and failures are buffered and flushed in order
	buffered bool
	buf      []emitted
	fbuf     []vh.OracleFailure
	nbuf     []vh.ForeignNote
}

type emitted struct {
	kind, line, impl string
	nontrivial       bool
}

func (r *runner) fail(sig, what string) {
	if r.buffered {
		r.fbuf = append(r.fbuf, vh.OracleFailure{Signature: sig, What: what, Replay: strings.Join(r.lines, "\n")})
	} else if r.out != nil {
		r.out.Fail(sig, what, strings.Join(r.lines, "\n"))
	}
	r.fails++
}

// note: seen here, but a statement of another property (vh.Out.Note); not counted as a failure of this one
func (r *runner) note(owner, sig, what string) {
	if r.buffered {
		r.nbuf = append(r.nbuf, vh.ForeignNote{Owners: []string{owner}, Stream: "c17 main stream oracle", Op: sig, Why: what, Replay: strings.Join(r.lines, "\n")})
	} else if r.out != nil {
		r.out.Note(owner, "c17 main stream oracle", sig, what, strings.Join(r.lines, "\n"))
	}
}

func encPoints(pts [][2]int64, full bool) []models.Point {
	var ps []models.Point
	for _, p := range pts {
		var d map[string]any
		if full {
			d = pointData(int(p[0]), p[1])
		} else {
			d = map[string]any{"k": p[1]}
		}
		b, err := msgpack.Marshal(d)
		if err != nil {
			panic(err)
		}
		ps = append(ps, models.Point{Id: uuidOf(int(p[0])), Data: b})
	}
	return ps
}

func showFailed(fp []cluster.FailedPoint) string {
	var s []string
	for _, f := range fp {
		m := "?" + f.Err
		switch f.Err {
		case "not found":
			m = "nf"
		case cluster.ErrShardUnavailable.Error():
			m = "un"
		}
		s = append(s, fmt.Sprintf("%d:%s", tokenOf(f.Id), m))
	}
	if len(s) == 0 {
		return "failed -"
	}
	return "failed " + strings.Join(s, ",")
}

func (r *runner) emit(kind, line, impl string, nontrivial bool) {
	r.lines = append(r.lines, line)
	if r.buffered {
		r.buf = append(r.buf, emitted{kind, line, impl, nontrivial})
	} else if r.out != nil {
		r.out.Emit(kind, line, impl, nontrivial)
	} else {
		fmt.Println(impl)
	}
}

// dumps of every available shard, in shard order; nil for an unavailable one
func (r *runner) dumps() []map[int]int64 {
	var ds []map[int]int64
	for i, s := range r.c.col.ShardIds {
		if r.c.down(i) {
			ds = append(ds, nil)
			continue
		}
		d, err := r.c.dump(s)
		if err != nil {
			d = map[int]int64{-1000000: 0} // visible in the state line
		}
		ds = append(ds, d)
	}
	return ds
}

func (r *runner) exec(o op) {
	defer func() {
		if e := recover(); e != nil {
			r.emit(o.kind, o.line(), fmt.Sprintf("panic:%v", e), false)
		}
	}()
	c := r.c
	multi := c != nil && len(c.col.ShardIds) > 1
	if o.script != "" || o.kind == "route" {
		r.execFault(o)
		return
	}
	switch o.kind {
	case "curate":
		var all, succ []uuid.UUID
		for _, i := range o.all {
			all = append(all, uuidOf(i))
		}
		for _, i := range o.succ {
			succ = append(succ, uuidOf(i))
		}
		got := showFailed(cluster.VerifCurateFailedPoints(all, succ, o.complete))
		// oracle: list difference, message by completeness
		inS := map[int]bool{}
		for _, i := range o.succ {
			inS[i] = true
		}
		var want []string
		for _, i := range o.all {
			if !inS[i] {
				want = append(want, fmt.Sprintf("%d:%s", i, map[bool]string{true: "nf", false: "un"}[o.complete]))
			}
		}
		w := "failed -"
		if len(want) > 0 {
			w = "failed " + strings.Join(want, ",")
		}
		r.emit("curate", o.line(), got, len(o.all) > 0 && len(o.succ) > 0)
		if got != w {
			r.fail("curate:"+o.line(), fmt.Sprintf("curateFailedPoints returned %q, the list difference is %q", got, w))
		}
	case "newcluster":
		if r.c != nil {
			r.c.close()
		}
		r.c = newCluster(o.servers, o.maxShard, o.maxLi, o.ports, o.useed, o.retries)
		o.ports = r.c.ports
		r.where = map[int]int{}
		r.lines = nil
		r.emit("newcluster", o.line(), "ok", false)
	case "insert":
		c.refresh(o.entry)
		fr, err := c.nodes[o.entry].InsertPoints(c.col, encPoints(o.pts, true))
		c.refresh(o.entry)
		res := "ok"
		if err != nil {
			res = "err"
		} else if len(fr) > 0 {
			res = "failedranges"
		}
		// where did the points go (oracle for the model)
		var place []string
		for si, d := range r.dumps() {
			var ids []int
			for id := range d {
				if _, known := r.where[id]; !known {
					ids = append(ids, id)
				}
			}
			sort.Ints(ids)
			var s []string
			for _, id := range ids {
				r.where[id] = si
				s = append(s, fmt.Sprintf("%d=%d", id, d[id]))
			}
			if len(s) > 0 {
				place = append(place, fmt.Sprintf("%d:%s", si, strings.Join(s, ",")))
			}
		}
		pl := "-"
		if len(place) > 0 {
			pl = strings.Join(place, "|")
		}
		r.emit("insert", o.line()+" place="+pl, res, len(c.col.ShardIds) > 1)
		// oracle: every inserted id is now held by exactly one shard
		cnt := map[int]int{}
		for _, d := range r.dumps() {
			for id := range d {
				cnt[id]++
			}
		}
		// ("An insert request assigns every point to exactly one shard" is C15's statement - placement is an oracle argument of
		// this property's model, see props/C17.py - so a departure is noted for C15's check, which evaluates the same on
		// distributePoints and on the cluster; what C17 says about a point starts once it is stored.)
		for _, p := range o.pts {
			if res == "ok" && cnt[int(p[0])] != 1 {
				r.note("C15", fmt.Sprintf("insert-once:%d", cnt[int(p[0])]), fmt.Sprintf("inserted point %d is held by %d shards after an insert that reported success (placement: C15)", p[0], cnt[int(p[0])]))
			}
		}
	case "stop":
		c.nodes[o.server].Close()
		c.alive[o.server] = false
		for i, n := range c.nodes {
			if c.alive[i] {
				n.VerifDropRPCClients()
			}
		}
		var sh []int
		for i := range c.col.ShardIds {
			if c.owner(c.col.ShardIds[i]) == o.server {
				sh = append(sh, i)
			}
		}
		r.emit("down", fmt.Sprintf("down shards=%s server=%d", fmtInts(sh), o.server), "ok", false)
	case "update", "delete":
		c.refresh(o.entry)
		before := r.dumps()
		var fp []cluster.FailedPoint
		var err error
		var req []int
		if o.kind == "update" {
			fp, err = c.nodes[o.entry].UpdatePoints(c.col, encPoints(o.pts, false))
			for _, p := range o.pts {
				req = append(req, int(p[0]))
			}
		} else {
			var ids []uuid.UUID
			for _, i := range o.ids {
				ids = append(ids, uuidOf(i))
			}
			fp, err = c.nodes[o.entry].DeletePoints(c.col, ids)
			req = o.ids
		}
		res := showFailed(fp)
		if err != nil {
			res = "err"
		}
		anyDown := false
		for i := range c.col.ShardIds {
			anyDown = anyDown || c.down(i)
		}
		r.emit(o.kind, o.line(), res, multi)
		// ---- oracles on the real response
		held := func(id int) bool {
			for _, d := range before {
				if _, ok := d[id]; ok && d != nil {
					return true
				}
			}
			return false
		}
		var want []string
		msg := "nf"
		if anyDown {
			msg = "un"
		}
		for _, id := range req {
			if !held(id) {
				want = append(want, fmt.Sprintf("%d:%s", id, msg))
			}
		}
		w := "failed -"
		if len(want) > 0 {
			w = "failed " + strings.Join(want, ",")
		}
		if res != w {
			r.fail(fmt.Sprintf("%s-failed-list:down=%v", o.kind, anyDown), fmt.Sprintf("%s answered %q; the requested ids no available shard holds are %q (\"not found\" iff every shard answered)", o.kind, res, w))
		}
		after := r.dumps()
		last := map[int]int64{}
		for _, p := range o.pts {
			last[int(p[0])] = p[1]
		}
		for _, id := range req {
			n := 0
			for _, d := range after {
				if v, ok := d[id]; ok {
					n++
					if o.kind == "update" && v != last[id] {
						r.fail("update-payload", fmt.Sprintf("point %d has payload %d after an update to %d", id, v, last[id]))
					}
				}
			}
			wantN := 0
			if o.kind == "update" && held(id) {
				wantN = 1
			}
			if n != wantN {
				r.fail(fmt.Sprintf("%s-once:%d", o.kind, n), fmt.Sprintf("after %s point %d is held by %d available shards, expected %d", o.kind, id, n, wantN))
			}
		}
		// nothing else changed
		for si := range after {
			if si >= len(before) || before[si] == nil {
				continue
			}
			for id, v := range before[si] {
				touched := false
				for _, q := range req {
					touched = touched || q == id
				}
				if v2, ok := after[si][id]; !touched && (!ok || v2 != v) {
					r.fail(o.kind+"-collateral", fmt.Sprintf("%s of %v changed point %d of shard %d", o.kind, req, id, si))
				}
			}
		}
	case "state":
		c.refresh(c.firstAlive())
		var s []string
		for _, d := range r.dumps() {
			if d == nil {
				s = append(s, "x")
			} else {
				s = append(s, fmtDump(d))
			}
		}
		st := "-"
		if len(s) > 0 {
			st = strings.Join(s, "|")
		}
		r.emit("state", "state", "shards "+st, multi)
	case "search":
		c.refresh(o.entry)
		sp := mkSearch(o.skind, o.sarg, o.limit, o.offset)
		// what every shard answers to this query (its full ranking)
		var answers []string
		var full []hit
		fullBy := map[int]hit{}
		dupAcross := false
		for i, s := range c.col.ShardIds {
			if c.down(i) {
				answers = append(answers, "x")
				continue
			}
			pts, err := c.shardSearch(s, sp.sr)
			if err != nil {
				answers = append(answers, "?"+err.Error())
				continue
			}
			var hs []string
			for _, p := range pts {
				h := toHit(p, sp)
				hs = append(hs, h.enc())
				full = append(full, h)
				if _, ok := fullBy[h.id]; ok {
					dupAcross = true
				}
				fullBy[h.id] = h
			}
			if len(hs) == 0 {
				answers = append(answers, "-")
			} else {
				answers = append(answers, strings.Join(hs, ";"))
			}
		}
		res, err := c.nodes[o.entry].SearchPoints(c.col, sp.sr)
		var rh []hit
		for _, p := range res {
			rh = append(rh, toHit(p, sp))
		}
		impl := "err"
		if err == nil {
			impl = canon(rh, full, sp)
		}
		opts := sp.optsTok()
		ans := "-"
		if len(answers) > 0 {
			ans = strings.Join(answers, "|")
		}
		line := fmt.Sprintf("%s mode=%s opts=%s answers=%s", o.line(), sp.mode, opts, ans)
		if len(c.col.ShardIds) == 0 {
			line = fmt.Sprintf("%s mode=%s opts=%s answers=", o.line(), sp.mode, opts)
		}
		r.emit("search", line, impl, multi && len(full) > 0)
		// ---- oracles on the real response
		if err == nil {
			sig := fmt.Sprintf("search:kind=%d:", o.skind)
			if len(rh) > o.limit {
				r.fail(sig+"limit", fmt.Sprintf("search returned %d results for limit %d", len(rh), o.limit))
			}
			seen := map[int]bool{}
			for _, h := range rh {
				if seen[h.id] {
					r.fail(sig+"duplicate", fmt.Sprintf("point %d is returned twice", h.id))
				}
				seen[h.id] = true
				f, ok := fullBy[h.id]
				if !ok {
					r.fail(sig+"foreign", fmt.Sprintf("result %d is in no shard's answer", h.id))
				} else if f.enc() != h.enc() {
					r.fail(sig+"altered", fmt.Sprintf("result %s differs from the shard's answer %s", h.enc(), f.enc()))
				}
			}
			if i, j, bad := outOfOrder(rh, sp); bad {
				r.fail(sig+"order", fmt.Sprintf("result %s (position %d) is returned before %s (position %d), which must precede it (mode %s, sort %s)", rh[i].enc(), i, rh[j].enc(), j, sp.mode, sp.optsTok()))
			}
			// every stored point exactly once: id lookups that no per-shard limit can cut
			if o.skind == 5 && o.offset == 0 && !dupAcross && len(full) <= o.limit && o.limit <= 10 && (c.maxLimit == 0 || c.maxLimit >= o.limit) {
				for id := range fullBy {
					if !seen[id] {
						r.fail(sig+"missing", fmt.Sprintf("stored point %d matches the id lookup in its shard but is not in the merged result", id))
					}
				}
			}
		}
	}
}

// ------------------------------------------------------------------------------------------ generation

// repeatSome names some of the requested ids more than once (the API only checks the number of ids and
// their syntax): next to each other, far apart, three times, the whole request twice. For updates the
// repeated entry carries another payload (the last one wins).
func repeatSome[T any](rng *vh.Rng, xs []T, again func(T) T) []T {
	if len(xs) == 0 {
		return xs
	}
	switch rng.Intn(5) {
	case 0: // right behind the original
		i := rng.Intn(len(xs))
		xs = append(xs[:i+1], append([]T{again(xs[i])}, xs[i+1:]...)...)
	case 1: // first at the end
		xs = append(xs, again(xs[0]))
	case 2: // last at the front
		xs = append([]T{again(xs[len(xs)-1])}, xs...)
	case 3: // three times
		i := rng.Intn(len(xs))
		xs = append(append([]T{again(xs[i])}, xs...), again(xs[i]))
	default: // everything twice
		n := len(xs)
		for i := 0; i < n; i++ {
			xs = append(xs, again(xs[i]))
		}
	}
	return xs
}

func genScenario(rng *vh.Rng, big bool) []op {
	servers := 1 + rng.Intn(3)
	maxShard := vh.Pick(rng, []int{2, 3, 4, 6})
	maxLimit := vh.Pick(rng, []int{0, 3, 5, 75, 75})
	nPoints := maxShard*(1+rng.Intn(6)) - rng.Intn(maxShard)
	if big {
		maxShard = 30 + rng.Intn(15)
		nPoints = maxShard*(2+rng.Intn(2)) + rng.Intn(10)
		maxLimit = vh.Pick(rng, []int{75, 75, 0, 20})
	}
	ops := []op{{kind: "newcluster", servers: servers, maxShard: maxShard, maxLi: maxLimit, useed: rng.U64() >> 1}}
	alive := make([]bool, servers)
	for i := range alive {
		alive[i] = true
	}
	nAlive := servers
	entry := func() int {
		for {
			e := rng.Intn(servers)
			if alive[e] {
				return e
			}
		}
	}
	next := 1
	present := map[int]bool{}
	stopped := false
	insert := func(n int) {
		o := op{kind: "insert", entry: entry()}
		for i := 0; i < n; i++ {
			o.pts = append(o.pts, [2]int64{int64(next), int64(rng.Intn(2001)) - 1000})
			present[next] = true
			next++
		}
		// the API sorts by uuid anyway; shuffle the request order
		for i := len(o.pts) - 1; i > 0; i-- {
			j := rng.Intn(i + 1)
			o.pts[i], o.pts[j] = o.pts[j], o.pts[i]
		}
		ops = append(ops, o)
	}
	pickId := func() int {
		if rng.Chance(25) {
			return 1 + rng.Intn(next+5) // maybe deleted / never inserted
		}
		return 1 + rng.Intn(next)
	}
	search := func() {
		o := op{kind: "search", entry: entry(), skind: rng.Intn(15), sarg: rng.Intn(64), offset: 0}
		o.limit = vh.Pick(rng, []int{1, 2, 3, 5, 10, 20, 100})
		if big {
			o.limit = vh.Pick(rng, []int{10, 30, 45, 60, 75, 100})
			if rng.Chance(70) {
				o.skind = vh.Pick(rng, []int{0, 1, 2, 4, 8, 10, 13})
			}
		}
		if rng.Chance(30) {
			o.offset = rng.Intn(7)
		}
		ops = append(ops, o)
	}
	// build up
	remaining := nPoints
	for remaining > 0 {
		n := 1 + rng.Intn(remaining)
		if n > 25 && !big {
			n = 25
		}
		insert(n)
		remaining -= n
		if rng.Chance(40) {
			search()
		}
	}
	ops = append(ops, op{kind: "state"})
	steps := 8 + rng.Intn(14)
	for i := 0; i < steps; i++ {
		w := rng.Intn(100)
		switch {
		case w < 8 && !stopped && nAlive > 1 && i > 1:
			j := rng.Intn(servers)
			alive[j] = false
			nAlive--
			stopped = true
			ops = append(ops, op{kind: "stop", server: j})
		case w < 14 && !stopped:
			insert(1 + rng.Intn(4))
		case w < 40:
			o := op{kind: "update", entry: entry()}
			for j := 0; j < 1+rng.Intn(4); j++ {
				o.pts = append(o.pts, [2]int64{int64(pickId()), int64(rng.Intn(2001)) - 1000})
			}
			if rng.Chance(20) {
				o.pts = repeatSome(rng, o.pts, func(p [2]int64) [2]int64 { return [2]int64{p[0], int64(rng.Intn(2001)) - 1000} })
			}
			ops = append(ops, o)
		case w < 58:
			o := op{kind: "delete", entry: entry()}
			for j := 0; j < 1+rng.Intn(3); j++ {
				o.ids = append(o.ids, pickId())
			}
			if rng.Chance(20) {
				o.ids = repeatSome(rng, o.ids, func(i int) int { return i })
			}
			ops = append(ops, o)
		case w < 64:
			ops = append(ops, op{kind: "state"})
		default:
			search()
		}
	}
	ops = append(ops, op{kind: "state"})
	return ops
}

func repeatedIdCorpus() []op {
	return []op{
		{kind: "newcluster", servers: 2, maxShard: 2, maxLi: 75, useed: 11},
		{kind: "insert", entry: 0, pts: [][2]int64{{1, 10}, {2, 20}, {3, 30}, {4, 40}, {5, 50}, {6, 60}, {7, 70}}},
		{kind: "state"},
		{kind: "delete", entry: 1, ids: []int{1, 1}},
		{kind: "delete", entry: 0, ids: []int{99, 2, 98, 2, 99}},
		{kind: "update", entry: 1, pts: [][2]int64{{3, 31}, {3, 32}}},
		{kind: "update", entry: 0, pts: [][2]int64{{4, 41}, {97, 1}, {4, 42}, {97, 2}, {5, 51}}},
		{kind: "state"},
		{kind: "stop", server: 1},
		{kind: "delete", entry: 0, ids: []int{5, 5, 96, 6, 96}},
		{kind: "update", entry: 0, pts: [][2]int64{{7, 71}, {7, 72}, {95, 1}, {95, 2}}},
		{kind: "state"},
	}
}

// first payload k ≥ 0 for which point `id` carries an x that satisfies want (the mixed-kind properties
// are functions of (id, k): the op lines stay ordinary insert lines, a replay stores the same values)
func kWith(id int, want func(x any, ok bool) bool) int64 {
	for k := int64(0); k < 100000; k++ {
		d := map[string]any{}
		mixedProps(d, id, k)
		if x, ok := d["x"]; want(x, ok) {
			return k
		}
	}
	panic("kWith: no payload found")
}

func mixedKindCorpus() []op {
	f64 := func(p func(float64) bool) func(any, bool) bool {
		return func(x any, ok bool) bool { f, is := x.(float64); return ok && is && p(f) }
	}
	wants := []func(any, bool) bool{
		func(x any, ok bool) bool { u, is := x.(uint8); return ok && is && u >= 128 },     // small unsigned
		f64(func(f float64) bool { return f < 0 && f > -3 && f != math.Trunc(f) }),        // negative fraction
		func(x any, ok bool) bool { u, is := x.(uint64); return ok && is && u >= 1<<63 },  // large unsigned
		f64(func(f float64) bool { return f >= 1<<63 && f < 1<<63*2 }),                    // a float between 2^63 and 2^64
		func(x any, ok bool) bool { i, is := x.(int64); return ok && is && i == 1<<53+1 }, // beyond 2^53
		f64(func(f float64) bool { return f == 1<<53 }),                                   // the float64 next to it
		func(x any, ok bool) bool { return !ok },                                          // property missing
		func(x any, ok bool) bool { i, is := x.(int8); return ok && is && i < 0 },         // small negative integer
		f64(func(f float64) bool { return f == 0 && math.Signbit(f) }),                    // −0
		f64(func(f float64) bool { return f < -1e200 }),                                   // huge negative
		func(x any, ok bool) bool { f, is := x.(float32); return ok && is && f < 0 },      // negative float32
		f64(func(f float64) bool { return f == 200 }),                                     // a float equal to an integer
	}
	ins := op{kind: "insert", entry: 0}
	for i, w := range wants {
		ins.pts = append(ins.pts, [2]int64{int64(i + 1), kWith(i+1, w)})
	}
	ops := []op{{kind: "newcluster", servers: 2, maxShard: 1, maxLi: 75, useed: 17}, ins, {kind: "state"}}
	for _, kind := range []int{8, 11, 13} {
		for arg := 0; arg < 4; arg++ {
			ops = append(ops, op{kind: "search", entry: arg % 2, skind: kind, sarg: arg, limit: 20})
		}
	}
	ops = append(ops, op{kind: "search", entry: 1, skind: 8, sarg: 0, limit: 5, offset: 12}, op{kind: "search", entry: 0, skind: 8, sarg: 1, limit: 3})
	return ops
}

func main() {
	// own network namespace (or, failing that, an exclusive lock): no port can be taken by, and no
	// connection can come from, another run on this machine; recorded ports of a replay are always free
	vh.IsolateNet("c17")
	zerolog.SetGlobalLevel(zerolog.Disabled)
	seed := flag.Uint64("seed", 1, "PRNG seed")
	n := flag.Int("n", 40, "scenarios")
	nbig := flag.Int("big", 3, "scenarios with large shards (per-shard limit heuristic binds)")
	ncur := flag.Int("curate", 400, "direct calls of curateFailedPoints")
	nfault := flag.Int("fault", 8, "random fault scenarios (one shard server hangs / dies mid-call / leaves stale connections)")
	ncluster := flag.Int("cluster", 0, "cluster-level scenarios for the composed model (compose.go; written to <out>/cluster)")
	dir := flag.String("out", "", "output directory")
	replay := flag.String("replay", "", "replay the op lines of this file against the implementation (prints impl answers)")
	flag.Parse()
	if *replay != "" {
		doReplay(*replay)
		return
	}
	rng := vh.NewRng(*seed)
	o := vh.NewOut(*dir)
	r := &runner{out: o}
	t0 := time.Now()
	for i := 0; i < *ncur; i++ {
		c := op{kind: "curate", complete: rng.Bool()}
		pool := 1 + rng.Intn(14)
		for j := rng.Intn(9); j > 0; j-- {
			c.all = append(c.all, rng.Intn(pool))
		}
		// precondition of the real function: len(successIds) <= len(allIds) (it allocates
		// make(.., 0, len(allIds)-len(successIds)) and panics otherwise); within the property's domain
		// (ids unique per collection) the cluster never violates it, see notes/C17.md
		for j := rng.Intn(len(c.all) + 1); j > 0; j-- {
			c.succ = append(c.succ, rng.Intn(pool))
		}
		r.lines = nil
		r.exec(c)
	}
	// corpus (runs first): one point per shard, the sort property an unsigned integer here, a negative float
	// there, an integer beyond 2^53 beside the float64 next to it, …: only the cluster's merge orders them
	for _, p := range mixedKindCorpus() {
		r.exec(p)
	}
	r.c.close()
	r.c = nil
	cfgs := map[string]int{}
	// fault scenarios: the corpus of minimised witnesses first, then random ones
	fscs := faultCorpus()
	for i := 0; i < *nfault; i++ {
		fscs = append(fscs, genFaultScenario(rng, i))
	}
	for k, v := range runFaultScenarios(o, fscs) {
		cfgs[k] += v
	}
	r.lines = nil
	// corpus: ids named more than once in one request (stored / unknown, next to each other / apart),
	// on two servers and several shards, all up and with one server stopped
	for _, p := range repeatedIdCorpus() {
		r.exec(p)
	}
	for i := 0; i < *n+*nbig; i++ {
		ops := genScenario(rng, i >= *n)
		for _, p := range ops {
			r.exec(p)
		}
		cfgs[fmt.Sprintf("servers=%d shards=%d", len(r.c.nodes), len(r.c.col.ShardIds))]++
	}
	if r.c != nil {
		r.c.close()
	}
	for _, d := range abandoned.dirs {
		os.RemoveAll(d)
	}
	if *ncluster > 0 {
		runCompose(*dir, *seed, *ncluster)
	}
	o.Close(map[string]any{
		"rule":           "one case = one cluster-level call (insert / update / delete / search through some entry node, a shard dump, or a direct curateFailedPoints call); non-trivial = distinct op line on a collection with at least two shards (curate: both lists non-empty)",
		"configurations": cfgs,
		"harness_s":      time.Since(t0).Seconds(),
	})
}

func doReplay(path string) {
	f, err := os.Open(path)
	if err != nil {
		fmt.Println(err)
		os.Exit(2)
	}
	defer f.Close()
	r := &runner{}
	sc := bufio.NewScanner(f)
	sc.Buffer(make([]byte, 1<<20), 1<<26)
	for sc.Scan() {
		line := strings.TrimSpace(sc.Text())
		if line == "" || strings.HasPrefix(line, "#") {
			continue
		}
		p, ok := parseLine(line)
		if !ok || (r.c == nil && p.kind != "newcluster" && p.kind != "curate") {
			fmt.Println("bad-op")
			continue
		}
		r.exec(p)
	}
	if r.c != nil {
		r.c.close()
	}
}
