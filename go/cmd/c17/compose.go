// Cluster-level correspondence stream (`-cluster N`): the composed model of SemaModel/ClusterCompose
// (C13 routing + C15 placement / quotas + C16 tenant keys + C17 fan-out) against 1..3 real in-process
// servers.  Every node is configured with its OWN permutation of the server list; several tenants
// (user ids that are prefixes of each other) create / fill / update / delete / read / drop several
// collections through every node as entry node.  After the calls the harness dumps EVERY node: the
// collection records of its node database and every shard directory on its disk with its points.
// The model (`semadriver C17 cluster`) answers the same op lines and dumps; its abstract hash is
// instantiated by the real one: the harness writes `score` lines with
// xxhash.Sum64String(key + server) for every routed key (user ids, shard ids) and every server.
// The uuids RPCCreateShard draws are read back from the collection record and put on the insert line.
package main

import (
	"encoding/hex"
	"fmt"
	"net"
	"os"
	"path/filepath"
	"sort"
	"strings"
	"time"

	"github.com/cespare/xxhash"
	"github.com/google/uuid"
	"github.com/semafind/semadb/cluster"
	"github.com/semafind/semadb/diskstore"
	"github.com/semafind/semadb/models"
	"github.com/vmihailenco/msgpack/v5"
	"verifharness/vh"
)

type cclu struct {
	dir    string
	nodes  []*cluster.ClusterNode
	names  []string
	roots  []string
	scored map[string]bool
	lists  [][]string // every node's own server list (a permutation of names)
	start  int        // op-line number of this scenario's newcluster line
}

// op-line numbers of the scenarios in which the REAL owner computation (cluster.RendezvousHash, through some node's own
// server list) names another server than the minimum of the real scores written to the `score` lines - which is what the
// composed model routes by.  Such a scenario diverges because of routing (C13), whatever the lines after show; written to
// cluster/stats.json as "routing_diverged" and used by props/C17.py to hand those scenarios' differences to C13.
var routingDiverged []int
var routingDivergedSeen = map[int]bool{}

func newComposeCluster(servers, maxShard int, lists [][]int, useed uint64) *cclu {
	dir, err := os.MkdirTemp(tmpBase, "c17c-")
	if err != nil {
		panic(err)
	}
	c := &cclu{dir: dir, scored: map[string]bool{}}
	ports := freePorts(servers)
	uuid.SetRand(&detRand{s: useed})
	for _, p := range ports {
		c.names = append(c.names, fmt.Sprintf("127.0.0.1:%d", p))
	}
	for i, p := range ports {
		root := fmt.Sprintf("%s/n%d", dir, i)
		var list []string
		for _, j := range lists[i] {
			list = append(list, c.names[j])
		}
		c.lists = append(c.lists, list)
		n, err := cluster.NewNode(cluster.ClusterNodeConfig{
			RootDir: root, Servers: list, RpcHost: "127.0.0.1", RpcPort: p, RpcTimeout: 5, RpcRetries: 1,
			MaxShardSize: 1 << 30, MaxShardPointCount: int64(maxShard), MaxSearchLimit: 75,
			ShardManager: cluster.ShardManagerConfig{RootDir: root, ShardTimeout: 20, MaxCacheSize: 0},
		})
		if err != nil {
			panic(err)
		}
		if err := n.Serve(); err != nil {
			panic(err)
		}
		c.nodes, c.roots = append(c.nodes, n), append(c.roots, root)
	}
	for _, name := range c.names {
		for t := 0; t < 200; t++ {
			conn, err := net.DialTimeout("tcp", name, 100*time.Millisecond)
			if err == nil {
				conn.Close()
				break
			}
			time.Sleep(5 * time.Millisecond)
		}
	}
	return c
}

func (c *cclu) close() {
	for _, n := range c.nodes {
		n.Close()
	}
	os.RemoveAll(c.dir)
}

type composeRun struct {
	out   *vh.Out
	c     *cclu
	lines []string
}

func (r *composeRun) emit(kind, line, impl string, nontrivial bool) {
	r.lines = append(r.lines, line)
	r.out.Emit(kind, line, impl, nontrivial)
}

// the real scores of a routed key, once per key
func (r *composeRun) scores(key string) {
	if r.c.scored[key] {
		return
	}
	r.c.scored[key] = true
	best, bestScore := "", uint64(0)
	for _, s := range r.c.names {
		sc := xxhash.Sum64String(key + s)
		r.emit("score", fmt.Sprintf("score %s %d", hex.EncodeToString([]byte(key+s)), sc), "ok", false)
		if best == "" || sc < bestScore {
			best, bestScore = s, sc
		}
	}
	for i, list := range r.c.lists {
		if got := cluster.RendezvousHash(key, list, 1); len(got) != 1 || got[0] != best {
			if !routingDivergedSeen[r.c.start] {
				routingDivergedSeen[r.c.start] = true
				routingDiverged = append(routingDiverged, r.c.start)
				r.out.Note("C13", "c17 cluster stream", "routing:"+hex.EncodeToString([]byte(key)),
					fmt.Sprintf("cluster.RendezvousHash(%q, the server list of node %d, 1) = %v, the server with the smallest xxhash.Sum64String(key+server) is %s: the owner computation itself departs from rendezvous hashing (C13); the composed model routes by the scores, so this scenario diverges by routing", key, i, got, best),
					strings.Join(r.lines, "\n"))
			}
			break
		}
	}
}

func hx(s string) string {
	if s == "" {
		return "-"
	}
	return hex.EncodeToString([]byte(s))
}

func idHex(tok int) string { u := uuidOf(tok); return hex.EncodeToString(u[:]) }

func fmtCPts(p [][2]int64) string {
	if len(p) == 0 {
		return "-"
	}
	var s []string
	for _, q := range p {
		s = append(s, fmt.Sprintf("%s:%d", idHex(int(q[0])), q[1]))
	}
	return strings.Join(s, ",")
}

func showCFailed(fp []cluster.FailedPoint) string {
	var s []string
	for _, f := range fp {
		m := "?" + f.Err
		switch f.Err {
		case "not found":
			m = "nf"
		case cluster.ErrShardUnavailable.Error():
			m = "un"
		}
		s = append(s, hex.EncodeToString(f.Id[:])+":"+m)
	}
	if len(s) == 0 {
		return "failed -"
	}
	return "failed " + strings.Join(s, ",")
}

// every node: the records of its node database, the shard directories on its disk with their points
func (r *composeRun) dump() string {
	var parts []string
	for i, n := range r.c.nodes {
		var recs []string
		n.VerifNodeDB().Read(func(bm diskstore.BucketManager) error {
			b, err := bm.Get(cluster.USERCOLSBUCKETKEY)
			if err != nil {
				return nil
			}
			return b.ForEach(func(k, v []byte) error {
				var col models.Collection
				if err := msgpack.Unmarshal(v, &col); err != nil {
					recs = append(recs, hex.EncodeToString(k)+"=?")
					return nil
				}
				sh := "-"
				if len(col.ShardIds) > 0 {
					sh = strings.Join(col.ShardIds, "+")
				}
				recs = append(recs, fmt.Sprintf("%s=%d:%s", hex.EncodeToString(k), col.UserPlan.MaxCollectionPointCount, sh))
				return nil
			})
		})
		sort.Strings(recs)
		var dirs []string
		paths, _ := filepath.Glob(filepath.Join(r.c.roots[i], cluster.USERCOLSDIR, "*", "*", "*"))
		for _, p := range paths {
			sid := filepath.Base(p)
			colId := filepath.Base(filepath.Dir(p))
			user := filepath.Base(filepath.Dir(filepath.Dir(p)))
			req := cluster.RPCSearchPointsRequest{RPCRequestArgs: cluster.RPCRequestArgs{Source: n.MyHostname, Dest: n.MyHostname},
				Collection: models.Collection{UserId: user, Id: colId, Replicas: 1, IndexSchema: schema, UserPlan: plan}, ShardId: sid,
				SearchRequest: models.SearchRequest{Query: allQuery, Select: []string{"k"}}}
			var resp cluster.RPCSearchPointsResponse
			pts := "?"
			if err := n.RPCSearchPoints(&req, &resp); err == nil {
				var ps []string
				for _, q := range resp.Points {
					k, _ := q.DecodedData["k"].(int64)
					ps = append(ps, fmt.Sprintf("%s:%d", hex.EncodeToString(q.Id[:]), k))
				}
				sort.Strings(ps)
				pts = "-"
				if len(ps) > 0 {
					pts = strings.Join(ps, "+")
				}
			}
			dirs = append(dirs, fmt.Sprintf("%s/%s/%s=%s", hx(user), hx(colId), sid, pts))
		}
		sort.Strings(dirs)
		parts = append(parts, fmt.Sprintf("n%d db[%s] sh[%s]", i, strings.Join(recs, ","), strings.Join(dirs, ",")))
	}
	return strings.Join(parts, " ")
}

type ccol struct {
	user, id string
	quota    int64
	live     []int // tokens the harness believes to be stored
}

func runComposeScenario(r *composeRun, rng *vh.Rng, idx int) {
	servers := 1 + rng.Intn(3)
	maxShard := 2 + rng.Intn(3)
	lists := make([][]int, servers)
	var ls []string
	for i := range lists {
		perm := make([]int, servers)
		for j := range perm {
			perm[j] = j
		}
		for j := servers - 1; j > 0; j-- {
			k := rng.Intn(j + 1)
			perm[j], perm[k] = perm[k], perm[j]
		}
		lists[i] = perm
		var t []string
		for _, j := range perm {
			t = append(t, fmt.Sprint(j))
		}
		ls = append(ls, strings.Join(t, "."))
	}
	if r.c != nil {
		r.c.close()
	}
	r.c = newComposeCluster(servers, maxShard, lists, rng.U64())
	r.lines = nil
	var nm []string
	for _, n := range r.c.names {
		nm = append(nm, hex.EncodeToString([]byte(n)))
	}
	r.emit("newcluster", fmt.Sprintf("newcluster maxc=%d names=%s lists=%s", maxShard, strings.Join(nm, ","), strings.Join(ls, "|")), "ok", false)
	r.c.start = r.out.N
	users := []string{"ab", "abc", "a", "abcd"}[:2+rng.Intn(3)]
	colIds := []string{"cde", "de", "bcd"}
	var cols []*ccol
	find := func(u, id string) *ccol {
		for _, c := range cols {
			if c.user == u && c.id == id {
				return c
			}
		}
		return nil
	}
	next := 1 + idx*1000
	nops := 18 + rng.Intn(18)
	for step := 0; step < nops; step++ {
		e := rng.Intn(servers)
		u := vh.Pick(rng, users)
		id := vh.Pick(rng, colIds)
		if len(cols) > 0 && rng.Chance(80) { // mostly an existing collection
			x := vh.Pick(rng, cols)
			u, id = x.user, x.id
		}
		cc := find(u, id)
		node := r.c.nodes[e]
		r.scores(u)
		base := fmt.Sprintf("e=%d u=%s c=%s", e, hx(u), hx(id))
		col := models.Collection{UserId: u, Id: id, Replicas: 1, IndexSchema: schema, UserPlan: plan}
		fetch := func() (models.Collection, bool) {
			got, err := node.GetCollection(u, id)
			return got, err == nil
		}
		choice := rng.Intn(100)
		if cc == nil && choice < 60 {
			choice = 0
		}
		switch {
		case choice < 8: // create
			quota := int64(5 + rng.Intn(14))
			maxCols := 1 + rng.Intn(3)
			col.UserPlan.MaxCollectionPointCount, col.UserPlan.MaxCollections = quota, maxCols
			err := node.CreateCollection(col)
			impl := "ok"
			switch err {
			case nil:
				cols = append(cols, &ccol{user: u, id: id, quota: quota})
			case cluster.ErrExists:
				impl = "exists"
			case cluster.ErrQuotaReached:
				impl = "quota"
			default:
				impl = "?" + err.Error()
			}
			r.emit("create", fmt.Sprintf("create %s quota=%d maxcols=%d", base, quota, maxCols), impl, true)
		case choice < 48: // insert fresh points
			got, ok := fetch()
			var pts [][2]int64
			for j := 1 + rng.Intn(5); j > 0; j-- {
				pts = append(pts, [2]int64{int64(next), int64(rng.Intn(1000))})
				next++
			}
			if !ok {
				r.emit("insert", fmt.Sprintf("insert %s pts=%s new=-", base, fmtCPts(pts)), "notfound", false)
				break
			}
			for _, s := range got.ShardIds {
				r.scores(s)
			}
			fr, err := node.InsertPoints(got, encPoints(pts, true))
			after, _ := fetch()
			newIds := after.ShardIds[len(got.ShardIds):]
			impl := ""
			switch {
			case err == cluster.ErrQuotaReached:
				impl = "quota"
			case err != nil:
				impl = "err"
			default:
				sort.Slice(fr, func(a, b int) bool { return fr[a].Start < fr[b].Start })
				var s []string
				for _, f := range fr {
					s = append(s, fmt.Sprintf("%s:%d:%d", f.ShardId, f.Start, f.End))
				}
				impl = "inserted -"
				if len(s) > 0 {
					impl = "inserted " + strings.Join(s, ",")
				}
				if len(fr) == 0 && cc != nil {
					for _, p := range pts {
						cc.live = append(cc.live, int(p[0]))
					}
				}
			}
			for _, s := range newIds {
				r.scores(s)
			}
			nw := "-"
			if len(newIds) > 0 {
				nw = strings.Join(newIds, ",")
			}
			r.emit("insert", fmt.Sprintf("insert %s pts=%s new=%s", base, fmtCPts(pts), nw), impl, len(after.ShardIds) > 1)
		case choice < 68: // update: some stored ids, some unknown
			got, ok := fetch()
			var pts [][2]int64
			if cc != nil {
				for j := rng.Intn(4); j > 0 && len(cc.live) > 0; j-- {
					pts = append(pts, [2]int64{int64(vh.Pick(rng, cc.live)), int64(rng.Intn(1000))})
				}
			}
			for j := rng.Intn(3); j > 0 || len(pts) == 0; j-- {
				pts = append(pts, [2]int64{int64(900000 + rng.Intn(50)), int64(rng.Intn(1000))})
			}
			if !ok {
				r.emit("update", fmt.Sprintf("update %s pts=%s", base, fmtCPts(pts)), "notfound", false)
				break
			}
			for _, s := range got.ShardIds {
				r.scores(s)
			}
			fp, err := node.UpdatePoints(got, encPoints(pts, false))
			impl := showCFailed(fp)
			if err != nil {
				impl = "err"
			}
			r.emit("update", fmt.Sprintf("update %s pts=%s", base, fmtCPts(pts)), impl, len(got.ShardIds) > 1)
		case choice < 82: // delete
			got, ok := fetch()
			var toks []int
			if cc != nil {
				for j := rng.Intn(3); j > 0 && len(cc.live) > 0; j-- {
					toks = append(toks, vh.Pick(rng, cc.live))
				}
			}
			for j := rng.Intn(2); j > 0 || len(toks) == 0; j-- {
				toks = append(toks, 900000+rng.Intn(50))
			}
			var ids []uuid.UUID
			var hs []string
			for _, t := range toks {
				ids = append(ids, uuidOf(t))
				hs = append(hs, idHex(t))
			}
			if !ok {
				r.emit("delete", fmt.Sprintf("delete %s ids=%s", base, strings.Join(hs, ",")), "notfound", false)
				break
			}
			for _, s := range got.ShardIds {
				r.scores(s)
			}
			fp, err := node.DeletePoints(got, ids)
			impl := showCFailed(fp)
			if err != nil {
				impl = "err"
			} else if cc != nil {
				var keep []int
				for _, l := range cc.live {
					del := false
					for _, t := range toks {
						del = del || t == l
					}
					if !del {
						keep = append(keep, l)
					}
				}
				cc.live = keep
			}
			r.emit("delete", fmt.Sprintf("delete %s ids=%s", base, strings.Join(hs, ",")), impl, len(got.ShardIds) > 1)
		case choice < 94: // get: shard ids and point counts
			got, ok := fetch()
			if !ok {
				r.emit("get", "get "+base, "notfound", false)
				break
			}
			for _, s := range got.ShardIds {
				r.scores(s)
			}
			var s []string
			impl := ""
			for _, sid := range got.ShardIds {
				req := cluster.RPCGetShardInfoRequest{RPCRequestArgs: cluster.RPCRequestArgs{Source: node.MyHostname,
					Dest: cluster.RendezvousHash(sid, node.Servers, 1)[0]}, Collection: got, ShardId: sid}
				var resp cluster.RPCGetShardInfoResponse
				if err := node.RPCGetShardInfo(&req, &resp); err != nil {
					impl = "err"
					break
				}
				s = append(s, fmt.Sprintf("%s=%d", sid, resp.PointCount))
			}
			if impl == "" {
				impl = "info -"
				if len(s) > 0 {
					impl = "info " + strings.Join(s, ",")
				}
			}
			r.emit("get", "get "+base, impl, len(got.ShardIds) > 1)
		default: // drop
			got, ok := fetch()
			if !ok {
				r.emit("drop", "drop "+base, "notfound", false)
				break
			}
			for _, s := range got.ShardIds {
				r.scores(s)
			}
			deleted, err := node.DeleteCollection(got)
			impl := "err"
			if err == nil {
				sort.Strings(deleted)
				impl = "dropped -"
				if len(deleted) > 0 {
					impl = "dropped " + strings.Join(deleted, ",")
				}
				for i, c := range cols {
					if c == cc {
						cols = append(cols[:i], cols[i+1:]...)
						break
					}
				}
			}
			r.emit("drop", "drop "+base, impl, len(got.ShardIds) > 1)
		}
		if step%4 == 3 || step == nops-1 {
			r.emit("dump", "dump", r.dump(), servers > 1)
		}
	}
}

func runCompose(dir string, seed uint64, n int) {
	o := vh.NewOut(filepath.Join(dir, "cluster"))
	r := &composeRun{out: o}
	rng := vh.NewRng(seed ^ 0xC1057E12)
	t0 := time.Now()
	cfgs := map[string]int{}
	for i := 0; i < n; i++ {
		runComposeScenario(r, rng, i)
		cfgs[fmt.Sprintf("servers=%d", len(r.c.nodes))]++
	}
	if r.c != nil {
		r.c.close()
	}
	o.Close(map[string]any{
		"rule":           "one case = one cluster API call through some entry node (create / insert / update / delete / get / drop) or a dump of every node; non-trivial = distinct op line on a collection with at least two shards (dump: at least two servers)",
		"configurations": cfgs,
		"harness_s":      time.Since(t0).Seconds(),
		"routing_diverged": routingDiverged,
	})
}
