package main

// Collection schema, documents, queries and the sequential reference model (a plain map
// uuid -> document, shallow-merge updates with "_delete") used by the timeline oracle.

import (
	"encoding/binary"
	"fmt"
	"math"
	"sort"
	"strings"

	"github.com/google/uuid"
	"github.com/semafind/semadb/models"
	"github.com/vmihailenco/msgpack/v5"
	"verifharness/vh"
)

const (
	propVec  = "vector"
	propFlat = "flat"
	propSize = "size"
)

func collection(degree int) models.Collection {
	return models.Collection{
		UserId: "verif", Id: "c09", Replicas: 1,
		IndexSchema: models.IndexSchema{
			propVec: models.IndexSchemaValue{Type: models.IndexTypeVectorVamana, VectorVamana: &models.IndexVectorVamanaParameters{
				VectorSize: 2, DistanceMetric: models.DistanceEuclidean, SearchSize: 75, DegreeBound: degree, Alpha: 1.2}},
			propFlat: models.IndexSchemaValue{Type: models.IndexTypeVectorFlat, VectorFlat: &models.IndexVectorFlatParameters{
				VectorSize: 2, DistanceMetric: models.DistanceEuclidean}},
			propSize: models.IndexSchemaValue{Type: models.IndexTypeInteger},
		},
		UserPlan: models.UserPlan{Name: "verif", MaxCollections: 1, MaxCollectionPointCount: 1000000, MaxPointSize: 100000},
	}
}

// Doc is the harness' view of a document: always a flat map with these fields (any may be absent).
type Doc map[string]any

func mkUUID(r *vh.Rng) uuid.UUID {
	var u uuid.UUID
	binary.BigEndian.PutUint64(u[:8], r.U64())
	binary.BigEndian.PutUint64(u[8:], r.U64())
	u[6] = (u[6] & 0x0f) | 0x40
	u[8] = (u[8] & 0x3f) | 0x80
	return u
}

func mkDoc(x, y float32, size int, rev int) Doc {
	return Doc{propVec: []float32{x, y}, propFlat: []float32{x, y}, propSize: int64(size), "rev": int64(rev), "tag": fmt.Sprintf("t%d", rev)}
}

func encodeDoc(d Doc) []byte {
	b, err := msgpack.Marshal(map[string]any(d))
	if err != nil {
		panic(err)
	}
	return b
}

// canon renders a decoded msgpack value deterministically (sorted keys; floats by bit pattern).
func canon(v any) string {
	var sb strings.Builder
	canonTo(&sb, v)
	return sb.String()
}

func canonTo(sb *strings.Builder, v any) {
	switch x := v.(type) {
	case nil:
		sb.WriteString("nil")
	case map[string]any:
		keys := make([]string, 0, len(x))
		for k := range x {
			keys = append(keys, k)
		}
		sort.Strings(keys)
		sb.WriteByte('{')
		for _, k := range keys {
			sb.WriteString(k)
			sb.WriteByte(':')
			canonTo(sb, x[k])
			sb.WriteByte(',')
		}
		sb.WriteByte('}')
	case Doc:
		canonTo(sb, map[string]any(x))
	case models.PointAsMap:
		canonTo(sb, map[string]any(x))
	case []any:
		sb.WriteByte('[')
		for _, e := range x {
			canonTo(sb, e)
			sb.WriteByte(',')
		}
		sb.WriteByte(']')
	case []float32:
		sb.WriteByte('[')
		for _, e := range x {
			canonTo(sb, e)
			sb.WriteByte(',')
		}
		sb.WriteByte(']')
	case float32:
		fmt.Fprintf(sb, "f%08x", math.Float32bits(x))
	case float64:
		// msgpack keeps float32 as float32; a float64 only appears if somebody re-encoded
		fmt.Fprintf(sb, "d%016x", math.Float64bits(x))
	case string:
		fmt.Fprintf(sb, "%q", x)
	case bool:
		fmt.Fprintf(sb, "%v", x)
	case int, int8, int16, int32, int64, uint, uint8, uint16, uint32, uint64:
		fmt.Fprintf(sb, "i%d", x)
	default:
		fmt.Fprintf(sb, "?%T:%v", x, x)
	}
}

func canonBytes(data []byte) (s string, err error) {
	if len(data) == 0 {
		return "{}", nil
	}
	var m map[string]any
	if err = msgpack.Unmarshal(data, &m); err != nil {
		return "", err
	}
	return canon(m), nil
}

// ------------------------------------------------------------------------------------ reference

type Batch struct {
	Kind   string // insert | update | delete | badinsert
	Ids    []uuid.UUID
	Docs   []Doc // insert: full docs; update: partial docs (value "_delete" removes the key)
	Seq    int64 // commit sequence number (-1: not committed)
	Failed bool
}

type RefState map[uuid.UUID]string // uuid -> canonical document

type refDocs map[uuid.UUID]Doc

func cloneDoc(d Doc) Doc {
	c := Doc{}
	for k, v := range d {
		c[k] = v
	}
	return c
}

// applyBatch is the sequential specification of one successful batch (C01's spec, restricted to
// what the harness generates: no duplicate ids inside a batch).
func applyBatch(st refDocs, b *Batch) refDocs {
	out := make(refDocs, len(st)+len(b.Ids))
	for k, v := range st {
		out[k] = v
	}
	switch b.Kind {
	case "insert":
		for i, id := range b.Ids {
			out[id] = cloneDoc(b.Docs[i])
		}
	case "update":
		for i, id := range b.Ids {
			old, ok := out[id]
			if !ok {
				continue
			}
			nd := cloneDoc(old)
			for k, v := range b.Docs[i] {
				if s, isS := v.(string); isS && s == "_delete" {
					delete(nd, k)
				} else {
					nd[k] = v
				}
			}
			out[id] = nd
		}
	case "delete":
		for _, id := range b.Ids {
			delete(out, id)
		}
	}
	return out
}

func canonState(st refDocs) RefState {
	out := make(RefState, len(st))
	for k, v := range st {
		// go through msgpack so that the integer / float representation is the decoder's
		s, err := canonBytes(encodeDoc(v))
		if err != nil {
			panic(err)
		}
		out[k] = s
	}
	return out
}

// ------------------------------------------------------------------------------------ queries

type QSpec struct {
	Kind   string // vamana | flat | size
	X, Y   float32
	K      int
	Filter bool // pre-filter size in [Lo,Hi]
	Lo, Hi int64
	And    bool // wrap in _and with a size filter (evaluated on library goroutines)
}

func (q QSpec) String() string {
	return fmt.Sprintf("%s(%08x,%08x,k=%d,filter=%v[%d,%d],and=%v)", q.Kind, math.Float32bits(q.X), math.Float32bits(q.Y), q.K, q.Filter, q.Lo, q.Hi, q.And)
}

func (q QSpec) request() models.SearchRequest {
	var filt *models.Query
	if q.Filter {
		filt = &models.Query{Property: propSize, Integer: &models.SearchIntegerOptions{Value: q.Lo, EndValue: q.Hi, Operator: models.OperatorInRange}}
	}
	var mq models.Query
	switch q.Kind {
	case "vamana":
		mq = models.Query{Property: propVec, VectorVamana: &models.SearchVectorVamanaOptions{Vector: []float32{q.X, q.Y}, Operator: models.OperatorNear, SearchSize: 75, Limit: q.K, Filter: filt}}
	case "flat":
		mq = models.Query{Property: propFlat, VectorFlat: &models.SearchVectorFlatOptions{Vector: []float32{q.X, q.Y}, Operator: models.OperatorNear, Limit: q.K, Filter: filt}}
	case "size":
		mq = models.Query{Property: propSize, Integer: &models.SearchIntegerOptions{Value: q.Lo, EndValue: q.Hi, Operator: models.OperatorInRange}}
	}
	if q.And {
		mq = models.Query{Property: "_and", And: []models.Query{mq, {Property: propSize, Integer: &models.SearchIntegerOptions{Value: -1 << 40, Operator: models.OperatorGreaterOrEq}}}}
	}
	return models.SearchRequest{Query: mq, Select: []string{"*"}, Limit: 75}
}

// Hit is one canonicalised search result.
type Hit struct {
	Id   uuid.UUID
	Dist string // hex bits of the distance or "-"
	Doc  string // canonical document, or "!<error>" when it could not be decoded
}

func (h Hit) String() string { return h.Id.String() + "/" + h.Dist + "/" + h.Doc }

func hitsString(hs []Hit) string {
	ss := make([]string, len(hs))
	for i, h := range hs {
		ss[i] = h.String()
	}
	return strings.Join(ss, ";")
}

func toHits(res []models.SearchResult) []Hit {
	out := make([]Hit, 0, len(res))
	for _, r := range res {
		h := Hit{Id: r.Point.Id, Dist: "-"}
		if r.Distance != nil {
			h.Dist = fmt.Sprintf("%08x", math.Float32bits(*r.Distance))
		}
		if r.DecodedData != nil {
			h.Doc = canon(map[string]any(r.DecodedData))
		} else if s, err := canonBytes(r.Point.Data); err != nil {
			h.Doc = "!" + err.Error()
		} else {
			h.Doc = s
		}
		out = append(out, h)
	}
	return out
}
