package main

// Forced families that drive the yield points INSIDE the cache manager (shard/cache, build tag
// verif: cache.VerifYield is called at every lock / map / callback boundary of Transaction.With,
// Transaction.Commit, Manager.checkAndPrune, Manager.Release) in addition to the storage proxy:
//
//	coldrace/<point>   a cold search is parked at <point> of the new-cache path of With (before
//	                   construction, before registration, before the manager lock is released,
//	                   before the callback) while a write batch on the same index runs as far as
//	                   it can; then the search finishes, then the writer.
//	wfailq[/mgr]       writer 1 fails late (storage fault after the index stage: counter put or
//	                   commit) and is parked after its rollback, before cacheTx.Commit; writer 2
//	                   starts and runs until it waits for the cache writer 1 still holds; [a
//	                   third party - a search parked right after the manager lock of its With -
//	                   holds the manager lock;] writer 1 runs as far as it can, then writer 2,
//	                   then everybody finishes.
//	wokq[/mgr]         the same with a writer 1 that commits.
//
// "As far as it can" is decided by looking at the goroutines of the process (Ctl.DetectBlock),
// not by a time-out: the families describe an order of events, which lock stops whom is up to
// the code under test. Judged by the property itself: no crash, no spurious failure, every
// point an overlapping search returns is live in a committed version of its window; after
// everybody has finished the points bucket + counter equal the sequential application of the
// successful batches in commit order, and searches answer the same on the warm shared cache, on
// a fresh shard on a copy of the file, and on a SEQUENTIAL REFERENCE (a fresh shard on a copy of
// the file as it was before the schedule, to which the successful batches were applied one after
// the other in commit order).

import (
	"fmt"
	"os"
	"path/filepath"
	"sort"
	"strings"
	"time"

	"github.com/google/uuid"
	"github.com/semafind/semadb/conversion"
	"github.com/semafind/semadb/diskstore"
	"github.com/semafind/semadb/models"
	"github.com/semafind/semadb/shard"
	"github.com/semafind/semadb/shard/cache"
	"github.com/semafind/semadb/shard/pointstore"
)

type wop struct {
	Kind string // insert | delete | move
	Id   uuid.UUID
	Doc  Doc // insert: the document; move: the partial document (new vector)
	X, Y float32
}

func (w wop) String() string {
	only := ""
	if w.Kind == "insert" {
		if _, ok := w.Doc[propFlat]; !ok {
			only = ",graph index only"
		} else if _, ok := w.Doc[propVec]; !ok {
			only = ",flat index only"
		}
	}
	return fmt.Sprintf("%s(%s@%g,%g%s)", w.Kind, w.Id.String()[:8], w.X, w.Y, only)
}

func (w wop) run(sh *shard.Shard) error {
	switch w.Kind {
	case "insert":
		return sh.InsertPoints([]models.Point{{Id: w.Id, Data: encodeDoc(w.Doc)}})
	case "delete":
		got, err := sh.DeletePoints(map[uuid.UUID]struct{}{w.Id: {}})
		if err == nil && len(got) != 1 {
			return fmt.Errorf("delete of a live point reported %d ids", len(got))
		}
		return err
	case "move":
		got, err := sh.UpdatePoints([]models.Point{{Id: w.Id, Data: encodeDoc(w.Doc)}})
		if err == nil && len(got) != 1 {
			return fmt.Errorf("update of a live point reported %d ids", len(got))
		}
		return err
	}
	panic("bad wop")
}

func (w wop) applyTo(docs refDocs) {
	switch w.Kind {
	case "insert":
		docs[w.Id] = cloneDoc(w.Doc)
	case "delete":
		delete(docs, w.Id)
	case "move":
		nd := cloneDoc(docs[w.Id])
		for k, v := range w.Doc {
			nd[k] = v
		}
		docs[w.Id] = nd
	}
}

func errString(err error) string {
	if err == nil {
		return ""
	}
	return err.Error()
}

// mkWop: an operation on / next to seeded point number i (on the line at x = 10 i).
func (e *forcedEnv) mkWop(kind string, i int, dx float32) wop {
	switch kind {
	case "insert":
		x, y := float32(10*i)+dx, float32(0.25)
		id, d := e.newPoint(x, y, 1000000+i)
		return wop{Kind: kind, Id: id, Doc: d, X: x, Y: y}
	case "delete":
		v := e.docs[e.ids[i]][propVec].([]float32)
		return wop{Kind: kind, Id: e.ids[i], X: v[0], Y: v[1]}
	case "move":
		// behind the end of the line: the point leaves its neighbourhood (delete + re-insert in the graph)
		x, y := float32(10*len(e.ids)+200)+dx, float32(0.25)
		rev := e.nextRev
		e.nextRev++
		return wop{Kind: kind, Id: e.ids[i], Doc: Doc{propVec: []float32{x, y}, propFlat: []float32{x, y}, "rev": int64(rev)}, X: x, Y: y}
	}
	panic("bad kind")
}

var wopKinds = []string{"insert", "delete", "move"}

// reference: a fresh shard (no shared cache) on a copy of snapshot `from`, with ops applied sequentially.
func (e *forcedEnv) reference(from string, ops []wop) *shard.Shard {
	p := filepath.Join(e.dir, "reference.bbolt")
	b, err := os.ReadFile(e.snaps[from])
	if err != nil {
		panic(err)
	}
	if err := os.WriteFile(p, b, 0o644); err != nil {
		panic(err)
	}
	sh, err := shard.NewShard(p, e.col, nil)
	if err != nil {
		panic(err)
	}
	for _, op := range ops {
		if err := op.run(sh); err != nil {
			panic(fmt.Sprintf("sequential reference: %s failed: %v", op, err))
		}
	}
	return sh
}

func shortAnswer(o searchOut) string {
	if o.Err != "" {
		return "error " + normErr(o.Err)
	}
	var ids []string
	for _, h := range o.Hits {
		ids = append(ids, h.Id.String()[:8]+"/"+h.Dist)
	}
	return fmt.Sprintf("%d hits [%s]", len(o.Hits), strings.Join(ids, " "))
}

// quiescent: everybody has finished. Thread `name` answers qs on the running instance; the
// answers must equal those of a fresh shard on a copy of the file (label) and of the sequential
// reference; the points bucket and the counter must be the reference state e.docs.
func (e *forcedEnv) quiescent(name, label string, qs []QSpec, ref *shard.Shard, history string) threadReport {
	c := e.ctl
	c.Mute = true
	c.Spawn(name, func() any {
		var outs []searchOut
		for _, q := range qs {
			outs = append(outs, doSearch(e.sh, q))
		}
		return outs
	})
	so := c.RunUntil(name, "", 0)
	th := c.byName[name]
	tr := threadReport{Thread: name, Class: "ok"}
	switch {
	case so.Kind != "done" || !th.fin:
		tr.Class = "blocked"
		return tr
	case th.res.Panic != "":
		tr.Class, tr.Detail = "other:panic", normErr(th.res.Panic)
		e.notes = append(e.notes, name+" panic: "+th.res.Panic+"\n"+firstFrames(th.res.Stack, 14))
		return tr
	}
	warm := th.res.Val.([]searchOut)
	for i, q := range qs {
		w, cold, sq := warm[i], e.coldAnswer(label, q), doSearch(ref, q)
		tr.Hits += len(w.Hits)
		ws, cs, ss := w.Err+"|"+hitsString(w.Hits), cold.Err+"|"+hitsString(cold.Hits), sq.Err+"|"+hitsString(sq.Hits)
		if ws == cs && cs == ss {
			continue
		}
		cls := "warm-cold-mismatch"
		if ws == cs {
			cls = "not-sequential"
		}
		if tr.Class == "ok" {
			tr.Class = cls
			tr.Detail = fmt.Sprintf("after everybody finished (%s), query %s: warm %s ; fresh shard on a copy of the file %s ; sequential reference %s", history, q, shortAnswer(w), shortAnswer(cold), shortAnswer(sq))
		}
		e.notes = append(e.notes, fmt.Sprintf("quiescent %s: query %s: warm %.300s ; cold %.300s ; sequential reference %.300s", cls, q, ws, cs, ss))
	}
	// the state itself
	got, count, err := dumpPoints(e.sh.VerifDB())
	want := canonState(e.docs)
	bad := ""
	if err != nil {
		bad = "dump failed: " + err.Error()
	}
	for id, d := range want {
		if got[id] != d && bad == "" {
			bad = fmt.Sprintf("point %s: stored %q, sequential application of the successful batches gives %q", id, got[id], d)
		}
	}
	for id := range got {
		if _, ok := want[id]; !ok && bad == "" {
			bad = fmt.Sprintf("point %s is stored but absent from the sequential application of the successful batches", id)
		}
	}
	if int(count) != len(want) && bad == "" {
		bad = fmt.Sprintf("point count %d, sequential application gives %d", count, len(want))
	}
	if bad != "" {
		e.notes = append(e.notes, "final state: "+bad)
		if tr.Class == "ok" {
			tr.Class, tr.Detail = "final-state-mismatch", bad+" ("+history+")"
		}
	}
	// ... and every record of the file
	if diffs := e.bucketDiff(e.sh.VerifDB().(*pStore).inner, ref.VerifDB()); len(diffs) > 0 {
		n := len(diffs)
		if n > 4 {
			diffs = diffs[:4]
		}
		d := fmt.Sprintf("after everybody finished (%s) the file differs from the sequential reference in %d records: %s", history, n, strings.Join(diffs, " ; "))
		e.notes = append(e.notes, d)
		if tr.Class == "ok" {
			tr.Class, tr.Detail = "not-sequential", d
		}
	}
	return tr
}

// bucketDiff compares every bucket of two shard files key by key (points, internal counters, one
// bucket per index of the schema) and describes the first differences. Batches of ONE point are
// applied deterministically by every index, so after the same successful batches in the same
// order the two files hold the same records.
func (e *forcedEnv) bucketDiff(a, b diskstore.DiskStore) []string {
	names := []string{pointstore.POINTSBUCKETNAME, shard.INTERNALBUCKETNAME}
	for prop, v := range e.col.IndexSchema {
		names = append(names, fmt.Sprintf("index/%s/%s", v.Type, prop))
	}
	sort.Strings(names)
	dump := func(db diskstore.DiskStore) map[string]map[string]string {
		out := map[string]map[string]string{}
		err := db.Read(func(bm diskstore.BucketManager) error {
			for _, n := range names {
				bk, err := bm.Get(n)
				if err != nil {
					return err
				}
				m := map[string]string{}
				out[n] = m
				err = bk.ForEach(func(k, v []byte) error {
					val := string(v)
					switch {
					case n == pointstore.POINTSBUCKETNAME && len(k) > 0 && k[len(k)-1] == 'd' && k[0] == 'n':
						// documents are msgpack maps written in Go map order
						if c, err := canonBytes(v); err == nil {
							val = "=" + c
						}
					case n == shard.INTERNALBUCKETNAME && string(k) == string(shard.FREENODEIDSKEY),
						strings.HasPrefix(n, "index/"+models.IndexTypeVectorVamana+"/") && len(k) > 0 && k[0] == 'n' && k[len(k)-1] == 'e':
						// the set of free node ids is written in Go map order; so are the nodes a delete
						// re-attaches to the entry node of the graph (an edge list is compared as a set)
						ids := conversion.BytesToEdgeList(v)
						sort.Slice(ids, func(i, j int) bool { return ids[i] < ids[j] })
						val = "=" + fmt.Sprint(ids)
					}
					m[string(k)] = val
					return nil
				})
				if err != nil {
					return err
				}
			}
			return nil
		})
		if err != nil {
			panic(err)
		}
		return out
	}
	da, db := dump(a), dump(b)
	var diffs []string
	show := func(v string, ok bool) string {
		if !ok {
			return "absent"
		}
		if strings.HasPrefix(v, "=") { // canonical rendering (document / set of node ids)
			if len(v) > 160 {
				return v[1:160] + "…"
			}
			return v[1:]
		}
		if len(v) > 24 {
			return fmt.Sprintf("%d bytes %x…", len(v), v[:24])
		}
		return fmt.Sprintf("%x", v)
	}
	for _, n := range names {
		keys := map[string]struct{}{}
		for k := range da[n] {
			keys[k] = struct{}{}
		}
		for k := range db[n] {
			keys[k] = struct{}{}
		}
		var ks []string
		for k := range keys {
			ks = append(ks, k)
		}
		sort.Strings(ks)
		for _, k := range ks {
			va, oka := da[n][k]
			vb, okb := db[n][k]
			if oka != okb || va != vb {
				diffs = append(diffs, fmt.Sprintf("bucket %s key %q: file %s ; sequential reference %s", n, k, show(va, oka), show(vb, okb)))
			}
		}
	}
	return diffs
}

// settle lets every thread that has not finished run on, round after round, until all have finished
// or a whole round changes nothing (then the remaining ones really wait for each other). The order of
// events of a family is fixed before this point; settle only collects the end of the threads.
func (c *Ctl) settle(out map[string]*stepOutcome, order ...string) {
	for round := 0; round < 4; round++ {
		progress := false
		for _, n := range order {
			if out[n].Kind == "done" {
				continue
			}
			*out[n] = c.RunUntil(n, "", 0)
			if out[n].Kind == "done" {
				progress = true
			}
		}
		all := true
		for _, n := range order {
			all = all && out[n].Kind == "done"
		}
		if all {
			return
		}
		if !progress {
			time.Sleep(30 * time.Millisecond)
		}
	}
}

func writerReport(name string, th *Thread, so stepOutcome, wantFail bool) (threadReport, bool) {
	tr := threadReport{Thread: name, Class: "ok"}
	switch {
	case so.Kind != "done" || !th.fin:
		tr.Class = "blocked"
	case th.res.Panic != "":
		tr.Class, tr.Detail = "other:panic", normErr(th.res.Panic)
	default:
		msg := th.res.Val.(string)
		switch {
		case wantFail && strings.Contains(msg, "injected fault"):
			return tr, false // as planned: not a thread of the outcome line
		case wantFail:
			panic("schedule could not be forced: the injected fault did not fail the batch: " + msg)
		case msg != "":
			tr.Class, tr.Detail = "other:error", normErr(msg)
		}
	}
	return tr, true
}

func (e *forcedEnv) neighbourQueries(xs ...float32) []QSpec {
	var qs []QSpec
	for _, x := range xs {
		qs = append(qs, QSpec{Kind: "vamana", X: x, Y: 0.25, K: 1}, QSpec{Kind: "vamana", X: x + 1, Y: 0, K: 4})
	}
	qs = append(qs, QSpec{Kind: "flat", X: xs[0], Y: 0.25, K: 3}, QSpec{Kind: "flat", X: xs[len(xs)-1], Y: 0.25, K: 2})
	return qs
}

// runCacheFamily: see the head of the file. n = number of seeded points; the shard has just been
// reopened on a fresh cache manager (cold) and snapshot v0 taken.
func (e *forcedEnv) runCacheFamily(fam, variant string, n int, res *forcedResult) {
	c := e.ctl
	c.DetectBlock = true
	c.quietPoints = map[string]bool{"Prune.enter": true}
	cache.VerifYield = func(p string) { c.Yield(p) }
	defer func() { cache.VerifYield = nil }()
	spawnW := func(name string, op wop) {
		c.Spawn(name, func() any { return errString(op.run(e.sh)) })
	}
	i := 20 + e.rng.Intn(n-40)
	switch fam {
	case "coldrace":
		// variant: <yield point>            the batch inserts a point (a cache that is too new for the search
		//                                   makes it fail, a stale one hides the point afterwards)
		//          <yield point>/any        the batch deletes or moves a point
		pt, sel, _ := strings.Cut(variant, "/")
		point := "With." + pt
		kind := "insert"
		if sel == "any" {
			kind = wopKinds[1+e.rng.Intn(2)]
		}
		op := e.mkWop(kind, i, 5)
		qx, qy := op.X, op.Y
		if op.Kind == "move" {
			v := e.docs[op.Id][propVec].([]float32)
			qx, qy = v[0], v[1]
		}
		q := QSpec{Kind: "vamana", X: qx, Y: qy, K: 1 + 2*e.rng.Intn(2)}
		res.Extra["writer"], res.Extra["query"] = op.String(), q.String()
		e.searcher("R", q)
		spawnW("W", op)
		c.adopt = c.byName["W"] // the index goroutines of the batch
		must(c.RunUntil("R", point, 1), "arrived")
		sW := c.RunUntil("W", "", 0)
		sR := c.RunUntil("R", "", 0)
		c.settle(map[string]*stepOutcome{"R": &sR, "W": &sW}, "R", "W")
		c.adopt = nil
		wr, listed := writerReport("W", c.byName["W"], sW, false)
		if wr.Class == "ok" {
			op.applyTo(e.docs)
		}
		e.snapshot("v1")
		res.Threads = append(res.Threads, e.classify("R", q, "v0", []string{"v1"}, sR))
		if listed && wr.Class != "ok" {
			res.Threads = append(res.Threads, wr)
			e.notes = append(e.notes, fmt.Sprintf("W %s: %v %v", op, c.byName["W"].res.Val, c.byName["W"].res.Panic))
			return
		}
		ref := e.reference("v0", []wop{op})
		defer ref.Close()
		hist := fmt.Sprintf("search %s parked at %s, then %s as far as it could, then the search finished, then the batch", q, point, op)
		res.Threads = append(res.Threads, e.quiescent("R2", "v1", append([]QSpec{q}, e.neighbourQueries(qx, op.X, float32(10*i))...), ref, hist))
	case "wfailr":
		// A reader that has looked the shared cache up, but not yet tried its lock, when the writer that
		// holds it fails and gives it up. variant: kind of the failing writer | any.
		k1 := variant
		if k1 == "" || k1 == "any" {
			k1 = wopKinds[e.rng.Intn(3)]
		}
		op1 := e.mkWop(k1, i, 5)
		x1 := op1.X
		if op1.Kind == "move" {
			x1 = e.docs[op1.Id][propVec].([]float32)[0]
		}
		q := QSpec{Kind: "vamana", X: x1, Y: 0.25, K: 3}
		if e.rng.Bool() {
			q.Kind = "flat"
		}
		fault := "commit"
		if op1.Kind != "move" && e.rng.Bool() {
			e.hub.setFailPut(shard.INTERNALBUCKETNAME, string(shard.POINTCOUNTKEY), 1)
			fault = "put internal/pointCount"
		} else {
			e.hub.failCommit.Store(1)
		}
		res.Extra["writer1"], res.Extra["fault"], res.Extra["query"] = op1.String(), fault, q.String()
		spawnW("W1", op1)
		c.adopt = c.byName["W1"]
		must(c.RunUntil("W1", "W.ended", 1), "arrived")
		c.adopt = nil
		e.snapshot("v1") // nothing is committed by this family
		e.searcher("S", q)
		must(c.RunUntil("S", "With.rTryRLock", 1), "arrived")
		s1 := c.RunUntil("W1", "", 0)
		sS := c.RunUntil("S", "", 0)
		c.settle(map[string]*stepOutcome{"W1": &s1, "S": &sS}, "W1", "S")
		if w1, listed := writerReport("W1", c.byName["W1"], s1, true); listed {
			res.Threads = append(res.Threads, w1)
		}
		res.Threads = append(res.Threads, e.classify("S", q, "v0", []string{"v1"}, sS))
		ref := e.reference("v0", nil)
		defer ref.Close()
		hist := fmt.Sprintf("%s (fault: %s) parked after its storage transaction ended; search %s looked the shared cache up; the writer gave the cache up; the search went on", op1, fault, q)
		res.Threads = append(res.Threads, e.quiescent("R2", "v1", e.neighbourQueries(x1, op1.X, float32(10*i)), ref, hist))
	case "wfailq", "wokq":
		// variant: [mgr/]<kind of writer 1>+<kind of writer 2> | [mgr/]any. Writer 2 "insertV" / "insertF" inserts a
		// point that has only the graph-indexed / only the flat-indexed vector, so that it is known WHICH shared
		// cache it queues for (a batch that touches both indexes takes its caches one at a time, in map order).
		fail := fam == "wfailq"
		third := false
		kinds := variant
		if rest, ok := strings.CutPrefix(variant, "mgr"); ok {
			third, kinds = true, strings.TrimPrefix(rest, "/")
		}
		// "late/…" (known finding F6, notes/C09.md): a search runs from start to end after writer 1 has given the
		// cache up and before writer 2 goes on
		late := false
		if rest, ok := strings.CutPrefix(variant, "late"); ok {
			late, kinds = true, strings.TrimPrefix(rest, "/")
		}
		k1, k2, _ := strings.Cut(kinds, "+")
		if kinds == "" || kinds == "any" {
			k1, k2 = wopKinds[e.rng.Intn(3)], []string{"insertV", "insertF", "insert", "delete", "move"}[e.rng.Intn(5)]
		}
		op1 := e.mkWop(k1, i, 5)
		var op2 wop
		switch k2 {
		case "insert", "insertV", "insertF":
			op2 = e.mkWop("insert", i, 7)
			if k2 == "insertV" {
				delete(op2.Doc, propFlat)
			} else if k2 == "insertF" {
				delete(op2.Doc, propVec)
			}
		default:
			op2 = e.mkWop(k2, i+1, 9)
		}
		x1 := op1.X
		if op1.Kind == "move" {
			x1 = e.docs[op1.Id][propVec].([]float32)[0]
		}
		x2 := op2.X
		if op2.Kind == "move" {
			x2 = e.docs[op2.Id][propVec].([]float32)[0]
		}
		qS := QSpec{Kind: "vamana", X: x1, Y: 0.25, K: 3}
		res.Extra["writer1"], res.Extra["writer2"] = op1.String(), op2.String()
		fault := "none"
		if fail {
			if op1.Kind == "move" || e.rng.Bool() {
				e.hub.failCommit.Store(1)
				fault = "commit"
			} else {
				e.hub.setFailPut(shard.INTERNALBUCKETNAME, string(shard.POINTCOUNTKEY), 1)
				fault = "put internal/pointCount"
			}
		}
		res.Extra["fault"] = fault
		spawnW("W1", op1)
		spawnW("W2", op2)
		c.adopt = c.byName["W1"]
		must(c.RunUntil("W1", "W.ended", 1), "arrived") // storage transaction over; cache locks still held
		if !fail {
			op1.applyTo(e.docs)
		}
		e.snapshot("vm")
		c.adopt = c.byName["W2"] // W1's index goroutines have finished (the late fault comes after the join)
		s2 := c.RunUntil("W2", "", 0)
		var sS stepOutcome
		if third {
			e.searcher("S", qS)
			must(c.RunUntil("S", "With.lookup", 1), "arrived") // holds the manager lock
		}
		s1 := c.RunUntil("W1", "", 0)
		if late {
			if s1.Kind != "done" {
				// writer 1 did not get through its Commit: the window the family is about never opened
				panic(fmt.Sprintf("schedule could not be forced: writer 1 did not finish its Commit: %+v", s1))
			}
			e.searcher("S", qS)
			sS = c.RunUntil("S", "", 0)
			third = true
		}
		if s2.Kind != "done" {
			s2 = c.RunUntil("W2", "", 0)
		}
		if third && !late {
			sS = c.RunUntil("S", "", 0)
		}
		if third {
			c.settle(map[string]*stepOutcome{"S": &sS, "W1": &s1, "W2": &s2}, "S", "W1", "W2")
		} else {
			c.settle(map[string]*stepOutcome{"W1": &s1, "W2": &s2}, "W1", "W2")
		}
		c.adopt = nil
		w1, listed1 := writerReport("W1", c.byName["W1"], s1, fail)
		w2, _ := writerReport("W2", c.byName["W2"], s2, false)
		if w2.Class == "ok" {
			op2.applyTo(e.docs)
		}
		e.snapshot("v1")
		if third {
			res.Threads = append(res.Threads, e.classify("S", qS, "vm", []string{"v0", "v1"}, sS))
		}
		stop := false
		for _, w := range []threadReport{w1, w2} {
			if w.Class != "ok" && (w.Thread != "W1" || listed1) {
				res.Threads = append(res.Threads, w)
				th := c.byName[w.Thread]
				e.notes = append(e.notes, fmt.Sprintf("%s: %v %v", w.Thread, th.res.Val, th.res.Panic))
				stop = true
			}
		}
		if stop {
			return
		}
		ops := []wop{op2}
		if !fail {
			ops = []wop{op1, op2}
		}
		ref := e.reference("v0", ops)
		defer ref.Close()
		hist := fmt.Sprintf("%s (fault: %s) parked after its storage transaction ended; %s started and ran as far as it could", op1, fault, op2)
		if late {
			hist += "; writer 1 ran on to its end; a search ran from start to end"
		} else if third {
			hist += "; a search parked holding the manager lock"
		}
		hist += "; writer 1 ran on, then writer 2, then everybody finished"
		res.Threads = append(res.Threads, e.quiescent("R2", "v1", e.neighbourQueries(x1, x2, op1.X, op2.X, float32(10*i), float32(10*(i+1))), ref, hist))
	default:
		panic("unknown family " + fam)
	}
}
