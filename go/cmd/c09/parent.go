package main

// Parent: runs every forced family and every stress configuration in a child process with a
// timeout, turns what happened into (a) op lines for the Lean model + the implementation's
// outcome per line, (b) oracle failures with stable signatures, (c) stats.json.

import (
	"bytes"
	"context"
	"encoding/json"
	"fmt"
	"os"
	"os/exec"
	"path/filepath"
	"regexp"
	"sort"
	"strings"
	"time"

	"verifharness/vh"
)

// family: the abstract schedule is what the Lean model runs (see SemaModel/C09/Driver.lean for
// the step vocabulary); `threads` maps the model's transaction numbers to the harness' thread
// names in the order in which the outcome is printed.
type family struct {
	name     string
	abstract string
	modelled bool
	want     string // outcome of the model on the pinned tree (documentation only; the driver decides)
}

// Transactions: 1,2,3 = readers / writers as introduced. Cache name 0. Items: 1 = entry node,
// 2,3 = other nodes, 7 = the item written by the writer (P).
var families = []family{
	{"seq", "shared | beginR 1 ; access 1 0 ; read 1 0 1 ; read 1 0 2 ; leave 1 0 ; end 1 ; beginR 2 ; access 2 0 ; read 2 0 1 ; read 2 0 3 ; leave 2 0 ; end 2 | A=1 B=2", true, "A=ok B=ok"},
	{"w1", "shared | beginR 1 ; access 1 0 ; read 1 0 1 ; beginR 2 ; access 2 0 ; read 2 0 1 ; read 2 0 3 ; leave 2 0 ; end 2 ; read 1 0 2 ; leave 1 0 ; end 1 | A=1 B=2", true, "A=u1 B=ok"},
	{"w1/private", "private | beginR 1 ; access 1 0 ; read 1 0 1 ; beginR 2 ; access 2 0 ; read 2 0 1 ; read 2 0 3 ; leave 2 0 ; end 2 ; read 1 0 2 ; leave 1 0 ; end 1 | A=1 B=2", true, "A=ok B=ok"},
	{"live", "shared | beginR 1 ; access 1 0 ; read 1 0 1 ; beginR 2 ; access 2 0 ; read 2 0 1 ; read 1 0 2 ; leave 1 0 ; end 1 ; read 2 0 3 ; leave 2 0 ; end 2 | A=1 B=2", true, "A=ok B=ok"},
	{"w2a", "shared | beginR 1 ; beginW 2 ; access 2 0 ; put 2 0 7 ; commit 2 ; finish 2 ; access 1 0 ; read 1 0 7 ; leave 1 0 ; backfill 1 7 ; end 1 ; beginR 3 ; access 3 0 ; read 3 0 7 ; leave 3 0 ; backfill 3 7 ; end 3 | R=1 R2=3", true, "R=u2 R2=ok"},
	{"w2a/private", "private | beginR 1 ; beginW 2 ; access 2 0 ; put 2 0 7 ; commit 2 ; finish 2 ; access 1 0 ; read 1 0 7 ; leave 1 0 ; end 1 ; beginR 3 ; access 3 0 ; read 3 0 7 ; leave 3 0 ; backfill 3 7 ; end 3 | R=1 R2=3", true, "R=ok R2=ok"},
	{"precommit", "shared | beginW 2 ; access 2 0 ; put 2 0 7 ; beginR 1 ; access 1 0 ; read 1 0 7 ; leave 1 0 ; end 1 ; commit 2 ; finish 2 ; beginR 3 ; access 3 0 ; read 3 0 7 ; leave 3 0 ; backfill 3 7 ; end 3 | R=1 R2=3", true, "R=ok R2=ok"},
	{"locked", "shared | beginW 2 ; access 2 0 ; put 2 0 7 ; commit 2 ; beginR 1 ; access 1 0 ; read 1 0 7 ; leave 1 0 ; backfill 1 7 ; end 1 ; finish 2 ; beginR 3 ; access 3 0 ; read 3 0 7 ; leave 3 0 ; backfill 3 7 ; end 3 | R=1 R2=3", true, "R=ok R2=ok"},
	{"wfail", "shared | beginW 2 ; access 2 0 ; put 2 0 7 ; rollback 2 ; finish 2 ; beginR 1 ; access 1 0 ; read 1 0 7 ; leave 1 0 ; end 1 ; beginR 3 ; access 3 0 ; read 3 0 7 ; leave 3 0 ; end 3 | R=1 R2=3", true, "R=ok R2=ok"},
	{"w2b", "shared pre 7 | beginR 1 ; beginW 2 ; access 2 0 ; del 2 0 7 ; commit 2 ; finish 2 ; access 1 0 ; read 1 0 7 ; leave 1 0 ; backfill 1 7 ; end 1 ; beginR 3 ; access 3 0 ; read 3 0 7 ; leave 3 0 ; backfill 3 7 ; end 3 | R=1 R2=3", true, "R=ok R2=u2"},
	{"w2b/private", "private pre 7 | beginR 1 ; beginW 2 ; access 2 0 ; del 2 0 7 ; commit 2 ; finish 2 ; access 1 0 ; read 1 0 7 ; leave 1 0 ; backfill 1 7 ; end 1 ; beginR 3 ; access 3 0 ; read 3 0 7 ; leave 3 0 ; end 3 | R=1 R2=3", true, "R=ok R2=ok"},
	// w2d: whether the old-snapshot reader meets the rewritten node in the shared graph cache (answers the new
	// committed state: class u3, allowed by the property) or reads every node it visits from its own snapshot
	// (class ok) depends on what the cache happens to hold; both occur on real machines. The family is therefore
	// still executed and judged by the oracle (a crash, a spurious failure, a point that was never committed are
	// failures) but its thread classes are not compared with the model's prediction.
	{"w2d", "shared pre 7 | beginR 1 ; beginW 2 ; access 2 0 ; del 2 0 7 ; put 2 0 2 ; commit 2 ; finish 2 ; access 1 0 ; read 1 0 2 ; leave 1 0 ; end 1 ; beginR 3 ; access 3 0 ; read 3 0 2 ; leave 3 0 ; end 3 | R=1 R2=3", false, "R=u3 R2=ok"},
	// quiescent: a writer (several batches in reality: a delete-heavy history on a sparse part of the graph; here: one
	// transaction that deletes two items and rewrites the entry node) finishes before the first search begins
	{"quiesce", "shared pre 7 8 | beginW 2 ; access 2 0 ; del 2 0 7 ; del 2 0 8 ; put 2 0 1 ; commit 2 ; finish 2 ; beginR 1 ; access 1 0 ; read 1 0 1 ; read 1 0 2 ; leave 1 0 ; end 1 ; beginR 3 ; access 3 0 ; read 3 0 1 ; read 3 0 3 ; leave 3 0 ; end 3 | R=1 R2=3", true, "R=ok R2=ok"},
	// Families that drive the yield points inside the cache manager (forced2.go). The abstract line is the
	// serialisation the manager's locks must enforce: the model's `access` is one atomic step (lookup, construction,
	// registration and lock under the manager lock), a writer's `access` is not enabled while the object is held,
	// and `finish` of a rolled-back writer takes the object out of the map before anybody else can have it.
	// Transactions: 1 = the overlapping search, 2 = writer (1), 3 = writer 2, 4 = the search after quiescence.
	{"coldrace/nCreate", coldraceLine, true, "R=ok R2=ok"},
	{"coldrace/nCreate/any", coldraceLine, true, "R=ok R2=ok"},
	{"coldrace/nStore", coldraceLine, true, "R=ok R2=ok"},
	{"coldrace/nStore/any", coldraceLine, true, "R=ok R2=ok"},
	{"coldrace/nRLock", coldraceLine, true, "R=ok R2=ok"},
	{"coldrace/nRLock/any", coldraceLine, true, "R=ok R2=ok"},
	{"coldrace/nMgrUnlock", coldraceLine, true, "R=ok R2=ok"},
	{"coldrace/nMgrUnlock/any", coldraceLine, true, "R=ok R2=ok"},
	{"coldrace/callF", coldraceLine, true, "R=ok R2=ok"},
	{"coldrace/callF/any", coldraceLine, true, "R=ok R2=ok"},
	{"wfailq/delete+insertV", wfailqLine, true, "R2=ok"},
	{"wfailq/insert+insertV", wfailqLine, true, "R2=ok"},
	{"wfailq/move+move", wfailqLine, true, "R2=ok"},
	{"wfailq/any", wfailqLine, true, "R2=ok"},
	{"wfailq/mgr/delete+insertV", wfailqMgrLine, true, "S=ok R2=ok"},
	{"wfailq/mgr/move+insertV", wfailqMgrLine, true, "S=ok R2=ok"},
	{"wfailq/mgr/insert+delete", wfailqMgrLine, true, "S=ok R2=ok"},
	{"wfailq/mgr/any", wfailqMgrLine, true, "S=ok R2=ok"},
	// F6 (known finding): a search runs from start to end between the failed writer's Commit and the queued writer's
	// end and registers a new shared cache, which the queued writer (on a temporary object) never updates. Not
	// modelled: a writer's `cold` is not enabled while the map has an entry (invariant NOInv.wmap) - the model
	// excludes exactly this step; judged by the oracle only.
	{"wfailq/late/insert+insertV", "", false, ""},
	{"wfailq/late/delete+insertV", "", false, ""},
	// the reader had looked the object up; after the rolled-back writer gave it up it finds it scrapped: temporary cold object
	{"wfailr/insert", wfailrLine, true, "S=ok R2=ok"},
	{"wfailr/any", wfailrLine, true, "S=ok R2=ok"},
	{"wokq/any", "shared | beginW 2 ; access 2 0 ; put 2 0 7 ; commit 2 ; beginW 3 ; finish 2 ; access 3 0 ; put 3 0 8 ; commit 3 ; finish 3 ; beginR 4 ; access 4 0 ; read 4 0 7 ; read 4 0 8 ; read 4 0 2 ; leave 4 0 ; backfill 4 7 ; backfill 4 8 ; end 4 | R2=4", true, "R2=ok"},
	{"wokq/mgr/any", "shared | beginW 2 ; access 2 0 ; put 2 0 7 ; commit 2 ; beginW 3 ; beginR 1 ; access 1 0 ; read 1 0 7 ; read 1 0 2 ; leave 1 0 ; backfill 1 7 ; end 1 ; finish 2 ; access 3 0 ; put 3 0 8 ; commit 3 ; finish 3 ; beginR 4 ; access 4 0 ; read 4 0 7 ; read 4 0 8 ; read 4 0 2 ; leave 4 0 ; backfill 4 7 ; backfill 4 8 ; end 4 | S=1 R2=4", true, "S=ok R2=ok"},
	// Two write batches on one point, interleaved at every storage transaction boundary of the first (forced3.go).
	// Not modelled: a batch is one transaction in the model (beginW … closeTx); judged against the two serial orders.
	{"ww/delete+update", "", false, ""},
	{"ww/delete+delete", "", false, ""},
	{"ww/update+delete", "", false, ""},
	{"ww/insert+insert", "", false, ""},
	{"ww/delete+insertP", "", false, ""},
	{"ww/any", "", false, ""},
	{"w1and", "", false, ""},
	{"w2c", "", false, ""},
	{"dangling", "", false, ""},
}

// the cold search registers and read-locks its new object in one step, the writer waits for it
const coldraceLine = "shared | beginR 1 ; access 1 0 ; beginW 2 ; read 1 0 1 ; read 1 0 2 ; leave 1 0 ; end 1 ; access 2 0 ; put 2 0 7 ; commit 2 ; finish 2 ; beginR 4 ; access 4 0 ; read 4 0 7 ; read 4 0 2 ; leave 4 0 ; backfill 4 7 ; end 4 | R=1 R2=4"

// writer 2 (tx 3) has begun; it can take the object only after the rolled-back writer 1 (tx 2) has given it up
// (`finish 2`: scrapped and out of the map in one step), finds it scrapped and is sent to a temporary cold object
// (`cold 3 0` = Label.accessCold); the search after quiescence (tx 4) builds the manager's new object
const wfailqLine = "shared | beginW 2 ; access 2 0 ; put 2 0 7 ; rollback 2 ; beginW 3 ; finish 2 ; cold 3 0 ; put 3 0 8 ; commit 3 ; finish 3 ; beginR 4 ; access 4 0 ; read 4 0 7 ; read 4 0 8 ; read 4 0 2 ; leave 4 0 ; backfill 4 8 ; end 4 | R2=4"
const wfailqMgrLine = "shared | beginW 2 ; access 2 0 ; put 2 0 7 ; rollback 2 ; beginW 3 ; beginR 1 ; access 1 0 ; read 1 0 7 ; read 1 0 2 ; leave 1 0 ; end 1 ; finish 2 ; cold 3 0 ; put 3 0 8 ; commit 3 ; finish 3 ; beginR 4 ; access 4 0 ; read 4 0 7 ; read 4 0 8 ; read 4 0 2 ; leave 4 0 ; backfill 4 8 ; end 4 | S=1 R2=4"

const wfailrLine = "shared | beginW 2 ; access 2 0 ; put 2 0 7 ; rollback 2 ; beginR 1 ; finish 2 ; cold 1 0 ; read 1 0 7 ; read 1 0 2 ; leave 1 0 ; end 1 ; beginR 4 ; access 4 0 ; read 4 0 7 ; read 4 0 2 ; leave 4 0 ; end 4 | S=1 R2=4"

func cacheFamily(name string) bool {
	return strings.HasPrefix(name, "coldrace/") || strings.HasPrefix(name, "wfailq/") || strings.HasPrefix(name, "wokq/") || strings.HasPrefix(name, "wfailr/") || strings.HasPrefix(name, "ww/")
}

type childOut struct {
	stdout   string
	exit     int
	timedOut bool
	dur      time.Duration
}

func runChild(self string, timeout time.Duration, args ...string) childOut {
	ctx, cancel := context.WithTimeout(context.Background(), timeout)
	defer cancel()
	cmd := exec.CommandContext(ctx, self, args...)
	var buf bytes.Buffer
	cmd.Stdout, cmd.Stderr = &buf, &buf
	t0 := time.Now()
	err := cmd.Run()
	co := childOut{stdout: buf.String(), dur: time.Since(t0)}
	if ctx.Err() == context.DeadlineExceeded {
		co.timedOut = true
	}
	if err != nil {
		co.exit = 1
		if ee, ok := err.(*exec.ExitError); ok {
			co.exit = ee.ExitCode()
		}
	}
	return co
}

func resultLine(out string) string {
	for _, l := range strings.Split(out, "\n") {
		if strings.HasPrefix(l, "RESULT ") {
			return l[7:]
		}
	}
	return ""
}

var panicLine = regexp.MustCompile(`(?m)^(panic: .*|fatal error: .*|unexpected fault address .*)$`)

// crashKind: what killed a child that printed no result.
func crashKind(co childOut, dir string) (kind, text string) {
	ev, _ := os.ReadFile(filepath.Join(dir, "events.txt"))
	m := panicLine.FindString(co.stdout)
	switch {
	case co.timedOut:
		return "hang", "child did not finish within the timeout"
	case m != "" && bytes.HasPrefix(ev, []byte("use-after-close")):
		return "process-crash:use-after-close", m + " ; " + strings.SplitN(string(ev), "\n", 2)[0]
	case m != "" && bytes.HasPrefix(ev, []byte("use-after-write-tx-end")):
		return "process-crash:use-after-write-tx-end", m + " ; " + strings.SplitN(string(ev), "\n", 2)[0]
	case m != "":
		return "process-crash:" + normErr(m), m
	default:
		return "child-failed", lastLines(co.stdout, 6)
	}
}

// crashFrames: the functions of the repository on the stack of the goroutine that brought the process down
func crashFrames(out string) string {
	i := strings.Index(out, "fatal error: ")
	if j := strings.Index(out, "panic: "); i < 0 || (j >= 0 && j < i) {
		i = j
	}
	if i < 0 {
		return lastLines(out, 4)
	}
	rest := out[i:]
	if k := strings.Index(rest, "\ngoroutine "); k >= 0 {
		rest = rest[k+1:]
	}
	g, _, _ := strings.Cut(rest, "\n\n")
	var fs []string
	for _, l := range strings.Split(g, "\n") {
		if strings.HasPrefix(l, "github.com/semafind/semadb/") && len(fs) < 6 {
			l = strings.TrimPrefix(l, "github.com/semafind/semadb/")
			if p := strings.LastIndex(l, "("); p > 0 {
				l = l[:p]
			}
			fs = append(fs, l)
		}
	}
	return "stack: " + strings.Join(fs, " <- ")
}

func lastLines(s string, n int) string {
	ls := strings.Split(strings.TrimSpace(s), "\n")
	if len(ls) > n {
		ls = ls[len(ls)-n:]
	}
	return strings.Join(ls, " / ")
}

func implLine(fr forcedResult) string {
	var ps []string
	for _, t := range fr.Threads {
		if strings.HasPrefix(t.Thread, "W") { // writers are judged, not part of the outcome line
			continue
		}
		ps = append(ps, t.Thread+"="+t.Class)
	}
	return strings.Join(ps, " ")
}

type parentStats struct {
	forcedRuns, forcedModelled int
	stressRuns                 int
	searches, hits, overlap    int64
	batches, committed         int
	kinds                      map[string]int
	wall                       map[string]float64
}

func parentMain(seed uint64, out, tier string) {
	self, err := os.Executable()
	if err != nil {
		panic(err)
	}
	o := vh.NewOut(out)
	work := filepath.Join(out, "work")
	os.MkdirAll(work, 0o755)
	ps := parentStats{kinds: map[string]int{}, wall: map[string]float64{}}
	variants := 1
	stressMs := 2500
	stressCfg := []string{"shared/cold", "shared/warm", "limited/partial", "limited/two", "private/cold"}
	fams := families
	switch tier {
	case "thorough":
		variants = 6
		stressMs = 12000
		stressCfg = []string{"shared/cold", "shared/warm", "shared/partial", "shared/cold", "limited/cold", "limited/partial", "limited/warm",
			"limited/two", "limited/two", "private/cold", "private/warm", "private/partial", "shared/warm", "private/cold"}
	case "focus":
		// props/C09.py search(): the tie to the cache manager's protocol broke (pin / proof / correspondence) - the
		// families that drive the manager's yield points with more data variants, the failing / locked writer
		// families, and the shared-manager stress
		variants = 3
		stressMs = 4000
		stressCfg = []string{"limited/two", "limited/two", "limited/partial", "shared/cold"}
		fams = nil
		for _, f := range families {
			if cacheFamily(f.name) || f.name == "wfail" || f.name == "precommit" || f.name == "locked" || f.name == "seq" {
				fams = append(fams, f)
			}
		}
	}
	var implSamples []string
	// one oracle failure per signature (the list handed to the runner is capped)
	seenSig := map[string]int{}
	fail := func(sig, what, replay string) {
		seenSig[sig]++
		if seenSig[sig] == 1 {
			o.Fail(sig, what, replay)
		} else {
			o.Stats["oracle-failure"]++
		}
	}
	// ------------------------------------------------------------------ forced schedules
	for _, f := range fams {
		for v := 0; v < variants; v++ {
			t0 := time.Now()
			var fr forcedResult
			var co childOut
			dir := ""
			ok := false
			sd := seed*1000 + uint64(v)
			for attempt := 0; attempt < 3 && !ok; attempt++ {
				dir = filepath.Join(work, strings.ReplaceAll(f.name, "/", "_")+fmt.Sprintf("-%d-%d", v, attempt))
				os.MkdirAll(dir, 0o755)
				co = runChild(self, 90*time.Second, "-child", "forced:"+f.name, "-dir", dir, "-seed", fmt.Sprint(sd+uint64(attempt)*7919))
				if rl := resultLine(co.stdout); rl != "" {
					if json.Unmarshal([]byte(rl), &fr) == nil {
						ok = true
					}
				} else if !strings.Contains(co.stdout, "schedule could not be forced") {
					break
				}
			}
			ps.forcedRuns++
			ps.wall["forced"] += time.Since(t0).Seconds()
			replay := fmt.Sprintf("sched %s seed=%d | %s", f.name, sd, f.abstract)
			if !ok {
				kind, text := crashKind(co, dir)
				if strings.Contains(co.stdout, "schedule could not be forced") {
					// the threads did not reach the wanted yield points within the controller's
					// time-outs in any of the attempts (a slow or loaded machine): the schedule was
					// NOT executed, so there is nothing to compare or to judge - inconclusive
					ps.kinds["forced:inconclusive-unforced"]++
					_ = text
					continue
				}
				ps.kinds["forced:"+kind]++
				if f.modelled {
					o.Emit("forced:"+f.name, replay, "child:"+kind, true)
				}
				fail("forced:"+f.name+":"+kind, fmt.Sprintf("forced schedule %s: %s", f.name, text), replay)
				continue
			}
			il := implLine(fr)
			if f.modelled {
				ps.forcedModelled++
				o.Emit("forced:"+f.name, replay, il, true)
			}
			if len(implSamples) < 20 && v == 0 {
				implSamples = append(implSamples, f.name+": "+il+"  trace="+strings.Join(fr.Trace, ","))
			}
			for _, t := range fr.Threads {
				ps.kinds["forced-thread:"+t.Class]++
				bad := t.Class != "ok" && t.Class != "u3"
				if t.Class == "u3" && strings.Contains(strings.Join(fr.Notes, "\n"), "not live in any version") {
					bad = true
				}
				if bad {
					what := fmt.Sprintf("forced schedule %s: thread %s -> %s (%s); trace %s; %s", f.name, t.Thread, t.Class, t.Detail, strings.Join(fr.Trace, ","), strings.Join(fr.Notes, " // "))
					if len(what) > 1800 {
						what = what[:1800]
					}
					fail(fmt.Sprintf("forced:%s:%s=%s", f.name, t.Thread, t.Class), what, replay)
				}
			}
			os.RemoveAll(dir)
		}
	}
	// ------------------------------------------------------------------ stress
	for i, cfg := range stressCfg {
		mode, _, _ := strings.Cut(cfg, "/")
		t0 := time.Now()
		dir := filepath.Join(work, fmt.Sprintf("stress-%d", i))
		os.MkdirAll(dir, 0o755)
		sd := seed*77 + uint64(i)
		co := runChild(self, time.Duration(stressMs)*time.Millisecond+120*time.Second, "-child", "stress:"+cfg, "-dir", dir, "-seed", fmt.Sprint(sd), "-ms", fmt.Sprint(stressMs))
		ps.stressRuns++
		ps.wall["stress"] += time.Since(t0).Seconds()
		replay := fmt.Sprintf("stress %s seed=%d ms=%d", cfg, sd, stressMs)
		var sr stressResult
		rl := resultLine(co.stdout)
		if rl == "" || json.Unmarshal([]byte(rl), &sr) != nil {
			kind, text := crashKind(co, dir)
			ps.kinds["stress:"+mode+":"+kind]++
			fail("stress:"+mode+":"+kind, fmt.Sprintf("stress %s: the process died after %.1f s: %s ; %s", cfg, co.dur.Seconds(), text, crashFrames(co.stdout)), replay)
			continue
		}
		ps.searches += sr.Searches
		ps.hits += sr.Hits
		ps.overlap += sr.Overlap
		ps.batches += sr.Batches
		ps.committed += sr.Committed
		for k, n := range sr.Counts {
			ps.kinds["stress:"+mode+":"+k] += n
		}
		for _, f := range sr.Failures {
			what := f.What
			if len(what) > 1500 {
				what = what[:1500]
			}
			fail("stress:"+mode+":"+f.Kind, fmt.Sprintf("stress %s: %s", cfg, what), f.Replay)
		}
		for _, s := range sr.Samples {
			if len(implSamples) < 28 {
				implSamples = append(implSamples, "stress "+cfg+": "+s)
			}
		}
		os.RemoveAll(dir)
	}
	os.RemoveAll(work)
	keys := make([]string, 0, len(ps.kinds))
	for k := range ps.kinds {
		keys = append(keys, k)
	}
	sort.Strings(keys)
	for _, k := range keys {
		o.Stats[k] = ps.kinds[k]
	}
	o.N += int(ps.searches)
	o.Nontrivial += int(ps.overlap)
	o.Samples = append(o.Samples, implSamples...)
	o.Close(map[string]any{
		"rule":                 "forced schedules (each a distinct op line) + stress searches whose [start,end] window contains at least one commit",
		"forced_schedules":     ps.forcedRuns,
		"forced_modelled":      ps.forcedModelled,
		"stress_runs":          ps.stressRuns,
		"stress_searches":      ps.searches,
		"stress_hits_checked":  ps.hits,
		"stress_batches":       ps.batches,
		"stress_committed":     ps.committed,
		"searches_overlapping": ps.overlap,
		"wall_forced_s":        ps.wall["forced"],
		"wall_stress_s":        ps.wall["stress"],
	})
}

// parentReplay re-runs the forced families named by the op lines of a replay file and prints the
// implementation's outcome per line (stress lines are re-run once and summarised).
func parentReplay(file string) {
	self, _ := os.Executable()
	b, err := os.ReadFile(file)
	if err != nil {
		panic(err)
	}
	tmp, _ := os.MkdirTemp("", "c09replay")
	defer os.RemoveAll(tmp)
	for i, l := range strings.Split(string(b), "\n") {
		l = strings.TrimSpace(l)
		if l == "" || strings.HasPrefix(l, "#") {
			continue
		}
		fs := strings.Fields(l)
		dir := filepath.Join(tmp, fmt.Sprint(i))
		os.MkdirAll(dir, 0o755)
		seed := "1"
		for _, f := range fs {
			if strings.HasPrefix(f, "seed=") {
				seed = f[5:]
			}
		}
		switch fs[0] {
		case "sched":
			co := runChild(self, 90*time.Second, "-child", "forced:"+fs[1], "-dir", dir, "-seed", seed)
			var fr forcedResult
			if rl := resultLine(co.stdout); rl != "" && json.Unmarshal([]byte(rl), &fr) == nil {
				fmt.Println(implLine(fr))
			} else {
				k, t := crashKind(co, dir)
				fmt.Println("child:" + k + " " + t)
			}
		case "stress":
			ms := "2500"
			for _, f := range fs {
				if strings.HasPrefix(f, "ms=") {
					ms = f[3:]
				}
			}
			co := runChild(self, 200*time.Second, "-child", "stress:"+fs[1], "-dir", dir, "-seed", seed, "-ms", ms)
			var sr stressResult
			if rl := resultLine(co.stdout); rl != "" && json.Unmarshal([]byte(rl), &sr) == nil {
				ks := []string{}
				for k, n := range sr.Counts {
					ks = append(ks, fmt.Sprintf("%s x%d", k, n))
				}
				sort.Strings(ks)
				fmt.Printf("searches=%d failures=[%s]\n", sr.Searches, strings.Join(ks, ", "))
			} else {
				k, t := crashKind(co, dir)
				fmt.Println("child:" + k + " " + t)
			}
		default:
			fmt.Println("bad-op")
		}
	}
}
