// C09 harness: concurrent searches and writes on a file-backed shard with a shared cache.
//
//	c09 -seed N -out DIR -tier quick|thorough      parent: runs every forced family and the stress
//	                                               configurations in child processes, writes
//	                                               ops.txt / impl.txt / stats.json
//	c09 -child forced:<family> -dir D -seed N      one forced schedule on the real shard
//	c09 -child stress:<config> -dir D -seed N ...  one unforced stress run
//	c09 -replay FILE                               re-run the op lines of FILE (forced families)
package main

import (
	"flag"
	"fmt"
	"os"
	"strings"

	"github.com/rs/zerolog"
)

func main() {
	seed := flag.Uint64("seed", 1, "PRNG seed")
	out := flag.String("out", "", "output directory (parent)")
	tier := flag.String("tier", "quick", "quick | thorough | focus (only the families and stress configurations around the cache manager, more variants)")
	child := flag.String("child", "", "child mode: forced:<family> | stress:<config>")
	dir := flag.String("dir", "", "working directory (child)")
	replay := flag.String("replay", "", "replay the op lines of this file")
	ms := flag.Int("ms", 4000, "stress: duration of the write stream in ms (child)")
	flag.Parse()
	zerolog.SetGlobalLevel(zerolog.Disabled)
	switch {
	case *child != "":
		kind, arg, _ := strings.Cut(*child, ":")
		switch kind {
		case "forced":
			childForced(arg, *dir, *seed)
		case "stress":
			childStress(arg, *dir, *seed, *ms)
		default:
			fmt.Fprintln(os.Stderr, "unknown child mode")
			os.Exit(2)
		}
	case *replay != "":
		parentReplay(*replay)
	default:
		parentMain(*seed, *out, *tier)
	}
}
