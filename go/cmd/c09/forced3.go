package main

// Family ww/<k1>+<k2>: TWO WRITE BATCHES on an overlapping point set, interleaved at the storage
// transaction boundaries of the first one.
//
// On the pinned tree a write batch is ONE write transaction: bbolt serialises the two batches and
// there is nothing to interleave. A batch that is split into several transactions (look the
// points up in a read transaction, validate in a read transaction, write in chunks …) has gaps in
// which the other batch can commit. The family finds the gaps itself: writer 1 runs alone once on
// a copy of the file and the controller records every transaction boundary it reaches
// (R.pre / R.begin / R.closing / R.ended / W.pre / W.begin / W.ended …); then, for EVERY boundary
// before its last commit, on a fresh copy of the file: writer 1 is parked there, writer 2 runs as
// far as it can (to its end, or until it waits for writer 1), writer 1 goes on, both finish.
//
// Oracle (not modelled: the Lean model has one transaction per batch by construction - `beginW` …
// `closeTx` - so a batch spanning two transactions is outside its vocabulary): what the two calls
// reported AND the state they left must be those of ONE of the two serial orders W1;W2 / W2;W1,
// each computed by the real code on a fresh shard without shared cache: same results per call, the
// same answers (running instance = fresh shard on a copy of the file = serial reference), the same
// records in every bucket of the file (canonicalised as in forced2.go). A search that fails after
// both have finished is a violation whatever the references say.

import (
	"fmt"
	"os"
	"path/filepath"
	"sort"
	"strings"

	"github.com/google/uuid"
	"github.com/semafind/semadb/diskstore"
	"github.com/semafind/semadb/models"
	"github.com/semafind/semadb/shard"
	"github.com/semafind/semadb/shard/cache"
)

type wwOp struct {
	Kind string // insert | insertP | update | move | delete
	Id   uuid.UUID
	Doc  Doc
	Desc string
}

func idList(ids []uuid.UUID) string {
	ss := make([]string, len(ids))
	for i, id := range ids {
		ss[i] = id.String()[:8]
	}
	sort.Strings(ss)
	return "[" + strings.Join(ss, " ") + "]"
}

// run applies the batch and renders what the call reported.
func (o wwOp) run(sh *shard.Shard) string {
	switch o.Kind {
	case "insert", "insertP":
		if err := sh.InsertPoints([]models.Point{{Id: o.Id, Data: encodeDoc(o.Doc)}}); err != nil {
			return "error:" + normErr(err.Error())
		}
		return "inserted"
	case "update", "move":
		got, err := sh.UpdatePoints([]models.Point{{Id: o.Id, Data: encodeDoc(o.Doc)}})
		if err != nil {
			return "error:" + normErr(err.Error())
		}
		return "updated" + idList(got)
	case "delete":
		got, err := sh.DeletePoints(map[uuid.UUID]struct{}{o.Id: {}})
		if err != nil {
			return "error:" + normErr(err.Error())
		}
		return "deleted" + idList(got)
	}
	panic("bad wwOp")
}

var wwKinds = []string{"insert", "insertP", "update", "move", "delete"}

type wwRef struct {
	order   string
	r1, r2  string
	sh      *shard.Shard
	answers []searchOut
}

func copyFile(from, to string) {
	b, err := os.ReadFile(from)
	if err != nil {
		panic(err)
	}
	if err := os.WriteFile(to, b, 0o644); err != nil {
		panic(err)
	}
}

func (e *forcedEnv) runWW(variant string, n int, res *forcedResult) {
	c := e.ctl
	c.DetectBlock = true
	c.quietPoints = map[string]bool{}
	i := 20 + e.rng.Intn(n-40)
	pid := e.ids[i]
	pv := e.docs[pid][propVec].([]float32)
	xid, _ := e.newPoint(0, 0, 0) // the id both writers use when they insert a NEW point
	k1, k2, _ := strings.Cut(variant, "+")
	if variant == "" || variant == "any" {
		k1, k2 = wwKinds[e.rng.Intn(len(wwKinds))], wwKinds[e.rng.Intn(len(wwKinds))]
	}
	sizes := []int64{int64(i)}
	xs := []float32{pv[0]}
	mk := func(kind string, w int) wwOp {
		rev := e.nextRev
		e.nextRev++
		switch kind {
		case "insert": // a new point, next to P
			x := pv[0] + float32(3+2*w)
			d := mkDoc(x, 0.25, 700000+w, rev)
			sizes, xs = append(sizes, int64(700000+w)), append(xs, x)
			return wwOp{Kind: kind, Id: xid, Doc: d, Desc: fmt.Sprintf("insert(%s@%g,size=%d)", xid.String()[:8], x, 700000+w)}
		case "insertP": // P's id again (fails while P exists; re-inserts it after a delete)
			x := pv[0] + float32(4+2*w)
			d := mkDoc(x, 0.25, 710000+w, rev)
			sizes, xs = append(sizes, int64(710000+w)), append(xs, x)
			return wwOp{Kind: kind, Id: pid, Doc: d, Desc: fmt.Sprintf("insert(%s=P@%g,size=%d)", pid.String()[:8], x, 710000+w)}
		case "update": // no vector: the integer index and the document
			sizes = append(sizes, int64(720000+w))
			return wwOp{Kind: kind, Id: pid, Doc: Doc{propSize: int64(720000 + w), "tag": fmt.Sprintf("w%d", w), "rev": int64(rev)},
				Desc: fmt.Sprintf("update(%s=P,size=%d)", pid.String()[:8], 720000+w)}
		case "move":
			x := float32(10*len(e.ids)+200) + float32(40*w)
			xs = append(xs, x)
			return wwOp{Kind: kind, Id: pid, Doc: Doc{propVec: []float32{x, 0.25}, propFlat: []float32{x, 0.25}, "rev": int64(rev)},
				Desc: fmt.Sprintf("move(%s=P@%g)", pid.String()[:8], x)}
		case "delete":
			return wwOp{Kind: kind, Id: pid, Desc: fmt.Sprintf("delete(%s=P)", pid.String()[:8])}
		}
		panic("unknown writer kind " + kind)
	}
	op1, op2 := mk(k1, 1), mk(k2, 2)
	res.Extra["writer1"], res.Extra["writer2"] = op1.Desc, op2.Desc
	var qs []QSpec
	for _, sz := range sizes {
		qs = append(qs, QSpec{Kind: "size", Lo: sz, Hi: sz, K: 10})
	}
	for _, x := range xs {
		qs = append(qs, QSpec{Kind: "vamana", X: x, Y: 0.25, K: 1}, QSpec{Kind: "vamana", X: x + 1, Y: 0, K: 4}, QSpec{Kind: "flat", X: x, Y: 0.25, K: 2})
	}
	// ------------------------------------------------------------- the two serial orders
	v0 := e.snaps["v0"]
	mkRef := func(order string, a, b wwOp) *wwRef {
		p := filepath.Join(e.dir, "serial-"+order+".bbolt")
		copyFile(v0, p)
		sh, err := shard.NewShard(p, e.col, nil)
		if err != nil {
			panic(err)
		}
		r := &wwRef{order: order, sh: sh}
		ra, rb := a.run(sh), b.run(sh)
		if order == "W1;W2" {
			r.r1, r.r2 = ra, rb
		} else {
			r.r2, r.r1 = ra, rb
		}
		for _, q := range qs {
			r.answers = append(r.answers, doSearchSafe(sh, q))
		}
		return r
	}
	refs := []*wwRef{mkRef("W1;W2", op1, op2), mkRef("W2;W1", op2, op1)}
	defer refs[0].sh.Close()
	defer refs[1].sh.Close()
	res.Extra["serial"] = fmt.Sprintf("W1;W2 -> %s , %s | W2;W1 -> W2 %s , W1 %s", refs[0].r1, refs[0].r2, refs[1].r2, refs[1].r1)
	open := func(name string) *shard.Shard {
		p := filepath.Join(e.dir, name+".bbolt")
		copyFile(v0, p)
		sh, err := shard.NewShard(p, e.col, cache.NewManager(-1))
		if err != nil {
			panic(err)
		}
		sh.VerifWrapDB(func(d diskstore.DiskStore) diskstore.DiskStore { return &pStore{inner: d, h: e.hub} })
		return sh
	}
	// ------------------------------------------------------------- writer 1 alone: its boundaries
	dry := open("dry")
	c.Mute = true
	c.Spawn("D", func() any { return op1.run(dry) })
	if so := c.RunUntil("D", "", 0); so.Kind != "done" {
		panic(fmt.Sprintf("schedule could not be forced: writer 1 alone did not finish: %+v", so))
	}
	c.Mute = false
	dry.Close()
	var bounds []string
	for _, p := range c.byName["D"].seq {
		if strings.HasPrefix(p, "R.") || strings.HasPrefix(p, "W.") {
			bounds = append(bounds, p)
		}
	}
	last := -1
	for j, p := range bounds {
		if p == "W.closing" {
			last = j
		}
	}
	if last >= 0 {
		bounds = bounds[:last] // before its last commit
	}
	res.Extra["boundaries_of_writer1"] = strings.Join(bounds, ",")
	if len(bounds) > 10 {
		bounds = bounds[:10]
	}
	// ------------------------------------------------------------- one interleaving per boundary
	tr := threadReport{Thread: "R2", Class: "ok"}
	fail := func(class, detail string) {
		e.notes = append(e.notes, detail)
		if tr.Class == "ok" {
			tr.Class, tr.Detail = class, detail
		}
	}
	occ := map[string]int{}
	forced := 0
	for j, b := range bounds {
		occ[b]++
		sh := open(fmt.Sprintf("run%d", j))
		n1, n2 := fmt.Sprintf("W1.%d", j), fmt.Sprintf("W2.%d", j)
		c.Spawn(n1, func() any { return op1.run(sh) })
		c.Spawn(n2, func() any { return op2.run(sh) })
		where := fmt.Sprintf("writer 1 = %s parked at %s#%d (boundary %d of %d before its last commit), writer 2 = %s ran as far as it could, then writer 1 went on", op1.Desc, b, occ[b], j+1, len(bounds), op2.Desc)
		if so := c.RunUntil(n1, b, occ[b]); so.Kind != "arrived" {
			// the sequence of boundaries is not the one of the dry run: this interleaving was not executed
			e.notes = append(e.notes, fmt.Sprintf("not forced: %s: %+v", where, so))
			s1, s2 := so, c.RunUntil(n2, "", 0)
			c.settle(map[string]*stepOutcome{n1: &s1, n2: &s2}, n1, n2)
			continue
		}
		s2 := c.RunUntil(n2, "", 0)
		s1 := c.RunUntil(n1, "", 0)
		c.settle(map[string]*stepOutcome{n1: &s1, n2: &s2}, n1, n2)
		t1, t2 := c.byName[n1], c.byName[n2]
		if s1.Kind != "done" || s2.Kind != "done" {
			fail("blocked", fmt.Sprintf("%s: the writers do not finish (%+v, %+v)", where, s1, s2))
			break // goroutines are stuck in this shard; nothing more can be judged in this process
		}
		if t1.res.Panic != "" || t2.res.Panic != "" {
			fail("other:panic", fmt.Sprintf("%s: panic %s %s", where, normErr(t1.res.Panic), normErr(t2.res.Panic)))
			continue
		}
		forced++
		r1, r2 := t1.res.Val.(string), t2.res.Val.(string)
		// answers of the running instance and of a fresh shard on a copy of the file
		cp := filepath.Join(e.dir, fmt.Sprintf("cold%d.bbolt", j))
		if err := sh.VerifDB().(*pStore).inner.BackupToFile(cp); err != nil {
			panic(err)
		}
		coldSh, err := shard.NewShard(cp, e.col, nil)
		if err != nil {
			panic(err)
		}
		var warm, cold []searchOut
		c.Mute = true
		for _, q := range qs {
			warm = append(warm, doSearchSafe(sh, q))
			cold = append(cold, doSearchSafe(coldSh, q))
		}
		c.Mute = false
		searchErr := ""
		for k := range qs {
			for _, a := range []searchOut{warm[k], cold[k]} {
				if a.Err != "" && searchErr == "" {
					searchErr = fmt.Sprintf("query %s fails after both writers have finished: %s", qs[k], a.Err)
				}
			}
		}
		// does ONE serial order explain results, answers and records?
		var why []string
		explained := false
		for _, rf := range refs {
			var w []string
			if r1 != rf.r1 || r2 != rf.r2 {
				w = append(w, fmt.Sprintf("the calls reported W1 %s, W2 %s (serial: W1 %s, W2 %s)", r1, r2, rf.r1, rf.r2))
			}
			for k := range qs {
				ws, cs, ss := warm[k].Err+"|"+hitsString(warm[k].Hits), cold[k].Err+"|"+hitsString(cold[k].Hits), rf.answers[k].Err+"|"+hitsString(rf.answers[k].Hits)
				if ws != ss || cs != ss {
					w = append(w, fmt.Sprintf("query %s: running instance %s ; fresh shard on a copy of the file %s ; serial %s", qs[k], shortAnswer(warm[k]), shortAnswer(cold[k]), shortAnswer(rf.answers[k])))
					break
				}
			}
			if diffs := e.bucketDiff(sh.VerifDB().(*pStore).inner, rf.sh.VerifDB()); len(diffs) > 0 {
				nd := len(diffs)
				if nd > 3 {
					diffs = diffs[:3]
				}
				w = append(w, fmt.Sprintf("%d records of the file differ: %s", nd, strings.Join(diffs, " ; ")))
			}
			if len(w) == 0 {
				explained = true
				break
			}
			why = append(why, "not "+rf.order+": "+strings.Join(w, " / "))
		}
		coldSh.Close()
		os.Remove(cp)
		switch {
		case searchErr != "":
			fail("search-error-after-quiescence", where+": "+searchErr+" ;; "+strings.Join(why, " ;; "))
		case !explained:
			fail("not-serializable", where+": neither serial order explains what the calls reported and left behind: "+strings.Join(why, " ;; "))
		}
		if tr.Class == "ok" {
			sh.Close()
			os.Remove(filepath.Join(e.dir, fmt.Sprintf("run%d.bbolt", j)))
		}
	}
	res.Extra["interleavings_forced"] = forced
	if forced == 0 && tr.Class == "ok" && len(bounds) > 0 {
		panic("schedule could not be forced: none of the interleavings of the two writers was executed")
	}
	tr.Hits = forced
	res.Threads = append(res.Threads, tr)
}
