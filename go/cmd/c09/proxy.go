package main

// Pausing / fault-injecting / observing proxy around the shard's storage handle (installed with
// Shard.VerifWrapDB) and the controller that replays a forced schedule on real goroutines.
//
// The proxy passes every call through to the real bbolt objects: it never changes what the real
// code does, it only (a) parks registered logical threads at transaction boundaries, (b) records
// when a bucket handle is used after its transaction has ended (the real call is still made, so
// the real consequence - panic, fault, garbage - is what the harness observes), (c) numbers write
// transactions in commit order, (d) can make one chosen Put fail.

import (
	"bytes"
	"fmt"
	"os"
	"runtime"
	"strconv"
	"strings"
	"sync"
	"sync/atomic"
	"time"

	"github.com/semafind/semadb/diskstore"
)

func goid() uint64 {
	var buf [64]byte
	n := runtime.Stack(buf[:], false)
	// "goroutine 123 [running]:"
	f := bytes.Fields(buf[:n])
	if len(f) < 2 {
		return 0
	}
	id, _ := strconv.ParseUint(string(f[1]), 10, 64)
	return id
}

// ------------------------------------------------------------------------------------ controller

type threadResult struct {
	Panic string // recovered panic value ("" if none)
	Stack string
	Val   any
}

type Thread struct {
	name   string
	arrive chan string
	resume chan struct{}
	done   chan threadResult
	parked bool // parked at a yield point (or not yet started)
	fin    bool
	res    threadResult
	counts map[string]int
	seq    []string // every yield point the thread arrived at, in order
}

type Ctl struct {
	mu      sync.Mutex
	byGoid  map[uint64]*Thread
	byName  map[string]*Thread
	adopt   *Thread // unregistered goroutines are attributed to this thread (library-spawned goroutines)
	Trace   []string
	Timeout time.Duration
	// DetectBlock: RunUntil reports "blocked" as soon as NO goroutine of the process can make
	// progress without the controller and at least one of them waits for a lock (instead of
	// waiting for the time-out). Only one logical thread runs at a time and every other one is
	// parked in a channel operation of the controller, so such a state is stable.
	DetectBlock bool
	quietPoints map[string]bool // yield points that are passed without a trace line
	Mute        bool            // no trace lines for yield points that are passed (quiescent part of a family)
}

func NewCtl() *Ctl {
	return &Ctl{byGoid: map[uint64]*Thread{}, byName: map[string]*Thread{}, Timeout: 8 * time.Second}
}

func (c *Ctl) logf(f string, a ...any) {
	c.mu.Lock()
	c.Trace = append(c.Trace, fmt.Sprintf(f, a...))
	c.mu.Unlock()
}

// Spawn creates a logical thread; its body starts when the controller first releases it.
func (c *Ctl) Spawn(name string, body func() any) *Thread {
	th := &Thread{name: name, arrive: make(chan string), resume: make(chan struct{}), done: make(chan threadResult, 1), parked: true, counts: map[string]int{}}
	c.mu.Lock()
	c.byName[name] = th
	c.mu.Unlock()
	go func() {
		c.mu.Lock()
		c.byGoid[goid()] = th
		c.mu.Unlock()
		<-th.resume
		var r threadResult
		func() {
			defer func() {
				if p := recover(); p != nil {
					r.Panic = fmt.Sprint(p)
					buf := make([]byte, 1<<14)
					r.Stack = string(buf[:runtime.Stack(buf, false)])
				}
			}()
			r.Val = body()
		}()
		th.done <- r
	}()
	return th
}

func (c *Ctl) current() *Thread {
	id := goid()
	c.mu.Lock()
	defer c.mu.Unlock()
	if th, ok := c.byGoid[id]; ok {
		return th
	}
	return c.adopt
}

// Yield is called by the hooks (proxy, vamana yield). Unregistered goroutines pass through.
func (c *Ctl) Yield(point string) {
	if c == nil {
		return
	}
	th := c.current()
	if th == nil {
		return
	}
	th.arrive <- point
	<-th.resume
}

type stepOutcome struct {
	Kind  string // "arrived" | "done" | "blocked"
	Point string
}

// RunUntil releases thread `name` and lets it run until it reaches the k-th (counted from the
// start of the thread) occurrence of yield point `point`, or returns, or does not arrive within
// the timeout ("blocked": the thread stays runnable and may arrive later).
func (c *Ctl) RunUntil(name, point string, k int) stepOutcome {
	th := c.byName[name]
	if th.fin {
		return stepOutcome{Kind: "done"}
	}
	if th.parked {
		th.parked = false
		th.resume <- struct{}{}
	}
	deadline := time.After(c.Timeout)
	var poll <-chan time.Time
	if c.DetectBlock {
		tk := time.NewTicker(3 * time.Millisecond)
		defer tk.Stop()
		poll = tk.C
	}
	stable := 0
	for {
		var p string
		var r threadResult
		got := 0
		select {
		case p = <-th.arrive:
			got = 1
		case r = <-th.done:
			got = 2
		case <-deadline:
			c.logf("%s blocked (wanted %s#%d)", name, point, k)
			return stepOutcome{Kind: "blocked"}
		case <-poll:
			// An arrival (or the end of the thread) that is already pending comes first: a goroutine
			// parked in the hand-over to the controller is waiting for the controller, not blocked.
			select {
			case p = <-th.arrive:
				got = 1
			case r = <-th.done:
				got = 2
			default:
				if q, lw := processQuiet(); q && lw != "" {
					stable++
					if stable >= 3 {
						c.logf("%s blocked in %s (wanted %s#%d)", name, lw, point, k)
						return stepOutcome{Kind: "blocked", Point: lw}
					}
				} else {
					stable = 0
				}
			}
		}
		switch got {
		case 1:
			stable = 0
			th.counts[p]++
			th.seq = append(th.seq, p)
			if p == point && th.counts[p] >= k {
				c.logf("%s@%s#%d", name, p, th.counts[p])
				th.parked = true
				return stepOutcome{Kind: "arrived", Point: p}
			}
			if p != "visit" && !c.Mute && !c.quietPoints[p] {
				c.logf("%s@%s#%d", name, p, th.counts[p])
			}
			th.resume <- struct{}{}
		case 2:
			th.fin, th.res = true, r
			c.logf("%s done", name)
			return stepOutcome{Kind: "done"}
		}
	}
}

// processQuiet reports whether every goroutine except the caller is parked in a channel / lock /
// wait-group operation (nothing is running, runnable, sleeping, in a system call or waiting for
// I/O), and names the lock operation one of them waits in ("" when none does).
func processQuiet() (quiet bool, lockWait string) {
	buf := make([]byte, 1<<16)
	for {
		n := runtime.Stack(buf, true)
		if n < len(buf) {
			buf = buf[:n]
			break
		}
		buf = make([]byte, 2*len(buf))
	}
	first := true
	for _, g := range bytes.Split(buf, []byte("\n\n")) {
		if !bytes.HasPrefix(g, []byte("goroutine ")) {
			continue
		}
		if first { // the caller
			first = false
			continue
		}
		i, j := bytes.IndexByte(g, '['), bytes.IndexAny(g, "],")
		if i < 0 || j < i {
			return false, ""
		}
		st := string(g[i+1 : j])
		switch {
		case strings.HasPrefix(st, "sync.Mutex.Lock"), strings.HasPrefix(st, "sync.RWMutex.Lock"), strings.HasPrefix(st, "sync.RWMutex.RLock"), st == "semacquire":
			lockWait = st
		case strings.HasPrefix(st, "chan "), strings.HasPrefix(st, "select"), strings.HasPrefix(st, "sync.WaitGroup.Wait"), strings.HasPrefix(st, "sync.Cond.Wait"),
			st == "finalizer wait", strings.HasPrefix(st, "GC "), strings.HasPrefix(st, "force gc"):
		default:
			return false, ""
		}
	}
	return true, lockWait
}

// ------------------------------------------------------------------------------------ hub

type uacEvent struct {
	Bucket string `json:"bucket"`
	Op     string `json:"op"`
	Owner  string `json:"owner"`
	Caller string `json:"caller"`
	Write  bool   `json:"owner_is_write_tx"`
}

type Hub struct {
	ctl *Ctl
	// use-after-close detection
	uacN     atomic.Int64
	uarN     atomic.Int64
	uacMu    sync.Mutex
	uacFirst []uacEvent
	sideFile string // events are also appended here at once (the process may die right after)
	// commit numbering (stress)
	assigned  atomic.Int64 // last sequence number handed out inside a write closure that returned nil
	committed atomic.Int64 // highest sequence number whose bbolt commit has returned
	seqMu     sync.Mutex
	seqByGoid map[uint64]int64
	commitOK  map[int64]bool
	// fault injection: fail the next Put to bucket/key once
	faultMu  sync.Mutex
	failPut  map[string]int
	txCount  atomic.Int64
	threadOf func() string
	// fault injection: the next n write transactions whose closure succeeded fail at commit (the
	// storage rolls back): a late fault for batches that have no counter bookkeeping
	failCommit atomic.Int64
}

func NewHub(ctl *Ctl, side string) *Hub {
	return &Hub{ctl: ctl, sideFile: side, seqByGoid: map[uint64]int64{}, commitOK: map[int64]bool{}, failPut: map[string]int{}}
}

func (h *Hub) callerName() string {
	if h.ctl != nil {
		if th := h.ctl.current(); th != nil {
			return th.name
		}
	}
	return "g"
}

func (h *Hub) noteUAC(b *pBucket, op string) {
	if b.tx.write {
		// a write transaction's handle used after commit / rollback (C07's territory: index
		// goroutines outliving a failed batch); counted apart from the reader case
		h.uarN.Add(1)
	}
	n := h.uacN.Add(1)
	if n > 8 {
		return
	}
	ev := uacEvent{Bucket: b.name, Op: op, Owner: b.tx.owner, Caller: h.callerName(), Write: b.tx.write}
	h.uacMu.Lock()
	h.uacFirst = append(h.uacFirst, ev)
	h.uacMu.Unlock()
	if h.sideFile != "" {
		if f, err := os.OpenFile(h.sideFile, os.O_APPEND|os.O_CREATE|os.O_WRONLY, 0o644); err == nil {
			kind := "use-after-close"
			if ev.Write {
				kind = "use-after-write-tx-end"
			}
			fmt.Fprintf(f, "%s bucket=%s op=%s owner=%s caller=%s\n", kind, ev.Bucket, ev.Op, ev.Owner, ev.Caller)
			f.Close()
		}
	}
}

func (h *Hub) setFailPut(bucket, key string, times int) {
	h.faultMu.Lock()
	h.failPut[bucket+"\x00"+key] = times
	h.faultMu.Unlock()
}

func (h *Hub) takeFault(bucket string, key []byte) bool {
	h.faultMu.Lock()
	defer h.faultMu.Unlock()
	if len(h.failPut) == 0 {
		return false
	}
	k := bucket + "\x00" + string(key)
	if n := h.failPut[k]; n > 0 {
		h.failPut[k] = n - 1
		return true
	}
	return false
}

func (h *Hub) lastSeqOfCaller() int64 {
	h.seqMu.Lock()
	defer h.seqMu.Unlock()
	s, ok := h.seqByGoid[goid()]
	if !ok {
		return -1
	}
	delete(h.seqByGoid, goid())
	return s
}

// ------------------------------------------------------------------------------------ proxy

type txRec struct {
	id     int64
	write  bool
	owner  string
	closed atomic.Bool
}

type pStore struct {
	inner diskstore.DiskStore
	h     *Hub
}

func (s *pStore) Path() string                   { return s.inner.Path() }
func (s *pStore) BackupToFile(path string) error { return s.inner.BackupToFile(path) }
func (s *pStore) SizeInBytes() (int64, error)    { return s.inner.SizeInBytes() }
func (s *pStore) Close() error                   { return s.inner.Close() }

func (s *pStore) Read(f func(diskstore.BucketManager) error) error {
	s.h.ctl.Yield("R.pre")
	tx := &txRec{id: s.h.txCount.Add(1), owner: s.h.callerName()}
	err := s.inner.Read(func(bm diskstore.BucketManager) error {
		s.h.ctl.Yield("R.begin")
		e := f(&pBM{inner: bm, tx: tx, h: s.h})
		s.h.ctl.Yield("R.closing")
		return e
	})
	tx.closed.Store(true)
	s.h.ctl.Yield("R.ended")
	return err
}

func (s *pStore) Write(f func(diskstore.BucketManager) error) error {
	s.h.ctl.Yield("W.pre")
	tx := &txRec{id: s.h.txCount.Add(1), write: true, owner: s.h.callerName()}
	seq := int64(-1)
	err := s.inner.Write(func(bm diskstore.BucketManager) error {
		s.h.ctl.Yield("W.begin")
		e := f(&pBM{inner: bm, tx: tx, h: s.h})
		if e == nil && s.h.failCommit.Load() > 0 && s.h.failCommit.Add(-1) >= 0 {
			e = fmt.Errorf("injected fault: commit")
		}
		if e == nil {
			// still under bbolt's writer lock: the numbering is the commit order
			seq = s.h.assigned.Add(1)
		}
		s.h.ctl.Yield("W.closing")
		return e
	})
	tx.closed.Store(true)
	if seq >= 0 {
		s.h.seqMu.Lock()
		s.h.commitOK[seq] = err == nil
		s.h.seqByGoid[goid()] = seq
		s.h.seqMu.Unlock()
		for {
			c := s.h.committed.Load()
			if c >= seq || s.h.committed.CompareAndSwap(c, seq) {
				break
			}
		}
	}
	s.h.ctl.Yield("W.ended")
	return err
}

type pBM struct {
	inner diskstore.BucketManager
	tx    *txRec
	h     *Hub
}

func (m *pBM) Get(name string) (diskstore.Bucket, error) {
	b, err := m.inner.Get(name)
	if err != nil {
		return nil, err
	}
	return &pBucket{inner: b, name: name, tx: m.tx, h: m.h}, nil
}
func (m *pBM) Delete(name string) error { return m.inner.Delete(name) }

type pBucket struct {
	inner diskstore.Bucket
	name  string
	tx    *txRec
	h     *Hub
}

func (b *pBucket) chk(op string) {
	if b.tx.closed.Load() {
		b.h.noteUAC(b, op)
	}
}
func (b *pBucket) IsReadOnly() bool { return b.inner.IsReadOnly() }
func (b *pBucket) Get(k []byte) []byte {
	b.chk("Get")
	return b.inner.Get(k)
}
func (b *pBucket) Put(k, v []byte) error {
	b.chk("Put")
	if b.h.takeFault(b.name, k) {
		return fmt.Errorf("injected fault: put %s/%s", b.name, k)
	}
	return b.inner.Put(k, v)
}
func (b *pBucket) Delete(k []byte) error {
	b.chk("Delete")
	return b.inner.Delete(k)
}
func (b *pBucket) ForEach(f func(k, v []byte) error) error {
	b.chk("ForEach")
	return b.inner.ForEach(f)
}
func (b *pBucket) PrefixScan(p []byte, f func(k, v []byte) error) error {
	b.chk("PrefixScan")
	return b.inner.PrefixScan(p, f)
}
func (b *pBucket) RangeScan(s, e []byte, inc bool, f func(k, v []byte) error) error {
	b.chk("RangeScan")
	return b.inner.RangeScan(s, e, inc, f)
}
