package main

// Forced schedules on the real shard (run in a child process: `c09 -child forced:<family> ...`).
// A family fixes the abstract schedule (the op line given to the Lean model); the seed varies the
// concrete data (collection size, the point written by the writer, the queries).

import (
	"encoding/json"
	"fmt"
	"os"
	"path/filepath"
	"runtime/debug"
	"strings"
	"time"

	"github.com/google/uuid"
	"github.com/semafind/semadb/conversion"
	"github.com/semafind/semadb/diskstore"
	"github.com/semafind/semadb/models"
	"github.com/semafind/semadb/shard"
	"github.com/semafind/semadb/shard/cache"
	"github.com/semafind/semadb/shard/index/vamana"
	"verifharness/vh"
)

type forcedEnv struct {
	dir     string
	path    string
	col     models.Collection
	sh      *shard.Shard
	hub     *Hub
	ctl     *Ctl
	rng     *vh.Rng
	ids     []uuid.UUID
	docs    refDocs
	nextRev int
	snaps   map[string]string // label -> path of a copy of the file at that committed version
	states  map[string]RefState
	notes   []string
	padOnly bool // seedPoints leaves free pages without freeing node ids
}

type searchOut struct {
	Hits []Hit
	Err  string
}

// threadReport is what the parent turns into the implementation's answer for the op line.
type threadReport struct {
	Thread  string `json:"thread"`
	Class   string `json:"class"`   // ok | u1 | u2 | u3 | blocked | other:<...>
	Detail  string `json:"detail"`  // raw error / panic text, normalised
	Matches string `json:"matches"` // which snapshot labels the answer equals
	Hits    int    `json:"hits"`
}

type forcedResult struct {
	Family   string         `json:"family"`
	Threads  []threadReport `json:"threads"`
	UAC      int64          `json:"use_after_close"`
	UACFirst []uacEvent     `json:"use_after_close_first"`
	Trace    []string       `json:"trace"`
	Notes    []string       `json:"notes"`
	Extra    map[string]any `json:"extra"`
}

func (e *forcedEnv) open(maxSize int64) {
	sh, err := shard.NewShard(e.path, e.col, cache.NewManager(maxSize))
	if err != nil {
		panic(err)
	}
	sh.VerifWrapDB(func(d diskstore.DiskStore) diskstore.DiskStore { return &pStore{inner: d, h: e.hub} })
	e.sh = sh
}

func newForcedEnv(dir string, seed uint64, degree int) *forcedEnv {
	e := &forcedEnv{dir: dir, path: filepath.Join(dir, "shard.bbolt"), col: collection(degree), rng: vh.NewRng(seed), docs: refDocs{}, snaps: map[string]string{}, states: map[string]RefState{}}
	e.ctl = NewCtl()
	e.hub = NewHub(e.ctl, filepath.Join(dir, "events.txt"))
	vamana.VerifYield = func(p string) { e.ctl.Yield("visit") }
	return e
}

// seedPoints inserts n points on a jittered line (x = 10*i + jitter, y = jitter) in a few batches.
func (e *forcedEnv) seedPoints(n int) {
	var batch []models.Point
	flush := func() {
		if len(batch) == 0 {
			return
		}
		if err := e.sh.InsertPoints(batch); err != nil {
			panic(err)
		}
		batch = nil
	}
	for i := 0; i < n; i++ {
		id := mkUUID(e.rng)
		d := mkDoc(float32(10*i)+float32(e.rng.Intn(100))/50, float32(e.rng.Intn(100))/50, i, e.nextRev)
		e.nextRev++
		e.ids = append(e.ids, id)
		e.docs[id] = d
		batch = append(batch, models.Point{Id: id, Data: encodeDoc(d)})
		if len(batch) == 40 {
			flush()
		}
	}
	flush()
	if e.padOnly {
		// the same (see below) without freeing node ids: the shard hands out freed node ids in Go
		// map order, and the families that compare the file with a sequential reference record by
		// record need the node id of an inserted point to be determined
		db := e.sh.VerifDB()
		for _, put := range []bool{true, false} {
			err := db.Write(func(bm diskstore.BucketManager) error {
				b, err := bm.Get(shard.INTERNALBUCKETNAME)
				if err != nil {
					return err
				}
				if put {
					return b.Put([]byte("verifPad"), []byte(strings.Repeat("p", 160000)))
				}
				return b.Delete([]byte("verifPad"))
			})
			if err != nil {
				panic(err)
			}
		}
		return
	}
	// Leave free pages in the file: a forced schedule parks a reader inside an open read
	// transaction while a writer commits; bbolt cannot remap a growing file while a read
	// transaction is open, so the writer's batch must fit into pages that are already free.
	dummy := map[uuid.UUID]struct{}{}
	for i := 0; i < 120; i++ {
		id, d := e.newPoint(float32(-1000-10*i), 3, -1)
		d["pad"] = strings.Repeat("p", 300)
		dummy[id] = struct{}{}
		batch = append(batch, models.Point{Id: id, Data: encodeDoc(d)})
	}
	flush()
	if _, err := e.sh.DeletePoints(dummy); err != nil {
		panic(err)
	}
}

// snapshot copies the committed file (through a read transaction of bbolt) under a label.
func (e *forcedEnv) snapshot(label string) {
	p := filepath.Join(e.dir, "snap-"+label+".bbolt")
	os.Remove(p)
	if err := e.sh.VerifDB().(*pStore).inner.BackupToFile(p); err != nil {
		panic(err)
	}
	e.snaps[label] = p
	e.states[label] = canonState(e.docs)
}

// coldAnswer answers q on a copy of the file with the shared cache disabled.
func (e *forcedEnv) coldAnswer(label string, q QSpec) searchOut {
	tmp := filepath.Join(e.dir, "cold-"+label+".bbolt")
	b, err := os.ReadFile(e.snaps[label])
	if err != nil {
		panic(err)
	}
	if err := os.WriteFile(tmp, b, 0o644); err != nil {
		panic(err)
	}
	defer os.Remove(tmp)
	sh, err := shard.NewShard(tmp, e.col, nil)
	if err != nil {
		panic(err)
	}
	defer sh.Close()
	return doSearch(sh, q)
}

func doSearch(sh *shard.Shard, q QSpec) (out searchOut) {
	old := debug.SetPanicOnFault(true)
	defer debug.SetPanicOnFault(old)
	res, err := sh.SearchPoints(q.request())
	if err != nil {
		return searchOut{Err: err.Error()}
	}
	return searchOut{Hits: toHits(res)}
}

func normErr(s string) string {
	// stable text: drop numbers and ids
	var sb strings.Builder
	for _, w := range strings.Fields(s) {
		w = strings.Trim(w, ":,")
		digits := 0
		for _, c := range w {
			if c >= '0' && c <= '9' {
				digits++
			}
		}
		if digits > 0 {
			continue
		}
		sb.WriteString(w)
		sb.WriteByte('-')
	}
	return strings.Trim(sb.String(), "-")
}

// classify turns what a search thread did into the model's vocabulary.
//
//	ok  the answer equals the cold answer of the thread's own snapshot
//	u1  panic and the proxy saw a bucket handle used after its transaction ended
//	u2  the search failed with "point does not exist"
//	u3  the answer is not the own snapshot's answer
func (e *forcedEnv) classify(name string, q QSpec, own string, others []string, so stepOutcome) threadReport {
	th := e.ctl.byName[name]
	tr := threadReport{Thread: name}
	if so.Kind == "blocked" || !th.fin {
		tr.Class = "blocked"
		return tr
	}
	if th.res.Panic != "" {
		tr.Detail = normErr(th.res.Panic)
		if e.hub.uacN.Load() > 0 {
			tr.Class = "u1"
		} else {
			tr.Class = "other:panic"
		}
		e.notes = append(e.notes, name+" panic: "+th.res.Panic+"\n"+firstFrames(th.res.Stack, 14))
		return tr
	}
	so2 := th.res.Val.(searchOut)
	if so2.Err != "" {
		tr.Detail = normErr(so2.Err)
		if strings.Contains(so2.Err, "point does not exist") {
			tr.Class = "u2"
		} else {
			tr.Class = "other:error"
		}
		e.notes = append(e.notes, name+" error: "+so2.Err)
		return tr
	}
	tr.Hits = len(so2.Hits)
	got := hitsString(so2.Hits)
	var m []string
	for _, l := range append([]string{own}, others...) {
		c := e.coldAnswer(l, q)
		if c.Err == "" && hitsString(c.Hits) == got {
			m = append(m, l)
		}
	}
	tr.Matches = strings.Join(m, ",")
	if len(m) > 0 && m[0] == own {
		tr.Class = "ok"
	} else {
		tr.Class = "u3"
		e.notes = append(e.notes, fmt.Sprintf("%s answer differs from own snapshot %s (equals: %q): %s", name, own, tr.Matches, got))
		// what the property itself demands: every returned point committed-live, with that
		// document, in some version of the window
		for _, h := range so2.Hits {
			live := false
			for _, l := range append([]string{own}, others...) {
				if d, ok := e.states[l][h.Id]; ok && d == h.Doc {
					live = true
				}
			}
			if !live {
				e.notes = append(e.notes, fmt.Sprintf("%s returned %s which is not live in any version of its window", name, h))
			}
		}
	}
	return tr
}

func firstFrames(stack string, n int) string {
	ls := strings.Split(stack, "\n")
	if len(ls) > n {
		ls = ls[:n]
	}
	return strings.Join(ls, "\n")
}

func (e *forcedEnv) searcher(name string, q QSpec) {
	e.ctl.Spawn(name, func() any { return doSearch(e.sh, q) })
}

func (e *forcedEnv) newPoint(x, y float32, size int) (uuid.UUID, Doc) {
	id := mkUUID(e.rng)
	d := mkDoc(x, y, size, e.nextRev)
	e.nextRev++
	return id, d
}

func must(so stepOutcome, kind string) stepOutcome {
	if so.Kind != kind {
		panic(fmt.Sprintf("schedule could not be forced: wanted %s, got %+v", kind, so))
	}
	return so
}

// runForced executes one family. cacheSize: -1 shared unlimited, 0 disabled.
func runForced(family string, dir string, seed uint64) forcedResult {
	res := forcedResult{Family: family, Extra: map[string]any{}}
	fam, variant, _ := strings.Cut(family, "/")
	cacheSize := int64(-1)
	if variant == "private" {
		cacheSize = 0
	}
	degree := 4
	if fam == "quiesce" {
		degree = 8
	}
	e := newForcedEnv(dir, seed, degree)
	n := 150 + e.rng.Intn(100)
	e.open(-1)
	e.padOnly = fam == "coldrace" || fam == "wfailq" || fam == "wokq" || fam == "wfailr" || fam == "ww"
	e.seedPoints(n)
	// cold start: reopen with a fresh cache manager
	if err := e.sh.Close(); err != nil {
		panic(err)
	}
	e.open(cacheSize)
	e.snapshot("v0")
	c := e.ctl
	far := func(i int) QSpec { return QSpec{Kind: "vamana", X: float32(10 * i), Y: 0.5, K: 3} }
	iA, iB := 5+e.rng.Intn(10), n-5-e.rng.Intn(10)
	if e.rng.Bool() {
		iA, iB = iB, iA
	}
	switch fam {
	case "w1", "w1and":
		// two cold readers on one new cache object; the one that called UpdateBucket last ends first
		qA, qB := far(iA), far(iB)
		if fam == "w1and" {
			qA.And = true
		}
		e.searcher("A", qA)
		e.searcher("B", qB)
		if fam == "w1and" {
			c.adopt = c.byName["A"]
		}
		must(c.RunUntil("A", "visit", 2), "arrived")
		c.adopt = nil
		sB := c.RunUntil("B", "", 0)
		if fam == "w1and" {
			c.adopt = c.byName["A"]
		}
		sA := c.RunUntil("A", "", 0)
		c.adopt = nil
		res.Threads = append(res.Threads, e.classify("A", qA, "v0", nil, sA), e.classify("B", qB, "v0", nil, sB))
	case "seq":
		// the same two searches one after the other (no overlap)
		qA, qB := far(iA), far(iB)
		e.searcher("A", qA)
		e.searcher("B", qB)
		sA := c.RunUntil("A", "", 0)
		sB := c.RunUntil("B", "", 0)
		res.Threads = append(res.Threads, e.classify("A", qA, "v0", nil, sA), e.classify("B", qB, "v0", nil, sB))
	case "live":
		// overlap, but the reader whose handle is stored outlives the other one
		qA, qB := far(iA), far(iB)
		e.searcher("A", qA)
		e.searcher("B", qB)
		must(c.RunUntil("A", "visit", 2), "arrived")
		must(c.RunUntil("B", "visit", 2), "arrived")
		sA := c.RunUntil("A", "", 0)
		sB := c.RunUntil("B", "", 0)
		res.Threads = append(res.Threads, e.classify("A", qA, "v0", nil, sA), e.classify("B", qB, "v0", nil, sB))
	case "w2a", "precommit", "locked", "wfail":
		// a writer inserts P; a reader looks for P
		i := 20 + e.rng.Intn(n-40)
		px, py := float32(10*i)+5, float32(0.25)
		pid, pdoc := e.newPoint(px, py, 1000000)
		q := QSpec{Kind: "vamana", X: px, Y: py, K: 1}
		if e.rng.Bool() {
			q.Kind = "flat"
		}
		res.Extra["query"] = q.String()
		c.Spawn("W", func() any {
			err := e.sh.InsertPoints([]models.Point{{Id: pid, Data: encodeDoc(pdoc)}})
			if err != nil {
				return err.Error()
			}
			return ""
		})
		e.searcher("R", q)
		var sR stepOutcome
		own := "v0"
		switch fam {
		case "w2a":
			must(c.RunUntil("R", "R.begin", 1), "arrived") // snapshot v0
			must(c.RunUntil("W", "", 0), "done")            // commit v1, cache lock released
			e.docs[pid] = pdoc
			e.snapshot("v1")
			sR = c.RunUntil("R", "", 0)
		case "precommit":
			must(c.RunUntil("W", "W.closing", 1), "arrived") // batch applied, not yet committed
			sR = c.RunUntil("R", "", 0)
			must(c.RunUntil("W", "", 0), "done")
			e.docs[pid] = pdoc
			e.snapshot("v1")
		case "locked":
			must(c.RunUntil("W", "W.ended", 1), "arrived") // committed, cache locks still held
			e.docs[pid] = pdoc
			e.snapshot("v1")
			own = "v1"
			sR = c.RunUntil("R", "", 0)
			must(c.RunUntil("W", "", 0), "done")
		case "wfail":
			e.hub.setFailPut(shard.INTERNALBUCKETNAME, string(shard.POINTCOUNTKEY), 1)
			must(c.RunUntil("W", "", 0), "done")
			if c.byName["W"].res.Val.(string) == "" {
				panic("the injected fault did not fail the batch")
			}
			e.snapshot("v1")
			sR = c.RunUntil("R", "", 0)
		}
		others := []string{"v1"}
		if own == "v1" {
			others = []string{"v0"}
		}
		res.Threads = append(res.Threads, e.classify("R", q, own, others, sR))
		if w := c.byName["W"]; w.fin && w.res.Panic != "" {
			e.notes = append(e.notes, "W panic: "+w.res.Panic)
			res.Threads = append(res.Threads, threadReport{Thread: "W", Class: "other:panic", Detail: normErr(w.res.Panic)})
		}
		// afterwards (quiescent): a fresh search must see the final committed state
		e.searcher("R2", q)
		s2 := c.RunUntil("R2", "", 0)
		res.Threads = append(res.Threads, e.classify("R2", q, "v1", []string{"v0"}, s2))
	case "w2b", "w2d":
		// w2b stale: a reader whose snapshot predates the delete of P populates the shared flat
		// cache with P. w2d too new: the same reader walks the graph cache from which the delete
		// has already removed P.
		i := 20 + e.rng.Intn(n-40)
		pid := e.ids[i]
		pd := e.docs[pid]
		v := pd[propFlat].([]float32)
		q := QSpec{Kind: "flat", X: v[0], Y: v[1], K: 1}
		if fam == "w2d" {
			q.Kind = "vamana"
		}
		res.Extra["query"] = q.String()
		c.Spawn("W", func() any {
			_, err := e.sh.DeletePoints(map[uuid.UUID]struct{}{pid: {}})
			if err != nil {
				return err.Error()
			}
			return ""
		})
		e.searcher("R", q)
		must(c.RunUntil("R", "R.begin", 1), "arrived")
		must(c.RunUntil("W", "", 0), "done")
		delete(e.docs, pid)
		e.snapshot("v1")
		sR := c.RunUntil("R", "", 0)
		res.Threads = append(res.Threads, e.classify("R", q, "v0", []string{"v1"}, sR))
		e.searcher("R2", q)
		s2 := c.RunUntil("R2", "", 0)
		res.Threads = append(res.Threads, e.classify("R2", q, "v1", []string{"v0"}, s2))
	case "w2c":
		// mixed snapshots between two readers on one object (limited cache: the writer's object has
		// been pruned): the newer reader has cached the vector of the inserted point P as a
		// neighbour but not yet its node; the older reader, whose handle is now stored, visits P and
		// reads its node from its own snapshot: "failed to get node for neighbours: not found".
		e.sh.Close()
		e.open(1)
		found := false
		for j := 2; j <= 14 && !found; j++ {
			i := 20 + e.rng.Intn(n-40)
			px, py := float32(10*i)+5, float32(0.25)
			pid, pdoc := e.newPoint(px, py, 1000000)
			q := QSpec{Kind: "vamana", X: px, Y: py, K: 1}
			on, nn, wn := fmt.Sprintf("Rold%d", j), fmt.Sprintf("Rnew%d", j), fmt.Sprintf("W%d", j)
			c.Spawn(wn, func() any {
				if err := e.sh.InsertPoints([]models.Point{{Id: pid, Data: encodeDoc(pdoc)}}); err != nil {
					return err.Error()
				}
				return ""
			})
			e.searcher(on, q)
			e.searcher(nn, q)
			must(c.RunUntil(on, "R.begin", 1), "arrived")
			must(c.RunUntil(wn, "", 0), "done")
			sNew := c.RunUntil(nn, "visit", j)
			sOld := c.RunUntil(on, "", 0)
			if sNew.Kind == "arrived" {
				c.RunUntil(nn, "", 0)
			}
			th := c.byName[on]
			if sOld.Kind == "done" && th.res.Panic == "" {
				if so, ok := th.res.Val.(searchOut); ok && strings.Contains(so.Err, "not found") {
					found = true
					res.Extra["iteration"] = j
					e.notes = append(e.notes, on+" error: "+so.Err)
					res.Threads = append(res.Threads, threadReport{Thread: "R", Class: "item-not-found", Detail: normErr(so.Err)})
				}
			}
		}
		if !found {
			res.Threads = append(res.Threads, threadReport{Thread: "R", Class: "ok"})
		}
	case "quiesce":
		// "After the writers finish … warm answers equal cold answers", with no overlap at all: one
		// writer runs a delete-heavy history on a SPARSE part of the graph — points appended far
		// apart behind the end of the line, one per batch, so that each hangs on its predecessor
		// only; then runs of consecutive points are deleted (or moved) in one batch, mostly so that
		// exactly one point survives behind the run. Such a survivor loses every inbound edge, a
		// neighbour of a deleted node ends up without outgoing edges, and the entry node is not
		// otherwise touched by the batch: the states of the graph cache that dense random data
		// never reaches. The writer finishes; then searches run one after the other on the warm
		// shared cache and must answer exactly like a fresh shard on a copy of the file.
		c.Timeout = 60 * time.Second
		var tail []uuid.UUID
		tailX := map[uuid.UUID]float32{}
		x, gap := float32(10*n+400), float32(400)
		rounds := 7 + e.rng.Intn(6)
		var steps []string
		round := func(r int) string {
			switch {
			case len(tail) < 4 || e.rng.Intn(3) == 0:
				id, d := e.newPoint(x, 0.5, 2000000+r)
				if err := e.sh.InsertPoints([]models.Point{{Id: id, Data: encodeDoc(d)}}); err != nil {
					return err.Error()
				}
				tail, tailX[id], e.docs[id] = append(tail, id), x, d
				x, gap = x+gap, gap*1.6
				steps = append(steps, "append")
			default:
				m := 2 + e.rng.Intn(2)
				start := len(tail) - 1 - m
				if e.rng.Intn(4) == 0 {
					start = e.rng.Intn(len(tail) - m + 1)
				}
				run := append([]uuid.UUID{}, tail[start:start+m]...)
				tail = append(tail[:start:start], tail[start+m:]...)
				if e.rng.Intn(4) == 0 {
					// move the run to the far end instead (a vector update is a delete and a re-insert)
					var pts []models.Point
					for _, id := range run {
						d := cloneDoc(e.docs[id])
						d[propVec], d[propFlat] = []float32{x, 0.5}, []float32{x, 0.5}
						pts = append(pts, models.Point{Id: id, Data: encodeDoc(Doc{propVec: d[propVec], propFlat: d[propFlat]})})
						tail, tailX[id], e.docs[id] = append(tail, id), x, d
						x, gap = x+gap, gap*1.6
					}
					if _, err := e.sh.UpdatePoints(pts); err != nil {
						return err.Error()
					}
					steps = append(steps, fmt.Sprintf("move%d@%d", m, start))
				} else {
					set := map[uuid.UUID]struct{}{}
					for _, id := range run {
						set[id] = struct{}{}
						delete(e.docs, id)
					}
					if _, err := e.sh.DeletePoints(set); err != nil {
						return err.Error()
					}
					steps = append(steps, fmt.Sprintf("delete%d@%d", m, start))
				}
			}
			return ""
		}
		// the comparison itself: the warm shared cache against a fresh shard on a copy of the file
		compare := func(qs []QSpec, warm []searchOut) (string, int) {
			hits := 0
			for i, w := range warm {
				cold := e.coldAnswer("v1", qs[i])
				hits += len(w.Hits)
				if w.Err != "" || cold.Err != "" || hitsString(w.Hits) != hitsString(cold.Hits) {
					e.notes = append(e.notes, fmt.Sprintf("after the writer finished its batches (%s), query %s: warm answer %.400s (err %q) ; cold answer (fresh shard on a copy of the file) %.400s (err %q)",
						strings.Join(steps, ","), qs[i], hitsString(w.Hits), w.Err, hitsString(cold.Hits), cold.Err))
					short := func(o searchOut) string {
						if o.Err != "" {
							return "error " + normErr(o.Err)
						}
						var ids []string
						for _, h := range o.Hits {
							ids = append(ids, h.Id.String()[:8]+"/"+h.Dist)
						}
						return fmt.Sprintf("%d hits [%s]", len(o.Hits), strings.Join(ids, " "))
					}
					return fmt.Sprintf("query %s: warm %s, fresh shard on a copy of the file %s", qs[i], short(w), short(cold)), hits
				}
			}
			return "", hits
		}
		tailQueries := func(max int) []QSpec {
			var qs []QSpec
			for i := len(tail) - 1; i >= 0 && len(qs) < max; i-- {
				qs = append(qs, QSpec{Kind: "vamana", X: tailX[tail[i]], Y: 0.5, K: 1}, QSpec{Kind: "vamana", X: tailX[tail[i]] + 1, Y: 0, K: 4})
			}
			return qs
		}
		// Every batch is its own writer; between two batches nothing runs, so each state in between
		// is a state "after the writers have finished" — it is compared there and then (a later
		// batch that happens to rewrite the entry node would repair on disk what an earlier one lost).
		between := ""
		for r := 0; r < rounds; r++ {
			name := fmt.Sprintf("W%d", r)
			c.Spawn(name, func() any { return round(r) })
			must(c.RunUntil(name, "", 0), "done")
			if w := c.byName[name]; w.res.Panic != "" || w.res.Val.(string) != "" {
				e.notes = append(e.notes, fmt.Sprintf("%s failed: %v %v", name, w.res.Panic, w.res.Val))
				res.Threads = append(res.Threads, threadReport{Thread: "W", Class: "other:error", Detail: normErr(fmt.Sprint(w.res.Panic, w.res.Val))})
				break
			}
			if between == "" {
				e.snapshot("v1")
				qs := tailQueries(4)
				var warm []searchOut
				for _, q := range qs {
					warm = append(warm, doSearch(e.sh, q))
				}
				if why, _ := compare(qs, warm); why != "" {
					between = fmt.Sprintf("after batch %d (%s): %s", r, steps[len(steps)-1], why)
				}
			}
		}
		res.Extra["writer_steps"] = strings.Join(steps, ",")
		e.snapshot("v1")
		// final queries: at every surviving point of the sparse part (nearest 1 and nearest few), and across the junction
		qs := append(tailQueries(12), QSpec{Kind: "vamana", X: float32(10 * n), Y: 0.5, K: 6}, QSpec{Kind: "flat", X: x, Y: 0.5, K: 3}, far(iA))
		quiet := func(name string, qs []QSpec, extra string) threadReport {
			c.Spawn(name, func() any {
				var outs []searchOut
				for _, q := range qs {
					outs = append(outs, doSearch(e.sh, q))
				}
				return outs
			})
			so := c.RunUntil(name, "", 0)
			th := c.byName[name]
			tr := threadReport{Thread: name}
			switch {
			case so.Kind == "blocked" || !th.fin:
				tr.Class = "blocked"
			case th.res.Panic != "":
				tr.Class, tr.Detail = "other:panic", normErr(th.res.Panic)
				e.notes = append(e.notes, name+" panic: "+th.res.Panic)
			default:
				tr.Class = "ok"
				why, hits := compare(qs, th.res.Val.([]searchOut))
				tr.Hits = hits
				if why == "" {
					why = extra
				}
				if why != "" {
					tr.Class, tr.Detail = "warm-cold-mismatch", why
				}
			}
			return tr
		}
		res.Threads = append(res.Threads, quiet("R", qs[:1], ""), quiet("R2", qs[1:], between))
		// how many points of the sparse part a search at their own position finds (cold): reachability
		found := 0
		for _, id := range tail {
			if a := e.coldAnswer("v1", QSpec{Kind: "vamana", X: tailX[id], Y: 0.5, K: 1}); len(a.Hits) == 1 && a.Hits[0].Id == id {
				found++
			}
		}
		res.Extra["tail_points"], res.Extra["tail_points_found_cold"] = len(tail), found
		// the committed entry node: more edges than it started with = stragglers were re-attached to it
		e.sh.VerifDB().Read(func(bm diskstore.BucketManager) error {
			b, err := bm.Get("index/" + models.IndexTypeVectorVamana + "/" + propVec)
			if err == nil {
				res.Extra["entry_node_edges_on_disk"] = len(b.Get(conversion.NodeKey(1, 'e'))) / 8
			}
			return nil
		})
	case "dangling":
		// the documents a search returns are slices into bbolt's memory map; they are read by the
		// caller after the read transaction has ended. A later batch that makes the file outgrow
		// the map remaps it.
		i := 20 + e.rng.Intn(n-40)
		v := e.docs[e.ids[i]][propFlat].([]float32)
		q := QSpec{Kind: "flat", X: v[0], Y: v[1], K: 5}
		want := e.coldAnswer("v0", q)
		raw, err := e.sh.SearchPoints(q.request())
		if err != nil {
			panic(err)
		}
		before := hitsString(toHits(raw))
		sz0, _ := e.sh.VerifDB().SizeInBytes()
		for b := 0; b < 40; b++ {
			var batch []models.Point
			for j := 0; j < 50; j++ {
				id, d := e.newPoint(float32(5000+b*50+j), 7, 5)
				d["pad"] = strings.Repeat("x", 600)
				batch = append(batch, models.Point{Id: id, Data: encodeDoc(d)})
			}
			if err := e.sh.InsertPoints(batch); err != nil {
				panic(err)
			}
			sz, _ := e.sh.VerifDB().SizeInBytes()
			if sz > 4*sz0 && b >= 3 {
				break
			}
		}
		sz1, _ := e.sh.VerifDB().SizeInBytes()
		res.Extra["size_before"], res.Extra["size_after"] = sz0, sz1
		tr := threadReport{Thread: "R", Hits: len(raw)}
		func() {
			old := debug.SetPanicOnFault(true)
			defer debug.SetPanicOnFault(old)
			defer func() {
				if p := recover(); p != nil {
					tr.Class, tr.Detail = "dangling:fault", normErr(fmt.Sprint(p))
					e.notes = append(e.notes, "reading the returned documents after the remap: "+fmt.Sprint(p))
				}
			}()
			after := hitsString(toHits(raw))
			switch {
			case after == hitsString(want.Hits) && after == before:
				tr.Class = "ok"
			default:
				tr.Class = "dangling:garbage"
				e.notes = append(e.notes, "documents changed after the remap: before="+before+" after="+after)
			}
		}()
		res.Threads = append(res.Threads, tr)
	case "ww":
		e.runWW(variant, n, &res)
	default:
		e.runCacheFamily(fam, variant, n, &res)
	}
	res.UAC = e.hub.uacN.Load()
	res.UACFirst = e.hub.uacFirst
	res.Trace = c.Trace
	res.Notes = e.notes
	return res
}

func childForced(family, dir string, seed uint64) {
	r := runForced(family, dir, seed)
	b, _ := json.Marshal(r)
	fmt.Println("RESULT " + string(b))
	os.Stdout.Sync()
	os.Exit(0) // do not close the shard: a goroutine may be parked for ever by design
}
