package main

// Unforced stress (child process): N searcher goroutines against a stream of insert / update /
// delete batches on one file-backed shard. Every returned point is validated against the timeline
// of committed states; after the writers finish the final state is compared with the sequential
// application of the successful batches in commit order, and warm answers with cold answers.

import (
	"bytes"
	"encoding/json"
	"fmt"
	"os"
	"path/filepath"
	"regexp"
	"runtime/debug"
	"runtime/pprof"
	"sort"
	"strings"
	"sync"
	"sync/atomic"
	"time"

	"github.com/google/uuid"
	"github.com/semafind/semadb/conversion"
	"github.com/semafind/semadb/diskstore"
	"github.com/semafind/semadb/models"
	"github.com/semafind/semadb/shard"
	"github.com/semafind/semadb/shard/cache"
	"github.com/semafind/semadb/shard/pointstore"
	"verifharness/vh"
)

type stressFailure struct {
	Kind   string `json:"kind"` // stable: use-after-close | point-does-not-exist | search-error | not-committed-live | ...
	What   string `json:"what"`
	Replay string `json:"replay"`
}

type stressResult struct {
	Config    string          `json:"config"`
	Failures  []stressFailure `json:"failures"`
	Counts    map[string]int  `json:"counts"`
	Batches   int             `json:"batches"`
	Committed int             `json:"committed"`
	Searches  int64           `json:"searches"`
	Hits      int64           `json:"hits"`
	Overlap   int64           `json:"searches_overlapping_a_commit"`
	UAC       int64           `json:"use_after_close"`
	Samples   []string        `json:"samples"`
}

type stressEnv struct {
	mu       sync.Mutex
	res      stressResult
	kinds    map[string]int
	progress atomic.Int64
}

func (s *stressEnv) fail(kind, what, replay string) {
	s.mu.Lock()
	defer s.mu.Unlock()
	s.kinds[kind]++
	if s.kinds[kind] <= 3 {
		s.res.Failures = append(s.res.Failures, stressFailure{kind, what, replay})
	}
}

type change struct {
	seq int64
	doc string // "" = absent
}

var semadbFrame = regexp.MustCompile(`github\.com/semafind/semadb/([\w/]+)\.([\w\(\)\*\.\[\]]+)\(`)

// blockedFrames summarises a goroutine dump: for every goroutine parked on a mutex / rwmutex /
// semaphore, the innermost function of the repository on its stack.
func blockedFrames(dump string) string {
	set := map[string]struct{}{}
	for _, g := range strings.Split(dump, "\n\n") {
		head, _, _ := strings.Cut(g, "\n")
		if !strings.Contains(head, "sync.Mutex.Lock") && !strings.Contains(head, "sync.RWMutex") && !strings.Contains(head, "semacquire") {
			continue
		}
		if m := semadbFrame.FindStringSubmatch(g); m != nil {
			pkg := m[1]
			if i := strings.LastIndex(pkg, "/"); i >= 0 {
				pkg = pkg[i+1:]
			}
			fn := m[2]
			if i := strings.Index(fn, ".func"); i >= 0 {
				fn = fn[:i]
			}
			fn = strings.NewReplacer("(*", "", ")", "", "[...]", "").Replace(fn)
			set[pkg+"."+fn] = struct{}{}
		}
	}
	// the cycle is among the cache manager's locks; goroutines queued behind it elsewhere (bbolt's
	// writer lock, an item cache mutex) are victims and would make the signature unstable
	var fs, core []string
	for f := range set {
		fs = append(fs, f)
		if strings.HasPrefix(f, "cache.Manager.") || strings.HasPrefix(f, "cache.Transaction.") {
			core = append(core, f)
		}
	}
	if len(core) > 0 {
		fs = core
	}
	// the known cycle: a reader's deferred checkAndPrune (holding its RLock) against a writer's
	// two With calls (transaction mutex / manager mutex); a Commit of another transaction queued
	// on the manager mutex is a victim
	if _, a := set["cache.Manager.checkAndPrune"]; a {
		if _, b := set["cache.Transaction.With"]; b {
			fs = []string{"cache.Manager.checkAndPrune", "cache.Transaction.With"}
		}
	}
	sort.Strings(fs)
	return strings.Join(fs, "+")
}

func childStress(config, dir string, seed uint64, ms int) {
	rp := fmt.Sprintf("stress %s seed=%d ms=%d", config, seed, ms)
	mode, warm, _ := strings.Cut(config, "/")
	rng := vh.NewRng(seed ^ 0x5bd1e995)
	env := &stressEnv{kinds: map[string]int{}}
	env.res.Config = config
	hub := NewHub(nil, filepath.Join(dir, "events.txt"))
	col := collection(8 + rng.Intn(24))
	path := filepath.Join(dir, "shard.bbolt")
	maxSize := int64(-1)
	switch mode {
	case "private":
		maxSize = 0
	case "limited":
		maxSize = []int64{1, 3000, 9000}[rng.Intn(3)]
	}
	// "two": the way a node runs its shards - ONE size-limited manager (limit far above what the
	// run needs: nothing is ever evicted, but every reuse of a shared cache makes checkAndPrune
	// compute the size of EVERY cache of the manager) shared by this shard and a second, small,
	// warm one that is only searched. A searcher of the small shard and a writer of this one share
	// no cache at all: the schedule is clean, whatever happens to either is a failure.
	two := warm == "two"
	if two {
		maxSize = 256 << 20
	}
	var mgr *cache.Manager
	open := func(sz int64) *shard.Shard {
		mgr = cache.NewManager(sz)
		sh, err := shard.NewShard(path, col, mgr)
		if err != nil {
			panic(err)
		}
		sh.VerifWrapDB(func(d diskstore.DiskStore) diskstore.DiskStore { return &pStore{inner: d, h: hub} })
		return sh
	}
	finish := func() {
		env.mu.Lock()
		env.res.Counts = env.kinds
		env.res.UAC = hub.uacN.Load()
		b, _ := json.Marshal(env.res)
		env.mu.Unlock()
		fmt.Println("RESULT " + string(b))
		os.Stdout.Sync()
		os.Exit(0)
	}
	// watchdog: no progress for a long time = the shard hangs
	go func() {
		last, idle := int64(-1), 0
		for {
			time.Sleep(time.Second)
			p := env.progress.Load()
			if p == last {
				idle++
			} else {
				idle, last = 0, p
			}
			if idle >= 12 {
				var buf bytes.Buffer
				pprof.Lookup("goroutine").WriteTo(&buf, 2)
				os.WriteFile(filepath.Join(dir, "goroutines.txt"), buf.Bytes(), 0o644)
				fr := blockedFrames(buf.String())
				env.fail("deadlock:"+fr, "no search or batch completed for 12 s; goroutines parked in: "+fr, rp)
				finish()
			}
		}
	}()

	// ---------------------------------------------------------------- initial state (version 0)
	sh := open(-1)
	ref := refDocs{}
	rev := 0
	var order []uuid.UUID
	newDoc := func(size int) (uuid.UUID, Doc) {
		id := mkUUID(rng)
		d := mkDoc(float32(rng.Intn(100000))/100, float32(rng.Intn(100000))/100, size, rev)
		rev++
		return id, d
	}
	n0 := 80 + rng.Intn(120)
	var batch []models.Point
	for i := 0; i < n0; i++ {
		id, d := newDoc(rng.Intn(50))
		ref[id] = d
		order = append(order, id)
		batch = append(batch, models.Point{Id: id, Data: encodeDoc(d)})
	}
	if err := sh.InsertPoints(batch); err != nil {
		panic(err)
	}
	if err := sh.Close(); err != nil {
		panic(err)
	}
	hub.assigned.Store(0)
	hub.committed.Store(0)
	sh = open(maxSize)
	mkQuery := func(r *vh.Rng) QSpec {
		q := QSpec{X: float32(r.Intn(100000)) / 100, Y: float32(r.Intn(100000)) / 100, K: 1 + r.Intn(6)}
		switch r.Intn(10) {
		case 0:
			q.Kind = "size"
			q.Lo = int64(r.Intn(50))
			q.Hi = q.Lo + int64(r.Intn(3))
			return q
		case 1, 2, 3, 4:
			q.Kind = "flat"
		default:
			q.Kind = "vamana"
		}
		if r.Chance(40) {
			q.Filter = true
			q.Lo = int64(r.Intn(50))
			q.Hi = q.Lo + int64(r.Intn(25))
		}
		return q
	}
	var small *shard.Shard
	smallState := RefState{}
	var smallDocs []Doc
	if two {
		var err error
		small, err = shard.NewShard(filepath.Join(dir, "small.bbolt"), col, mgr)
		if err != nil {
			panic(err)
		}
		var pts []models.Point
		sd := refDocs{}
		for i := 0; i < 24+rng.Intn(40); i++ {
			id, d := newDoc(rng.Intn(50))
			sd[id] = d
			smallDocs = append(smallDocs, d)
			pts = append(pts, models.Point{Id: id, Data: encodeDoc(d)})
		}
		if err := small.InsertPoints(pts); err != nil {
			panic(err)
		}
		smallState = canonState(sd)
		// warm both of its vector caches completely: its searches below never read from storage
		for _, d := range smallDocs {
			v := d[propVec].([]float32)
			doSearch(small, QSpec{Kind: "vamana", X: v[0], Y: v[1], K: 8})
			doSearch(small, QSpec{Kind: "flat", X: v[0], Y: v[1], K: 3})
		}
	}
	switch warm {
	case "warm", "two":
		for i := 0; i < 40; i++ {
			doSearch(sh, mkQuery(rng))
		}
	case "partial":
		for i := 0; i < 3; i++ {
			q := mkQuery(rng)
			q.Kind = "vamana"
			doSearch(sh, q)
		}
	}

	// ---------------------------------------------------------------- writers
	nWriters := 1 + rng.Intn(2)
	var batches []*Batch
	var bmu sync.Mutex
	var wg sync.WaitGroup
	deadline := time.Now().Add(time.Duration(ms) * time.Millisecond)
	var writersDone atomic.Bool
	// disjoint id pools per writer
	pools := make([][]uuid.UUID, nWriters)
	for i, id := range order {
		pools[i%nWriters] = append(pools[i%nWriters], id)
	}
	for w := 0; w < nWriters; w++ {
		wg.Add(1)
		wr := vh.NewRng(rng.U64())
		go func(w int, r *vh.Rng) {
			defer wg.Done()
			defer func() {
				if p := recover(); p != nil {
					env.fail("writer-panic:"+normErr(fmt.Sprint(p)), fmt.Sprint(p), rp)
				}
			}()
			live := append([]uuid.UUID{}, pools[w]...)
			myRev := 1000000 * (w + 1)
			for time.Now().Before(deadline) {
				b := &Batch{Seq: -1}
				pick := func(k int) []uuid.UUID {
					if k > len(live) {
						k = len(live)
					}
					perm := make([]int, len(live))
					for i := range perm {
						perm[i] = i
					}
					for i := 0; i < k; i++ {
						j := i + r.Intn(len(perm)-i)
						perm[i], perm[j] = perm[j], perm[i]
					}
					out := make([]uuid.UUID, k)
					for i := 0; i < k; i++ {
						out[i] = live[perm[i]]
					}
					return out
				}
				c := r.Intn(100)
				var err error
				switch {
				case c < 45 || len(live) < 10 || (two && c < 85):
					b.Kind = "insert"
					k := 1 + r.Intn(12)
					if two {
						k = 40 + r.Intn(160) // bulk load: the insert workers spend their time writing into the caches
					}
					var pts []models.Point
					for i := 0; i < k; i++ {
						id := mkUUID(r)
						d := mkDoc(float32(r.Intn(100000))/100, float32(r.Intn(100000))/100, r.Intn(50), myRev)
						myRev++
						b.Ids = append(b.Ids, id)
						b.Docs = append(b.Docs, d)
						pts = append(pts, models.Point{Id: id, Data: encodeDoc(d)})
					}
					err = sh.InsertPoints(pts)
					if err == nil {
						live = append(live, b.Ids...)
					}
				case c < 75:
					b.Kind = "update"
					b.Ids = pick(1 + r.Intn(8))
					var pts []models.Point
					for _, id := range b.Ids {
						d := Doc{"rev": int64(myRev), "tag": fmt.Sprintf("u%d", myRev)}
						myRev++
						switch r.Intn(4) {
						case 0: // move the point
							x, y := float32(r.Intn(100000))/100, float32(r.Intn(100000))/100
							d[propVec], d[propFlat] = []float32{x, y}, []float32{x, y}
						case 1:
							d[propSize] = int64(r.Intn(50))
						case 2:
							d["tag"] = "_delete"
						}
						b.Docs = append(b.Docs, d)
						pts = append(pts, models.Point{Id: id, Data: encodeDoc(d)})
					}
					var got []uuid.UUID
					got, err = sh.UpdatePoints(pts)
					if err == nil && len(got) != len(b.Ids) {
						env.fail("update-reported-ids", fmt.Sprintf("update of %d live points reported %d ids", len(b.Ids), len(got)), rp)
					}
				case c < 95:
					b.Kind = "delete"
					b.Ids = pick(1 + r.Intn(6))
					set := map[uuid.UUID]struct{}{}
					for _, id := range b.Ids {
						set[id] = struct{}{}
					}
					var got []uuid.UUID
					got, err = sh.DeletePoints(set)
					if err == nil {
						if len(got) != len(b.Ids) {
							env.fail("delete-reported-ids", fmt.Sprintf("delete of %d live points reported %d ids", len(b.Ids), len(got)), rp)
						}
						keep := live[:0]
						for _, id := range live {
							if _, gone := set[id]; !gone {
								keep = append(keep, id)
							}
						}
						live = keep
					}
				default:
					// rejected before the transaction starts: the same id twice
					b.Kind = "badinsert"
					id := mkUUID(r)
					d := mkDoc(1, 1, 1, myRev)
					err = sh.InsertPoints([]models.Point{{Id: id, Data: encodeDoc(d)}, {Id: id, Data: encodeDoc(d)}})
					if err == nil {
						env.fail("duplicate-accepted", "insert batch with a repeated id was accepted", rp)
					}
					err = nil
					b.Failed = true
				}
				if err != nil {
					b.Failed = true
					env.fail("write-failed:"+normErr(err.Error()), b.Kind+" batch failed: "+err.Error(), rp)
				}
				if !b.Failed {
					b.Seq = hub.lastSeqOfCaller()
				}
				bmu.Lock()
				batches = append(batches, b)
				bmu.Unlock()
				env.progress.Add(1)
				if r.Chance(50) {
					time.Sleep(time.Duration(r.Intn(3000)) * time.Microsecond)
				}
			}
		}(w, wr)
	}

	// ---------------------------------------------------------------- searchers
	type obs struct {
		q      QSpec
		lo, hi int64
		hits   []Hit
		err    string
		panicV string
	}
	nSearch := 3 + rng.Intn(6)
	obsC := make([][]obs, nSearch)
	var swg sync.WaitGroup
	for s := 0; s < nSearch; s++ {
		swg.Add(1)
		sr := vh.NewRng(rng.U64())
		go func(s int, r *vh.Rng) {
			defer swg.Done()
			for n := 0; !writersDone.Load() || n < 5; n++ {
				q := mkQuery(r)
				o := obs{q: q}
				func() {
					defer func() {
						if p := recover(); p != nil {
							o.panicV = fmt.Sprint(p)
							buf := debug.Stack()
							if len(buf) > 1800 {
								buf = buf[:1800]
							}
							o.err = string(buf)
						}
					}()
					o.lo = hub.committed.Load()
					so := doSearch(sh, q)
					o.hi = hub.assigned.Load()
					o.hits, o.err = so.Hits, so.Err
				}()
				obsC[s] = append(obsC[s], o)
				env.progress.Add(1)
				if len(obsC[s]) > 200000 {
					return
				}
			}
		}(s, sr)
	}
	// searchers of the small shard ("two"): static state, warm caches
	var smallSearches, smallHits atomic.Int64
	if two {
		for s := 0; s < 3+rng.Intn(3); s++ {
			swg.Add(1)
			sr := vh.NewRng(rng.U64())
			go func(r *vh.Rng) {
				defer swg.Done()
				for n := 0; !writersDone.Load() || n < 5; n++ {
					v := smallDocs[r.Intn(len(smallDocs))][propVec].([]float32)
					q := QSpec{Kind: "vamana", X: v[0], Y: v[1], K: 1 + r.Intn(4)}
					if r.Chance(30) {
						q.Kind = "flat"
					}
					so := doSearchSafe(small, q)
					smallSearches.Add(1)
					env.progress.Add(1)
					rp := fmt.Sprintf("stress %s seed=%d ms=%d small-shard query=%s", config, seed, ms, q)
					if so.Err != "" {
						env.fail("search-error:"+normErr(so.Err), "search of the small shard (never written during the run) failed: "+so.Err, rp)
						continue
					}
					if len(so.Hits) == 0 {
						env.fail("not-committed-live", "search of the small shard at the position of one of its points returned nothing", rp)
					}
					for _, h := range so.Hits {
						smallHits.Add(1)
						if smallState[h.Id] != h.Doc {
							env.fail("not-committed-live", fmt.Sprintf("small shard (never written during the run): returned point %s with document %s; its state has %q", h.Id, h.Doc, smallState[h.Id]), rp)
						}
					}
				}
			}(sr)
		}
	}
	wg.Wait()
	writersDone.Store(true)
	swg.Wait()
	env.res.Searches += smallSearches.Load()
	env.res.Hits += smallHits.Load()

	// ---------------------------------------------------------------- timeline of committed states
	var committed []*Batch
	for _, b := range batches {
		if !b.Failed {
			if b.Seq < 0 {
				env.fail("commit-not-numbered", "a successful batch was not seen by the storage proxy", rp)
				continue
			}
			committed = append(committed, b)
		}
	}
	sort.Slice(committed, func(i, j int) bool { return committed[i].Seq < committed[j].Seq })
	env.res.Batches, env.res.Committed = len(batches), len(committed)
	history := map[uuid.UUID][]change{}
	cur := ref
	state0 := canonState(cur)
	for id, d := range state0 {
		history[id] = []change{{0, d}}
	}
	for _, b := range committed {
		nxt := applyBatch(cur, b)
		for _, id := range b.Ids {
			d := ""
			if doc, ok := nxt[id]; ok {
				s, _ := canonBytes(encodeDoc(doc))
				d = s
			}
			history[id] = append(history[id], change{b.Seq, d})
		}
		cur = nxt
	}
	final := canonState(cur)
	liveAt := func(id uuid.UUID, doc string, lo, hi int64) bool {
		h := history[id]
		for i, c := range h {
			// c holds on [c.seq, next.seq)
			end := int64(1 << 62)
			if i+1 < len(h) {
				end = h[i+1].seq
			}
			if c.doc == doc && c.doc != "" && c.seq <= hi && end > lo {
				return true
			}
		}
		return false
	}
	for s := range obsC {
		for _, o := range obsC[s] {
			env.res.Searches++
			if o.hi > o.lo {
				env.res.Overlap++
			}
			rp := fmt.Sprintf("stress %s seed=%d ms=%d query=%s window=[%d,%d]", config, seed, ms, o.q, o.lo, o.hi)
			switch {
			case o.panicV != "":
				k := "panic:" + normErr(o.panicV)
				if hub.uacN.Load() > 0 && strings.Contains(o.err, "bbolt") {
					k = "use-after-close"
				}
				env.fail(k, "search panicked: "+o.panicV+"\n"+o.err, rp)
			case o.err != "":
				k := "search-error:" + normErr(o.err)
				if strings.Contains(o.err, "point does not exist") {
					k = "point-does-not-exist"
				}
				env.fail(k, "search failed: "+o.err, rp)
			default:
				for _, h := range o.hits {
					env.res.Hits++
					if !liveAt(h.Id, h.Doc, o.lo, o.hi) {
						env.fail("not-committed-live", fmt.Sprintf("returned point %s with document %s was not committed-live with that document at any version in [%d,%d]; history %v", h.Id, h.Doc, o.lo, o.hi, history[h.Id]), rp)
					}
				}
				if len(env.res.Samples) < 4 && len(o.hits) > 0 {
					env.res.Samples = append(env.res.Samples, fmt.Sprintf("%s window=[%d,%d] -> %d hits, first %s", o.q, o.lo, o.hi, len(o.hits), o.hits[0].Id))
				}
			}
		}
	}

	// ---------------------------------------------------------------- quiescent: final state
	got, count, err := dumpPoints(sh.VerifDB())
	if err != nil {
		env.fail("final-dump-failed", err.Error(), rp)
	}
	diff := 0
	for id, d := range final {
		if got[id] != d {
			diff++
			if diff <= 2 {
				env.fail("final-state-mismatch", fmt.Sprintf("point %s: stored %q, sequential application of the %d successful batches in commit order gives %q", id, got[id], len(committed), d), rp)
			}
		}
	}
	for id := range got {
		if _, ok := final[id]; !ok {
			env.fail("final-state-mismatch", fmt.Sprintf("point %s is stored but deleted in the sequential model", id), rp)
		}
	}
	if int(count) != len(final) {
		env.fail("final-state-mismatch", fmt.Sprintf("point count %d, sequential model %d", count, len(final)), rp)
	}

	// ---------------------------------------------------------------- quiescent: warm = cold
	cp := filepath.Join(dir, "cold.bbolt")
	if err := sh.VerifDB().(*pStore).inner.BackupToFile(cp); err != nil {
		panic(err)
	}
	coldSh, err := shard.NewShard(cp, col, nil)
	if err != nil {
		panic(err)
	}
	qr := vh.NewRng(rng.U64())
	var finalIds []uuid.UUID
	for id := range cur {
		finalIds = append(finalIds, id)
	}
	sort.Slice(finalIds, func(i, j int) bool { return bytes.Compare(finalIds[i][:], finalIds[j][:]) < 0 })
	for i := 0; i < 60; i++ {
		q := mkQuery(qr)
		if i%3 == 0 && len(finalIds) > 0 && q.Kind != "size" {
			// aim at a live point
			if v, ok := cur[finalIds[qr.Intn(len(finalIds))]][propFlat].([]float32); ok {
				q.X, q.Y = v[0], v[1]
			}
		}
		w := doSearchSafe(sh, q)
		c := doSearchSafe(coldSh, q)
		env.progress.Add(1)
		ws, cs := w.Err+"|"+hitsString(w.Hits), c.Err+"|"+hitsString(c.Hits)
		if ws != cs {
			k := "warm-cold-mismatch"
			if strings.Contains(w.Err, "point does not exist") {
				k = "point-does-not-exist-after-quiescence"
			}
			env.fail(k, fmt.Sprintf("after the writers finished, query %s: warm answer %.300s ; cold answer (reopened copy) %.300s", q, ws, cs), fmt.Sprintf("stress %s seed=%d ms=%d query=%s", config, seed, ms, q))
		}
		for _, h := range c.Hits {
			if final[h.Id] != h.Doc {
				env.fail("cold-answer-not-final-state", fmt.Sprintf("cold answer returns %s with %q; final state has %q", h.Id, h.Doc, final[h.Id]), fmt.Sprintf("stress %s seed=%d ms=%d query=%s", config, seed, ms, q))
			}
		}
	}
	coldSh.Close()
	finish()
}

// dumpPoints reads the points bucket (uuid -> canonical document of every node that has an id
// record) and the point counter of a live shard.
func dumpPoints(db diskstore.DiskStore) (RefState, uint64, error) {
	got := RefState{}
	count := uint64(0)
	err := db.Read(func(bm diskstore.BucketManager) error {
		b, err := bm.Get(pointstore.POINTSBUCKETNAME)
		if err != nil {
			return err
		}
		type rec struct {
			id   uuid.UUID
			data []byte
			has  bool
		}
		nodes := map[uint64]*rec{}
		err = b.ForEach(func(k, v []byte) error {
			if nid, ok := conversion.NodeIdFromKey(k, 'i'); ok {
				r := nodes[nid]
				if r == nil {
					r = &rec{}
					nodes[nid] = r
				}
				copy(r.id[:], v)
				r.has = true
			} else if nid, ok := conversion.NodeIdFromKey(k, 'd'); ok {
				r := nodes[nid]
				if r == nil {
					r = &rec{}
					nodes[nid] = r
				}
				r.data = append([]byte{}, v...)
			}
			return nil
		})
		for _, r := range nodes {
			if r.has {
				s, e := canonBytes(r.data)
				if e != nil {
					s = "!" + e.Error()
				}
				got[r.id] = s
			}
		}
		bi, err2 := bm.Get(shard.INTERNALBUCKETNAME)
		if err2 == nil {
			if cb := bi.Get(shard.POINTCOUNTKEY); cb != nil {
				count = conversion.BytesToUint64(cb)
			}
		}
		return err
	})
	return got, count, err
}

func doSearchSafe(sh *shard.Shard, q QSpec) (so searchOut) {
	defer func() {
		if p := recover(); p != nil {
			so = searchOut{Err: "panic: " + fmt.Sprint(p)}
		}
	}()
	return doSearch(sh, q)
}
