// C10 harness: histories of insert / update / vector removal / delete batches on a real
// file-backed shard with tiny degree bounds; after every batch the index, points and internal
// buckets are dumped through (*Shard).VerifDB() and (i) judged by the property oracle, (ii) sent to
// the Lean driver which evaluates the executable WF predicate of the theorem on the dump, and
// (iii) for batches that reach the index as a single change, replayed by the Lean model of
// insertUpdateDelete with the real distances: the edge lists must agree exactly.
// The shared machinery is in verifharness/vgraph.
package main

import "verifharness/vgraph"

func main() { vgraph.Main("c10") }
