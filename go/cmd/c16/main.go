// C16 correspondence harness: tenant isolation over HTTP on a real single node.
//
// Every scenario is an interleaved history of requests by 2..3 users (X-User-Id) against a fresh
// node behind the production router (httptest server).  Three things are checked:
//
//  1. correspondence: the same op lines are evaluated by the Lean model (semadriver C16) and diffed;
//  2. the property oracle, directly on the real node: for every plain user B of the scenario the
//     responses B receives in the interleaved run, and the shard directories below B's directory on
//     disk, must equal those of a run of B's requests alone on a fresh node;
//  3. which middleware variant the code is (does it refuse "X-User-Id: ."), told to the model.
//
// Op lines (ids in hex, "-" = empty):
//
//	variant fixed|pinned
//	reset maxcols=N maxpts=N
//	u=<hex> create v=1|2 c=<hex> | list | get c= | drop c= | insert c= sid=<hex> pts=i:v,… |
//	        update c= pts=i:v,… | delete c= ids=i,… | search c=
//	sleep                      (wait until idle shards are unloaded)
//	disk u=<hex>               (shard directories below the user's directory)
package main

import (
	"bufio"
	"bytes"
	"encoding/hex"
	"encoding/json"
	"flag"
	"fmt"
	"io"
	"net/http"
	"net/http/httptest"
	"net/url"
	"os"
	"path/filepath"
	"sort"
	"strconv"
	"strings"
	"sync"
	"time"

	"github.com/rs/zerolog"
	"github.com/semafind/semadb/cluster"
	"github.com/semafind/semadb/httpapi"
	"github.com/semafind/semadb/models"
	"verifharness/vh"
)

// ------------------------------------------------------------------------------------------ ops

type pt struct {
	id int
	v  int64
}

type op struct {
	kind string // create list get drop insert update delete search | reset sleep disk variant
	user string
	v1   bool
	c    string
	sid  string
	pts  []pt
	ids  []int
	// reset
	maxCols, maxPts int
	variant         string
	// concurrent phase: requests of worker `worker` (≥ 1) are issued one after the other by their own
	// client, side by side with the other workers' requests (see storm.go)
	worker int
}

func hx(s string) string {
	if s == "" {
		return "-"
	}
	return hex.EncodeToString([]byte(s))
}
func unhx(s string) (string, error) {
	if s == "-" {
		return "", nil
	}
	b, err := hex.DecodeString(s)
	return string(b), err
}

func fmtPts(p []pt) string {
	if len(p) == 0 {
		return "-"
	}
	var s []string
	for _, q := range p {
		s = append(s, fmt.Sprintf("%d:%d", q.id, q.v))
	}
	return strings.Join(s, ",")
}
func fmtIds(p []int) string {
	if len(p) == 0 {
		return "-"
	}
	var s []string
	for _, q := range p {
		s = append(s, strconv.Itoa(q))
	}
	return strings.Join(s, ",")
}

func (o op) line() string {
	switch o.kind {
	case "variant":
		return "variant " + o.variant
	case "reset":
		return fmt.Sprintf("reset maxcols=%d maxpts=%d", o.maxCols, o.maxPts)
	case "sleep":
		return "sleep"
	case "disk":
		return "disk u=" + hx(o.user)
	case "storm":
		return "storm " + o.variant
	}
	p := "u=" + hx(o.user) + " " + o.kind
	if o.worker > 0 {
		p = fmt.Sprintf("w=%d ", o.worker) + p
	}
	switch o.kind {
	case "create":
		v := "2"
		if o.v1 {
			v = "1"
		}
		p += " v=" + v + " c=" + hx(o.c)
	case "get", "drop", "search":
		p += " c=" + hx(o.c)
	case "insert":
		p += " c=" + hx(o.c) + " sid=" + hx(o.sid) + " pts=" + fmtPts(o.pts)
	case "update":
		p += " c=" + hx(o.c) + " pts=" + fmtPts(o.pts)
	case "delete":
		p += " c=" + hx(o.c) + " ids=" + fmtIds(o.ids)
	}
	return p
}

func parseLine(line string) (op, error) {
	toks := strings.Fields(line)
	if len(toks) == 0 {
		return op{}, fmt.Errorf("empty")
	}
	kv := func(k string) (string, bool) {
		for _, t := range toks {
			if strings.HasPrefix(t, k+"=") {
				return t[len(k)+1:], true
			}
		}
		return "", false
	}
	var o op
	var err error
	if strings.HasPrefix(toks[0], "w=") && len(toks) > 1 {
		o.worker, _ = strconv.Atoi(toks[0][2:])
		toks = toks[1:]
	}
	switch toks[0] {
	case "storm":
		o.kind = "storm"
		if len(toks) > 1 {
			o.variant = toks[1]
		}
		return o, nil
	case "variant":
		o.kind, o.variant = "variant", toks[1]
		return o, nil
	case "reset":
		o.kind = "reset"
		a, _ := kv("maxcols")
		b, _ := kv("maxpts")
		o.maxCols, _ = strconv.Atoi(a)
		o.maxPts, _ = strconv.Atoi(b)
		return o, nil
	case "sleep":
		o.kind = "sleep"
		return o, nil
	case "disk":
		o.kind = "disk"
		u, _ := kv("u")
		o.user, err = unhx(u)
		return o, err
	}
	if !strings.HasPrefix(toks[0], "u=") || len(toks) < 2 {
		return o, fmt.Errorf("bad op line %q", line)
	}
	if o.user, err = unhx(toks[0][2:]); err != nil {
		return o, err
	}
	o.kind = toks[1]
	if c, ok := kv("c"); ok {
		if o.c, err = unhx(c); err != nil {
			return o, err
		}
	}
	if v, ok := kv("v"); ok {
		o.v1 = v == "1"
	}
	if s, ok := kv("sid"); ok {
		if o.sid, err = unhx(s); err != nil {
			return o, err
		}
	}
	if p, ok := kv("pts"); ok && p != "-" {
		for _, q := range strings.Split(p, ",") {
			ab := strings.SplitN(q, ":", 2)
			i, _ := strconv.Atoi(ab[0])
			v, _ := strconv.ParseInt(ab[1], 10, 64)
			o.pts = append(o.pts, pt{i, v})
		}
	}
	if p, ok := kv("ids"); ok && p != "-" {
		for _, q := range strings.Split(p, ",") {
			i, _ := strconv.Atoi(q)
			o.ids = append(o.ids, i)
		}
	}
	return o, nil
}

// ------------------------------------------------------------------------------------------ environment

var tmpBase = func() string {
	if st, err := os.Stat("/dev/shm"); err == nil && st.IsDir() {
		return "/dev/shm"
	}
	return os.TempDir()
}()

type env struct {
	dir      string
	cn       *cluster.ClusterNode
	srv      *httptest.Server
	client   *http.Client
	canon    map[string]string // shard uuid → canonical name given on the op line
	canonMu  sync.Mutex
	timeout  int
	variant  string
	sleepFor time.Duration
}

func uuidOf(i int) string { return fmt.Sprintf("00000000-0000-4000-8000-%012d", i) }
func idOf(u string) int {
	n, _ := strconv.Atoi(strings.TrimLeft(u[len(u)-12:], "0"))
	return n
}

func newEnv(maxCols, maxPts, shardTimeout int) *env {
	dir, err := os.MkdirTemp(tmpBase, "c16-")
	if err != nil {
		panic(err)
	}
	cn, err := cluster.NewNode(cluster.ClusterNodeConfig{
		RootDir: dir, Servers: []string{"localhost:9898"}, RpcHost: "localhost", RpcPort: 9898, RpcTimeout: 5, RpcRetries: 1,
		MaxShardSize: 1 << 30, MaxShardPointCount: 100000, MaxSearchLimit: 75,
		ShardManager: cluster.ShardManagerConfig{RootDir: dir, ShardTimeout: shardTimeout, MaxCacheSize: 0},
	})
	if err != nil {
		panic(err)
	}
	h := httpapi.VerifSetupRouter(cn, httpapi.HttpApiConfig{UserPlans: map[string]models.UserPlan{
		"P": {Name: "P", MaxCollections: maxCols, MaxCollectionPointCount: int64(maxPts), MaxPointSize: 1000},
	}})
	srv := httptest.NewServer(h)
	cl := &http.Client{Timeout: 20 * time.Second, CheckRedirect: func(*http.Request, []*http.Request) error { return http.ErrUseLastResponse }}
	return &env{dir: dir, cn: cn, srv: srv, client: cl, canon: map[string]string{}, timeout: shardTimeout,
		sleepFor: sleepFor(shardTimeout)}
}

// "sleep" waits until idle shards are unloaded; only the short timeout (used when the code is the
// pinned variant, where a stale loaded shard would hide what happened on disk) is ever waited for
func sleepFor(shardTimeout int) time.Duration {
	if shardTimeout <= 2 {
		return time.Duration(shardTimeout)*time.Second + 600*time.Millisecond
	}
	return 0
}

func (e *env) close() {
	e.srv.Close()
	e.cn.Close()
	// loaded shards keep their files open until their idle timer fires; the directory is removed
	// anyway (unlinked files vanish when the shard is unloaded)
	os.RemoveAll(e.dir)
}

func (e *env) do(user, method, path string, body any) (int, map[string]any, string) {
	var rd io.Reader
	if body != nil {
		b, _ := json.Marshal(body)
		rd = bytes.NewReader(b)
	}
	req, err := http.NewRequest(method, e.srv.URL+path, rd)
	if err != nil {
		return -1, nil, err.Error()
	}
	req.Header.Set("Content-Type", "application/json")
	req.Header["X-User-Id"] = []string{user}
	req.Header.Set("X-Plan-Id", "P")
	resp, err := e.client.Do(req)
	if err != nil {
		return -1, nil, err.Error()
	}
	defer resp.Body.Close()
	raw, _ := io.ReadAll(resp.Body)
	var m map[string]any
	json.Unmarshal(raw, &m)
	return resp.StatusCode, m, string(raw)
}

func errText(m map[string]any) string {
	if m == nil {
		return ""
	}
	s, _ := m["error"].(string)
	return s
}

// status classes shared by all ops
func common(st int, m map[string]any) (string, bool) {
	switch {
	case st == 400 && (strings.Contains(errText(m), "X-User-Id")):
		return "rejected", true
	case st == 400:
		return "bad", true
	case st == 404:
		return "notfound", true
	case st == 403:
		return "quota", true
	case st == 409:
		return "exists", true
	case st == 202:
		return "accepted", true
	case st != 200:
		return fmt.Sprintf("error:%d", st), true
	}
	return "", false
}

func (e *env) learnShards(user, c, sid string) {
	defer func() { recover() }()
	col, err := e.cn.GetCollection(user, c)
	if err != nil {
		return
	}
	e.canonMu.Lock()
	defer e.canonMu.Unlock()
	for _, s := range col.ShardIds {
		if _, ok := e.canon[s]; !ok {
			e.canon[s] = sid
		}
	}
}

func (e *env) exec(o op) (out string) {
	defer func() {
		if r := recover(); r != nil {
			out = fmt.Sprintf("panic:%v", r)
		}
	}()
	colPath := "/v2/collections/" + url.PathEscape(o.c)
	switch o.kind {
	case "reset", "variant", "storm":
		return "ok"
	case "sleep":
		time.Sleep(e.sleepFor)
		return "ok"
	case "disk":
		return "dirs " + e.disk(o.user)
	case "create":
		var st int
		var m map[string]any
		if o.v1 {
			st, m, _ = e.do(o.user, "POST", "/v1/collections", map[string]any{"id": o.c, "vectorSize": 2, "distanceMetric": "euclidean"})
		} else {
			st, m, _ = e.do(o.user, "POST", "/v2/collections", map[string]any{"id": o.c, "indexSchema": map[string]any{"k": map[string]any{"type": "integer"}}})
		}
		if s, ok := common(st, m); ok {
			return s
		}
		return "ok"
	case "list":
		st, m, _ := e.do(o.user, "GET", "/v2/collections", nil)
		if s, ok := common(st, m); ok {
			return s
		}
		var ids []string
		cols, _ := m["collections"].([]any)
		for _, c := range cols {
			id, _ := c.(map[string]any)["id"].(string)
			ids = append(ids, hx(id))
		}
		sort.Strings(ids)
		if len(ids) == 0 {
			return "cols -"
		}
		return "cols " + strings.Join(ids, ",")
	case "get":
		st, m, _ := e.do(o.user, "GET", colPath, nil)
		if s, ok := common(st, m); ok {
			return s
		}
		var cs []int
		sh, _ := m["shards"].([]any)
		for _, s := range sh {
			n, _ := s.(map[string]any)["pointCount"].(float64)
			cs = append(cs, int(n))
		}
		return "info " + fmtIds(cs)
	case "drop":
		st, m, _ := e.do(o.user, "DELETE", colPath, nil)
		if s, ok := common(st, m); ok {
			return s
		}
		return "ok"
	case "insert":
		var pts []map[string]any
		for _, p := range o.pts {
			q := map[string]any{"_id": uuidOf(p.id), "k": p.v}
			if isV1Name(o.c) {
				q["vector"] = []float32{float32(p.v), 1}
			}
			pts = append(pts, q)
		}
		st, m, _ := e.do(o.user, "POST", colPath+"/points", map[string]any{"points": pts})
		e.learnShards(o.user, o.c, o.sid)
		if s, ok := common(st, m); ok {
			return s
		}
		if fr, _ := m["failedRanges"].([]any); len(fr) > 0 {
			return "insertfailed"
		}
		return "ok"
	case "update":
		var pts []map[string]any
		for _, p := range o.pts {
			pts = append(pts, map[string]any{"_id": uuidOf(p.id), "k": p.v})
		}
		st, m, _ := e.do(o.user, "PUT", colPath+"/points", map[string]any{"points": pts})
		if s, ok := common(st, m); ok {
			return s
		}
		return "failed " + failedIds(m)
	case "delete":
		var ids []string
		for _, i := range o.ids {
			ids = append(ids, uuidOf(i))
		}
		st, m, _ := e.do(o.user, "DELETE", colPath+"/points", map[string]any{"ids": ids})
		if s, ok := common(st, m); ok {
			return s
		}
		return "failed " + failedIds(m)
	case "search":
		q := map[string]any{"query": map[string]any{"property": "k", "integer": map[string]any{"operator": "greaterThanOrEquals", "value": -1000000}},
			"limit": 100, "select": []string{"k"}}
		st, m, _ := e.do(o.user, "POST", colPath+"/points/search", q)
		if s, ok := common(st, m); ok {
			return s
		}
		type r struct {
			id int
			v  int64
		}
		var rs []r
		ps, _ := m["points"].([]any)
		for _, p := range ps {
			pm := p.(map[string]any)
			id, _ := pm["_id"].(string)
			k, _ := pm["k"].(float64)
			rs = append(rs, r{idOf(id), int64(k)})
		}
		sort.Slice(rs, func(i, j int) bool { return rs[i].id < rs[j].id })
		var s []string
		for _, x := range rs {
			s = append(s, fmt.Sprintf("%d:%d", x.id, x.v))
		}
		if len(s) == 0 {
			return "points -"
		}
		return "points " + strings.Join(s, ",")
	}
	return "bad-op"
}

func failedIds(m map[string]any) string {
	var ids []int
	fp, _ := m["failedPoints"].([]any)
	for _, f := range fp {
		id, _ := f.(map[string]any)["id"].(string)
		ids = append(ids, idOf(id))
	}
	return fmtIds(ids)
}

// shard directories (those holding a sharddb.bbolt) below <root>/userCollections/<user>, as
// '/'-joined hex segments relative to the user directory; shard uuids → their canonical names
func (e *env) disk(user string) string {
	base := filepath.Join(e.dir, "userCollections") + string(filepath.Separator) + user // no cleaning: plain users only
	var out []string
	filepath.WalkDir(base, func(p string, d os.DirEntry, err error) error {
		if err != nil {
			return nil
		}
		if !d.IsDir() && d.Name() == "sharddb.bbolt" {
			rel, _ := filepath.Rel(base, filepath.Dir(p))
			var segs []string
			for _, s := range strings.Split(rel, string(filepath.Separator)) {
				if c, ok := e.canon[s]; ok {
					s = c
				}
				segs = append(segs, hx(s))
			}
			out = append(out, strings.Join(segs, "/"))
		}
		return nil
	})
	sort.Strings(out)
	if len(out) == 0 {
		return "-"
	}
	return strings.Join(out, ",")
}

// ------------------------------------------------------------------------------------------ validity predicates (mirror of the model's domain)

func plain(u string) bool {
	return u != "" && u != "." && u != ".." && !strings.Contains(u, "/")
}

// ------------------------------------------------------------------------------------------ scenarios

var userPool = []string{"a", "ab", "abc", "abcd", "xyz", "xy", "abcxyz", "usr", "userCollections", "A", "aB", "ab.", "ab0", "ab-", ".a", "..a", "...",
	"a.b", "\xc3\xa9", "ab cd", "*", "%2F", "ab\\cd", "abc\\", ".", "..", "a/b", "/", "ab/", "abc/xyz", "../abc", "./abc"}
// ids that differ only in characters a sanitiser might fold together (none contains '/' or '\\')
var confusable = [][]string{
	{"a.b", "a_b", "a:b", "a|b", "a b", "a-b", "a+b"},
	{"acme.eu", "acme_eu", "acme-eu", "acme:eu"},
	{"abc", "ABC", "Abc", "abC"},
	{"ab", "ab_", "ab.", "ab-", "ab~"},
}

var colPool = []string{"abc", "abcd", "xyz", "xyzabc", "cde", "usercollections", "abcdefghijklmnopqrstuvwx", "a1b2c3"}

// collections created through the v1 API carry a fixed vector schema (no integer index "k"), so
// they get no update / search ops; they are recognisable by an upper-case letter (refused by v2)
var v1ColPool = []string{"userCollections", "ABC", "Vone1"}

func isV1Name(c string) bool { return strings.ToLower(c) != c }

var badColPool = []string{"ab", "ABC", "a-b", "abc.", "...", "a/b", "abcdefghijklmnopqrstuvwxy", "ab cd", "..a", "userCollections"}

type scenario struct {
	maxCols, maxPts int
	ops             []op
}

func genScenario(r *vh.Rng, variant string, sidCounter *int) scenario {
	sc := scenario{maxCols: 1 + r.Intn(3), maxPts: 3 + r.Intn(6)}
	nu := 2 + r.Intn(2)
	var users []string
	// one scenario in eight: tenants whose ids become equal under some "harmless" normalisation (other
	// separator-like characters, case, surrounding blanks are trimmed by net/http so inner blank only)
	var family []string
	if r.Chance(12) {
		family = vh.Pick(r, confusable)
	}
	for len(users) < nu {
		u := vh.Pick(r, userPool)
		if r.Chance(55) {
			u = vh.Pick(r, userPool[:10])
		}
		if family != nil {
			u = vh.Pick(r, family)
		}
		if variant == "pinned" && strings.Contains(u, "/") {
			continue // outside the property's domain ("user ids without '/'"); only meaningful once refused
		}
		dup := false
		for _, x := range users {
			dup = dup || x == u
		}
		if !dup {
			users = append(users, u)
		}
	}
	cols := []string{vh.Pick(r, colPool), vh.Pick(r, colPool), vh.Pick(r, colPool)}
	if family != nil {
		cols = cols[:1+r.Intn(2)] // few names, so that the tenants own equally named collections
	}
	for _, u := range users { // another user's id as collection name
		if len(u) >= 3 && r.Chance(50) {
			cols = append(cols, u)
		}
	}
	if r.Chance(35) {
		cols = append(cols, vh.Pick(r, v1ColPool))
	}
	// a collection id that walks to another tenant's collection if any layer joins / cleans paths
	// (keys "user/collection", shard directories): never a collection of the requesting user
	if r.Chance(30) {
		v, vc := vh.Pick(r, users), vh.Pick(r, cols[:3])
		cols = append(cols, vh.Pick(r, []string{"../" + v + "/" + vc, "x/../../" + v + "/" + vc, "./../" + v + "/" + vc, "..\\" + v + "\\" + vc}))
	}
	n := 18 + r.Intn(30)
	type ck struct{ u, c string }
	have := map[ck]map[int]bool{}
	created := map[string][]string{} // per user: collections it probably owns (drives the choice of targets only)
	for i := 0; i < n; i++ {
		u := vh.Pick(r, users)
		c := vh.Pick(r, cols)
		w := r.Intn(100)
		if len(created[u]) == 0 && r.Chance(60) {
			w = 0 // create first
		}
		if w >= 18 && len(created[u]) > 0 && r.Chance(80) {
			c = vh.Pick(r, created[u])
		}
		if r.Chance(5) {
			c = vh.Pick(r, badColPool)
		}
		k := ck{u, c}
		var o op
		switch {
		case w < 18:
			o = op{kind: "create", user: u, c: c, v1: isV1Name(c) && !r.Chance(10)}
			if len(created[u]) < sc.maxCols {
				created[u] = append(created[u], c)
			}
		case w < 26:
			o = op{kind: "list", user: u}
		case w < 36:
			o = op{kind: "get", user: u, c: c}
		case w < 43:
			o = op{kind: "drop", user: u, c: c}
			delete(have, k)
			for j, x := range created[u] {
				if x == c {
					created[u] = append(append([]string{}, created[u][:j]...), created[u][j+1:]...)
					break
				}
			}
		case w < 66:
			*sidCounter++
			o = op{kind: "insert", user: u, c: c, sid: fmt.Sprintf("s%d", *sidCounter)}
			cnt := 1 + r.Intn(3)
			seen := map[int]bool{}
			// never an id that may already be in the collection, never an id twice in one batch: a
			// refused batch can crash the whole process on this code base (index goroutines outlive the
			// rolled-back transaction: DESIGN.md section 8 no. 4, property C07), which is not C16's business
			for j := 0; j < cnt; j++ {
				id := 1 + r.Intn(12)
				if have[k][id] || seen[id] {
					continue
				}
				seen[id] = true
				o.pts = append(o.pts, pt{id, int64(r.Intn(101)) - 50})
			}
			for id := 13; len(o.pts) == 0; id++ {
				if !have[k][id] {
					o.pts = []pt{{id, int64(r.Intn(9))}}
				}
			}
			if have[k] == nil {
				have[k] = map[int]bool{}
			}
			for _, p := range o.pts {
				have[k][p.id] = true
			}
		case w < 76 && !isV1Name(c):
			o = op{kind: "update", user: u, c: c}
			seen := map[int]bool{}
			for j := 0; j < 1+r.Intn(3); j++ {
				id := 1 + r.Intn(14)
				if !seen[id] {
					seen[id] = true
					o.pts = append(o.pts, pt{id, int64(r.Intn(101)) - 50})
				}
			}
		case w < 84:
			o = op{kind: "delete", user: u, c: c}
			for j := 0; j < 1+r.Intn(3); j++ {
				o.ids = append(o.ids, 1+r.Intn(14))
			}
		case !isV1Name(c):
			o = op{kind: "search", user: u, c: c}
		default:
			o = op{kind: "get", user: u, c: c}
		}
		sc.ops = append(sc.ops, o)
		if variant == "pinned" && o.kind == "drop" && !plain(o.user) {
			sc.ops = append(sc.ops, op{kind: "sleep"})
		}
	}
	return sc
}

// the two witnesses of DESIGN.md section 8 no. 9 (always run first)
func witnessScenarios(sid *int) []scenario {
	next := func() string { *sid++; return fmt.Sprintf("s%d", *sid) }
	w1 := scenario{maxCols: 2, maxPts: 6, ops: []op{
		{kind: "create", user: "xyz", c: "abc"},
		{kind: "insert", user: "xyz", c: "abc", sid: next(), pts: []pt{{1, 5}, {2, 7}}},
		{kind: "create", user: "xyz", c: "cde"},
		{kind: "insert", user: "xyz", c: "cde", sid: next(), pts: []pt{{3, 1}}},
		{kind: "create", user: ".", c: "xyz"},
		{kind: "insert", user: ".", c: "xyz", sid: next(), pts: []pt{{9, 9}}},
		{kind: "drop", user: ".", c: "xyz"},
		{kind: "sleep"},
		{kind: "search", user: "xyz", c: "abc"},
		{kind: "get", user: "xyz", c: "cde"},
		{kind: "list", user: "xyz"},
	}}
	w2 := scenario{maxCols: 2, maxPts: 6, ops: []op{
		{kind: "create", user: "abc", c: "abc"},
		{kind: "insert", user: "abc", c: "abc", sid: next(), pts: []pt{{1, 5}}},
		{kind: "create", user: "ab", c: "cabc"},
		{kind: "insert", user: "ab", c: "cabc", sid: next(), pts: []pt{{1, 6}, {2, 8}}},
		{kind: "create", user: "..", c: "userCollections", v1: true},
		{kind: "insert", user: "..", c: "userCollections", sid: next(), pts: []pt{{9, 9}}},
		{kind: "drop", user: "..", c: "userCollections"},
		{kind: "sleep"},
		{kind: "search", user: "abc", c: "abc"},
		{kind: "search", user: "ab", c: "cabc"},
	}}
	return []scenario{w1, w2}
}

func scenarioUsers(sc scenario) []string {
	seen := map[string]bool{}
	var us []string
	for _, o := range sc.ops {
		if o.user != "" && !seen[o.user] {
			seen[o.user] = true
			us = append(us, o.user)
		}
	}
	return us
}

// run the ops on a fresh node; returns the answers (one per op) and, per plain user, the disk listing at the end
func runOps(sc scenario, ops []op, shardTimeout int, users []string) ([]string, map[string]string) {
	e := newEnv(sc.maxCols, sc.maxPts, shardTimeout)
	defer e.close()
	res := make([]string, len(ops))
	for i, o := range ops {
		res[i] = e.exec(o)
	}
	disks := map[string]string{}
	for _, u := range users {
		if plain(u) {
			disks[u] = e.disk(u)
		}
	}
	return res, disks
}

type violation struct {
	victim, others string
	at             int // index into sc.ops of the first differing response (-1: only the disk differs)
	what           string
}

// the property oracle on the real node: every plain user's view equals its view in a run alone
func oracle(sc scenario, shardTimeout int, full []string, fullDisk map[string]string) *violation {
	users := scenarioUsers(sc)
	for _, b := range users {
		if !plain(b) {
			continue
		}
		var solo []op
		var idx []int
		for i, o := range sc.ops {
			if o.user == b || o.kind == "sleep" {
				solo = append(solo, o)
				idx = append(idx, i)
			}
		}
		res, disks := runOps(sc, solo, shardTimeout, []string{b})
		var others []string
		for _, u := range users {
			if u != b {
				others = append(others, hx(u))
			}
		}
		sort.Strings(others)
		for j, i := range idx {
			if res[j] != full[i] {
				return &violation{victim: b, others: strings.Join(others, "+"), at: i,
					what: fmt.Sprintf("user %q: response to %q is %q, but %q when no other user is active", b, sc.ops[i].line(), full[i], res[j])}
			}
		}
		if disks[b] != fullDisk[b] {
			return &violation{victim: b, others: strings.Join(others, "+"), at: -1,
				what: fmt.Sprintf("user %q: shard directories on disk are [%s], but [%s] when no other user is active", b, fullDisk[b], disks[b])}
		}
	}
	return nil
}

func probeVariant() string {
	e := newEnv(1, 1, 30)
	defer e.close()
	st, m, _ := e.do(".", "GET", "/v2/collections", nil)
	if st == 400 && strings.Contains(errText(m), "X-User-Id") {
		return "fixed"
	}
	return "pinned"
}

func main() {
	// own network namespace (or, failing that, an exclusive lock): no port can be taken by, and no
	// connection can come from, another run on this machine; recorded ports of a replay are always free
	vh.IsolateNet("c16")
	zerolog.SetGlobalLevel(zerolog.Disabled)
	seed := flag.Uint64("seed", 1, "PRNG seed")
	n := flag.Int("n", 100, "random scenarios")
	nstorm := flag.Int("storm", 20, "random scenarios with a concurrent phase (clients of name-colliding tenants side by side)")
	stormOps := flag.Int("stormops", 24, "requests per client in the concurrent phase")
	dir := flag.String("out", "", "output directory")
	replay := flag.String("replay", "", "replay the op lines of this file against the implementation (prints impl answers)")
	flag.Parse()
	if *replay != "" {
		doReplay(*replay)
		return
	}
	rng := vh.NewRng(*seed)
	o := vh.NewOut(*dir)
	variant := probeVariant()
	shardTimeout := 10
	if variant == "pinned" {
		shardTimeout = 1
	}
	o.Emit("variant", "variant "+variant, "ok", false)
	sid := 0
	// concurrent phase: corpus first, then random tenants / scripts
	nStormFail := 0
	storms := stormCorpus(&sid)
	for i := 0; i < *nstorm; i++ {
		storms = append(storms, genStorm(rng, &sid, *stormOps/2+rng.Intn(*stormOps)))
	}
	tStorm := time.Now()
	for i, sc := range storms {
		if nStormFail < 3 && doStorm(o, sc, variant, shardTimeout, i) {
			nStormFail++
		}
	}
	stormS := time.Since(tStorm).Seconds()
	scs := witnessScenarios(&sid)
	if variant == "pinned" && *n > 60 {
		*n = 60 // every "sleep" costs 1.6 s on this variant and the verdict does not depend on more scenarios
	}
	for i := 0; i < *n; i++ {
		scs = append(scs, genScenario(rng, variant, &sid))
	}
	multi := 0
	nFail := 0
	t0 := time.Now()
	for si, sc := range scs {
		users := scenarioUsers(sc)
		e := newEnv(sc.maxCols, sc.maxPts, shardTimeout)
		reset := op{kind: "reset", maxCols: sc.maxCols, maxPts: sc.maxPts}
		o.Emit("reset", reset.line(), "ok", false)
		full := make([]string, len(sc.ops))
		owners := map[string]bool{}
		var lines []string
		lines = append(lines, "variant "+variant, reset.line())
		for i, p := range sc.ops {
			full[i] = e.exec(p)
			if p.kind == "create" && full[i] == "ok" {
				owners[p.user] = true
			}
			o.Emit(p.kind, p.line(), full[i], len(owners) >= 2 && p.kind != "sleep")
			lines = append(lines, p.line())
			if strings.HasPrefix(full[i], "error:") || strings.HasPrefix(full[i], "panic:") {
				o.Stats["server-error"]++
			}
		}
		if len(owners) >= 2 {
			multi++
		}
		fullDisk := map[string]string{}
		for _, u := range users {
			if plain(u) {
				fullDisk[u] = e.disk(u)
				d := op{kind: "disk", user: u}
				o.Emit("disk", d.line(), "dirs "+fullDisk[u], len(owners) >= 2)
				lines = append(lines, d.line())
			}
		}
		e.close()
		if nFail >= 12 {
			continue // enough witnesses; keep the correspondence going
		}
		if v := oracle(sc, shardTimeout, full, fullDisk); v != nil {
			nFail++
			// shrink (first witnesses only): drop ops one at a time while the victim still sees a difference
			min := sc
			if nFail <= 2 {
				min = shrink(sc, shardTimeout, v.victim, v.at >= 0, time.Now().Add(20*time.Second))
			}
			rl := []string{"variant " + variant, op{kind: "reset", maxCols: sc.maxCols, maxPts: sc.maxPts}.line()}
			for _, p := range min.ops {
				rl = append(rl, p.line())
			}
			rl = append(rl, op{kind: "disk", user: v.victim}.line())
			sig := fmt.Sprintf("interference:victim=%s:others=%s", hx(v.victim), v.others)
			o.Fail(sig, v.what+fmt.Sprintf(" (scenario %d)", si), strings.Join(rl, "\n"))
		}
		_ = lines
	}
	o.Close(map[string]any{
		"rule":          "one case = one HTTP request (or disk listing) of an interleaved multi-user history on a fresh node; non-trivial = distinct op line issued while at least two users own a collection on the node",
		"variant":       variant,
		"scenarios":     len(scs),
		"scenarios_two": multi,
		"storms":        len(storms),
		"storm_s":       stormS,
		"harness_s":     time.Since(t0).Seconds(),
	})
}

// does user b still observe a difference between the interleaved run of sc and its run alone?
func differs(sc scenario, shardTimeout int, b string, needResp bool) bool {
	users := scenarioUsers(sc)
	full, fd := runOps(sc, sc.ops, shardTimeout, users)
	var solo []op
	var idx []int
	for i, o := range sc.ops {
		if o.user == b || o.kind == "sleep" {
			solo = append(solo, o)
			idx = append(idx, i)
		}
	}
	res, sd := runOps(sc, solo, shardTimeout, []string{b})
	for j, i := range idx {
		if res[j] != full[i] {
			return true
		}
	}
	return !needResp && sd[b] != fd[b]
}

// needResp: the original difference was in a response, keep it one (not merely a disk difference)
func shrink(sc scenario, shardTimeout int, victim string, needResp bool, deadline time.Time) scenario {
	cur := sc
	for changed := true; changed && time.Now().Before(deadline); {
		changed = false
		for i := len(cur.ops) - 1; i >= 0 && time.Now().Before(deadline); i-- {
			if cur.ops[i].kind == "sleep" {
				continue
			}
			cand := scenario{maxCols: cur.maxCols, maxPts: cur.maxPts}
			cand.ops = append(append([]op{}, cur.ops[:i]...), cur.ops[i+1:]...)
			if differs(cand, shardTimeout, victim, needResp) {
				cur = cand
				changed = true
			}
		}
	}
	return cur
}

func doReplay(path string) {
	f, err := os.Open(path)
	if err != nil {
		fmt.Println(err)
		os.Exit(2)
	}
	defer f.Close()
	variant := probeVariant()
	shardTimeout := 30
	if variant == "pinned" {
		shardTimeout = 1
	}
	var e *env
	sc := bufio.NewScanner(f)
	sc.Buffer(make([]byte, 1<<20), 1<<24)
	var stormOpsBuf []op // between `storm begin` and `storm end`: the clients' requests, run side by side at `end`
	inStorm := false
	for sc.Scan() {
		line := strings.TrimSpace(sc.Text())
		if line == "" || strings.HasPrefix(line, "#") {
			continue
		}
		p, err := parseLine(line)
		if err != nil {
			fmt.Println("bad-op")
			continue
		}
		if p.kind == "storm" {
			if p.variant == "begin" {
				fmt.Println("ok")
				inStorm, stormOpsBuf = true, nil
				continue
			}
			if inStorm && e != nil {
				// group by client, run side by side, print the answers in line order
				idx := map[int]int{}
				var workers [][]op
				var pos [][2]int
				for _, q := range stormOpsBuf {
					k, ok := idx[q.worker]
					if !ok {
						k = len(workers)
						idx[q.worker] = k
						workers = append(workers, nil)
					}
					pos = append(pos, [2]int{k, len(workers[k])})
					workers[k] = append(workers[k], q)
				}
				res := runStorm(e, workers)
				for _, ij := range pos {
					fmt.Println(res[ij[0]][ij[1]])
				}
			}
			inStorm = false
			fmt.Println("ok")
			continue
		}
		if inStorm && p.worker > 0 && e != nil {
			stormOpsBuf = append(stormOpsBuf, p)
			continue
		}
		if p.kind == "reset" || e == nil {
			if e != nil {
				e.close()
			}
			mc, mp := p.maxCols, p.maxPts
			if p.kind != "reset" {
				mc, mp = 2, 6
			}
			e = newEnv(mc, mp, shardTimeout)
		}
		fmt.Println(e.exec(p))
	}
	if e != nil {
		e.close()
	}
}
