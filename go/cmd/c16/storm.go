// Concurrent phase of the C16 harness ("storm"): the property quantifies over every interleaving of
// the tenants' requests, and a sequential history never has two requests in flight at once.
//
// A storm scenario has tenants whose names and collection names are chosen so that every way of
// gluing the two together without (or with a different) separator collides:
//
//	u0 = w      owns d+x  x+d  shared
//	u1 = w+d    owns x         shared        (u0 + "d+x" == u1 + "x")
//	u2 = d+w    owns x         shared        ("x+d" + u0 == "x" + u2)
//
// After a sequential build-up (compared with the model line by line, as always) one client per
// (tenant, collection) issues its own script of requests — reads and writes on that collection, and
// the tenant's listing — all clients side by side over real HTTP connections against the one node.
// Requests of different clients touch different (tenant, collection) pairs, so whatever the
// interleaving, each client must receive exactly the answers it receives when its tenant is alone on
// a fresh node:
//
//   - oracle: every tenant's requests (build-up, then its clients' scripts one after the other) are
//     run on another fresh node; every answer and the final shard directories must be equal;
//   - model: the CONCURRENT model is run on the schedule the storm produced. The client wrapper reads a
//     global sequence counter just before it sends a request and just after it has the answer (t0, t1):
//     request A is known to precede request B iff t1(A) < t0(B); requests whose windows overlap were
//     in flight together. Every line `w=<client> u=… op t=<t0>:<t1> r=<answer>` carries the window and
//     the real answer; `semadriver C16` searches for SOME schedule of the two-atomic-step transition
//     system `crun` (look-up step + handler step per collection-scoped request — the system
//     C16_concurrent / C16_any_interleaving are about) that respects this partial order and each
//     client's own order and reproduces every answer, runs `crun` on it and prints its answers; the
//     line `storm end` is answered "ok" iff such a linearisation exists.
//
// Op lines:  `storm begin` … `w=K u=<hex> <op> t=<t0>:<t1> r=<answer>` … `storm end`.  A replay runs the
// clients between the two markers side by side again (the interleaving itself is up to the scheduler;
// the stamps of the file are ignored).
package main

import (
	"fmt"
	"sort"
	"strings"
	"sync"
	"sync/atomic"

	"verifharness/vh"
)

type stormScenario struct {
	maxCols, maxPts int
	setup           []op
	workers         [][]op // scripts; worker index = position + 1
}

func randWord(r *vh.Rng, alphabet string, lo, hi int) string {
	n := lo + r.Intn(hi-lo+1)
	b := make([]byte, n)
	for i := range b {
		b[i] = alphabet[r.Intn(len(alphabet))]
	}
	return string(b)
}

const lower = "abcdefghijklmnopqrstuvwxyz"
const alnum = "abcdefghijklmnopqrstuvwxyz0123456789"

func genStorm(r *vh.Rng, sid *int, nOps int) stormScenario {
	w := randWord(r, lower, 2, 5)
	d := randWord(r, alnum, 1, 2)
	x := randWord(r, alnum, 3, 5)
	if r.Chance(15) { // the very names of the demonstration
		w, d, x = "acme", "1", "data"
	}
	shared := randWord(r, lower, 3, 6)
	type tc struct{ u, c string }
	pairs := []tc{{w, d + x}, {w, x + d}, {w, shared}, {w + d, x}, {w + d, shared}, {d + w, x}, {d + w, shared}}
	// drop some pairs at random (but keep at least one twin pair)
	var keep []tc
	for i, p := range pairs {
		if i == 0 || i == 3 || r.Chance(75) {
			keep = append(keep, p)
		}
	}
	sc := stormScenario{maxCols: 3, maxPts: 40}
	have := map[tc]map[int]bool{}
	for i, p := range keep {
		sc.setup = append(sc.setup, op{kind: "create", user: p.u, c: p.c})
		*sid++
		ins := op{kind: "insert", user: p.u, c: p.c, sid: fmt.Sprintf("s%d", *sid)}
		have[p] = map[int]bool{}
		for j := 0; j < 1+r.Intn(3); j++ {
			id := 1 + j
			ins.pts = append(ins.pts, pt{id, int64(100*(i+1) + id)})
			have[p][id] = true
		}
		if r.Chance(85) {
			sc.setup = append(sc.setup, ins)
		} else {
			have[p] = map[int]bool{}
		}
	}
	for i, p := range keep {
		var script []op
		next := 20
		shardExists := len(have[p]) > 0
		for j := 0; j < nOps; j++ {
			o := op{user: p.u, c: p.c, worker: i + 1}
			switch k := r.Intn(100); {
			case k < 45:
				o.kind = "get"
			case k < 62:
				o.kind = "search"
			case k < 74:
				o.kind = "update"
				seen := map[int]bool{}
				for n := 0; n < 1+r.Intn(2); n++ {
					id := 1 + r.Intn(5)
					if !seen[id] {
						seen[id] = true
						o.pts = append(o.pts, pt{id, int64(1000*(i+1) + r.Intn(100))})
					}
				}
			case k < 82:
				o.kind = "delete"
				id := 1 + r.Intn(5)
				o.ids = []int{id}
				delete(have[p], id)
			case k < 92 && shardExists:
				// only into a collection that already has its shard: the name of a new shard is an
				// oracle argument of the model and must not depend on the interleaving
				o.kind = "insert"
				*sid++
				o.sid = fmt.Sprintf("s%d", *sid)
				o.pts = []pt{{next, int64(1000*(i+1) + next)}}
				next++
			default:
				o = op{kind: "list", user: p.u, worker: i + 1}
			}
			script = append(script, o)
		}
		sc.workers = append(sc.workers, script)
	}
	return sc
}

func (sc stormScenario) users() []string {
	seen := map[string]bool{}
	var us []string
	for _, o := range sc.setup {
		if !seen[o.user] {
			seen[o.user] = true
			us = append(us, o.user)
		}
	}
	return us
}

// the window of one request of the concurrent phase: values of the global sequence counter read just
// before the request was sent and just after its answer was received
type window struct{ t0, t1 uint64 }

// run the clients side by side on e; answers per worker
func runStorm(e *env, workers [][]op) [][]string {
	res, _ := runStormTimed(e, workers)
	return res
}

func runStormTimed(e *env, workers [][]op) ([][]string, [][]window) {
	var seq atomic.Uint64
	wins := make([][]window, len(workers))
	res := make([][]string, len(workers))
	var wg sync.WaitGroup
	start := make(chan struct{})
	for i, script := range workers {
		res[i] = make([]string, len(script))
		wins[i] = make([]window, len(script))
		wg.Add(1)
		go func(i int, script []op) {
			defer wg.Done()
			<-start
			for j, o := range script {
				t0 := seq.Add(1)
				res[i][j] = e.exec(o)
				wins[i][j] = window{t0, seq.Add(1)}
			}
		}(i, script)
	}
	close(start)
	wg.Wait()
	return res, wins
}

// one storm scenario: emits its lines, evaluates the oracle; returns whether it saw a violation
func doStorm(o *vh.Out, sc stormScenario, variant string, shardTimeout int, si int) bool {
	e := newEnv(sc.maxCols, sc.maxPts, shardTimeout)
	reset := op{kind: "reset", maxCols: sc.maxCols, maxPts: sc.maxPts}
	lines := []string{"variant " + variant, reset.line()}
	o.Emit("reset", reset.line(), "ok", false)
	setupRes := make([]string, len(sc.setup))
	for i, p := range sc.setup {
		setupRes[i] = e.exec(p)
		o.Emit(p.kind, p.line(), setupRes[i], true)
		lines = append(lines, p.line())
	}
	res, wins := runStormTimed(e, sc.workers)
	o.Emit("storm", "storm begin", "ok", false)
	lines = append(lines, "storm begin")
	overlaps := 0
	for i, script := range sc.workers {
		for j, p := range script {
			// the window and the real answer travel with the op line: the driver needs them to look for a
			// linearisation of the concurrent model (spaces of the answer as '_')
			l := fmt.Sprintf("%s t=%d:%d r=%s", p.line(), wins[i][j].t0, wins[i][j].t1, strings.ReplaceAll(res[i][j], " ", "_"))
			o.Emit("storm-"+p.kind, l, res[i][j], true)
			lines = append(lines, p.line())
			if wins[i][j].t1 > wins[i][j].t0+1 {
				overlaps++ // some other request started or ended inside this one's window
			}
		}
	}
	o.Stats["storm-requests-overlapping-another"] += overlaps
	o.Emit("storm", "storm end", "ok", false)
	lines = append(lines, "storm end")
	users := sc.users()
	disks := map[string]string{}
	for _, u := range users {
		disks[u] = e.disk(u)
		d := op{kind: "disk", user: u}
		o.Emit("disk", d.line(), "dirs "+disks[u], true)
		lines = append(lines, d.line())
	}
	e.close()
	// ---- oracle: every tenant alone
	for _, b := range users {
		solo := newEnv(sc.maxCols, sc.maxPts, shardTimeout)
		var what string
		for i, p := range sc.setup {
			if p.user != b {
				continue
			}
			if r := solo.exec(p); r != setupRes[i] && what == "" {
				what = fmt.Sprintf("user %q: response to %q is %q, but %q when no other user is active", b, p.line(), setupRes[i], r)
			}
		}
		for i, script := range sc.workers {
			for j, p := range script {
				if p.user != b {
					continue
				}
				if r := solo.exec(p); r != res[i][j] && what == "" {
					what = fmt.Sprintf("user %q: response to %q, issued while other clients were active, is %q, but %q when no other user is active", b, p.line(), res[i][j], r)
				}
			}
		}
		if d := solo.disk(b); d != disks[b] && what == "" {
			what = fmt.Sprintf("user %q: shard directories on disk are [%s], but [%s] when no other user is active", b, disks[b], d)
		}
		solo.close()
		if what != "" {
			var others []string
			for _, u := range users {
				if u != b {
					others = append(others, hx(u))
				}
			}
			sort.Strings(others)
			sig := fmt.Sprintf("concurrent-interference:victim=%s:others=%s", hx(b), strings.Join(others, "+"))
			o.Fail(sig, what+fmt.Sprintf(" (storm scenario %d)", si), strings.Join(lines, "\n"))
			return true
		}
	}
	return false
}

// the minimised witness of this class, run first: the two tenants of the demonstration (and the
// mirrored pair for keys glued the other way round), two collections each, reads only
func stormCorpus(sid *int) []stormScenario {
	mk := func(users [2]string, cols [2][2]string, n int) stormScenario {
		sc := stormScenario{maxCols: 3, maxPts: 40}
		k := 0
		for i := 0; i < 2; i++ {
			for j := 0; j < 2; j++ {
				sc.setup = append(sc.setup, op{kind: "create", user: users[i], c: cols[i][j]})
				*sid++
				sc.setup = append(sc.setup, op{kind: "insert", user: users[i], c: cols[i][j], sid: fmt.Sprintf("s%d", *sid), pts: []pt{{1, int64(10*(k+1) + 1)}, {2 + k, int64(10*(k+1) + 2)}}})
				var script []op
				for q := 0; q < n; q++ {
					kind := "get"
					if q%3 == 2 {
						kind = "search"
					}
					script = append(script, op{kind: kind, user: users[i], c: cols[i][j], worker: k + 1})
				}
				sc.workers = append(sc.workers, script)
				k++
			}
		}
		return sc
	}
	return []stormScenario{
		mk([2]string{"acme", "acme1"}, [2][2]string{{"1data", "1datb"}, {"data", "datb"}}, 40),
		mk([2]string{"acme", "1acme"}, [2][2]string{{"data1", "datb1"}, {"data", "datb"}}, 40),
	}
}
