// C13 correspondence harness: runs cluster.RendezvousHash (and cespare/xxhash, the hash it uses) on
// boundary and random inputs, evaluates the property oracle (determinism, order independence,
// minimal disruption on adding / removing one server, clamping, membership) directly on the real
// function, and measures — as a TEST, not a theorem — the share of a large key set every server owns.
// The same op lines are evaluated by the Lean model (SemaModel/C13/Model.lean, h := XXH64 in Lean).
// sites.go adds the call sites that route: the real Sync() and the real request paths on in-process
// cluster nodes (lines sync / shsync / req / shreq).
package main

import (
	"bufio"
	"encoding/hex"
	"flag"
	"fmt"
	"os"
	"strconv"
	"strings"

	"github.com/cespare/xxhash"
	"github.com/rs/zerolog"
	"github.com/semafind/semadb/cluster"
	"verifharness/vh"
)

// ---------------------------------------------------------------------------- line protocol

func encBytes(s string) string {
	if len(s) == 0 {
		return "-"
	}
	return hex.EncodeToString([]byte(s))
}
func encName(s string) string {
	if len(s) == 0 {
		return "."
	}
	return hex.EncodeToString([]byte(s))
}
func encServers(ss []string) string {
	if len(ss) == 0 {
		return "-"
	}
	parts := make([]string, len(ss))
	for i, s := range ss {
		parts[i] = encName(s)
	}
	return strings.Join(parts, ",")
}
func decBytes(s string) (string, bool) {
	if s == "-" {
		return "", true
	}
	b, err := hex.DecodeString(s)
	return string(b), err == nil
}
func decServers(s string) ([]string, bool) {
	if s == "-" {
		return []string{}, true
	}
	var r []string
	for _, p := range strings.Split(s, ",") {
		if p == "." {
			r = append(r, "")
			continue
		}
		b, err := hex.DecodeString(p)
		if err != nil {
			return nil, false
		}
		r = append(r, string(b))
	}
	return r, true
}

// own = what every call site computes: RendezvousHash(key, servers, 1)[0]; "panic" when it panics
func own(key string, servers []string) (res string, panicked bool) {
	defer func() {
		if r := recover(); r != nil {
			res, panicked = "", true
		}
	}()
	return cluster.RendezvousHash(key, append([]string{}, servers...), 1)[0], false
}

func rv(key string, servers []string, k int) (res []string, panicked bool) {
	defer func() {
		if r := recover(); r != nil {
			res, panicked = nil, true
		}
	}()
	return cluster.RendezvousHash(key, append([]string{}, servers...), k), false
}

// evalOp: the implementation's canonical answer to one op line (used for generation and replay)
func evalOp(line string) string {
	f := strings.Fields(line)
	switch {
	case len(f) == 2 && f[0] == "xxh":
		b, ok := decBytes(f[1])
		if !ok {
			return "bad-op"
		}
		return fmt.Sprintf("%016x", xxhash.Sum64String(b))
	case len(f) == 4 && f[0] == "rv":
		k, err := strconv.Atoi(f[1])
		key, ok1 := decBytes(f[2])
		ss, ok2 := decServers(f[3])
		if err != nil || k < 0 || !ok1 || !ok2 {
			return "bad-op"
		}
		r, p := rv(key, ss, k)
		if p {
			return "panic"
		}
		return encServers(r)
	case len(f) == 3 && f[0] == "own":
		key, ok1 := decBytes(f[1])
		ss, ok2 := decServers(f[2])
		if !ok1 || !ok2 {
			return "bad-op"
		}
		r, p := own(key, ss)
		if p {
			return "panic"
		}
		return encName(r)
	case len(f) > 0 && (f[0] == "sync" || f[0] == "shsync" || f[0] == "req" || f[0] == "shreq"):
		return evalSiteOp(line, f) // real cluster nodes, see sites.go
	}
	return "bad-op"
}

func doReplay(path string) {
	f, err := os.Open(path)
	if err != nil {
		fmt.Println(err)
		os.Exit(2)
	}
	sc := bufio.NewScanner(f)
	sc.Buffer(make([]byte, 1<<20), 1<<26)
	for sc.Scan() {
		l := strings.TrimSpace(sc.Text())
		if l == "" || strings.HasPrefix(l, "#") {
			continue
		}
		fmt.Println(evalOp(l))
	}
}

// ---------------------------------------------------------------------------- generators

func randBytes(r *vh.Rng, n int) string {
	b := make([]byte, n)
	for i := range b {
		b[i] = byte(r.U64())
	}
	return string(b)
}

func uuidStr(r *vh.Rng) string {
	a, b := r.U64(), r.U64()
	return fmt.Sprintf("%08x-%04x-%04x-%04x-%012x", uint32(a>>32), uint16(a>>16), uint16(a), uint16(b>>48), b&0xffffffffffff)
}

func genKey(r *vh.Rng) string {
	switch r.Intn(8) {
	case 0:
		return ""
	case 1:
		return vh.Pick(r, []string{"testy", "alice", "bob", "user-1", "u", "a/b", ".", "..", "semafind", "0"})
	case 2:
		return randBytes(r, 1+r.Intn(70)) // arbitrary bytes, crosses the 32-byte stripe boundary with the server name
	case 3:
		return "user" + strconv.Itoa(r.Intn(100000))
	default:
		return uuidStr(r) // shard ids and most user ids are uuids
	}
}

func genServerName(r *vh.Rng, i int) string {
	switch r.Intn(10) {
	case 0:
		return randBytes(r, r.Intn(40))
	case 1:
		return "localhost:" + strconv.Itoa(9000+r.Intn(1000))
	case 2:
		return fmt.Sprintf("10.0.%d.%d:11001", r.Intn(256), r.Intn(256))
	case 3:
		return strings.Repeat("x", r.Intn(4)) // very short names incl. the empty one
	default:
		return fmt.Sprintf("semadb-%d.semadb.default.svc.cluster.local:11001", i+r.Intn(3)*100)
	}
}

// a server list of the given size; dup: percent chance that an entry repeats an earlier one
func genServers(r *vh.Rng, n int, dup int) []string {
	ss := make([]string, 0, n)
	for len(ss) < n {
		if len(ss) > 0 && r.Chance(dup) {
			ss = append(ss, ss[r.Intn(len(ss))])
			continue
		}
		ss = append(ss, genServerName(r, len(ss)))
	}
	return ss
}

func shuffled(r *vh.Rng, ss []string) []string {
	t := append([]string{}, ss...)
	for i := len(t) - 1; i > 0; i-- {
		j := r.Intn(i + 1)
		t[i], t[j] = t[j], t[i]
	}
	return t
}

func contains(ss []string, s string) bool {
	for _, x := range ss {
		if x == s {
			return true
		}
	}
	return false
}

// ties between DIFFERENT names (the excluded point of the theorems), by independent recomputation
func hasTies(key string, ss []string) bool {
	seen := map[uint64]string{}
	for _, s := range ss {
		h := xxhash.Sum64String(key + s)
		if o, ok := seen[h]; ok && o != s {
			return true
		}
		seen[h] = s
	}
	return false
}

func eqS(a, b []string) bool {
	if len(a) != len(b) {
		return false
	}
	for i := range a {
		if a[i] != b[i] {
			return false
		}
	}
	return true
}

func mix64(x uint64) uint64 {
	x ^= x >> 33
	x *= 0xff51afd7ed558ccd
	x ^= x >> 33
	x *= 0xc4ceb9fe1a85ec53
	x ^= x >> 33
	return x
}

func main() {
	// the cluster lines open listeners: own network namespace (or, failing that, an exclusive lock)
	vh.IsolateNet("c13")
	zerolog.SetGlobalLevel(zerolog.Disabled)
	seed := flag.Uint64("seed", 1, "PRNG seed")
	syncScen := flag.Int("syncscen", 24, "clusters whose node database records are re-distributed by the real Sync")
	shsyncScen := flag.Int("shsyncscen", 8, "clusters whose shard directories are re-distributed by the real Sync")
	reqScen := flag.Int("reqscen", 80, "requests issued at a real node while some servers do not answer")
	n := flag.Int("n", 600, "random routing cases")
	shareKeys := flag.Int("sharekeys", 20000, "keys per server-set size in the share test")
	dir := flag.String("out", "", "output directory")
	replay := flag.String("replay", "", "replay the op lines of this file against the implementation")
	flag.Parse()
	if *replay != "" {
		doReplay(*replay)
		return
	}
	// vh.NewRng(s) and vh.NewRng(s+1) are the same SplitMix stream one step apart; as soon as two runs have
	// consumed a different number of values they produce the same cases. Scramble the seed first.
	rng := vh.NewRng(mix64(*seed))
	o := vh.NewOut(*dir)
	emit := func(kind, op string, nontrivial bool) string {
		ans := evalOp(op)
		o.Emit(kind, op, ans, nontrivial)
		return ans
	}

	// ---------------------------------------------------------------- the hash: XXH64 model vs cespare/xxhash
	for l := 0; l <= 100; l++ {
		emit("xxh-boundary", "xxh "+encBytes(randBytes(rng, l)), true)
		emit("xxh-boundary", "xxh "+encBytes(strings.Repeat("\x00", l)), l > 0)
		emit("xxh-boundary", "xxh "+encBytes(strings.Repeat("\xff", l)), l > 0)
	}
	for i := 0; i < *n; i++ {
		l := rng.Intn(300)
		if rng.Chance(30) {
			l = vh.Pick(rng, []int{31, 32, 33, 63, 64, 65, 95, 96, 97, 127, 128, 129, 255, 256, 257})
		}
		emit("xxh-random", "xxh "+encBytes(randBytes(rng, l)), true)
	}

	// ---------------------------------------------------------------- excluded points, run on the real function
	for _, key := range []string{"", "testy", uuidStr(rng)} {
		emit("excluded-empty-list", "own "+encBytes(key)+" -", false) // index out of range at every call site
		emit("excluded-empty-list", "rv 1 "+encBytes(key)+" -", false)
		emit("excluded-empty-list", "rv 0 "+encBytes(key)+" -", false)
		for _, k := range []int{0, 1, 2, 3, 4, 17, 1000} {
			emit("excluded-k", fmt.Sprintf("rv %d %s %s", k, encBytes(key), encServers([]string{"a", "b", "c"})), true)
		}
		emit("excluded-dup", "rv 4 "+encBytes(key)+" "+encServers([]string{"a", "a", "b", "a"}), true)
		emit("excluded-dup", "own "+encBytes(key)+" "+encServers([]string{"", "", "x"}), true)
	}

	// ---------------------------------------------------------------- random routing cases + oracle
	judged, skippedTies := 0, 0
	sizes := map[string]int{}
	for i := 0; i < *n; i++ {
		key := genKey(rng)
		sz := 1 + rng.Intn(16)
		if rng.Chance(10) {
			sz = 17 + rng.Intn(30) // beyond the property's 1..16 and beyond pdqsort's insertion-sort cut-off (12)
		}
		dup := 0
		if rng.Chance(20) {
			dup = 30
		}
		S := genServers(rng, sz, dup)
		sizes[fmt.Sprintf("n=%02d", min(sz, 17))]++
		k := vh.Pick(rng, []int{0, 1, 1, 1, 2, 3, sz - 1, sz, sz + 1, 100})
		if k < 0 {
			k = 0
		}
		opRv := fmt.Sprintf("rv %d %s %s", k, encBytes(key), encServers(S))
		emit("rv", opRv, true)
		opOwn := "own " + encBytes(key) + " " + encServers(S)
		emit("own", opOwn, true)
		res, p1 := rv(key, S, k)
		o1, p2 := own(key, S)
		if p1 || p2 {
			o.Fail(fmt.Sprintf("panic:n=%d:k=%d", sz, k), "RendezvousHash panics on a non-empty server list", opRv+"\n"+opOwn)
			continue
		}
		ties := hasTies(key, S)
		if ties {
			skippedTies++ // outside the domain of the property theorems (never observed with XXH64)
		}
		// determinism
		res2, _ := rv(key, S, k)
		if !eqS(res, res2) {
			o.Fail(fmt.Sprintf("determinism:n=%d:k=%d", sz, k), "two calls with the same arguments differ", opRv)
		}
		// clamp / membership
		wantLen := min(k, len(S))
		if len(res) != wantLen {
			o.Fail(fmt.Sprintf("length:n=%d:k=%d", sz, k), fmt.Sprintf("result has %d entries, want min(k,n)=%d", len(res), wantLen), opRv)
		}
		for _, s := range res {
			if !contains(S, s) {
				o.Fail(fmt.Sprintf("membership:n=%d:k=%d", sz, k), "result names a server that is not in the list", opRv)
			}
		}
		if !contains(S, o1) {
			o.Fail(fmt.Sprintf("membership:n=%d:own", sz), "owner is not in the list", opOwn)
		}
		if ties {
			continue
		}
		judged++
		// order independence (every k) on several permutations
		for t := 0; t < 3; t++ {
			S2 := shuffled(rng, S)
			if t == 0 { // reversal is the permutation most likely to expose a stable-sort dependence
				S2 = append([]string{}, S...)
				for a, b := 0, len(S2)-1; a < b; a, b = a+1, b-1 {
					S2[a], S2[b] = S2[b], S2[a]
				}
			}
			op2 := fmt.Sprintf("rv %d %s %s", k, encBytes(key), encServers(S2))
			emit("rv-perm", op2, true)
			r2, _ := rv(key, S2, k)
			if !eqS(res, r2) {
				o.Fail(fmt.Sprintf("perm-invariance:n=%d:k=%d", sz, k), "the result depends on the order of the server list", opRv+"\n"+op2)
			}
			if ow, _ := own(key, S2); ow != o1 {
				o.Fail(fmt.Sprintf("perm-invariance:n=%d:own", sz), "the owner depends on the order of the server list", opOwn+"\nown "+encBytes(key)+" "+encServers(S2))
			}
		}
		// addition of one server at a random position
		for t := 0; t < 2; t++ {
			nw := genServerName(rng, 50+t)
			if contains(S, nw) {
				continue
			}
			pos := rng.Intn(len(S) + 1)
			S3 := append(append(append([]string{}, S[:pos]...), nw), S[pos:]...)
			if hasTies(key, S3) {
				continue
			}
			op3 := "own " + encBytes(key) + " " + encServers(S3)
			emit("own-add", op3, true)
			o3, _ := own(key, S3)
			if o3 != o1 && o3 != nw {
				o.Fail(fmt.Sprintf("add-disruption:n=%d", sz), "adding one server moved a key between two OLD servers", opOwn+"\n"+op3)
			}
		}
		// removal of one server (all occurrences), for every distinct name
		seen := map[string]bool{}
		for _, r := range S {
			if seen[r] {
				continue
			}
			seen[r] = true
			var S4 []string
			for _, s := range S {
				if s != r {
					S4 = append(S4, s)
				}
			}
			if len(S4) == 0 {
				continue
			}
			if rng.Chance(60) && len(S) > 4 && r != o1 {
				continue // keep the op count down: always test removing the owner, sample the others
			}
			op4 := "own " + encBytes(key) + " " + encServers(S4)
			emit("own-remove", op4, true)
			o4, _ := own(key, S4)
			if r != o1 && o4 != o1 {
				o.Fail(fmt.Sprintf("remove-disruption:n=%d", sz), "removing a server that did not own the key changed the key's owner", opOwn+"\n"+op4)
			}
			if r == o1 && o4 == r {
				o.Fail(fmt.Sprintf("remove-owner:n=%d", sz), "a removed server still owns the key", opOwn+"\n"+op4)
			}
		}
	}

	// ---------------------------------------------------------------- share of a large key set (TEST, not a theorem)
	type shareRow struct {
		Servers  int     `json:"servers"`
		Keys     int     `json:"keys"`
		MinShare float64 `json:"min_share"`
		MaxShare float64 `json:"max_share"`
		Ideal    float64 `json:"ideal_share"`
		Moved    int     `json:"keys_moved_on_adding_one_server"`
		MovedBad int     `json:"keys_moved_between_old_servers"`
	}
	var shares []shareRow
	keys := make([]string, *shareKeys)
	for i := range keys {
		if i%4 == 3 {
			keys[i] = "user" + strconv.Itoa(i)
		} else {
			keys[i] = uuidStr(rng)
		}
	}
	for sz := 1; sz <= 16; sz++ {
		S := make([]string, sz)
		for i := range S {
			S[i] = fmt.Sprintf("semadb-%d.semadb.default.svc.cluster.local:11001", i)
		}
		Splus := append(append([]string{}, S...), fmt.Sprintf("semadb-%d.semadb.default.svc.cluster.local:11001", sz))
		cnt := map[string]int{}
		moved, movedBad := 0, 0
		for _, kx := range keys {
			a, _ := own(kx, S)
			cnt[a]++
			b, _ := own(kx, Splus)
			if a != b {
				moved++
				if b != Splus[sz] {
					movedBad++
					if movedBad == 1 {
						o.Fail(fmt.Sprintf("add-disruption:share:n=%d", sz), "adding one server moved a key between two old servers", "own "+encBytes(kx)+" "+encServers(S)+"\nown "+encBytes(kx)+" "+encServers(Splus))
					}
				}
			}
		}
		mn, mx := len(keys), 0
		for _, s := range S {
			if cnt[s] < mn {
				mn = cnt[s]
			}
			if cnt[s] > mx {
				mx = cnt[s]
			}
			if cnt[s] == 0 {
				o.Fail(fmt.Sprintf("share:n=%d", sz), fmt.Sprintf("server %q owns none of %d keys", s, len(keys)), "own "+encBytes(keys[0])+" "+encServers(S))
			}
		}
		shares = append(shares, shareRow{sz, len(keys), float64(mn) / float64(len(keys)), float64(mx) / float64(len(keys)), 1 / float64(sz), moved, movedBad})
		// a few of these go through the model as well
		for i := 0; i < 20 && i < len(keys); i++ {
			emit("own-share-sample", "own "+encBytes(keys[(i*7919+sz)%len(keys)])+" "+encServers(S), true)
		}
	}

	// ---------------------------------------------------------------- the call sites that route (real nodes)
	sites := genSites(rng, o, sitesCfg{*syncScen, *shsyncScen, *reqScen})

	for k, v := range sizes {
		o.Stats[k] = v
	}
	o.Close(map[string]any{
		"call_sites":             sites,
		"rule":                   "distinct op lines with a non-empty input (hash of a non-empty string, routing over a non-empty server list, a cluster line sync / shsync / req / shreq executed on real nodes)",
		"routing_cases_judged":   judged,
		"routing_cases_with_tie": skippedTies,
		"share_test":             map[string]any{"kind": "statistical TEST (not a theorem): min / max fraction of the key set owned by one server, per server-set size", "rows": shares},
	})
}
