// C13, the call sites that route: real in-process cluster nodes (cluster.NewNode + Serve on loopback
// addresses of a private network namespace) are driven through
//
//	sync / shsync   the re-distribution of node database records `user/collection` and of shard
//	                directories `user/collection/shard` by the real Sync() of one node; observed: the node
//	                that holds every key afterwards;
//	req / shreq     the request paths of cluster/actions.go (create get list delete mkshard; info insert
//	                search update delpts) issued at one node while a chosen subset of the servers answers;
//	                observed: the node that SERVED the request (the node database that changed, the
//	                planted record that was returned, the node on whose disk the shard was opened) or `fail`.
//
// Every line is evaluated on a cluster of its own, built from the line alone (names, ports, keys), so
// that a line is its own replay.  The Lean model (SemaModel/C13/Sites.lean) answers the same lines:
// afterSync / shardDest / route, i.e. `owner` of the routed part of the key over the SET of names.
// Each node is configured with its own permutation of the server list.
package main

import (
	"encoding/hex"
	"fmt"
	"hash/fnv"
	"net"
	"os"
	"path/filepath"
	"sort"
	"strconv"
	"strings"
	"time"
	"unicode/utf8"

	"github.com/google/uuid"
	"github.com/semafind/semadb/cluster"
	"github.com/semafind/semadb/diskstore"
	"github.com/semafind/semadb/models"
	"github.com/vmihailenco/msgpack/v5"
	"verifharness/vh"
)

// ---------------------------------------------------------------------------- cluster fixture

type fxNode struct {
	name   string
	host   string
	port   int
	root   string
	n      *cluster.ClusterNode
	served bool
}

type fixture struct {
	work  string
	names []string
	nodes []*fxNode
	leak  map[int]bool // nodes that are not closed (see evalSync)
}

func splitHostPort(name string) (string, int, bool) {
	i := strings.LastIndexByte(name, ':')
	if i <= 0 {
		return "", 0, false
	}
	p, err := strconv.Atoi(name[i+1:])
	if err != nil || p <= 0 || p > 65535 {
		return "", 0, false
	}
	return name[:i], p, true
}

func lineRng(line string) *vh.Rng {
	h := fnv.New64a()
	h.Write([]byte(line))
	return vh.NewRng(h.Sum64())
}

func waitListening(addr string) error {
	for i := 0; i < 2000; i++ {
		c, err := net.DialTimeout("tcp", addr, 500*time.Millisecond)
		if err == nil {
			c.Close()
			return nil
		}
		time.Sleep(3 * time.Millisecond)
	}
	return fmt.Errorf("node %s does not listen", addr)
}

func addrFree(addr string) bool {
	l, err := net.Listen("tcp", addr)
	if err != nil {
		return false
	}
	l.Close()
	return true
}

// newFixture creates one node per name (every node database is open, so records can be planted and
// read on nodes that do not serve) and serves those with up[i]. Every node gets its own permutation
// of the server list.
func newFixture(names []string, up []bool, r *vh.Rng) (*fixture, error) {
	seen := map[string]bool{}
	for _, nm := range names {
		if _, _, ok := splitHostPort(nm); !ok || seen[nm] {
			return nil, fmt.Errorf("server names of a cluster line must be distinct host:port pairs")
		}
		seen[nm] = true
	}
	work, err := os.MkdirTemp("", "c13-sites-")
	if err != nil {
		return nil, err
	}
	fx := &fixture{work: work, names: names}
	for i, nm := range names {
		host, port, _ := splitHostPort(nm)
		root := filepath.Join(work, "n"+strconv.Itoa(i))
		for w := 0; up[i] && w < 100 && !addrFree(nm); w++ {
			time.Sleep(10 * time.Millisecond)
		}
		if up[i] && !addrFree(nm) {
			fx.close()
			return nil, fmt.Errorf("address %s is not free", nm)
		}
		n, err := cluster.NewNode(cluster.ClusterNodeConfig{
			RootDir:            root,
			Servers:            shuffled(r, names),
			RpcHost:            host,
			RpcPort:            port,
			RpcTimeout:         25,
			RpcRetries:         1,
			MaxShardSize:       1 << 30,
			MaxShardPointCount: 1000,
			MaxSearchLimit:     100,
			ShardManager:       cluster.ShardManagerConfig{RootDir: root, ShardTimeout: 600, MaxCacheSize: -1},
		})
		if err != nil {
			fx.close()
			return nil, err
		}
		fn := &fxNode{name: nm, host: host, port: port, root: root, n: n}
		fx.nodes = append(fx.nodes, fn)
		if n.MyHostname != nm {
			fx.close()
			return nil, fmt.Errorf("node name %q is not the configured %q", n.MyHostname, nm)
		}
		if up[i] {
			if err := n.Serve(); err != nil {
				fx.close()
				return nil, err
			}
			fn.served = true
			if err := waitListening(nm); err != nil {
				fx.close()
				return nil, err
			}
		}
	}
	return fx, nil
}

func (fx *fixture) close() {
	for _, fn := range fx.nodes {
		fn.n.VerifDropRPCClients()
	}
	for i, fn := range fx.nodes {
		if !fx.leak[i] {
			fn.n.Close()
		}
	}
	os.RemoveAll(fx.work)
}

// unload (and delete) the shards a line made the nodes open
func (fx *fixture) dropShards(col models.Collection) {
	for _, fn := range fx.nodes {
		req := cluster.RPCDeleteCollectionShardsRequest{RPCRequestArgs: cluster.RPCRequestArgs{Source: fn.name, Dest: fn.name}, Collection: col}
		fn.n.RPCDeleteCollectionShards(&req, &cluster.RPCDeleteCollectionShardsResponse{})
	}
}

func (fx *fixture) plant(i int, kv map[string][]byte) error {
	return fx.nodes[i].n.VerifNodeDB().Write(func(bm diskstore.BucketManager) error {
		b, err := bm.Get(cluster.USERCOLSBUCKETKEY)
		if err != nil {
			return err
		}
		for k, v := range kv {
			if err := b.Put([]byte(k), v); err != nil {
				return err
			}
		}
		return nil
	})
}

// pregrow makes the node database file (and its memory map) large before the run. Reason: a defect of
// the pinned tree outside C13 — syncUserCollections keeps the VALUE slices handed out by bbolt's ForEach
// in `postage` after the read transaction has ended and encodes them later, while the delete
// transactions of the other destinations' goroutines run; when one of those grows the file, bbolt
// re-maps it and the encoder reads unmapped memory (fatal SIGSEGV, observed in 2 of 6 runs of this
// harness before this work-around). With free pages in the file no transaction of a line re-maps.
// Only keys (copied by string(k)) are observed here, never the shipped values.
func (fx *fixture) pregrow(i int) error {
	db := fx.nodes[i].n.VerifNodeDB()
	err := db.Write(func(bm diskstore.BucketManager) error {
		b, err := bm.Get("verifpad")
		if err != nil {
			return err
		}
		return b.Put([]byte("pad"), make([]byte, 1<<19))
	})
	if err != nil {
		return err
	}
	return db.Write(func(bm diskstore.BucketManager) error { return bm.Delete("verifpad") })
}

func (fx *fixture) record(i int, key string) ([]byte, error) {
	var out []byte
	err := fx.nodes[i].n.VerifNodeDB().Read(func(bm diskstore.BucketManager) error {
		b, err := bm.Get(cluster.USERCOLSBUCKETKEY)
		if err != nil {
			return err
		}
		if v := b.Get([]byte(key)); v != nil {
			out = append([]byte{}, v...)
		}
		return nil
	})
	return out, err
}

func (fx *fixture) shardFile(i int, rel string) string {
	return filepath.Join(fx.nodes[i].root, cluster.USERCOLSDIR, filepath.FromSlash(rel), "sharddb.bbolt")
}

// answer token → text for a message
func showTok(tok string) string {
	parts := strings.Split(tok, "+")
	for i, p := range parts {
		if b, err := hex.DecodeString(p); err == nil && len(b) > 0 {
			parts[i] = string(b)
		}
	}
	return strings.Join(parts, " and ")
}

// holders → answer token: the single name, `none`, or the sorted names joined by +
func holderToken(names []string) string {
	if len(names) == 0 {
		return "none"
	}
	sort.Strings(names)
	parts := make([]string, len(names))
	for i, s := range names {
		parts[i] = encName(s)
	}
	return strings.Join(parts, "+")
}

// ---------------------------------------------------------------------------- line evaluation

func decKeys(s string) ([]string, bool) {
	var r []string
	for _, p := range strings.Split(s, ",") {
		b, err := hex.DecodeString(p)
		if err != nil || len(b) == 0 {
			return nil, false
		}
		r = append(r, string(b))
	}
	return r, true
}

func encKeys(ks []string) string {
	parts := make([]string, len(ks))
	for i, k := range ks {
		parts[i] = hex.EncodeToString([]byte(k))
	}
	return strings.Join(parts, ",")
}

func allUp(n int) []bool {
	u := make([]bool, n)
	for i := range u {
		u[i] = true
	}
	return u
}

// sync <servers> <me> <keys>: node me holds the records, runs the real Sync; who holds each key afterwards
func evalSync(line string, names []string, me int, keys []string) string {
	fx, err := newFixture(names, allUp(len(names)), lineRng(line))
	if err != nil {
		return "no-cluster:" + err.Error()
	}
	defer fx.close()
	kv := map[string][]byte{}
	for _, k := range keys {
		kv[k] = []byte("rec:" + k)
	}
	if err := fx.pregrow(me); err != nil {
		return "no-cluster:" + err.Error()
	}
	if err := fx.plant(me, kv); err != nil {
		return "no-cluster:" + err.Error()
	}
	serr := fx.nodes[me].n.Sync()
	if serr != nil {
		// syncUserCollections returns at the FIRST error while the goroutines of the other destinations
		// are still encoding values that point into the memory map of the node database: closing that
		// database now would unmap it under them (fatal SIGSEGV). Leave this node open.
		fx.leak = map[int]bool{me: true}
		time.Sleep(50 * time.Millisecond)
	}
	out := make([]string, len(keys))
	for j, k := range keys {
		var hs []string
		for i := range fx.nodes {
			v, err := fx.record(i, k)
			if err != nil {
				return "no-cluster:" + err.Error()
			}
			if v != nil {
				hs = append(hs, names[i])
			}
		}
		out[j] = holderToken(hs)
	}
	ans := strings.Join(out, ",")
	if serr != nil {
		ans += ";sync-error"
	}
	return ans
}

// shsync <servers> <me> <paths>: the same for shard files user/collection/shard/sharddb.bbolt
func evalShSync(line string, names []string, me int, paths []string) string {
	fx, err := newFixture(names, allUp(len(names)), lineRng(line))
	if err != nil {
		return "no-cluster:" + err.Error()
	}
	defer fx.close()
	for _, p := range paths {
		f := fx.shardFile(me, p)
		if err := os.MkdirAll(filepath.Dir(f), 0o755); err != nil {
			return "no-cluster:" + err.Error()
		}
		if err := os.WriteFile(f, []byte("shard file of "+p+"\n"), 0o644); err != nil {
			return "no-cluster:" + err.Error()
		}
	}
	serr := fx.nodes[me].n.Sync()
	out := make([]string, len(paths))
	for j, p := range paths {
		var hs []string
		for i := range fx.nodes {
			if _, err := os.Stat(fx.shardFile(i, p)); err == nil {
				hs = append(hs, names[i])
			}
		}
		out[j] = holderToken(hs)
	}
	ans := strings.Join(out, ",")
	if serr != nil {
		ans += ";sync-error"
	}
	return ans
}

func decMask(s string, n int) ([]bool, bool) {
	if len(s) != n {
		return nil, false
	}
	u := make([]bool, n)
	for i := range u {
		switch s[i] {
		case '1':
			u[i] = true
		case '0':
		default:
			return nil, false
		}
	}
	return u, true
}

func encMask(u []bool) string {
	b := make([]byte, len(u))
	for i, x := range u {
		b[i] = '0'
		if x {
			b[i] = '1'
		}
	}
	return string(b)
}

var testPlan = models.UserPlan{Name: "T", MaxCollections: 1000, MaxCollectionPointCount: 1000000, MaxPointSize: 1 << 20}

func markerCol(user, col string, i int) models.Collection {
	return models.Collection{UserId: user, Id: col, Timestamp: int64(i + 1), UserPlan: testPlan}
}

func seededUUID(r *vh.Rng) uuid.UUID {
	var u uuid.UUID
	a, b := r.U64(), r.U64()
	for j := 0; j < 8; j++ {
		u[j] = byte(a >> (8 * j))
		u[8+j] = byte(b >> (8 * j))
	}
	u[6] = (u[6] & 0x0f) | 0x40
	u[8] = (u[8] & 0x3f) | 0x80
	return u
}

type rngReader struct{ r *vh.Rng }

func (s *rngReader) Read(p []byte) (int, error) {
	for i := range p {
		p[i] = byte(s.r.U64())
	}
	return len(p), nil
}

// req <kind> <servers> <up> <via> <user> <col>: which node served the user-level request
func evalReq(line, kind string, names []string, up []bool, via int, user, col string) string {
	r := lineRng(line)
	fx, err := newFixture(names, up, r)
	if err != nil {
		return "no-cluster:" + err.Error()
	}
	defer fx.close()
	key := user + cluster.DBDELIMITER + col
	node := fx.nodes[via].n
	if kind != "create" {
		// the same record on every node, told apart by its Timestamp
		for i := range fx.nodes {
			b, err := msgpack.Marshal(markerCol(user, col, i))
			if err != nil {
				return "no-cluster:" + err.Error()
			}
			if err := fx.plant(i, map[string][]byte{key: b}); err != nil {
				return "no-cluster:" + err.Error()
			}
		}
	}
	byMarker := func(c models.Collection) string {
		if c.Timestamp < 1 || int(c.Timestamp) > len(names) {
			return "unknown-record"
		}
		return encName(names[c.Timestamp-1])
	}
	// nodes whose copy of the record satisfies pred
	scan := func(pred func(v []byte) bool) string {
		var hs []string
		for i := range fx.nodes {
			v, err := fx.record(i, key)
			if err != nil {
				return "no-cluster:" + err.Error()
			}
			if pred(v) {
				hs = append(hs, names[i])
			}
		}
		if len(hs) == 0 {
			return "fail"
		}
		return holderToken(hs)
	}
	switch kind {
	case "create":
		node.CreateCollection(models.Collection{UserId: user, Id: col, UserPlan: testPlan})
		return scan(func(v []byte) bool { return v != nil })
	case "get":
		c, err := node.GetCollection(user, col)
		if err != nil {
			return "fail"
		}
		return byMarker(c)
	case "list":
		cs, err := node.ListCollections(user)
		if err != nil {
			return "fail"
		}
		if len(cs) != 1 {
			return fmt.Sprintf("listed-%d", len(cs))
		}
		return byMarker(cs[0])
	case "delete":
		node.DeleteCollection(markerCol(user, col, 0))
		return scan(func(v []byte) bool { return v == nil })
	case "mkshard":
		// InsertPoints into a collection without shards asks the user's server for a new shard
		uuid.SetRand(&rngReader{r: r})
		defer uuid.SetRand(nil)
		c := markerCol(user, col, 0)
		node.InsertPoints(c, []models.Point{{Id: seededUUID(r), Data: []byte{0x80}}})
		fx.dropShards(c)
		return scan(func(v []byte) bool {
			var rc models.Collection
			return v != nil && msgpack.Unmarshal(v, &rc) == nil && len(rc.ShardIds) > 0
		})
	}
	return "bad-op"
}

// shreq <kind> <servers> <up> <via> <user> <col> <shard>: on which node the shard-level request opened the shard
func evalShReq(line, kind string, names []string, up []bool, via int, user, col, shard string) string {
	r := lineRng(line)
	fx, err := newFixture(names, up, r)
	if err != nil {
		return "no-cluster:" + err.Error()
	}
	defer fx.close()
	node := fx.nodes[via].n
	c := markerCol(user, col, 0)
	c.ShardIds = []string{shard}
	pt := models.Point{Id: seededUUID(r), Data: []byte{0x80}}
	switch kind {
	case "info":
		node.GetShardsInfo(c)
	case "insert":
		node.InsertPoints(c, []models.Point{pt})
	case "search":
		node.SearchPoints(c, models.SearchRequest{Query: models.Query{Property: "p", Integer: &models.SearchIntegerOptions{Value: 1, Operator: "equals"}}, Limit: 1})
	case "update":
		node.UpdatePoints(c, []models.Point{pt})
	case "delpts":
		node.DeletePoints(c, []uuid.UUID{pt.Id})
	default:
		return "bad-op"
	}
	var hs []string
	rel := user + "/" + col + "/" + shard
	for i := range fx.nodes {
		if _, err := os.Stat(filepath.Dir(fx.shardFile(i, rel))); err == nil {
			hs = append(hs, names[i])
		}
	}
	fx.dropShards(c)
	if len(hs) == 0 {
		return "fail"
	}
	return holderToken(hs)
}

func evalSiteOp(line string, f []string) (ans string) {
	t0 := time.Now()
	defer func() {
		// the property is not about time: a line that stalled (loaded machine, an rpc running into its
		// time-out) has observed nothing about routing
		if d := time.Since(t0); d > 20*time.Second {
			fmt.Fprintf(os.Stderr, "c13: slow line (%.1fs): %.200s => %.80s\n", d.Seconds(), line, ans)
			ans = "no-cluster:slow"
		}
	}()
	defer func() {
		if r := recover(); r != nil {
			ans = fmt.Sprintf("harness-panic:%v", r)
		}
	}()
	switch {
	case len(f) == 4 && (f[0] == "sync" || f[0] == "shsync"):
		names, ok1 := decServers(f[1])
		me, err := strconv.Atoi(f[2])
		keys, ok2 := decKeys(f[3])
		if !ok1 || !ok2 || err != nil || me < 0 || me >= len(names) {
			return "bad-op"
		}
		if f[0] == "sync" {
			return evalSync(line, names, me, keys)
		}
		return evalShSync(line, names, me, keys)
	case len(f) == 7 && f[0] == "req":
		names, ok1 := decServers(f[2])
		up, ok2 := decMask(f[3], len(names))
		via, err := strconv.Atoi(f[4])
		user, ok3 := decBytes(f[5])
		col, ok4 := decBytes(f[6])
		if !ok1 || !ok2 || !ok3 || !ok4 || err != nil || via < 0 || via >= len(names) || !up[via] || user == "" {
			return "bad-op"
		}
		return evalReq(line, f[1], names, up, via, user, col)
	case len(f) == 8 && f[0] == "shreq":
		names, ok1 := decServers(f[2])
		up, ok2 := decMask(f[3], len(names))
		via, err := strconv.Atoi(f[4])
		user, ok3 := decBytes(f[5])
		col, ok4 := decBytes(f[6])
		shard, ok5 := decBytes(f[7])
		if !ok1 || !ok2 || !ok3 || !ok4 || !ok5 || err != nil || via < 0 || via >= len(names) || !up[via] || user == "" || shard == "" {
			return "bad-op"
		}
		return evalShReq(line, f[1], names, up, via, user, col, shard)
	}
	return "bad-op"
}

// ---------------------------------------------------------------------------- generators

// loopback names: every address of 127/8 is local, every port of the private namespace is free
// (ports below the ephemeral range 32768.., so that no outgoing connection of an earlier line sits on one)
func genLoopNames(r *vh.Rng, n int) []string {
	seen := map[string]bool{}
	var out []string
	for len(out) < n {
		var nm string
		switch r.Intn(4) {
		case 0:
			nm = "127.0.0.1:" + strconv.Itoa(10000+r.Intn(22000))
		case 1:
			nm = "localhost:" + strconv.Itoa(10000+r.Intn(22000))
		default:
			nm = fmt.Sprintf("127.%d.%d.%d:%d", r.Intn(256), r.Intn(256), 1+r.Intn(254), 10000+r.Intn(22000))
		}
		_, port, _ := splitHostPort(nm)
		pk := "port" + strconv.Itoa(port) // distinct ports as well: localhost and 127.0.0.1 are the same address
		if seen[nm] || seen[pk] {
			continue
		}
		seen[nm], seen[pk] = true, true
		out = append(out, nm)
	}
	return out
}

const alnum = "abcdefghijklmnopqrstuvwxyzABCDEFGHIJKLMNOPQRSTUVWXYZ0123456789"

func randAlnum(r *vh.Rng, n int) string {
	b := make([]byte, n)
	for i := range b {
		b[i] = alnum[r.Intn(len(alnum))]
	}
	return string(b)
}

// a valid user id: non-empty, no / or \, not . or .. (httpapi/middleware/appheaders.go), usable as a directory name
func validUser(u string) bool {
	return u != "" && u != "." && u != ".." && !strings.ContainsAny(u, "/\\\x00") && len(u) < 200
}

// user ids that are neighbours in the byte order of the keys `user/collection`: prefixes and
// extensions of each other (by bytes sorting before and after the delimiter `/` = 0x2f), case
// variants, ids equal to another user's `user + collection`, long ids with a long common prefix
func genUserFamily(r *vh.Rng) []string {
	var base string
	switch r.Intn(8) {
	case 0:
		base = vh.Pick(r, []string{"u", "org1", "alice", "user0", "a", "Bob", "team-x", "x.y", "0", "tenant_9"})
	case 1:
		base = "user" + strconv.Itoa(r.Intn(1000))
	case 2:
		base = uuidStr(r)
	case 3:
		base = randAlnum(r, 28+r.Intn(12)) // key+server crosses the 32-byte stripe of the hash
	case 4:
		base = vh.Pick(r, []string{"é", "ß", "Ünï", "用户", "İd"}) + randAlnum(r, r.Intn(3))
	default:
		base = randAlnum(r, 1+r.Intn(6))
	}
	// bytes below `/`: space ! # $ % & ' ( ) * + , - .   above: 0-9 : ; < = > ? @ A-Z … ~
	below := []string{"-", ".", "!", "+", ",", "-eu", ".bak", "#1", "$", " x"}
	above := []string{"0", "1", "00", "01", "10", "a", "A", "Z", "_", "~", ":", "@b", "0a", "2024"}
	fam := map[string]bool{base: true}
	add := func(u string) {
		if validUser(u) {
			fam[u] = true
		}
	}
	nExt := 2 + r.Intn(4)
	for i := 0; i < nExt; i++ {
		switch r.Intn(10) {
		case 0, 1, 2, 3:
			add(base + vh.Pick(r, above))
		case 4, 5:
			add(base + vh.Pick(r, below))
		case 6:
			add(base + vh.Pick(r, above) + vh.Pick(r, above)) // an extension of an extension
		case 7:
			if len(base) > 1 {
				add(base[:1+r.Intn(len(base)-1)]) // a proper prefix
			}
		case 8:
			add(strings.ToUpper(base))
			add(strings.ToLower(base))
		case 9:
			add(base + randAlnum(r, 1+r.Intn(3))) // another user's id + collection id glued together
		}
	}
	out := make([]string, 0, len(fam))
	for u := range fam {
		if utf8.ValidString(u) { // a cut multi-byte sequence is not a header value a client sends as text
			out = append(out, u)
		}
	}
	sort.Strings(out)
	return out
}

func genCol(r *vh.Rng) string {
	if r.Chance(30) {
		return vh.Pick(r, []string{"col", "a", "abc", "mycollection", "0", "A1", "zzz"})
	}
	return randAlnum(r, 1+r.Intn(8))
}

func ownerIdx(key string, names []string) int {
	o, _ := own(key, names)
	for i, s := range names {
		if s == o {
			return i
		}
	}
	return -1
}

type sitesCfg struct {
	syncScen, shsyncScen, reqScen int
}

// genSites emits the cluster lines and judges them: the property demands that every call site
// designates RendezvousHash(routed key, servers, 1)[0] — computed here by the real function.
func genSites(rng *vh.Rng, o *vh.Out, cfg sitesCfg) map[string]any {
	judgedKeys, judgedReq, ownerDown := 0, 0, 0
	adjacent := 0 // pairs of consecutive keys whose users are prefix-related and have different owners

	// ---------------------------------------------------------------- sync of collection records
	for sc := 0; sc < cfg.syncScen; sc++ {
		names := genLoopNames(rng, 2+rng.Intn(5))
		me := rng.Intn(len(names))
		userOfKey := map[string]string{}
		nFam := 3 + rng.Intn(6)
		for f := 0; f < nFam; f++ {
			for _, u := range genUserFamily(rng) {
				nc := 1 + rng.Intn(3)
				for c := 0; c < nc; c++ {
					userOfKey[u+"/"+genCol(rng)] = u
				}
			}
		}
		keys := make([]string, 0, len(userOfKey))
		for k := range userOfKey {
			keys = append(keys, k)
		}
		sort.Strings(keys) // the order in which the bucket is visited
		for i := 1; i < len(keys); i++ {
			a, b := userOfKey[keys[i-1]], userOfKey[keys[i]]
			if a != b && (strings.HasPrefix(a, b) || strings.HasPrefix(b, a)) && ownerIdx(a, names) != ownerIdx(b, names) {
				adjacent++
			}
		}
		op := fmt.Sprintf("sync %s %d %s", encServers(names), me, encKeys(keys))
		ans := evalOp(op)
		if strings.HasPrefix(ans, "no-cluster") { // an address could not be bound (no private namespace): nothing observed
			o.Stats["sites-no-cluster"]++
			continue
		}
		o.Emit("sync", op, ans, true)
		got := strings.Split(strings.SplitN(ans, ";", 2)[0], ",")
		if len(got) != len(keys) {
			continue // malformed answer: the model disagrees on the line
		}
		for i, k := range keys {
			judgedKeys++
			want, _ := own(userOfKey[k], names)
			if got[i] == encName(want) {
				continue
			}
			// minimise: the key alone, with its predecessor, with everything before it
			replay := op
			for _, sub := range [][]string{{k}, keys[max(0, i-1) : i+1], keys[:i+1]} {
				op2 := fmt.Sprintf("sync %s %d %s", encServers(names), me, encKeys(sub))
				g2 := strings.Split(strings.SplitN(evalOp(op2), ";", 2)[0], ",")
				if len(g2) == len(sub) && g2[len(sub)-1] != encName(want) {
					replay = op2
					break
				}
			}
			o.Fail("sync-route:record", fmt.Sprintf("after Sync of %s the record %q of user %q is at %s; every request for that user is routed to %s = RendezvousHash(user, servers)",
				names[me], k, userOfKey[k], showTok(got[i]), want), replay)
			break
		}
	}

	// ---------------------------------------------------------------- sync of shard directories
	for sc := 0; sc < cfg.shsyncScen; sc++ {
		names := genLoopNames(rng, 2+rng.Intn(5))
		me := rng.Intn(len(names))
		shardOfPath := map[string]string{}
		for f := 0; f < 2+rng.Intn(3); f++ {
			for _, u := range genUserFamily(rng) {
				if len(u) > 100 {
					continue
				}
				col := genCol(rng)
				for s := 0; s < 1+rng.Intn(3); s++ {
					sh := uuidStr(rng)
					shardOfPath[u+"/"+col+"/"+sh] = sh
				}
			}
		}
		paths := make([]string, 0, len(shardOfPath))
		for p := range shardOfPath {
			paths = append(paths, p)
		}
		sort.Strings(paths)
		if len(paths) > 24 {
			paths = paths[:24]
		}
		op := fmt.Sprintf("shsync %s %d %s", encServers(names), me, encKeys(paths))
		ans := evalOp(op)
		if strings.HasPrefix(ans, "no-cluster") {
			o.Stats["sites-no-cluster"]++
			continue
		}
		o.Emit("shsync", op, ans, true)
		got := strings.Split(strings.SplitN(ans, ";", 2)[0], ",")
		if len(got) != len(paths) {
			continue
		}
		for i, p := range paths {
			judgedKeys++
			want, _ := own(shardOfPath[p], names)
			if got[i] == encName(want) {
				continue
			}
			replay := op
			op2 := fmt.Sprintf("shsync %s %d %s", encServers(names), me, encKeys([]string{p}))
			if g2 := strings.SplitN(evalOp(op2), ";", 2)[0]; g2 != encName(want) && !strings.HasPrefix(g2, "no-cluster") {
				replay = op2
			}
			o.Fail("sync-route:shard", fmt.Sprintf("after Sync of %s the shard directory %q is at %s; every request for that shard is routed to %s = RendezvousHash(shardId, servers)",
				names[me], p, showTok(got[i]), want), replay)
			break
		}
	}

	// ---------------------------------------------------------------- requests while some servers do not answer
	userKinds := []string{"create", "get", "list", "delete", "mkshard"}
	shardKinds := []string{"info", "insert", "search", "update", "delpts"}
	for sc := 0; sc < cfg.reqScen; sc++ {
		names := genLoopNames(rng, 2+rng.Intn(4))
		fam := genUserFamily(rng)
		user := vh.Pick(rng, fam)
		if len(user) > 100 {
			user = user[:20]
		}
		col := genCol(rng)
		shardLevel := sc%2 == 1
		routed, shard := user, ""
		if shardLevel {
			shard = uuidStr(rng)
			routed = shard
		}
		oi := ownerIdx(routed, names)
		// who answers: in 60 % of the lines the owner does not; the others at random, the second ranked mostly does
		up := make([]bool, len(names))
		for i := range up {
			up[i] = rng.Chance(75)
		}
		ownerUp := !rng.Chance(60)
		up[oi] = ownerUp
		via := -1
		if ownerUp && rng.Chance(30) {
			via = oi // handled locally
		} else {
			cands := []int{}
			for i := range names {
				if i != oi {
					cands = append(cands, i)
				}
			}
			via = vh.Pick(rng, cands)
		}
		up[via] = true
		if !ownerUp {
			ownerDown++
			if second, _ := rv(routed, names, 2); len(second) == 2 && rng.Chance(80) {
				for i, s := range names {
					if s == second[1] {
						up[i] = true
					}
				}
			}
		}
		var op, kind string
		if shardLevel {
			kind = shardKinds[(sc/2)%len(shardKinds)]
			op = fmt.Sprintf("shreq %s %s %s %d %s %s %s", kind, encServers(names), encMask(up), via, encBytes(user), encBytes(col), encBytes(shard))
		} else {
			kind = userKinds[(sc/2)%len(userKinds)]
			op = fmt.Sprintf("req %s %s %s %d %s %s", kind, encServers(names), encMask(up), via, encBytes(user), encBytes(col))
		}
		ans := evalOp(op)
		if strings.HasPrefix(ans, "no-cluster") {
			o.Stats["sites-no-cluster"]++
			continue
		}
		o.Emit(strings.Fields(op)[0]+"-"+kind, op, ans, true)
		judgedReq++
		want := "fail"
		if ownerUp {
			want = encName(names[oi])
		}
		if ans == want {
			continue
		}
		level := "user"
		if shardLevel {
			level = "shard"
		}
		if !ownerUp {
			o.Fail("failover:"+level+":"+kind, fmt.Sprintf("%s request for %q issued at %s while the owner %s does not answer was served by %s: the server responsible for the key depends on which servers answer, not only on key and server set",
				kind, routed, names[via], names[oi], showTok(ans)), op)
		} else {
			o.Fail("req-route:"+level+":"+kind, fmt.Sprintf("%s request for %q issued at %s was served by %s, the owner RendezvousHash(key, servers) is %s",
				kind, routed, names[via], showTok(ans), names[oi]), op)
		}
	}
	return map[string]any{
		"keys_judged_after_sync":               judgedKeys,
		"requests_judged":                      judgedReq,
		"requests_with_owner_down":             ownerDown,
		"adjacent_prefix_users_distinct_owner": adjacent,
	}
}
