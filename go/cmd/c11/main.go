// Harness for C11: drives the real shard/cache Manager through forced schedules.
//
// A schedule line is "<cfg> :: <tokens>" (written by `semadriver C11 gen`), cfg = "max=<n> db=<0|1> wl=<workload>".
// Every logical thread (worker goroutine wI calling With for each access of its program; committer cT
// calling Commit) parks at every verifYield point of manager.go (build tag verif) and at the harness
// points H.idle / H.inF / H.cWait / H.done, and is released one step at a time in the order the
// tokens dictate:
//
//	wI / cT   release the thread, wait until it parks again (or returns)
//	wI? / cT? release a thread the model says is blocked; it must be found blocked in a sync lock
//	wI! / cT! a thread released earlier (and blocked) must now arrive by itself
//	eN        Manager.Release(name N) (runs to completion; only scheduled while the manager mutex is free)
//	D         the model says: deadlock. Every unfinished thread is released and must be found blocked.
//
// For every schedule the harness prints the observation of each step (the point reached, the object
// identity handed to a callback, return values), the final protocol state (map, scrapped flags, lock
// probes), and evaluates the property oracle on the real trace.
package main

import (
	"bufio"
	"errors"
	"flag"
	"fmt"
	"os"
	"runtime"
	"sort"
	"strconv"
	"strings"
	"sync"
	"sync/atomic"
	"time"

	"github.com/rs/zerolog"
	"github.com/semafind/semadb/shard/cache"

	"verifharness/vh"
)

// ---------------------------------------------------------------- workload

type access struct {
	name       int
	ro         bool
	cbOk, crOk bool
}

type txSpec struct {
	fail bool
	gor  [][]access
}

type cfg struct {
	max  int64
	db   bool
	wl   []txSpec
	text string
}

func parseCfg(s string) (cfg, error) {
	c := cfg{max: -1, text: strings.TrimSpace(s)}
	for _, w := range strings.Fields(s) {
		kv := strings.SplitN(w, "=", 2)
		if len(kv) != 2 {
			return c, fmt.Errorf("bad cfg word %q", w)
		}
		switch kv[0] {
		case "max":
			v, err := strconv.ParseInt(kv[1], 10, 64)
			if err != nil {
				return c, err
			}
			c.max = v
		case "db":
			c.db = kv[1] == "1"
		case "wl":
			for _, ts := range strings.Split(kv[1], "/") {
				t := txSpec{}
				if strings.HasPrefix(ts, "!") {
					t.fail = true
					ts = ts[1:]
				}
				for _, gs := range strings.Split(ts, "|") {
					var g []access
					for _, as := range strings.Split(gs, ",") {
						if as == "" {
							continue
						}
						if len(as) < 2 || (as[0] != 'r' && as[0] != 'w') || as[1] < '0' || as[1] > '9' {
							return c, fmt.Errorf("bad access %q", as)
						}
						a := access{name: int(as[1] - '0'), ro: as[0] == 'r', cbOk: true, crOk: true}
						for _, f := range as[2:] {
							switch f {
							case 'f':
								a.cbOk = false
							case 'c':
								a.crOk = false
							default:
								return c, fmt.Errorf("bad access %q", as)
							}
						}
						g = append(g, a)
					}
					t.gor = append(t.gor, g)
				}
				c.wl = append(c.wl, t)
			}
		default: // v=, ev=, lru= belong to the model side
		}
	}
	return c, nil
}

// ---------------------------------------------------------------- items

type item struct {
	id      int
	creator string // logical thread that created it
	cold    bool   // created as a private cold copy (not by the new-cache branch)
}

func (i *item) SizeInMemory() int64 { return 1 }

var errCb = errors.New("callback failed")
var errCr = errors.New("createFn failed")

// ---------------------------------------------------------------- controller

type thread struct {
	id     string
	tx     int
	worker bool
	goid   int64
	resume chan struct{}
	point  string // where it is parked ("" while running)
	// worker state
	prog   []access
	k      int // index of the access being executed / next to execute
	cur    access
	inCall bool
	lastPt string // last yield point passed (to classify createFn calls)
	done   bool
	flight bool // released into a blocking lock and not yet arrived
	lost   bool // did not come back within the timeout and is not blocked in a lock
	ret    string
}

type event struct {
	th    *thread
	point string
	info  string
}

type handout struct {
	th   *thread
	obj  int
	ro   bool
	open bool
}

type run struct {
	c       cfg
	m       *cache.Manager
	txs     []*cache.Transaction
	threads map[string]*thread
	order   []*thread
	mu      sync.Mutex
	byGoid  map[int64]*thread
	events  chan event
	nItems  int
	items   []*item
	// oracle state
	inCb      map[string]*handout // thread id -> open callback
	wown      map[int]map[int]bool // obj -> txs that were handed it for writing and have not committed
	wroteEver map[int]map[int]int  // tx -> obj -> step index of first write hand-out
	txFailed  []bool
	viol      []string
	violKind  []string
	stepNo    int
	dbw       int // harness copy of the bbolt discipline (for the deadlock verdict only)
	obs       []string
	entryOrd  map[int][]string
	quit      atomic.Bool
	deadline  time.Time
}

var current *run
var currentMu sync.RWMutex

func goid() int64 {
	var buf [64]byte
	n := runtime.Stack(buf[:], false)
	// "goroutine 123 ["
	s := buf[10:n]
	var id int64
	for _, ch := range s {
		if ch < '0' || ch > '9' {
			break
		}
		id = id*10 + int64(ch-'0')
	}
	return id
}

func yieldHook(point string) {
	currentMu.RLock()
	r := current
	currentMu.RUnlock()
	if r == nil {
		return
	}
	g := goid()
	r.mu.Lock()
	th := r.byGoid[g]
	r.mu.Unlock()
	if th == nil {
		return // not a logical thread of the running schedule (e.g. Release by the controller)
	}
	if strings.HasPrefix(point, "Commit.entry:") {
		r.mu.Lock()
		r.entryOrd[th.tx] = append(r.entryOrd[th.tx], point[len("Commit.entry:"):])
		r.mu.Unlock()
		return
	}
	th.park(r, point, "")
}

// park reports true when the schedule is over: protocol code then runs on freely to its end, and the
// harness-level loops (next With call, Commit) stop instead of starting something new
func (th *thread) park(r *run, point, info string) bool {
	th.lastPt = point
	if r.quit.Load() {
		return true
	}
	r.events <- event{th, point, info}
	<-th.resume
	return r.quit.Load()
}

// end of a schedule: every parked goroutine is let go (those blocked in a deadlock stay behind)
func (r *run) release() {
	r.quit.Store(true)
	for _, th := range r.order {
		if th.point != "" && !th.flight {
			th.point = ""
			select {
			case th.resume <- struct{}{}:
			case <-time.After(50 * time.Millisecond):
			}
		}
	}
	// drain events of goroutines that were about to park
	go func() {
		for {
			select {
			case <-r.events:
			case <-time.After(2 * time.Second):
				return
			}
		}
	}()
}

func newRun(c cfg) *run {
	r := &run{c: c, m: cache.NewManager(c.max), threads: map[string]*thread{}, byGoid: map[int64]*thread{},
		events: make(chan event, 64), inCb: map[string]*handout{}, wown: map[int]map[int]bool{}, wroteEver: map[int]map[int]int{},
		dbw: -1, entryOrd: map[int][]string{}}
	r.txFailed = make([]bool, len(c.wl))
	wi := 0
	for T, ts := range c.wl {
		r.txs = append(r.txs, r.m.NewTransaction())
		for _, g := range ts.gor {
			th := &thread{id: fmt.Sprintf("w%d", wi), tx: T, worker: true, prog: g, resume: make(chan struct{})}
			r.threads[th.id] = th
			r.order = append(r.order, th)
			wi++
		}
	}
	for T := range c.wl {
		th := &thread{id: fmt.Sprintf("c%d", T), tx: T, resume: make(chan struct{})}
		r.threads[th.id] = th
		r.order = append(r.order, th)
	}
	return r
}

func (r *run) nameOf(n int) string { return fmt.Sprintf("n%d", n) }

func (r *run) start() {
	started := make(chan struct{})
	for _, th := range r.order {
		th := th
		go func() {
			g := goid()
			r.mu.Lock()
			r.byGoid[g] = th
			th.goid = g
			r.mu.Unlock()
			started <- struct{}{}
			defer func() {
				if p := recover(); p != nil {
					r.events <- event{th, "PANIC", fmt.Sprint(p)}
				}
			}()
			if th.worker {
				r.workerBody(th)
			} else {
				if th.park(r, "H.cWait", "") {
					return
				}
				r.txs[th.tx].Commit(r.c.wl[th.tx].fail)
				th.done = true
				th.park(r, "H.done", "")
			}
		}()
		<-started
	}
	// every thread parks at its first harness point
	for range r.order {
		ev := <-r.events
		ev.th.point = ev.point
	}
}

func (r *run) workerBody(th *thread) {
	tx := r.txs[th.tx]
	ret := ""
	for k, a := range th.prog {
		th.k = k
		th.cur = a
		info := ret
		if k == 0 {
			info = ""
		}
		if th.park(r, "H.idle", info) {
			return
		}
		a := a
		createFn := func() (cache.Cachable, error) {
			if !a.crOk {
				r.mu.Lock()
				r.txFailed[th.tx] = true
				r.mu.Unlock()
				return nil, errCr
			}
			r.mu.Lock()
			it := &item{id: r.nItems, creator: th.id, cold: th.lastPt != "With.nCreate"}
			r.nItems++
			r.items = append(r.items, it)
			r.mu.Unlock()
			return it, nil
		}
		f := func(c cache.Cachable) error {
			it := c.(*item)
			th.park(r, "H.inF", strconv.Itoa(it.id))
			if !a.cbOk {
				r.mu.Lock()
				r.txFailed[th.tx] = true
				r.mu.Unlock()
				return errCb
			}
			return nil
		}
		th.inCall = true
		err := tx.With(r.nameOf(a.name), a.ro, createFn, f)
		th.inCall = false
		if err != nil {
			ret = "err"
		} else {
			ret = "ok"
		}
	}
	th.done = true
	th.park(r, "H.done", ret)
}

// state of a goroutine as the runtime reports it: "" (not found), or the text between [ ]
func goroutineState(id int64) string {
	buf := make([]byte, 1<<16)
	for {
		n := runtime.Stack(buf, true)
		if n < len(buf) {
			buf = buf[:n]
			break
		}
		buf = make([]byte, 2*len(buf))
	}
	s := "\n" + string(buf)
	key := fmt.Sprintf("\ngoroutine %d [", id)
	i := strings.Index(s, key)
	if i < 0 {
		return ""
	}
	rest := s[i+len(key):]
	j := strings.IndexAny(rest, "],")
	if j < 0 {
		return ""
	}
	return rest[:j]
}

func isLockWait(state string) bool {
	return strings.HasPrefix(state, "sync.Mutex.Lock") || strings.HasPrefix(state, "sync.RWMutex.Lock") || strings.HasPrefix(state, "sync.RWMutex.RLock") || strings.HasPrefix(state, "semacquire")
}

const arriveTimeout = 3 * time.Second

// waits for the next event of th. Returns (event, "") or (zero, state) when the goroutine is found blocked in a lock.
func (r *run) await(th *thread, pending *[]event) (event, string) {
	for i, ev := range *pending {
		if ev.th == th {
			*pending = append((*pending)[:i], (*pending)[i+1:]...)
			return ev, ""
		}
	}
	deadline := time.Now().Add(arriveTimeout)
	wait := 200 * time.Microsecond
	for {
		select {
		case ev := <-r.events:
			if ev.th == th {
				return ev, ""
			}
			*pending = append(*pending, ev)
		case <-time.After(wait):
			st := goroutineState(th.goid)
			if isLockWait(st) {
				// make sure it is stable (not a transient contention)
				time.Sleep(2 * time.Millisecond)
				select {
				case ev := <-r.events:
					if ev.th == th {
						return ev, ""
					}
					*pending = append(*pending, ev)
					continue
				default:
				}
				if st2 := goroutineState(th.goid); isLockWait(st2) {
					return event{}, st2
				}
			}
			if time.Now().After(deadline) {
				return event{}, "TIMEOUT[" + st + "]"
			}
			if wait < 20*time.Millisecond {
				wait *= 2
			}
		}
	}
}

func pointToPC(p string) string {
	switch {
	case strings.HasPrefix(p, "With."):
		return p[5:]
	case strings.HasPrefix(p, "Prune."):
		s := p[6:]
		return "p" + strings.ToUpper(s[:1]) + s[1:]
	case strings.HasPrefix(p, "Commit."):
		s := p[7:]
		return "c" + strings.ToUpper(s[:1]) + s[1:]
	case p == "H.idle":
		return "idle"
	case p == "H.inF":
		return "inF"
	case p == "H.cWait":
		return "cWait"
	case p == "H.done":
		return "done"
	}
	return p
}

func (r *run) violate(kind, what string) {
	r.viol = append(r.viol, what)
	r.violKind = append(r.violKind, kind)
}

// bookkeeping + oracle at the moment th leaves `from` (it has just been released)
func (r *run) onRelease(th *thread) {
	switch th.point {
	case "H.idle":
		if !th.cur.ro && r.c.db {
			r.dbw = th.tx
		}
	case "H.cWait":
		if r.dbw == th.tx {
			r.dbw = -1
		}
	case "H.inF":
		if h := r.inCb[th.id]; h != nil {
			h.open = false
			delete(r.inCb, th.id)
		}
	}
}

// oracle at the moment th parks at ev.point
func (r *run) onArrive(th *thread, ev event) {
	switch ev.point {
	case "H.inF":
		obj, _ := strconv.Atoi(ev.info)
		it := r.items[obj]
		// C11_mutex
		for T := range r.wown[obj] {
			if T != th.tx {
				r.violate("mutex", fmt.Sprintf("callback of %s (tx %d, %s) is handed object %d which tx %d has written and not yet committed", th.id, th.tx, rw(th.cur.ro), obj, T))
			}
		}
		for _, h := range r.inCb {
			if h.obj == obj && h.th.tx != th.tx && (!h.ro || !th.cur.ro) {
				r.violate("mutex", fmt.Sprintf("callbacks of %s (tx %d, %s) and %s (tx %d, %s) overlap on object %d", th.id, th.tx, rw(th.cur.ro), h.th.id, h.th.tx, rw(h.ro), obj))
			}
			if h.obj == obj && h.th != th && it.cold {
				r.violate("mutex", fmt.Sprintf("private cold copy %d is used by %s and %s", obj, th.id, h.th.id))
			}
		}
		if it.cold && it.creator != th.id {
			r.violate("mutex", fmt.Sprintf("private cold copy %d created by %s is handed to %s", obj, it.creator, th.id))
		}
		// C11_no_scrapped
		for T, objs := range r.wroteEver {
			if _, ok := objs[obj]; ok && T != th.tx && (r.txFailed[T] || r.c.wl[T].fail) {
				r.violate("scrapped-handout", fmt.Sprintf("%s (tx %d) is handed object %d which the failed tx %d has written", th.id, th.tx, obj, T))
			}
		}
		r.inCb[th.id] = &handout{th, obj, th.cur.ro, true}
		if !th.cur.ro {
			if r.wown[obj] == nil {
				r.wown[obj] = map[int]bool{}
			}
			r.wown[obj][th.tx] = true
			if r.wroteEver[th.tx] == nil {
				r.wroteEver[th.tx] = map[int]int{}
			}
			if _, ok := r.wroteEver[th.tx][obj]; !ok {
				r.wroteEver[th.tx][obj] = r.stepNo
			}
		}
	case "Commit.mgrUnlock", "Commit.txUnlock":
		// Commit has released everything it holds
		for _, owners := range r.wown {
			delete(owners, th.tx)
		}
	}
}

func rw(ro bool) string {
	if ro {
		return "read"
	}
	return "write"
}

func (r *run) obsOf(ev event) string {
	pc := pointToPC(ev.point)
	switch ev.point {
	case "H.inF":
		return pc + "#" + ev.info
	case "H.idle", "H.done":
		if ev.info != "" {
			return pc + ":" + ev.info
		}
	case "PANIC":
		return "PANIC(" + ev.info + ")"
	}
	return pc
}

func (r *run) joined(T int) bool {
	for _, th := range r.order {
		if th.worker && th.tx == T && !th.done {
			return false
		}
	}
	return true
}

// executes the tokens; returns the observation line
func (r *run) exec(tokens []string) string {
	var pending []event
	aborted := false
	for _, tok := range tokens {
		r.stepNo++
		if aborted {
			r.obs = append(r.obs, tok+">-")
			continue
		}
		switch {
		case tok == "D":
			verdict := r.deadlockCheck(&pending)
			r.obs = append(r.obs, "D:"+verdict)
			aborted = true
		case tok[0] == 'e':
			n, _ := strconv.Atoi(tok[1:])
			done := make(chan struct{})
			go func() { r.m.Release(r.nameOf(n)); close(done) }()
			select {
			case <-done:
				r.obs = append(r.obs, tok)
			case <-time.After(arriveTimeout / 5):
				r.obs = append(r.obs, tok+">BLOCKED")
				aborted = true
			}
		default:
			mode := byte(0)
			id := tok
			if tok[len(tok)-1] == '?' || tok[len(tok)-1] == '!' {
				mode = tok[len(tok)-1]
				id = tok[:len(tok)-1]
			}
			th := r.threads[id]
			if th == nil {
				r.obs = append(r.obs, tok+">NOTHREAD")
				aborted = true
				continue
			}
			if th.done || th.lost {
				r.obs = append(r.obs, tok+">DONE")
				aborted = true
				r.drain(&pending)
				continue
			}
			if mode == '!' && !th.flight {
				r.obs = append(r.obs, tok+">NOTINFLIGHT")
				aborted = true
				r.drain(&pending)
				continue
			}
			if mode != '!' {
				if th.point == "" || th.flight {
					r.obs = append(r.obs, tok+">NOTPARKED")
					aborted = true
					continue
				}
				r.onRelease(th)
				th.point = ""
				th.resume <- struct{}{}
			}
			ev, blocked := r.await(th, &pending)
			if strings.HasPrefix(blocked, "TIMEOUT") {
				// neither arrived nor blocked in a lock: the goroutine is lost for this schedule
				th.lost = true
				r.obs = append(r.obs, tok+">"+blocked)
				aborted = true
				r.drain(&pending)
				continue
			}
			if blocked != "" {
				th.flight = true
				if mode == '?' {
					r.obs = append(r.obs, tok+"blocked")
					if th.worker && th.cur.ro && strings.HasPrefix(blocked, "sync.RWMutex") {
						r.violate("reader-blocked", fmt.Sprintf("read-only access of %s blocks on a cache lock (%s)", th.id, blocked))
					}
				} else {
					r.obs = append(r.obs, tok+">BLOCKED("+blocked+")")
					aborted = true
					r.drain(&pending)
				}
				continue
			}
			th.flight = false
			th.point = ev.point
			r.onArrive(th, ev)
			r.obs = append(r.obs, tok+">"+r.obsOf(ev))
			if ev.point == "PANIC" {
				aborted = true
			}
		}
	}
	return strings.Join(r.obs, " ")
}

// D token: release every unfinished thread that is parked inside the protocol; all must block.
func (r *run) deadlockCheck(pending *[]event) string {
	var stuck, free []string
	for _, th := range r.order {
		if th.done || th.lost {
			continue
		}
		if th.flight {
			// must still be blocked
			if st := goroutineState(th.goid); isLockWait(st) {
				stuck = append(stuck, th.id+"@"+pointToPC(th.lastPt))
			} else {
				free = append(free, th.id)
			}
			continue
		}
		switch th.point {
		case "H.idle":
			if r.c.db && !th.cur.ro && r.dbw != -1 && r.dbw != th.tx {
				stuck = append(stuck, th.id+"@idle(db)")
			} else {
				free = append(free, th.id)
			}
			continue
		case "H.cWait":
			if !r.joined(th.tx) {
				stuck = append(stuck, th.id+"@cWait(join)")
			} else {
				free = append(free, th.id)
			}
			continue
		case "H.done":
			continue
		}
		from := th.point
		r.onRelease(th)
		th.point = ""
		th.resume <- struct{}{}
		_, blocked := r.await(th, pending)
		if blocked != "" && !strings.HasPrefix(blocked, "TIMEOUT") {
			th.flight = true
			stuck = append(stuck, th.id+"@"+pointToPC(from))
		} else {
			free = append(free, th.id)
		}
	}
	// give the runtime a moment, then re-check that nobody has moved
	time.Sleep(20 * time.Millisecond)
	for _, th := range r.order {
		if th.flight {
			if st := goroutineState(th.goid); !isLockWait(st) {
				free = append(free, th.id+"(moved)")
			}
		}
	}
	sort.Strings(stuck)
	if len(free) == 0 && len(stuck) > 0 {
		what := "no goroutine can advance: " + strings.Join(stuck, " ")
		if r.c.db {
			r.violate("deadlock", what)
		}
		return "deadlock[" + strings.Join(stuck, ",") + "]"
	}
	sort.Strings(free)
	return "nodeadlock[free=" + strings.Join(free, ",") + "]"
}

func (r *run) harnessEnabled(th *thread) bool {
	switch th.point {
	case "H.idle":
		return !(r.c.db && !th.cur.ro && r.dbw != -1 && r.dbw != th.tx)
	case "H.cWait":
		return r.joined(th.tx)
	case "H.done", "":
		return false
	}
	return true
}

// the schedule can no longer be followed (a step the model calls enabled has blocked): let the
// implementation run on, one thread at a time, to find out whether it is a real deadlock
func (r *run) drain(pending *[]event) {
	for iter := 0; iter < 5000; iter++ {
		moved := false
		if time.Now().After(r.deadline) {
			break
		}
		for _, th := range r.order {
			if !th.flight || th.lost {
				continue
			}
			for i, ev := range *pending {
				if ev.th == th {
					*pending = append((*pending)[:i], (*pending)[i+1:]...)
					th.flight, th.point = false, ev.point
					r.onArrive(th, ev)
					moved = true
					break
				}
			}
			if th.flight && !isLockWait(goroutineState(th.goid)) {
				ev, blocked := r.await(th, pending)
				if blocked == "" {
					th.flight, th.point = false, ev.point
					r.onArrive(th, ev)
					moved = true
				} else if strings.HasPrefix(blocked, "TIMEOUT") {
					th.lost = true
				}
			}
		}
		for _, th := range r.order {
			if th.done || th.flight || th.lost || !r.harnessEnabled(th) {
				continue
			}
			r.onRelease(th)
			th.point = ""
			th.resume <- struct{}{}
			ev, blocked := r.await(th, pending)
			if strings.HasPrefix(blocked, "TIMEOUT") {
				th.lost = true
			} else if blocked != "" {
				th.flight = true
			} else {
				th.point = ev.point
				r.onArrive(th, ev)
			}
			moved = true
			break
		}
		if !moved {
			break
		}
	}
	if r.allDone() {
		return
	}
	var stuck []string
	allBlocked := true
	for _, th := range r.order {
		if th.done {
			continue
		}
		stuck = append(stuck, th.id+"@"+pointToPC(th.lastPt))
		switch {
		case th.lost:
			allBlocked = false
		case th.flight:
			if !isLockWait(goroutineState(th.goid)) {
				allBlocked = false
			}
		case r.harnessEnabled(th):
			allBlocked = false
		}
	}
	sort.Strings(stuck)
	if r.c.db && allBlocked && len(stuck) > 0 {
		r.violate("deadlock", "no goroutine can advance: "+strings.Join(stuck, " "))
	}
}

// a step that did not park where a step of the schedule was expected is not a deadlock by itself:
// release() lets every goroutine run on at the end

func (r *run) allDone() bool {
	for _, th := range r.order {
		if !th.done {
			return false
		}
	}
	return true
}

// final protocol state; only meaningful when no logical thread is running
func (r *run) final() string {
	if !r.allDone() {
		return "final: unfinished"
	}
	names, mgrFree := r.m.VerifProbe()
	sort.Strings(names)
	var parts []string
	mp := []string{}
	inMap := map[int]bool{}
	for _, n := range names {
		it, scr, lock, _ := r.m.VerifEntry(n)
		id := it.(*item).id
		inMap[id] = true
		mp = append(mp, fmt.Sprintf("%s=%d", n[1:], id))
		if lock != 0 {
			r.violate("leak", fmt.Sprintf("lock of map entry %s (object %d) still held (%d) after every transaction finished", n, id, lock))
		}
		if scr {
			parts = append(parts, fmt.Sprintf("scrappedInMap=%d", id))
		}
	}
	if !mgrFree {
		r.violate("leak", "manager mutex still held after every transaction finished")
	}
	var wr []string
	for T, tx := range r.txs {
		if !tx.VerifTxFree() {
			r.violate("leak", fmt.Sprintf("mutex of tx %d still held after every transaction finished", T))
		}
		w := tx.VerifWritten()
		var ws []string
		keys := make([]string, 0, len(w))
		for n := range w {
			keys = append(keys, n)
		}
		sort.Strings(keys)
		failed := r.txFailed[T] || r.c.wl[T].fail
		for _, n := range keys {
			e := w[n]
			id := e[0].(*item).id
			scr := e[1].(bool)
			lock := e[2].(int)
			ws = append(ws, fmt.Sprintf("%s=%d%s", n[1:], id, map[bool]string{true: "s", false: ""}[scr]))
			if lock != 0 {
				r.violate("leak", fmt.Sprintf("object %d written by tx %d still locked (%d) after its Commit", id, T, lock))
			}
			if failed && !scr {
				r.violate("failed-kept", fmt.Sprintf("tx %d failed but object %d it has written is not scrapped", T, id))
			}
			if failed && inMap[id] {
				r.violate("failed-kept", fmt.Sprintf("tx %d failed but object %d it has written is still in the manager map", T, id))
			}
		}
		wr = append(wr, "["+strings.Join(ws, ",")+"]")
	}
	// every object a failed transaction was handed for writing must be gone from the map
	for T, objs := range r.wroteEver {
		if r.txFailed[T] || r.c.wl[T].fail {
			for o := range objs {
				if inMap[o] {
					r.violate("failed-kept", fmt.Sprintf("tx %d failed but object %d it has written is still in the manager map", T, o))
				}
			}
		}
	}
	return "final: map{" + strings.Join(mp, ",") + "} written" + strings.Join(wr, "") + " " + strings.Join(parts, " ")
}

func runSchedule(line string) (impl string, kinds []string, viol []string) {
	parts := strings.SplitN(line, "::", 2)
	if len(parts) != 2 {
		return "bad-schedule", nil, nil
	}
	c, err := parseCfg(parts[0])
	if err != nil {
		return "bad-cfg " + err.Error(), nil, nil
	}
	r := newRun(c)
	currentMu.Lock()
	current = r
	currentMu.Unlock()
	r.deadline = time.Now().Add(30 * time.Second)
	r.start()
	obs := r.exec(strings.Fields(parts[1]))
	fin := r.final()
	r.release()
	currentMu.Lock()
	current = nil
	currentMu.Unlock()
	// dedupe violations
	seen := map[string]bool{}
	for i, v := range r.viol {
		if !seen[v] {
			seen[v] = true
			viol = append(viol, v)
			kinds = append(kinds, r.violKind[i])
		}
	}
	return obs + " | " + strings.TrimSpace(fin), kinds, viol
}

func main() {
	seed := flag.Uint64("seed", 1, "PRNG seed (schedules are generated by the Lean driver from the same seed)")
	sched := flag.String("sched", "", "file with schedule lines")
	dir := flag.String("out", "", "output directory")
	replay := flag.String("replay", "", "replay the schedule lines of this file (prints the implementation's observations)")
	progress := flag.String("progress", "", "file that always names the schedule being executed")
	flag.Parse()
	_ = seed
	cache.VerifYield = yieldHook
	zerolog.SetGlobalLevel(zerolog.Disabled)
	if *replay != "" {
		f, err := os.Open(*replay)
		if err != nil {
			fmt.Println(err)
			os.Exit(2)
		}
		sc := bufio.NewScanner(f)
		sc.Buffer(make([]byte, 1<<20), 1<<24)
		for sc.Scan() {
			l := strings.TrimSpace(sc.Text())
			if l == "" || strings.HasPrefix(l, "#") {
				continue
			}
			impl, _, viol := runSchedule(l)
			fmt.Println(impl)
			for _, v := range viol {
				fmt.Println("{oracle} " + v)
			}
		}
		return
	}
	if *sched == "" || *dir == "" {
		fmt.Println("usage: c11 -sched FILE -out DIR | -replay FILE")
		os.Exit(2)
	}
	f, err := os.Open(*sched)
	if err != nil {
		fmt.Println(err)
		os.Exit(2)
	}
	out := vh.NewOut(*dir)
	sc := bufio.NewScanner(f)
	sc.Buffer(make([]byte, 1<<20), 1<<24)
	steps := 0
	for sc.Scan() {
		l := strings.TrimSpace(sc.Text())
		if l == "" {
			continue
		}
		if *progress != "" {
			os.WriteFile(*progress, []byte(l+"\n"), 0o644)
		}
		impl, kinds, viol := runSchedule(l)
		toks := strings.Fields(strings.SplitN(l, "::", 2)[1])
		steps += len(toks)
		kind := "schedule"
		if strings.Contains(l, " D") {
			kind = "schedule-deadlock"
		} else if strings.Contains(l, "?") {
			kind = "schedule-with-blocked-probe"
		} else if strings.Contains(l, " e") {
			kind = "schedule-with-eviction"
		}
		out.Emit(kind, l, impl, len(toks) > 12)
		for i, v := range viol {
			sig := kinds[i] + ":" + strings.Fields(l)[0] + ":" + signatureOf(kinds[i], v)
			out.Fail(sig, v, l)
		}
	}
	if *progress != "" {
		os.Remove(*progress)
	}
	out.Close(map[string]any{
		"rule":           "a schedule counts as non-trivial when it has more than 12 steps (distinct schedule lines)",
		"protocol_steps": steps,
	})
}

// stable part of a violation: its kind and the shape of the message without object numbers
func signatureOf(kind, what string) string {
	var b strings.Builder
	for _, ch := range what {
		if ch >= '0' && ch <= '9' {
			continue
		}
		if ch == ' ' {
			b.WriteByte('_')
			continue
		}
		b.WriteRune(ch)
	}
	s := b.String()
	if len(s) > 80 {
		s = s[:80]
	}
	return s
}
