// C19 correspondence harness: runs the repository's encoders / decoders / key functions and the
// property oracle (round-trip, order, injectivity) on boundary and random values. The same op
// lines are evaluated by the Lean definitions generated from the source.
package main

import (
	"bufio"
	"bytes"
	"encoding/binary"
	"encoding/hex"
	"flag"
	"fmt"
	"math"
	"os"
	"strings"

	"github.com/google/uuid"
	"github.com/semafind/semadb/conversion"
	"github.com/semafind/semadb/shard/index/inverted"
	"github.com/semafind/semadb/shard/index/text"
	"github.com/semafind/semadb/shard/pointstore"
	"verifharness/vh"
)

var u64pool = []uint64{0, 1, 2, 0x7f, 0x80, 0xff, 0x100, 0xffff, 1 << 31, 1<<32 - 1, 1 << 32, 1<<63 - 1, 1 << 63, 1<<63 + 1, math.MaxUint64 - 1, math.MaxUint64,
	0x0102030405060708, 0x00ff00ff00ff00ff, 0xff00ff00ff00ff00}

func f64pool() []uint64 {
	fs := []float64{0, math.Copysign(0, -1), math.SmallestNonzeroFloat64, -math.SmallestNonzeroFloat64, 2.2250738585072014e-308, -2.2250738585072014e-308,
		1, -1, 1.5, -1.5, 2, -2, math.MaxFloat64, -math.MaxFloat64, math.Inf(1), math.Inf(-1), 1e-300, -1e-300, 0.1, -0.1, math.Pi, -math.Pi}
	var r []uint64
	for _, f := range fs {
		r = append(r, math.Float64bits(f))
	}
	// neighbours of the special patterns
	r = append(r, 0x0000000000000001, 0x8000000000000001, 0x000fffffffffffff, 0x800fffffffffffff, 0x0010000000000000, 0x7fefffffffffffff, 0xffefffffffffffff)
	return r
}

var nanPool = []uint64{0x7ff8000000000000, 0xfff8000000000000, 0x7ff0000000000001, 0xffffffffffffffff, 0x7fffffffffffffff}

func h64(x uint64) string { return fmt.Sprintf("%016x", x) }

// a value the property says has a key must not be refused by the encoder
var encErrors []string

func noteErr(kind, val string, err error) {
	if err != nil && len(encErrors) < 20 {
		encErrors = append(encErrors, kind+" "+val+": "+err.Error())
	}
}
func encU(x uint64) []byte {
	b, err := inverted.VerifToByteSortable(x)
	noteErr("u64enc", h64(x), err)
	return b
}
func encI(x int64) []byte {
	b, err := inverted.VerifToByteSortable(x)
	noteErr("i64enc", h64(uint64(x)), err)
	return b
}
func encF(x float64) []byte {
	b, err := inverted.VerifToByteSortable(x)
	if x == x { // NaN is outside the property's domain
		noteErr("f64enc", h64(math.Float64bits(x)), err)
	}
	return b
}
func encS(x string) []byte {
	b, err := inverted.VerifToByteSortable(x)
	noteErr("strenc", vh.Hex([]byte(x)), err)
	return b
}

func main() {
	seed := flag.Uint64("seed", 1, "PRNG seed")
	n := flag.Int("n", 2000, "random cases per group")
	dir := flag.String("out", "", "output directory")
	replay := flag.String("replay", "", "replay the op lines of this file against the implementation (prints impl answers)")
	flag.Parse()
	if *replay != "" {
		doReplay(*replay)
		return
	}
	rng := vh.NewRng(*seed)
	o := vh.NewOut(*dir)
	// ---------------------------------------------------------------- integers
	us := append([]uint64{}, u64pool...)
	for i := 0; i < *n; i++ {
		x := rng.U64()
		switch rng.Intn(4) {
		case 0:
			x >>= uint(rng.Intn(64))
		case 1:
			x = vh.Pick(rng, u64pool) + uint64(rng.Intn(5)) - 2
		}
		us = append(us, x)
	}
	for _, x := range us {
		e := encU(x)
		o.Emit("u64enc", "u64enc "+h64(x), vh.Hex(e), true)
		if len(e) != 8 || len(encI(int64(x))) != 8 {
			continue
		}
		var back uint64
		inverted.VerifFromByteSortable(e, &back)
		o.Emit("u64dec", "u64dec "+vh.Hex(e), h64(back), true)
		if back != x {
			o.Fail("uint64-roundtrip:"+h64(x), fmt.Sprintf("uint64 %d decodes to %d", x, back), "u64enc "+h64(x))
		}
		ei := encI(int64(x))
		o.Emit("i64enc", "i64enc "+h64(x), vh.Hex(ei), true)
		var backi int64
		inverted.VerifFromByteSortable(ei, &backi)
		o.Emit("i64dec", "i64dec "+vh.Hex(ei), h64(uint64(backi)), true)
		if backi != int64(x) {
			o.Fail("int64-roundtrip:"+h64(x), fmt.Sprintf("int64 %d decodes to %d", int64(x), backi), "i64enc "+h64(x))
		}
		ub := conversion.Uint64ToBytes(x)
		o.Emit("u64tobytes", "u64tobytes "+h64(x), vh.Hex(ub), true)
		o.Emit("bytestou64", "bytestou64 "+vh.Hex(ub), h64(conversion.BytesToUint64(ub)), true)
		if conversion.BytesToUint64(ub) != x {
			o.Fail("uint64bytes-roundtrip:"+h64(x), "Uint64ToBytes does not round-trip", "u64tobytes "+h64(x))
		}
	}
	// order / injectivity on pairs
	for i := 0; i < len(us)*2; i++ {
		a, b := vh.Pick(rng, us), vh.Pick(rng, us)
		ka, kb := encU(a), encU(b)
		o.Emit("lex", "lex "+vh.Hex(ka)+" "+vh.Hex(kb), vh.B01(bytes.Compare(ka, kb) < 0), a != b)
		if (bytes.Compare(ka, kb) < 0) != (a < b) || bytes.Equal(ka, kb) != (a == b) {
			o.Fail("uint64-order:"+h64(a)+","+h64(b), "uint64 key order differs from value order", "u64enc "+h64(a)+"\nu64enc "+h64(b))
		}
		ia, ib := encI(int64(a)), encI(int64(b))
		if (bytes.Compare(ia, ib) < 0) != (int64(a) < int64(b)) || bytes.Equal(ia, ib) != (a == b) {
			o.Fail("int64-order:"+h64(a)+","+h64(b), "int64 key order differs from value order", "i64enc "+h64(a)+"\ni64enc "+h64(b))
		}
	}
	// ---------------------------------------------------------------- floats
	fs := append([]uint64{}, f64pool()...)
	for i := 0; i < *n; i++ {
		x := rng.U64()
		switch rng.Intn(4) {
		case 0:
			x = vh.Pick(rng, f64pool()) + uint64(rng.Intn(5)) - 2
		case 1:
			x = math.Float64bits(float64(int64(rng.U64()>>uint(rng.Intn(64)))) / 8)
		}
		if f := math.Float64frombits(x); f != f {
			continue // NaN is outside the property's domain; a separate stream below
		}
		fs = append(fs, x)
	}
	for _, x := range fs {
		f := math.Float64frombits(x)
		e := encF(f)
		o.Emit("f64enc", "f64enc "+h64(x), vh.Hex(e), true)
		if len(e) != 8 {
			continue // refused or malformed key: reported through encErrors / the model diff
		}
		var back float64
		inverted.VerifFromByteSortable(e, &back)
		o.Emit("f64dec", "f64dec "+vh.Hex(e), h64(math.Float64bits(back)), true)
		if !(back == f) {
			o.Fail("float64-roundtrip:"+h64(x), fmt.Sprintf("float64 %v (bits %s) decodes to %v", f, h64(x), back), "f64enc "+h64(x))
		}
	}
	for _, x := range nanPool { // encoder must agree with the model on NaN too (no property judged)
		o.Emit("f64enc-nan", "f64enc "+h64(x), vh.Hex(encF(math.Float64frombits(x))), false)
	}
	all := append(append([]uint64{}, fs...), nanPool...)
	for i := 0; i < len(fs)*2; i++ {
		a, b := vh.Pick(rng, all), vh.Pick(rng, all)
		if i < len(f64pool())*len(f64pool()) { // all pairs of the boundary pool first
			p := f64pool()
			a, b = p[i/len(p)], p[i%len(p)]
		}
		fa, fb := math.Float64frombits(a), math.Float64frombits(b)
		// validates the trusted float-pattern semantics of the model against Go
		o.Emit("fcmp", "fcmp "+h64(a)+" "+h64(b), fmt.Sprintf("%s %s %s %s %s", vh.B01(fa != fa), vh.B01(fa < fb), vh.B01(fa <= fb), vh.B01(fa == fb), vh.B01(fa >= 0)), true)
		if fa != fa || fb != fb {
			continue
		}
		ka, kb := encF(fa), encF(fb)
		if len(ka) != 8 || len(kb) != 8 {
			continue
		}
		if (bytes.Compare(ka, kb) < 0) != (fa < fb) {
			o.Fail("float64-order:"+h64(a)+","+h64(b), fmt.Sprintf("float64 keys of %v and %v are ordered differently from the values", fa, fb), "f64enc "+h64(a)+"\nf64enc "+h64(b))
		}
		if bytes.Equal(ka, kb) != (fa == fb) {
			o.Fail("float64-inj:"+h64(a)+","+h64(b), fmt.Sprintf("float64 keys of %v and %v: equality differs from the values", fa, fb), "f64enc "+h64(a)+"\nf64enc "+h64(b))
		}
	}
	// ---------------------------------------------------------------- strings / lex order
	strs := []string{"s", "ss", "glass", "miss", "ts", "st", "t", "tt", "sts", "d", "", "a", "A", "ab", "aB", "b", "é", "É", "ß", "\x00", "\x00\x00", "\xff", "\xff\xff", "a\x00", "a\xff", "abc", "abd", "ab\x00c", strings.Repeat("z", 200)}
	for i := 0; i < *n/4; i++ {
		l := rng.Intn(6)
		b := make([]byte, l)
		for j := range b {
			b[j] = byte(vh.Pick(rng, []int{0, 1, 'a', 'b', 0x7f, 0x80, 0xfe, 0xff}))
		}
		strs = append(strs, string(b))
	}
	for _, s := range strs {
		e := encS(s)
		o.Emit("strenc", "strenc "+vh.Hex([]byte(s)), vh.Hex(e), true)
		var back string
		inverted.VerifFromByteSortable(e, &back)
		o.Emit("strdec", "strdec "+vh.Hex(e), vh.Hex([]byte(back)), true)
		if back != s {
			o.Fail("string-roundtrip:"+vh.Hex([]byte(s)), "string does not round-trip", "strenc "+vh.Hex([]byte(s)))
		}
		tk := text.VerifTermKey(s)
		o.Emit("termkey", "termkey "+vh.Hex([]byte(s)), vh.Hex(tk), true)
		tb, tok := text.VerifTermIdFromKey(tk)
		o.Emit("termid", "termid "+vh.Hex(tk), vh.Hex([]byte(tb))+" "+vh.B01(tok), true)
		if !(tok && tb == s) {
			o.Fail("termkey-roundtrip:"+vh.Hex([]byte(s)), fmt.Sprintf("term %q: key %s is read back as %q (recognised=%v)", s, vh.Hex(tk), tb, tok), "termkey "+vh.Hex([]byte(s)))
		}
		if _, isDoc := text.VerifDocIdFromKey(tk); isDoc && len(tk) != 9 {
			o.Fail("termkey-as-document:"+vh.Hex([]byte(s)), "a term key is recognised as a document key", "termkey "+vh.Hex([]byte(s)))
		}
	}
	for i := 0; i < len(strs)*3; i++ {
		a, b := vh.Pick(rng, strs), vh.Pick(rng, strs)
		ka, kb := encS(a), encS(b)
		o.Emit("lex", "lex "+vh.Hex(ka)+" "+vh.Hex(kb), vh.B01(bytes.Compare(ka, kb) < 0), a != b)
		if (bytes.Compare(ka, kb) < 0) != (a < b) || bytes.Equal(ka, kb) != (a == b) {
			o.Fail("string-order:"+vh.Hex([]byte(a))+","+vh.Hex([]byte(b)), "string key order differs from value order", "strenc "+vh.Hex([]byte(a))+"\nstrenc "+vh.Hex([]byte(b)))
		}
	}
	// ---------------------------------------------------------------- keys
	sufs := []byte{'i', 'd', 'v', 'q', 'e', 0, 0xff, 'n', 'p'}
	for _, x := range us[:min(len(us), 400)] {
		s := vh.Pick(rng, sufs)
		k := conversion.NodeKey(x, s)
		o.Emit("nodekey", fmt.Sprintf("nodekey %s %02x", h64(x), s), vh.Hex(k), true)
		for _, s2 := range []byte{s, vh.Pick(rng, sufs)} {
			id, ok := conversion.NodeIdFromKey(k, s2)
			o.Emit("nodeid", fmt.Sprintf("nodeid %s %02x", vh.Hex(k), s2), h64(id)+" "+vh.B01(ok), true)
			if s2 == s && !(ok && id == x) {
				o.Fail("nodekey-roundtrip:"+h64(x), "node key does not round-trip", fmt.Sprintf("nodekey %s %02x", h64(x), s))
			}
			if s2 != s && ok {
				o.Fail("nodekey-suffix:"+h64(x), "node key recognised under a different suffix", fmt.Sprintf("nodekey %s %02x", h64(x), s))
			}
		}
		var u uuid.UUID
		binary.LittleEndian.PutUint64(u[:8], x)
		binary.BigEndian.PutUint64(u[8:], rng.U64())
		pk := pointstore.PointKey(u, s)
		o.Emit("pointkey", fmt.Sprintf("pointkey %s %02x", vh.Hex(u[:]), s), vh.Hex(pk), true)
		dk := text.VerifDocumentKey(x)
		o.Emit("dockey", "dockey "+h64(x), vh.Hex(dk), true)
		did, dok := text.VerifDocIdFromKey(dk)
		o.Emit("docid", "docid "+vh.Hex(dk), h64(did)+" "+vh.B01(dok), true)
		if !(dok && did == x) {
			o.Fail("dockey-roundtrip:"+h64(x), "document key does not round-trip", "dockey "+h64(x))
		}
	}
	// malformed keys through the recognisers
	for i := 0; i < 300; i++ {
		l := vh.Pick(rng, []int{0, 1, 2, 8, 9, 10, 11, 18})
		k := make([]byte, l)
		for j := range k {
			k[j] = byte(rng.U64())
		}
		if l > 0 && rng.Chance(70) {
			k[0] = vh.Pick(rng, []byte{'n', 'p', 'd', 't'})
		}
		if l > 1 && rng.Chance(50) {
			k[l-1] = vh.Pick(rng, []byte{'s', 'i', 'd'})
		}
		s := vh.Pick(rng, sufs)
		if l > 0 && rng.Chance(50) {
			s = k[l-1]
		}
		id, ok := conversion.NodeIdFromKey(k, s)
		o.Emit("nodeid-malformed", fmt.Sprintf("nodeid %s %02x", vh.Hex(k), s), h64(id)+" "+vh.B01(ok), ok)
	}
	// ---------------------------------------------------------------- vectors and edge lists
	lens := []int{0, 1, 2, 3, 7, 8, 31, 32, 33, 64, 255, 1024, 4095, 4096}
	f32pool := []uint32{0, 0x80000000, 1, 0x7f800000, 0xff800000, 0x7fc00000, 0xffc00001, 0x7fffffff, 0xffffffff, 0x3f800000, 0x00800000}
	for _, l := range lens {
		v := make([]float32, l)
		hx := make([]byte, 0, l*8)
		for j := range v {
			w := uint32(rng.U64())
			if rng.Chance(40) {
				w = vh.Pick(rng, f32pool)
			}
			v[j] = math.Float32frombits(w)
			hx = append(hx, []byte(fmt.Sprintf("%08x", w))...)
		}
		hv := string(hx)
		if l == 0 {
			hv = "-"
		}
		var enc []byte
		if l > 0 {
			enc = conversion.Float32ToBytes(v) // raw (unsafe) variant on little-endian machines
		}
		o.Emit("f32vecenc", "f32vecenc "+hv, vh.Hex(enc), l > 0)
		// the portable variants (what the Lean definitions are generated from) through the tagged exports
		encSafe := conversion.VerifFloat32ToBytesSafe(v)
		o.Emit("f32vecenc-safe", "f32vecenc "+hv, vh.Hex(encSafe), l > 0)
		if !bytes.Equal(enc, encSafe) {
			o.Fail(fmt.Sprintf("f32vec-safe-vs-raw:len%d", l), "the portable and the raw float32 encoders produce different bytes", "f32vecenc "+hv)
		}
		decSafe := conversion.VerifBytesToFloat32Safe(encSafe)
		{
			var sb strings.Builder
			same := len(decSafe) == len(v)
			for j, d := range decSafe {
				fmt.Fprintf(&sb, "%08x", math.Float32bits(d))
				if same && math.Float32bits(d) != math.Float32bits(v[j]) {
					same = false
				}
			}
			ss := sb.String()
			if l == 0 {
				ss = "-"
			}
			o.Emit("f32vecdec-safe", "f32vecdec "+vh.Hex(encSafe), ss, l > 0)
			if !same {
				o.Fail(fmt.Sprintf("f32vec-safe-roundtrip:len%d", l), "float32 vector does not round-trip bit-for-bit through the portable codec", "f32vecenc "+hv)
			}
		}
		var dec []float32
		if l > 0 {
			dec = conversion.BytesToFloat32(enc)
		}
		var dh strings.Builder
		okrt := len(dec) == len(v)
		for j, d := range dec {
			fmt.Fprintf(&dh, "%08x", math.Float32bits(d))
			if okrt && math.Float32bits(d) != math.Float32bits(v[j]) {
				okrt = false
			}
		}
		ds := dh.String()
		if l == 0 {
			ds = "-"
		}
		o.Emit("f32vecdec", "f32vecdec "+vh.Hex(enc), ds, l > 0)
		if !okrt {
			o.Fail(fmt.Sprintf("f32vec-roundtrip:len%d", l), "float32 vector does not round-trip bit-for-bit", "f32vecenc "+hv)
		}
		es := make([]uint64, l)
		ex := make([]byte, 0, l*16)
		for j := range es {
			es[j] = rng.U64() >> uint(rng.Intn(64))
			ex = append(ex, []byte(h64(es[j]))...)
		}
		ev := string(ex)
		if l == 0 {
			ev = "-"
		}
		eb := conversion.EdgeListToBytes(es)
		o.Emit("edgesenc", "edgesenc "+ev, vh.Hex(eb), l > 0)
		back := conversion.BytesToEdgeList(eb)
		var bh strings.Builder
		okrt = len(back) == len(es)
		for j, d := range back {
			bh.WriteString(h64(d))
			if okrt && d != es[j] {
				okrt = false
			}
		}
		bs := bh.String()
		if l == 0 {
			bs = "-"
		}
		o.Emit("edgesdec", "edgesdec "+vh.Hex(eb), bs, l > 0)
		if !okrt {
			o.Fail(fmt.Sprintf("edges-roundtrip:len%d", l), "edge list does not round-trip", "edgesenc "+ev)
		}
	}
	for _, e := range encErrors {
		f := strings.SplitN(e, ":", 2)
		o.Fail("encode-refused:"+strings.Fields(f[0])[0]+":"+strings.Fields(f[0])[1], "the encoder refuses a value of the property's domain: "+e, f[0])
	}
	o.Close(map[string]any{"rule": "one case = one encode/decode/compare call; non-trivial = distinct op line whose input is not the NaN side stream (pairs: the two values differ)"})
}

func doReplay(path string) {
	f, err := os.Open(path)
	if err != nil {
		panic(err)
	}
	defer f.Close()
	sc := bufio.NewScanner(f)
	sc.Buffer(make([]byte, 1<<20), 1<<26)
	for sc.Scan() {
		fs := strings.Fields(sc.Text())
		if len(fs) < 2 {
			continue
		}
		var x uint64
		fmt.Sscanf(fs[1], "%x", &x)
		switch fs[0] {
		case "u64enc":
			fmt.Println(vh.Hex(encU(x)))
		case "i64enc":
			fmt.Println(vh.Hex(encI(int64(x))))
		case "f64enc":
			e := encF(math.Float64frombits(x))
			var back float64
			inverted.VerifFromByteSortable(e, &back)
			fmt.Printf("%s decodes-to %016x (%v -> %v)\n", vh.Hex(e), math.Float64bits(back), math.Float64frombits(x), back)
		case "strenc":
			b, _ := hex.DecodeString(strings.TrimPrefix(fs[1], "-"))
			fmt.Println(vh.Hex(encS(string(b))))
		case "f32vecenc":
			var v []float32
			for i := 0; i+8 <= len(fs[1]); i += 8 {
				var w uint32
				fmt.Sscanf(fs[1][i:i+8], "%x", &w)
				v = append(v, math.Float32frombits(w))
			}
			fmt.Println(vh.Hex(conversion.VerifFloat32ToBytesSafe(v)))
		default:
			fmt.Println("replay: unsupported op", fs[0])
		}
	}
}
