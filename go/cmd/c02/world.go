package main

// Executes op lines on a real shard and evaluates the property oracle (the specification of the
// filter operators, straight from the documents) against the real answers.

import (
	"bytes"
	"fmt"
	"os"
	"path/filepath"
	"sort"
	"strings"

	"github.com/RoaringBitmap/roaring/roaring64"
	"github.com/google/uuid"
	"github.com/semafind/semadb/diskstore"
	"github.com/semafind/semadb/models"
	"github.com/semafind/semadb/shard"
	"github.com/vmihailenco/msgpack/v5"
)

const nLabels = 16

func label(i int) string { return fmt.Sprintf("u%02d", i) }

func labelUUID(l string) uuid.UUID { return uuid.NewSHA1(uuid.NameSpaceOID, []byte("c02/"+l)) }

var uuidLabel = func() map[uuid.UUID]string {
	m := map[uuid.UUID]string{}
	for i := 0; i < 64; i++ {
		m[labelUUID(label(i))] = label(i)
	}
	return m
}()

type Failure struct {
	Sig, What string
	Q         *Q
}

type World struct {
	dir     string
	n       int
	sh      *shard.Shard
	backend string
	kind    map[string]string // path -> kind
	idx     []IdxSpec
	docs    map[string]map[string]any // oracle state: the documents, as a plain map
	node    map[string]uint64
	labelOf map[uint64]string
	Hist    []string // op lines since (and including) the last schema line
	Writes  []*Op    // the accepted write batches since the last schema line (for shrinking replays)
}

func NewWorld(dir string) *World { return &World{dir: dir} }

func (w *World) Close() {
	if w.sh != nil {
		w.sh.Close()
		w.sh = nil
	}
}

func typeName(kind string) string {
	switch kind {
	case "str:cs", "str:ci":
		return models.IndexTypeString
	case "arr:cs", "arr:ci":
		return models.IndexTypeStringArray
	case "int":
		return models.IndexTypeInteger
	case "flt":
		return models.IndexTypeFloat
	}
	panic("bad kind " + kind)
}

func (w *World) openShard(op *Op) error {
	w.Close()
	schema := models.IndexSchema{}
	w.kind = map[string]string{}
	for _, ix := range op.Idx {
		w.kind[ix.Path] = ix.Kind
		v := models.IndexSchemaValue{Type: typeName(ix.Kind)}
		switch ix.Kind {
		case "str:cs", "str:ci":
			v.String = &models.IndexStringParameters{CaseSensitive: ix.Kind == "str:cs"}
		case "arr:cs", "arr:ci":
			v.StringArray = &models.IndexStringArrayParameters{IndexStringParameters: models.IndexStringParameters{CaseSensitive: ix.Kind == "arr:cs"}}
		}
		schema[ix.Path] = v
	}
	col := models.Collection{UserId: "verif", Id: "c02", Replicas: 1, IndexSchema: schema,
		UserPlan: models.UserPlan{Name: "verif", MaxCollections: 1, MaxCollectionPointCount: 1 << 20, MaxPointSize: 1 << 20}}
	path := ""
	if op.Backend == "bolt" {
		w.n++
		path = filepath.Join(w.dir, fmt.Sprintf("shard%d.bbolt", w.n))
		os.Remove(path)
	}
	sh, err := shard.NewShard(path, col, nil)
	if err != nil {
		return err
	}
	w.sh, w.backend, w.idx = sh, op.Backend, op.Idx
	w.docs = map[string]map[string]any{}
	w.node = map[string]uint64{}
	w.labelOf = map[uint64]string{}
	return nil
}

func deepCopy(v any) any {
	switch v := v.(type) {
	case map[string]any:
		m := make(map[string]any, len(v))
		for k, x := range v {
			m[k] = deepCopy(x)
		}
		return m
	case []any:
		a := make([]any, len(v))
		for i, x := range v {
			a[i] = deepCopy(x)
		}
		return a
	}
	return v
}

func (w *World) toModelQuery(q *Q) models.Query {
	switch q.Kind {
	case "str":
		return models.Query{Property: q.Path, String: &models.SearchStringOptions{Value: q.S, EndValue: q.SE, Operator: q.Op}}
	case "arr":
		op := models.OperatorContainsAny
		if q.All {
			op = models.OperatorContainsAll
		}
		return models.Query{Property: q.Path, StringArray: &models.SearchStringArrayOptions{Value: append([]string{}, q.Strs...), Operator: op}}
	case "int":
		return models.Query{Property: q.Path, Integer: &models.SearchIntegerOptions{Value: q.I, EndValue: q.IE, Operator: q.Op}}
	case "flt":
		return models.Query{Property: q.Path, Float: &models.SearchFloatOptions{Value: q.F, EndValue: q.FE, Operator: q.Op}}
	case "ideq":
		return models.Query{Property: "_id", String: &models.SearchStringOptions{Value: labelUUID(q.Label).String(), Operator: models.OperatorEquals}}
	case "idany":
		us := make([]string, len(q.Labels))
		for i, l := range q.Labels {
			us[i] = labelUUID(l).String()
		}
		return models.Query{Property: "_id", StringArray: &models.SearchStringArrayOptions{Value: us, Operator: models.OperatorContainsAny}}
	case "and", "or":
		subs := make([]models.Query, len(q.Subs))
		for i, s := range q.Subs {
			subs[i] = w.toModelQuery(s)
		}
		if q.Kind == "and" {
			return models.Query{Property: "_and", And: subs}
		}
		return models.Query{Property: "_or", Or: subs}
	}
	panic("bad query kind")
}

// ---------------------------------------------------------------------------------- oracle

func lookup(doc map[string]any, path string) (any, bool) {
	var cur any = doc
	for _, seg := range strings.Split(path, ".") {
		m, ok := cur.(map[string]any)
		if !ok {
			return nil, false
		}
		cur, ok = m[seg]
		if !ok {
			return nil, false
		}
	}
	if cur == nil {
		return nil, false
	}
	return cur, true
}

func foldS(kind, s string) string {
	if strings.HasSuffix(kind, ":ci") {
		return strings.ToLower(s)
	}
	return s
}

// the meaning of an operator on (folded) strings: Go's string order is byte-wise
func satStr(op, a, q, e string) bool {
	switch op {
	case models.OperatorEquals:
		return a == q
	case models.OperatorNotEquals:
		return a != q
	case models.OperatorStartsWith:
		return strings.HasPrefix(a, q)
	case models.OperatorGreaterThan:
		return a > q
	case models.OperatorGreaterOrEq:
		return a >= q
	case models.OperatorLessThan:
		return a < q
	case models.OperatorLessOrEq:
		return a <= q
	case models.OperatorInRange:
		return q <= a && a <= e
	}
	panic("bad op " + op)
}

func satNum[T int64 | float64](op string, a, q, e T) bool {
	switch op {
	case models.OperatorEquals:
		return a == q
	case models.OperatorNotEquals:
		return a != q
	case models.OperatorGreaterThan:
		return a > q
	case models.OperatorGreaterOrEq:
		return a >= q
	case models.OperatorLessThan:
		return a < q
	case models.OperatorLessOrEq:
		return a <= q
	case models.OperatorInRange:
		return q <= a && a <= e
	}
	panic("bad op " + op)
}

func (w *World) sat(q *Q, lbl string, doc map[string]any) bool {
	switch q.Kind {
	case "str":
		v, ok := lookup(doc, q.Path)
		if !ok {
			return false
		}
		k := w.kind[q.Path]
		return satStr(q.Op, foldS(k, v.(string)), foldS(k, q.S), foldS(k, q.SE))
	case "arr":
		v, ok := lookup(doc, q.Path)
		if !ok {
			return false
		}
		k := w.kind[q.Path]
		have := map[string]bool{}
		for _, x := range v.([]any) {
			have[foldS(k, x.(string))] = true
		}
		for _, s := range q.Strs {
			if have[foldS(k, s)] != q.All {
				return !q.All
			}
		}
		return q.All
	case "int":
		v, ok := lookup(doc, q.Path)
		if !ok {
			return false
		}
		return satNum(q.Op, v.(int64), q.I, q.IE)
	case "flt":
		v, ok := lookup(doc, q.Path)
		if !ok {
			return false
		}
		return satNum(q.Op, v.(float64), q.F, q.FE)
	case "ideq":
		return lbl == q.Label
	case "idany":
		for _, l := range q.Labels {
			if l == lbl {
				return true
			}
		}
		return false
	case "and":
		for _, s := range q.Subs {
			if !w.sat(s, lbl, doc) {
				return false
			}
		}
		return true
	case "or":
		for _, s := range q.Subs {
			if w.sat(s, lbl, doc) {
				return true
			}
		}
		return false
	}
	panic("bad query kind")
}

func (w *World) expected(q *Q) string {
	var ls []string
	for l, d := range w.docs {
		if w.sat(q, l, d) {
			ls = append(ls, l)
		}
	}
	sort.Strings(ls)
	return "ids:" + strings.Join(ls, ",")
}

func (q *Q) sig(w *World) string {
	switch q.Kind {
	case "str", "arr":
		k := w.kind[q.Path]
		op := q.Op
		if q.Kind == "arr" {
			op = "containsAny"
			if q.All {
				op = "containsAll"
			}
		}
		return k + ":" + op
	case "int", "flt":
		return q.Kind + ":" + q.Op
	case "ideq", "idany":
		return "_id:" + q.Kind
	}
	return "tree:" + q.Kind
}

func (q *Q) leaves(out []*Q) []*Q {
	if q.Kind == "and" || q.Kind == "or" {
		for _, s := range q.Subs {
			out = s.leaves(out)
		}
		return out
	}
	return append(out, q)
}

// ---------------------------------------------------------------------------------- execution

func (w *World) searchRaw(q *Q) string {
	res, err := w.sh.SearchPoints(models.SearchRequest{Query: w.toModelQuery(q)})
	if err != nil {
		return "error"
	}
	ls := make([]string, 0, len(res))
	seen := map[string]bool{}
	for _, r := range res {
		l, ok := uuidLabel[r.Point.Id]
		if !ok {
			l = "?" + r.Point.Id.String()
		}
		if !seen[l] {
			seen[l] = true
			ls = append(ls, l)
		}
	}
	sort.Strings(ls)
	return "ids:" + strings.Join(ls, ",")
}

func classify(got, want string) string {
	if got == "error" {
		return "error"
	}
	g, wn := map[string]bool{}, map[string]bool{}
	for _, x := range strings.Split(strings.TrimPrefix(got, "ids:"), ",") {
		g[x] = true
	}
	for _, x := range strings.Split(strings.TrimPrefix(want, "ids:"), ",") {
		wn[x] = true
	}
	missing, extra := false, false
	delete(g, "")
	delete(wn, "")
	for x := range wn {
		if !g[x] {
			missing = true
		}
	}
	for x := range g {
		if !wn[x] {
			extra = true
		}
	}
	switch {
	case missing && extra:
		return "missing+extra"
	case missing:
		return "missing"
	}
	return "extra"
}

// search runs the query, compares with the oracle; on a mismatch of a tree it looks for a failing leaf.
func (w *World) search(q *Q) (string, *Failure) {
	got := w.searchRaw(q)
	want := w.expected(q)
	if got == want {
		return got, nil
	}
	for _, l := range q.leaves(nil) {
		if l == q {
			break
		}
		g, e := w.searchRaw(l), w.expected(l)
		if g != e {
			return got, &Failure{Sig: "filter:" + l.sig(w) + ":" + classify(g, e), What: fmt.Sprintf("query %q returns %s, the documents say %s", (&Op{Kind: "search", Q: l}).Line(), g, e), Q: l}
		}
	}
	return got, &Failure{Sig: "filter:" + q.sig(w) + ":" + classify(got, want), What: fmt.Sprintf("query %q returns %s, the documents say %s", (&Op{Kind: "search", Q: q}).Line(), got, want), Q: q}
}

func encodeDoc(doc map[string]any) []byte {
	b, err := msgpack.Marshal(doc)
	if err != nil {
		panic(err)
	}
	return b
}

func (w *World) learnNodes(labels []string) {
	if len(labels) == 0 {
		return
	}
	us := make([]string, len(labels))
	for i, l := range labels {
		us[i] = labelUUID(l).String()
	}
	res, err := w.sh.SearchPoints(models.SearchRequest{Query: models.Query{Property: "_id", StringArray: &models.SearchStringArrayOptions{Value: us, Operator: models.OperatorContainsAny}}})
	if err != nil {
		panic("learnNodes: " + err.Error())
	}
	for _, r := range res {
		if l, ok := uuidLabel[r.Point.Id]; ok {
			w.node[l] = r.NodeId
			w.labelOf[r.NodeId] = l
		}
	}
}

func (w *World) bucketName(path string) string {
	return fmt.Sprintf("index/%s/%s", typeName(w.kind[path]), path)
}

func (w *World) dump(path string) string {
	if _, ok := w.kind[path]; !ok {
		return "no-such-index"
	}
	type kvp struct {
		k []byte
		v string
	}
	var all []kvp
	err := w.sh.VerifDB().Read(func(bm diskstore.BucketManager) error {
		b, err := bm.Get(w.bucketName(path))
		if err != nil {
			return err
		}
		return b.ForEach(func(k, v []byte) error {
			rs := roaring64.New()
			if _, err := rs.ReadFrom(bytes.NewReader(v)); err != nil {
				return err
			}
			var ls []string
			it := rs.Iterator()
			for it.HasNext() {
				id := it.Next()
				if l, ok := w.labelOf[id]; ok {
					ls = append(ls, l)
				} else {
					ls = append(ls, "?"+h64(id))
				}
			}
			sort.Strings(ls)
			all = append(all, kvp{append([]byte{}, k...), strings.Join(ls, ",")})
			return nil
		})
	})
	if err != nil {
		return "dump-error:" + err.Error()
	}
	if len(all) == 0 {
		return "-"
	}
	sort.Slice(all, func(i, j int) bool { return bytes.Compare(all[i].k, all[j].k) < 0 })
	parts := make([]string, len(all))
	for i, e := range all {
		parts[i] = hx(string(e.k)) + "=" + e.v
	}
	return strings.Join(parts, ";")
}

// Exec runs one op on the real shard, keeps the oracle state in step, and returns the canonical
// answer. For inserts it fills in the node ids the shard allocated (the model takes them as given).
func (w *World) Exec(op *Op) (ans string, fail *Failure) {
	switch op.Kind {
	case "schema":
		if err := w.openShard(op); err != nil {
			panic(err)
		}
		w.Hist = nil
		w.Writes = nil
		ans = "ok"
	case "lower":
		ans = "ok"
	case "insert":
		pts := make([]models.Point, len(op.Pts))
		labels := make([]string, len(op.Pts))
		for i, p := range op.Pts {
			pts[i] = models.Point{Id: labelUUID(p.Label), Data: encodeDoc(p.Doc)}
			labels[i] = p.Label
		}
		if err := w.sh.InsertPoints(pts); err != nil {
			ans = "rejected"
			break
		}
		ans = "ok"
		for _, p := range op.Pts {
			w.docs[p.Label] = deepCopy(p.Doc).(map[string]any)
		}
		w.learnNodes(labels)
		for i := range op.Pts {
			op.Pts[i].Node = w.node[op.Pts[i].Label]
		}
	case "update":
		pts := make([]models.Point, len(op.Pts))
		for i, p := range op.Pts {
			pts[i] = models.Point{Id: labelUUID(p.Label), Data: encodeDoc(p.Doc)}
		}
		if _, err := w.sh.UpdatePoints(pts); err != nil {
			ans = "rejected"
			break
		}
		ans = "ok"
		for _, p := range op.Pts {
			d, ok := w.docs[p.Label]
			if !ok {
				continue
			}
			for k, v := range p.Doc {
				if s, ok := v.(string); ok && s == shard.DELETEVALUE {
					delete(d, k)
				} else {
					d[k] = deepCopy(v)
				}
			}
		}
	case "delete":
		set := map[uuid.UUID]struct{}{}
		for _, l := range op.Labels {
			set[labelUUID(l)] = struct{}{}
		}
		if _, err := w.sh.DeletePoints(set); err != nil {
			ans = "rejected"
			break
		}
		ans = "ok"
		for _, l := range op.Labels {
			if id, ok := w.node[l]; ok {
				delete(w.labelOf, id)
				delete(w.node, l)
			}
			delete(w.docs, l)
		}
	case "search":
		ans, fail = w.search(op.Q)
	case "dump":
		ans = w.dump(op.Path)
	default:
		panic("bad op " + op.Kind)
	}
	w.Hist = append(w.Hist, op.Line())
	if ans == "ok" && (op.Kind == "insert" || op.Kind == "update" || op.Kind == "delete") {
		w.Writes = append(w.Writes, copyOp(op))
	}
	return
}
