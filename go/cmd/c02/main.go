// C02 correspondence harness: drives a real shard (file-backed bbolt and memory backend) through
// histories of inserts / updates / deletes over string, string-array, integer and float indexes
// (both case sensitivities, nested property paths), asks filter queries for every operator with
// boundary values and nested _and/_or trees, dumps the index buckets, and
//   (a) writes op lines + the implementation's canonical answers for the Lean model driver, and
//   (b) evaluates the specification of each query directly on the documents (oracle) so that a
//       violation of the property by the implementation comes with a concrete replay.
package main

import (
	"bufio"
	"flag"
	"fmt"
	"math"
	"os"
	"os/exec"
	"path/filepath"
	"reflect"
	"sort"
	"strings"
	"time"

	"github.com/rs/zerolog"
	"github.com/semafind/semadb/models"
	"verifharness/vh"
)

var strPool = []string{"a", "A", "ab", "aB", "Ab", "AB", "abc", "ABC", "abd", "b", "B", "ba", "Z", "z", "é", "É", "ß", "ǅ", "İ", "ı", "\x00", "a\x00", "\xff", "\xfe\xff", "a\xff", "a\xff\x00", "a\xff\xff", "\xff\xff\x01", "ab\xffz", "_delete", "_DELETE", "Σ", "σ", "ς",
	strings.Repeat("x", 200), strings.Repeat("X", 199) + "y"}

var intPool = []int64{math.MinInt64, math.MinInt64 + 1, -1 << 32, -1 << 31, -257, -256, -255, -2, -1, 0, 1, 2, 127, 128, 255, 256, 1 << 31, 1 << 32, math.MaxInt64 - 1, math.MaxInt64}

var fltPool = []float64{0, math.Copysign(0, -1), math.SmallestNonzeroFloat64, -math.SmallestNonzeroFloat64, 2.2250738585072014e-308, -2.2250738585072014e-308,
	math.Float64frombits(0x000fffffffffffff), -math.Float64frombits(0x000fffffffffffff), 1, -1, 1.5, -1.5, 2, -2, 0.1, -0.1, 1e-300, -1e-300,
	math.MaxFloat64, -math.MaxFloat64, math.Inf(1), math.Inf(-1)}

var ops8 = []string{models.OperatorEquals, models.OperatorNotEquals, models.OperatorStartsWith, models.OperatorGreaterThan, models.OperatorGreaterOrEq, models.OperatorLessThan, models.OperatorLessOrEq, models.OperatorInRange}
var ops7 = []string{models.OperatorEquals, models.OperatorNotEquals, models.OperatorGreaterThan, models.OperatorGreaterOrEq, models.OperatorLessThan, models.OperatorLessOrEq, models.OperatorInRange}

type Gen struct {
	r        *vh.Rng
	w        *World
	o        *vh.Out
	tmp      string
	seen     map[string]bool // strings whose lower line was emitted in this history
	sigs     map[string]bool
	branches map[string]int
	skipped  int
	co       *vh.Out // compose mode: the same op lines plus `searchx` lines (compose.go); nil = off
	nx       int     // `searchx` requests after each batch
}

func caseVariant(r *vh.Rng, s string) string {
	switch r.Intn(4) {
	case 0:
		return strings.ToUpper(s)
	case 1:
		return strings.ToLower(s)
	case 2:
		rs := []rune(s)
		for i := range rs {
			if r.Bool() {
				rs[i] = []rune(strings.ToUpper(string(rs[i])))[0]
			} else {
				rs[i] = []rune(strings.ToLower(string(rs[i])))[0]
			}
		}
		return string(rs)
	}
	return s
}

func (g *Gen) genStr(allowEmpty bool) string {
	for {
		var s string
		switch g.r.Intn(10) {
		case 0, 1, 2, 3, 4:
			s = vh.Pick(g.r, strPool)
		case 5, 6, 7, 8:
			n := g.r.Intn(4)
			al := []string{"a", "A", "b", "B", "é", "É", "c"}
			for i := 0; i < n; i++ {
				s += vh.Pick(g.r, al)
			}
		default:
			s = caseVariant(g.r, vh.Pick(g.r, strPool))
		}
		if s != "" || allowEmpty {
			return s
		}
	}
}

func (g *Gen) genInt() int64 {
	switch g.r.Intn(4) {
	case 0:
		return int64(g.r.Intn(7)) - 3
	case 1:
		return int64(g.r.U64())
	case 2:
		return vh.Pick(g.r, intPool) + int64(g.r.Intn(3)) - 1
	}
	return vh.Pick(g.r, intPool)
}

func (g *Gen) genFlt() float64 {
	for {
		var f float64
		switch g.r.Intn(5) {
		case 0:
			f = float64(g.r.Intn(9)-4) / 2
		case 1:
			f = math.Float64frombits(g.r.U64())
		case 2:
			f = math.Float64frombits(math.Float64bits(vh.Pick(g.r, fltPool)) + uint64(g.r.Intn(3)) - 1)
		default:
			f = vh.Pick(g.r, fltPool)
		}
		if f == f { // NaN is outside the property's domain (and cannot be written through the JSON API)
			return f
		}
	}
}

func (g *Gen) genArr(allowEmpty bool) []any {
	n := g.r.Intn(5)
	a := make([]any, n)
	for i := range a {
		a[i] = g.genStr(allowEmpty)
	}
	return a
}

func (g *Gen) allowEmpty() bool { return g.w.backend == "mem" }

// value of the right type for the index at path
func (g *Gen) genFor(kind string) any {
	switch kind {
	case "str:cs", "str:ci":
		return g.genStr(g.allowEmpty())
	case "arr:cs", "arr:ci":
		return g.genArr(g.allowEmpty())
	case "int":
		return g.genInt()
	}
	return g.genFlt()
}

// build a (sub)document for all index paths below prefix
func (g *Gen) genMap(prefix string, pInclude int) map[string]any {
	m := map[string]any{}
	subs := map[string]bool{}
	for _, ix := range g.w.idx {
		if !strings.HasPrefix(ix.Path, prefix) {
			continue
		}
		rest := ix.Path[len(prefix):]
		if i := strings.Index(rest, "."); i >= 0 {
			subs[rest[:i]] = true
			continue
		}
		if g.r.Chance(pInclude) {
			if g.r.Chance(4) {
				m[rest] = nil // an explicit nil counts as "field absent"
			} else {
				m[rest] = g.genFor(ix.Kind)
			}
		}
	}
	for _, s := range sortedKeys(subs) {
		if g.r.Chance(pInclude + 10) {
			m[s] = g.genMap(prefix+s+".", pInclude)
		}
	}
	if g.r.Chance(20) {
		m["other"] = vh.Pick(g.r, []any{"free text", int64(7), 2.5, true, []any{int64(1), "x"}})
	}
	return m
}

func sortedKeys[V any](m map[string]V) []string {
	ks := make([]string, 0, len(m))
	for k := range m {
		ks = append(ks, k)
	}
	sort.Strings(ks)
	return ks
}

func (g *Gen) genPatch() map[string]any {
	full := g.genMap("", 35)
	// top-level keys that exist in the schema
	tops := map[string]bool{}
	for _, ix := range g.w.idx {
		tops[strings.SplitN(ix.Path, ".", 2)[0]] = true
	}
	for _, k := range sortedKeys(tops) {
		if g.r.Chance(12) {
			full[k] = "_delete"
		}
	}
	return full
}

func collectStrings(v any, out *[]string) {
	switch v := v.(type) {
	case string:
		*out = append(*out, v)
	case []any:
		for _, x := range v {
			collectStrings(x, out)
		}
	case map[string]any:
		for _, k := range sortedKeys(v) {
			collectStrings(v[k], out)
		}
	}
}

func (q *Q) strings(out *[]string) {
	switch q.Kind {
	case "str":
		*out = append(*out, q.S, q.SE)
	case "arr":
		*out = append(*out, q.Strs...)
	case "and", "or":
		for _, s := range q.Subs {
			s.strings(out)
		}
	}
}

// emit sends an op to the real shard, records line + answer, reports oracle failures
func (g *Gen) emit(op *Op) string {
	// strings.ToLower is an abstract function of the model: tell the driver what it returns
	var ss []string
	for _, p := range op.Pts {
		collectStrings(p.Doc, &ss)
	}
	if op.Q != nil {
		op.Q.strings(&ss)
	}
	for _, s := range ss {
		if !g.seen[s] {
			g.seen[s] = true
			if l := strings.ToLower(s); l != s {
				lo := &Op{Kind: "lower", Raw: s, Low: l}
				a, _ := g.w.Exec(lo)
				g.o.Emit("lower", lo.Line(), a, false)
				if g.co != nil {
					g.co.Emit("lower", lo.Line(), a, false)
				}
			}
		}
	}
	ans, fail := g.w.Exec(op)
	kind := op.Kind
	nontrivial := true
	if op.Kind == "search" {
		kind = "search:" + op.Q.sig(g.w)
		nontrivial = ans != "ids:" && ans != "error"
		if ans == "ids:" {
			g.o.Stats["search-empty-answer"]++
		}
	}
	if op.Kind == "dump" {
		nontrivial = ans != "-"
	}
	g.o.Emit(kind, op.Line(), ans, nontrivial)
	if g.co != nil {
		g.co.Emit(kind, op.Line(), ans, nontrivial)
	}
	if fail != nil && !g.sigs[fail.Sig] {
		g.sigs[fail.Sig] = true
		g.o.Fail(fail.Sig, fail.What, g.replayFor(op, fail))
	}
	return ans
}

// project keeps only the value at path (as a nested document), or nothing when the path is absent
func project(doc map[string]any, path string) map[string]any {
	v, ok := lookup(doc, path)
	if !ok {
		return map[string]any{}
	}
	segs := strings.Split(path, ".")
	var cur any = deepCopy(v)
	for i := len(segs) - 1; i >= 0; i-- {
		cur = map[string]any{segs[i]: cur}
	}
	return cur.(map[string]any)
}

func copyOp(o *Op) *Op {
	c := *o
	c.Pts = make([]Pt, len(o.Pts))
	for i, p := range o.Pts {
		c.Pts[i] = Pt{Label: p.Label, Node: p.Node, Doc: deepCopy(p.Doc).(map[string]any)}
	}
	c.Labels = append([]string{}, o.Labels...)
	return &c
}

// tryOps: does the query still violate the oracle after running the write ops on a fresh shard?
func (g *Gen) tryOps(idx []IdxSpec, ops []*Op, q *Q) (bool, []string) {
	w2 := NewWorld(g.tmp)
	defer w2.Close()
	var lines []string
	run := func(o *Op) (string, *Failure) {
		a, f := w2.Exec(o)
		lines = append(lines, o.Line())
		return a, f
	}
	run(&Op{Kind: "schema", Backend: g.w.backend, Idx: idx})
	var ss []string
	for _, o := range ops {
		for _, p := range o.Pts {
			collectStrings(p.Doc, &ss)
		}
	}
	q.strings(&ss)
	done := map[string]bool{}
	for _, s := range ss {
		if l := strings.ToLower(s); l != s && !done[s] {
			done[s] = true
			run(&Op{Kind: "lower", Raw: s, Low: l})
		}
	}
	for _, o := range ops {
		if a, _ := run(copyOp(o)); a != "ok" {
			return false, nil // never turn a replay into a rejected batch
		}
	}
	_, f := run(&Op{Kind: "search", Q: q})
	return f != nil, lines
}

// restrict a write op to the top-level key of path (documents and patches are shallow at the top level)
func restrictOp(o *Op, path string) *Op {
	top := strings.SplitN(path, ".", 2)[0]
	c := copyOp(o)
	for i := range c.Pts {
		d := map[string]any{}
		if v, ok := c.Pts[i].Doc[top]; ok {
			d[top] = v
		}
		c.Pts[i].Doc = d
	}
	return c
}

// replayFor builds a small replay for an oracle failure: (1) a fresh shard holding the current documents
// (one insert) + the query, shrunk to the queried index and to few points; (2) if the failure does not
// reproduce on a fresh shard it depends on the write history: the history is replayed and shrunk
// greedily (drop batches, keep only the queried property).
func (g *Gen) replayFor(op *Op, fail *Failure) string {
	var pts []Pt
	for _, l := range sortedKeys(g.w.docs) {
		pts = append(pts, Pt{Label: l, Doc: g.w.docs[l]})
	}
	one := g.w.idx
	if fail.Q.Path != "" {
		one = []IdxSpec{{fail.Q.Path, g.w.kind[fail.Q.Path]}}
	}
	var ins []*Op
	if len(pts) > 0 {
		ins = []*Op{{Kind: "insert", Pts: pts}}
	}
	if ok, lines := g.tryOps(g.w.idx, ins, fail.Q); ok {
		idx := g.w.idx
		if fail.Q.Path != "" {
			proj := &Op{Kind: "insert"}
			for _, p := range pts {
				proj.Pts = append(proj.Pts, Pt{Label: p.Label, Doc: project(p.Doc, fail.Q.Path)})
			}
			if ok2, l2 := g.tryOps(one, []*Op{proj}, fail.Q); ok2 {
				idx, pts, lines = one, proj.Pts, l2
			}
		}
		for i := 0; i < len(pts); {
			cand := append(append([]Pt{}, pts[:i]...), pts[i+1:]...)
			var ops []*Op
			if len(cand) > 0 {
				ops = []*Op{{Kind: "insert", Pts: cand}}
			}
			if ok2, l2 := g.tryOps(idx, ops, fail.Q); ok2 {
				pts, lines = cand, l2
			} else {
				i++
			}
		}
		return strings.Join(lines, "\n")
	}
	// history dependent
	hist := g.w.Writes
	idx := g.w.idx
	ok, lines := g.tryOps(idx, hist, fail.Q)
	if !ok {
		// not even the replayed history reproduces it (order of a Go map?): give the raw history
		var raw []string
		for _, l := range g.w.Hist {
			if !strings.HasPrefix(l, "search ") && !strings.HasPrefix(l, "dump ") {
				raw = append(raw, l)
			}
		}
		return strings.Join(append(raw, (&Op{Kind: "search", Q: fail.Q}).Line()), "\n")
	}
	if fail.Q.Path != "" {
		var r []*Op
		for _, o := range hist {
			r = append(r, restrictOp(o, fail.Q.Path))
		}
		if ok2, l2 := g.tryOps(one, r, fail.Q); ok2 {
			idx, hist, lines = one, r, l2
		}
	}
	for i := 0; i < len(hist); {
		cand := append(append([]*Op{}, hist[:i]...), hist[i+1:]...)
		if ok2, l2 := g.tryOps(idx, cand, fail.Q); ok2 {
			hist, lines = cand, l2
		} else {
			i++
		}
	}
	// fewer points per batch
	for i := 0; i < len(hist); i++ {
		for j := 0; j < len(hist[i].Pts) && len(hist[i].Pts) > 1; {
			c := copyOp(hist[i])
			c.Pts = append(c.Pts[:j], c.Pts[j+1:]...)
			cand := append(append(append([]*Op{}, hist[:i]...), c), hist[i+1:]...)
			if ok2, l2 := g.tryOps(idx, cand, fail.Q); ok2 {
				hist, lines = cand, l2
			} else {
				j++
			}
		}
	}
	return strings.Join(lines, "\n")
}

func (g *Gen) liveLabels() []string { return sortedKeys(g.w.docs) }

func (g *Gen) countBranches(before map[string]map[string]any, touched map[string]bool) {
	for _, l := range sortedKeys(before) {
		if !touched[l] {
			continue
		}
		for _, ix := range g.w.idx {
			pv, pok := lookup(before[l], ix.Path)
			var cv any
			cok := false
			if d, ok := g.w.docs[l]; ok {
				cv, cok = lookup(d, ix.Path)
			}
			switch {
			case !pok && !cok:
				g.branches["skip"]++
			case !pok && cok:
				g.branches["insert"]++
			case pok && !cok:
				g.branches["delete"]++
			case reflect.DeepEqual(pv, cv):
				g.branches["update-same-value"]++
			default:
				g.branches["update-changed-value"]++
			}
		}
	}
}

// operators: inRange and the boundary-sensitive comparisons get more weight
func (g *Gen) pickOp(ops []string) string {
	if g.r.Chance(25) {
		return models.OperatorInRange
	}
	return vh.Pick(g.r, ops)
}

func (g *Gen) genLeaf() *Q {
	if g.r.Chance(8) {
		if g.r.Bool() {
			return &Q{Kind: "ideq", Label: label(g.r.Intn(nLabels))}
		}
		n := 1 + g.r.Intn(4)
		q := &Q{Kind: "idany"}
		for i := 0; i < n; i++ {
			q.Labels = append(q.Labels, label(g.r.Intn(nLabels)))
		}
		return q
	}
	ix := vh.Pick(g.r, g.w.idx)
	// values that are stored right now under this index (so that queries hit and sit on boundaries)
	var stored []any
	for _, l := range g.liveLabels() {
		if v, ok := lookup(g.w.docs[l], ix.Path); ok {
			if a, isArr := v.([]any); isArr {
				stored = append(stored, a...)
			} else {
				stored = append(stored, v)
			}
		}
	}
	pick := func() any {
		if len(stored) > 0 && g.r.Chance(60) {
			return vh.Pick(g.r, stored)
		}
		k := ix.Kind
		if strings.HasPrefix(k, "arr") {
			k = "str:cs"
		}
		return g.genFor(k)
	}
	switch ix.Kind {
	case "str:cs", "str:ci":
		q := &Q{Kind: "str", Path: ix.Path, Op: g.pickOp(ops8)}
		q.S = pick().(string)
		if g.r.Chance(40) {
			q.S = caseVariant(g.r, q.S)
		}
		if q.Op == models.OperatorStartsWith && len(q.S) > 1 && g.r.Chance(60) {
			q.S = q.S[:1+g.r.Intn(len(q.S)-1)] // may cut a rune in half: still a byte prefix
		}
		if q.Op == models.OperatorInRange {
			q.SE = pick().(string)
			if g.r.Chance(50) {
				q.SE = caseVariant(g.r, q.SE)
			}
			if strings.ToLower(q.SE) < strings.ToLower(q.S) && g.r.Chance(70) {
				q.S, q.SE = q.SE, q.S
			}
		}
		return q
	case "arr:cs", "arr:ci":
		q := &Q{Kind: "arr", Path: ix.Path, All: g.r.Bool()}
		n := 1 + g.r.Intn(3)
		for i := 0; i < n; i++ {
			s := pick().(string)
			if g.r.Chance(30) {
				s = caseVariant(g.r, s)
			}
			q.Strs = append(q.Strs, s)
		}
		return q
	case "int":
		q := &Q{Kind: "int", Path: ix.Path, Op: g.pickOp(ops7)}
		q.I = pick().(int64)
		if g.r.Chance(20) {
			q.I += int64(g.r.Intn(3)) - 1
		}
		if q.Op == models.OperatorInRange {
			q.IE = pick().(int64)
			if q.IE < q.I && g.r.Chance(80) {
				q.I, q.IE = q.IE, q.I
			}
		}
		return q
	}
	q := &Q{Kind: "flt", Path: ix.Path, Op: g.pickOp(ops7)}
	q.F = pick().(float64)
	if g.r.Chance(15) {
		q.F = -q.F
	}
	if q.Op == models.OperatorInRange {
		q.FE = pick().(float64)
		if q.FE < q.F && g.r.Chance(80) {
			q.F, q.FE = q.FE, q.F
		}
	}
	return q
}

func (g *Gen) genQuery(depth int) *Q {
	if depth == 0 || g.r.Chance(55) {
		return g.genLeaf()
	}
	q := &Q{Kind: "and"}
	if g.r.Bool() {
		q.Kind = "or"
	}
	n := 1 + g.r.Intn(3)
	for i := 0; i < n; i++ {
		q.Subs = append(q.Subs, g.genQuery(depth-1))
	}
	return q
}

func (g *Gen) searches(n int) {
	for i := 0; i < n; i++ {
		var q *Q
		if g.r.Chance(70) {
			q = g.genLeaf()
		} else {
			q = g.genQuery(3)
		}
		// only queries the API lets through (models.Query.Validate, as the HTTP layer calls it)
		if err := g.w.toModelQuery(q).Validate(); err != nil {
			g.skipped++
			continue
		}
		g.emit(&Op{Kind: "search", Q: q})
	}
}

func (g *Gen) dumps() {
	for _, ix := range g.w.idx {
		g.emit(&Op{Kind: "dump", Path: ix.Path})
	}
}

func (g *Gen) history(shardNo, batches, nsearch int) {
	backend := "bolt"
	if shardNo%2 == 1 {
		backend = "mem"
	}
	ci := func() string {
		if g.r.Bool() {
			return ":ci"
		}
		return ":cs"
	}
	idx := []IdxSpec{{"s", "str:ci"}, {"t", "str:cs"}, {"tags", "arr" + ci()}, {"labels", "arr" + ci()}, {"n", "int"}, {"x", "flt"},
		{"nest.s", "str" + ci()}, {"nest.n", "int"}, {"nest.deep.x", "flt"}, {"nest.tags", "arr" + ci()}}
	g.seen = map[string]bool{}
	g.emit(&Op{Kind: "schema", Backend: backend, Idx: idx})
	g.searches(3) // queries on an empty shard
	for b := 0; b < batches; b++ {
		live := g.liveLabels()
		before := map[string]map[string]any{}
		for _, l := range live {
			before[l] = deepCopy(g.w.docs[l]).(map[string]any)
		}
		c := g.r.Intn(10)
		touched := map[string]bool{}
		switch {
		case len(live) < 3 || c < 3:
			var pts []Pt
			n := 1 + g.r.Intn(6)
			used := map[string]bool{}
			for i := 0; i < n; i++ {
				l := label(g.r.Intn(nLabels))
				if _, isLive := g.w.docs[l]; isLive || used[l] {
					continue
				}
				used[l] = true
				pts = append(pts, Pt{Label: l, Doc: g.genMap("", 65)})
			}
			if len(pts) == 0 {
				continue
			}
			if g.emit(&Op{Kind: "insert", Pts: pts}) != "ok" {
				panic("a valid insert batch was rejected")
			}
		case c < 8:
			var pts []Pt
			n := 1 + g.r.Intn(4)
			for i := 0; i < n; i++ {
				l := vh.Pick(g.r, live)
				if g.r.Chance(10) {
					l = label(g.r.Intn(nLabels)) // possibly unknown: skipped by the shard
				}
				touched[l] = true
				pts = append(pts, Pt{Label: l, Doc: g.genPatch()})
				if g.r.Chance(10) {
					pts = append(pts, Pt{Label: l, Doc: g.genPatch()}) // same point twice in one batch
				}
			}
			if g.emit(&Op{Kind: "update", Pts: pts}) != "ok" {
				panic("a valid update batch was rejected")
			}
		default:
			var ls []string
			n := 1 + g.r.Intn(3)
			used := map[string]bool{}
			for i := 0; i < n; i++ {
				l := vh.Pick(g.r, live)
				if g.r.Chance(15) {
					l = label(g.r.Intn(nLabels))
				}
				if !used[l] {
					used[l] = true
					touched[l] = true
					ls = append(ls, l)
				}
			}
			if g.emit(&Op{Kind: "delete", Labels: ls}) != "ok" {
				panic("a delete batch was rejected")
			}
		}
		g.countBranches(before, touched)
		g.dumps()
		g.searches(nsearch)
		g.searchesX(g.nx)
	}
}

// sideEmptyString: an indexed "" on the file backend (DESIGN section 8 no. 14) is refused by bbolt and a
// rejected batch may crash the process (no. 4): run it in a child process, record, do not judge.
func (g *Gen) sideEmptyString() map[string]any {
	lines := []string{
		"schema bolt 2 s str:ci tags arr:cs",
		"insert 1 u00 0000000000000001 M 1 s S:61",
		"insert 1 u01 0000000000000002 M 1 s S:-",
		"insert 1 u02 0000000000000003 M 1 tags A 2 S:61 S:-",
		"search str s greaterThanOrEquals 61 -",
		"schema mem 2 s str:ci tags arr:cs",
		"insert 1 u01 0000000000000002 M 1 s S:-",
		"search str s lessThan 61 -",
	}
	f := filepath.Join(g.tmp, "side.txt")
	os.WriteFile(f, []byte(strings.Join(lines, "\n")+"\n"), 0o644)
	cmd := exec.Command(os.Args[0], "-replay", f)
	done := make(chan struct{})
	var out []byte
	var err error
	go func() { out, err = cmd.Output(); close(done) }()
	select {
	case <-done:
	case <-time.After(60 * time.Second):
		cmd.Process.Kill()
		<-done
	}
	res := map[string]any{"ops": lines, "answers": strings.Split(strings.TrimSpace(string(out)), "\n")}
	if err != nil {
		res["child_error"] = err.Error()
	}
	return res
}

func doReplay(path string) {
	f, err := os.Open(path)
	if err != nil {
		panic(err)
	}
	defer f.Close()
	tmp, _ := os.MkdirTemp("", "c02replay")
	defer os.RemoveAll(tmp)
	w := NewWorld(tmp)
	defer w.Close()
	sc := bufio.NewScanner(f)
	sc.Buffer(make([]byte, 1<<20), 1<<26)
	out := bufio.NewWriter(os.Stdout)
	defer out.Flush()
	rw := &rworld{dir: tmp}
	defer rw.close()
	rankMode := false
	ar := &areplay{dir: tmp}
	acceptMode := false
	for sc.Scan() {
		line := strings.TrimSpace(sc.Text())
		if line == "" || strings.HasPrefix(line, "#") {
			continue
		}
		if strings.HasPrefix(line, "rschema ") {
			rankMode, acceptMode = true, false
		} else if strings.HasPrefix(line, "schema ") {
			rankMode, acceptMode = false, false
		} else if strings.HasPrefix(line, "aschema ") {
			rankMode, acceptMode = false, true
		}
		if acceptMode {
			fmt.Fprintln(out, ar.line(line))
			out.Flush()
			continue
		}
		if rankMode {
			fmt.Fprintln(out, rw.replayLine(line))
			out.Flush()
			continue
		}
		if strings.HasPrefix(line, "searchx ") {
			x, err := parseXReq(line)
			if err != nil || w.sh == nil {
				fmt.Fprintln(out, "bad-op")
				continue
			}
			ans, fail := w.searchX(x)
			if fail != nil {
				ans += "   !! " + fail.What + " [" + fail.Sig + "]"
			}
			fmt.Fprintln(out, ans)
			out.Flush()
			continue
		}
		op, err := parseOp(line)
		if err != nil {
			fmt.Fprintln(out, "bad-op")
			continue
		}
		if w.sh == nil && op.Kind != "schema" && op.Kind != "lower" {
			fmt.Fprintln(out, "bad-op")
			continue
		}
		ans, fail := w.Exec(op)
		if fail != nil {
			ans += "   !! the documents say " + w.expected(op.Q) + " [" + fail.Sig + "]"
		}
		fmt.Fprintln(out, ans)
		out.Flush()
	}
}

// vh.NewRng(seed) starts consecutive seeds one step apart on the same sequence; decorrelate them
func mixSeed(seed uint64) uint64 {
	z := seed + 0x9E3779B97F4A7C15
	z = (z ^ (z >> 30)) * 0xBF58476D1CE4E5B9
	z = (z ^ (z >> 27)) * 0x94D049BB133111EB
	return z ^ (z >> 31)
}

func main() {
	seed := flag.Uint64("seed", 1, "PRNG seed")
	dir := flag.String("out", "", "output directory")
	replay := flag.String("replay", "", "replay the op lines of this file against the implementation (prints impl answers)")
	shards := flag.Int("shards", 8, "number of shard histories")
	batches := flag.Int("batches", 14, "write batches per history")
	nsearch := flag.Int("searches", 14, "queries after each batch")
	nx := flag.Int("searchx", 0, "compose mode: full SearchPoints requests (select, sort, offset, limit) after each batch, written with the whole history to <out>/compose/")
	nrank := flag.Int("rank", 0, "rank mode: this many extra histories on shards with a filter, a vectorFlat and a text index (rank.go), written to <out>/rank/")
	naccept := flag.Int("accept", 0, "acceptance mode: this many extra histories of batches on the boundary of `Acceptable` (accept.go; refused batches run in child processes), written to <out>/accept/")
	acceptBatches := flag.Int("acceptbatches", 12, "batches per acceptance history")
	achild := flag.String("acceptchild", "", "internal: replay this file (accepted history + one batch) on a fresh shard and print the verdict")
	aprobe := flag.String("acceptprobe", "", "internal: run one pinned-assumption probe")
	aworker := flag.String("acceptworker", "", "internal: run acceptance history -accepth and write its lines (JSON) to this file")
	accepth := flag.Int("accepth", 0, "internal: the history number of -acceptworker")
	flag.Parse()
	zerolog.SetGlobalLevel(zerolog.Disabled)
	if *achild != "" {
		acceptChild(*achild)
		return
	}
	if *aprobe != "" {
		acceptProbe(*aprobe)
		return
	}
	if *aworker != "" {
		acceptWorker(*seed, *accepth, *acceptBatches, *aworker)
		return
	}
	if *replay != "" {
		doReplay(*replay)
		return
	}
	tmp, err := os.MkdirTemp("", "c02")
	if err != nil {
		panic(err)
	}
	defer os.RemoveAll(tmp)
	o := vh.NewOut(*dir)
	g := &Gen{r: vh.NewRng(mixSeed(*seed)), w: NewWorld(tmp), o: o, tmp: tmp, sigs: map[string]bool{}, branches: map[string]int{}}
	if *nx > 0 {
		g.co, g.nx = vh.NewOut(filepath.Join(*dir, "compose")), *nx
	}
	for s := 0; s < *shards; s++ {
		g.history(s, *batches, *nsearch)
	}
	g.w.Close()
	side := g.sideEmptyString()
	if *nrank > 0 {
		runRank(*seed, *dir, tmp, *nrank, *batches, 4, o)
	}
	if *naccept > 0 {
		runAccept(*seed, *dir, tmp, *naccept, *acceptBatches, o)
	}
	if g.co != nil {
		g.co.Close(map[string]any{"rule": "distinct op lines that are write batches, non-empty bucket dumps, or searches / full requests with a non-empty answer"})
	}
	o.Close(map[string]any{
		"rule":                        "distinct op lines that are write batches, non-empty bucket dumps, or searches with a non-empty answer",
		"getOperation_branches":       g.branches,
		"queries_refused_by_Validate": g.skipped,
		"side_stream_empty_string":    side,
	})
}
