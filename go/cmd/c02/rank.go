package main

// Rank mode (-rank N): N extra histories on shards with an integer filter index (`n`), a vectorFlat index
// (`v`: 2-d vectors on a small integer grid, squared Euclidean distance — exact, ties frequent) and a text
// index (`t`, standard analyser), written to <out>/rank/{ops,impl}.txt and answered line by line by the
// COMBINED model with ranking indexes (`semadriver C02 rank`, lean/SemaModel/Compose/RankDriver.lean):
// writes (node ids allocated by the model), a dump of the flat store and of the text postings after every
// batch, and `searchr` lines — plain vectorFlat / text queries and `_and` / `_or` trees mixing them with filter
// leaves, through the whole Shard.SearchPoints.
//
// Answers are compared modulo ties exactly as go/cmd/c04 does: adjacent rows of equal hybrid score are one
// group with its members sorted; for a plain ranking query that returns `limit` rows the last group counts
// only (a tie cut by the limit may keep different members — Go map order). Inside composite trees a leaf
// limit never cuts through a tie (checked against the leaf's full answer; the limit is raised otherwise), so
// the merged answer is determined up to the order inside groups of equal hybrid score.
//
// A vector is written `A 2 I:<x> I:<y>` in the op lines (grid coordinates); the real document holds
// []float32{x, y}. Weights are float32 bit patterns. The harness also evaluates the vectorFlat property
// directly on the real answers (oracle): candidates only, `min(limit, #candidates)` rows, the smallest
// distances in order, hybrid score = −weight·distance.

import (
	"bytes"
	"encoding/binary"
	"fmt"
	"math"
	"os"
	"path/filepath"
	"sort"
	"strconv"
	"strings"

	"github.com/RoaringBitmap/roaring/roaring64"
	"github.com/blevesearch/bleve/v2/analysis"
	_ "github.com/blevesearch/bleve/v2/analysis/analyzer/standard"
	"github.com/blevesearch/bleve/v2/registry"
	"github.com/google/uuid"
	"github.com/semafind/semadb/diskstore"
	"github.com/semafind/semadb/models"
	"github.com/semafind/semadb/shard"
	"github.com/semafind/semadb/shard/cache"
	"github.com/semafind/semadb/shard/index/text"
	"github.com/vmihailenco/msgpack/v5"
	"verifharness/vh"
)

var rankAnalyserCache = registry.NewCache()

func rankAnalyse(s string) []string {
	a, err := rankAnalyserCache.AnalyzerNamed("standard")
	if err != nil {
		panic(err)
	}
	var ts analysis.TokenStream = a.Analyze([]byte(s))
	out := make([]string, len(ts))
	for i, t := range ts {
		out[i] = string(t.Term)
	}
	return out
}

// ---------------------------------------------------------------------------------- queries

type RQ struct {
	Kind   string // and or flat text filt
	Subs   []*RQ
	X, Y   int
	Text   string
	All    bool
	Limit  int
	W      float32
	Filter *Q // pre-filter of a ranking leaf, or the filter leaf itself (Kind filt)
}

func w32(w float32) string { return fmt.Sprintf("%08x", math.Float32bits(w)) }

func (q *RQ) tokens(out []string) []string {
	fl := func(out []string) []string {
		if q.Filter == nil {
			return append(out, "nofilter")
		}
		return q.Filter.tokens(append(out, "filter"))
	}
	switch q.Kind {
	case "and", "or":
		out = append(out, q.Kind, strconv.Itoa(len(q.Subs)))
		for _, s := range q.Subs {
			out = s.tokens(out)
		}
		return out
	case "flat":
		return fl(append(out, "flat", "v", strconv.Itoa(q.X), strconv.Itoa(q.Y), strconv.Itoa(q.Limit), w32(q.W)))
	case "text":
		m := "any"
		if q.All {
			m = "all"
		}
		return fl(append(out, "text", "t", hx(q.Text), m, strconv.Itoa(q.Limit), w32(q.W)))
	case "filt":
		return q.Filter.tokens(out)
	}
	panic("bad rank query kind " + q.Kind)
}

func (q *RQ) Line() string { return strings.Join(q.tokens([]string{"searchr"}), " ") }

func parseRQ(ts []string) (*RQ, []string, error) {
	if len(ts) == 0 {
		return nil, nil, fmt.Errorf("rank query expected")
	}
	fl := func(ts []string) (*Q, []string, error) {
		if len(ts) == 0 {
			return nil, nil, fmt.Errorf("filter expected")
		}
		if ts[0] == "nofilter" {
			return nil, ts[1:], nil
		}
		if ts[0] != "filter" {
			return nil, nil, fmt.Errorf("filter expected")
		}
		return parseQ(ts[1:])
	}
	switch ts[0] {
	case "and", "or":
		if len(ts) < 2 {
			return nil, nil, fmt.Errorf("short")
		}
		n, err := strconv.Atoi(ts[1])
		if err != nil {
			return nil, nil, err
		}
		q := &RQ{Kind: ts[0]}
		rest := ts[2:]
		for i := 0; i < n; i++ {
			var s *RQ
			if s, rest, err = parseRQ(rest); err != nil {
				return nil, nil, err
			}
			q.Subs = append(q.Subs, s)
		}
		return q, rest, nil
	case "flat":
		if len(ts) < 6 {
			return nil, nil, fmt.Errorf("short flat")
		}
		x, e1 := strconv.Atoi(ts[2])
		y, e2 := strconv.Atoi(ts[3])
		l, e3 := strconv.Atoi(ts[4])
		wb, e4 := strconv.ParseUint(ts[5], 16, 32)
		if e1 != nil || e2 != nil || e3 != nil || e4 != nil {
			return nil, nil, fmt.Errorf("bad flat")
		}
		f, rest, err := fl(ts[6:])
		if err != nil {
			return nil, nil, err
		}
		return &RQ{Kind: "flat", X: x, Y: y, Limit: l, W: math.Float32frombits(uint32(wb)), Filter: f}, rest, nil
	case "text":
		if len(ts) < 6 {
			return nil, nil, fmt.Errorf("short text")
		}
		s, e1 := unhx(ts[2])
		l, e3 := strconv.Atoi(ts[4])
		wb, e4 := strconv.ParseUint(ts[5], 16, 32)
		if e1 != nil || e3 != nil || e4 != nil {
			return nil, nil, fmt.Errorf("bad text")
		}
		f, rest, err := fl(ts[6:])
		if err != nil {
			return nil, nil, err
		}
		return &RQ{Kind: "text", Text: s, All: ts[3] == "all", Limit: l, W: math.Float32frombits(uint32(wb)), Filter: f}, rest, nil
	}
	f, rest, err := parseQ(ts)
	if err != nil {
		return nil, nil, err
	}
	return &RQ{Kind: "filt", Filter: f}, rest, nil
}

var dummyWorld = &World{}

func (q *RQ) model() models.Query {
	var f *models.Query
	if q.Filter != nil && q.Kind != "filt" {
		m := dummyWorld.toModelQuery(q.Filter)
		f = &m
	}
	w := q.W
	switch q.Kind {
	case "and", "or":
		subs := make([]models.Query, len(q.Subs))
		for i, s := range q.Subs {
			subs[i] = s.model()
		}
		if q.Kind == "and" {
			return models.Query{Property: "_and", And: subs}
		}
		return models.Query{Property: "_or", Or: subs}
	case "flat":
		return models.Query{Property: "v", VectorFlat: &models.SearchVectorFlatOptions{Vector: []float32{float32(q.X), float32(q.Y)},
			Operator: models.OperatorNear, Limit: q.Limit, Filter: f, Weight: &w}}
	case "text":
		op := models.OperatorContainsAny
		if q.All {
			op = models.OperatorContainsAll
		}
		return models.Query{Property: "t", Text: &models.SearchTextOptions{Value: q.Text, Operator: op, Limit: q.Limit, Filter: f, Weight: &w}}
	case "filt":
		return dummyWorld.toModelQuery(q.Filter)
	}
	panic("bad rank query kind")
}

// ---------------------------------------------------------------------------------- world

type rworld struct {
	dir     string
	n       int
	sh      *shard.Shard
	docs    map[string]map[string]any // op-line view of the documents: n int64, v []any{int64,int64}, t string
	node    map[string]uint64
	labelOf map[uint64]string
	toks    map[string]bool
	hist    []string
}

func (w *rworld) close() {
	if w.sh != nil {
		w.sh.Close()
		w.sh = nil
	}
}

func (w *rworld) open(backend string) {
	w.close()
	col := models.Collection{UserId: "verif", Id: "c02rank", Replicas: 1,
		UserPlan: models.UserPlan{Name: "verif", MaxCollections: 1, MaxCollectionPointCount: 1 << 20, MaxPointSize: 1 << 20},
		IndexSchema: models.IndexSchema{
			"n": {Type: models.IndexTypeInteger},
			"v": {Type: models.IndexTypeVectorFlat, VectorFlat: &models.IndexVectorFlatParameters{VectorSize: 2, DistanceMetric: models.DistanceEuclidean}},
			"t": {Type: models.IndexTypeText, Text: &models.IndexTextParameters{Analyser: "standard"}},
		}}
	path := ""
	if backend == "bolt" {
		w.n++
		path = filepath.Join(w.dir, fmt.Sprintf("rank%d.bbolt", w.n))
		os.Remove(path)
	}
	sh, err := shard.NewShard(path, col, cache.NewManager(-1))
	if err != nil {
		panic(err)
	}
	w.sh = sh
	w.docs = map[string]map[string]any{}
	w.node = map[string]uint64{}
	w.labelOf = map[uint64]string{}
	w.hist = nil
}

// the document as the real shard stores it: the grid coordinates as float32
func realDoc(doc map[string]any) []byte {
	m := make(map[string]any, len(doc))
	for k, v := range doc {
		if arr, ok := v.([]any); ok && k == "v" {
			f := make([]float32, len(arr))
			for i, x := range arr {
				f[i] = float32(x.(int64))
			}
			m[k] = f
		} else {
			m[k] = v
		}
	}
	b, err := msgpack.Marshal(m)
	if err != nil {
		panic(err)
	}
	return b
}

func (w *rworld) learn(labels []string) {
	us := make([]string, len(labels))
	for i, l := range labels {
		us[i] = labelUUID(l).String()
	}
	res, err := w.sh.SearchPoints(models.SearchRequest{Query: models.Query{Property: "_id", StringArray: &models.SearchStringArrayOptions{Value: us, Operator: models.OperatorContainsAny}}})
	if err != nil {
		panic("rank learn: " + err.Error())
	}
	for _, r := range res {
		if l, ok := uuidLabel[r.Point.Id]; ok {
			w.node[l] = r.NodeId
			w.labelOf[r.NodeId] = l
		}
	}
}

func ptsLine(kind string, pts []Pt, withNode bool) string {
	t := []string{kind, strconv.Itoa(len(pts))}
	for _, p := range pts {
		t = append(t, p.Label)
		if withNode {
			t = append(t, h64(p.Node))
		}
		t = valTokens(p.Doc, t)
	}
	return strings.Join(t, " ")
}

func (w *rworld) insert(pts []Pt) string {
	ps := make([]models.Point, len(pts))
	labels := make([]string, len(pts))
	for i, p := range pts {
		ps[i] = models.Point{Id: labelUUID(p.Label), Data: realDoc(p.Doc)}
		labels[i] = p.Label
	}
	if err := w.sh.InsertPoints(ps); err != nil {
		return "rejected"
	}
	for _, p := range pts {
		w.docs[p.Label] = deepCopy(p.Doc).(map[string]any)
	}
	w.learn(labels)
	for i := range pts {
		pts[i].Node = w.node[pts[i].Label]
	}
	return "ok"
}

func (w *rworld) update(pts []Pt) string {
	ps := make([]models.Point, len(pts))
	for i, p := range pts {
		ps[i] = models.Point{Id: labelUUID(p.Label), Data: realDoc(p.Doc)}
	}
	if _, err := w.sh.UpdatePoints(ps); err != nil {
		return "rejected"
	}
	for _, p := range pts {
		d, ok := w.docs[p.Label]
		if !ok {
			continue
		}
		for k, v := range p.Doc {
			if s, ok := v.(string); ok && s == shard.DELETEVALUE {
				delete(d, k)
			} else {
				d[k] = deepCopy(v)
			}
		}
	}
	return "ok"
}

func (w *rworld) delete(labels []string) string {
	set := map[uuid.UUID]struct{}{}
	for _, l := range labels {
		set[labelUUID(l)] = struct{}{}
	}
	if _, err := w.sh.DeletePoints(set); err != nil {
		return "rejected"
	}
	for _, l := range labels {
		if id, ok := w.node[l]; ok {
			delete(w.labelOf, id)
			delete(w.node, l)
		}
		delete(w.docs, l)
	}
	return "ok"
}

func (w *rworld) nodeLabel(id uint64) string {
	if l, ok := w.labelOf[id]; ok {
		return l
	}
	return "?" + h64(id)
}

// the flat bucket: n<id>v -> little-endian float32s
func (w *rworld) fdump() string {
	var rows []string
	err := w.sh.VerifDB().Read(func(bm diskstore.BucketManager) error {
		b, err := bm.Get("index/vectorFlat/v")
		if err != nil {
			return err
		}
		return b.ForEach(func(k, v []byte) error {
			if len(k) != 10 || k[0] != 'n' || k[9] != 'v' {
				return nil
			}
			id := binary.LittleEndian.Uint64(k[1:9])
			cs := make([]string, 0, len(v)/4)
			for i := 0; i+4 <= len(v); i += 4 {
				f := math.Float32frombits(binary.LittleEndian.Uint32(v[i : i+4]))
				if f != float32(int64(f)) {
					cs = append(cs, fmt.Sprintf("?%v", f))
				} else {
					cs = append(cs, strconv.FormatInt(int64(f), 10))
				}
			}
			rows = append(rows, w.nodeLabel(id)+"="+strings.Join(cs, ","))
			return nil
		})
	})
	if err != nil {
		return "dump-error:" + err.Error()
	}
	if len(rows) == 0 {
		return "-"
	}
	sort.Strings(rows)
	return strings.Join(rows, ";")
}

// the text bucket: _numDocuments, t<term>s -> posting bitmap
func (w *rworld) tdump() string {
	var rows []string
	num := uint64(0)
	err := w.sh.VerifDB().Read(func(bm diskstore.BucketManager) error {
		b, err := bm.Get("index/text/t")
		if err != nil {
			return err
		}
		return b.ForEach(func(k, v []byte) error {
			if string(k) == "_numDocuments" {
				if len(v) == 8 {
					num = binary.LittleEndian.Uint64(v)
				}
				return nil
			}
			term, ok := text.VerifTermIdFromKey(k)
			if !ok {
				return nil
			}
			rs := roaring64.New()
			if _, err := rs.ReadFrom(bytes.NewReader(v)); err != nil {
				return err
			}
			var ls []string
			it := rs.Iterator()
			for it.HasNext() {
				ls = append(ls, w.nodeLabel(it.Next()))
			}
			if len(ls) == 0 {
				return nil
			}
			sort.Strings(ls)
			rows = append(rows, hx(term)+"="+strings.Join(ls, ","))
			return nil
		})
	})
	if err != nil {
		return "dump-error:" + err.Error()
	}
	sort.Strings(rows)
	return strconv.FormatUint(num, 10) + ";" + strings.Join(rows, ";")
}

type rrow struct {
	label  string
	ranked bool
	hybrid float32
	dist   *float32
	score  *float32
}

func (w *rworld) run(q *RQ) ([]rrow, error) {
	res, err := w.sh.SearchPoints(models.SearchRequest{Query: q.model(), Select: []string{"*"}})
	if err != nil {
		return nil, err
	}
	rows := make([]rrow, len(res))
	for i, r := range res {
		l, ok := uuidLabel[r.Point.Id]
		if !ok {
			l = "?" + r.Point.Id.String()
		}
		rows[i] = rrow{label: l, ranked: r.Distance != nil || r.Score != nil, hybrid: r.HybridScore, dist: r.Distance, score: r.Score}
	}
	return rows, nil
}

func normBits(f float32) uint32 {
	b := math.Float32bits(f)
	if b == 0x80000000 {
		return 0
	}
	return b
}

func canonRows(q *RQ, rows []rrow) string {
	var groups []string
	var unranked []string
	nranked := 0
	for _, r := range rows {
		if r.ranked {
			nranked++
		}
	}
	cut := (q.Kind == "flat" || q.Kind == "text") && nranked == q.Limit
	i := 0
	for i < len(rows) {
		if !rows[i].ranked {
			unranked = append(unranked, rows[i].label)
			i++
			continue
		}
		j := i
		var ls []string
		for j < len(rows) && rows[j].ranked && normBits(rows[j].hybrid) == normBits(rows[i].hybrid) {
			ls = append(ls, rows[j].label)
			j++
		}
		last := true
		for k := j; k < len(rows); k++ {
			if rows[k].ranked {
				last = false
			}
		}
		if cut && last {
			groups = append(groups, fmt.Sprintf("h%08x#%d", normBits(rows[i].hybrid), len(ls)))
		} else {
			sort.Strings(ls)
			groups = append(groups, fmt.Sprintf("h%08x{%s}", normBits(rows[i].hybrid), strings.Join(ls, ",")))
		}
		i = j
	}
	return strings.Join(groups, " ") + " u=" + strings.Join(unranked, ",")
}

// ---------------------------------------------------------------------------------- oracle (vectorFlat)

func satFilter(q *Q, lbl string, doc map[string]any) bool {
	if q == nil {
		return true
	}
	switch q.Kind {
	case "int":
		v, ok := doc["n"].(int64)
		return ok && q.Path == "n" && satNum(q.Op, v, q.I, q.IE)
	case "idany":
		for _, l := range q.Labels {
			if l == lbl {
				return true
			}
		}
		return false
	case "ideq":
		return q.Label == lbl
	case "and":
		for _, s := range q.Subs {
			if !satFilter(s, lbl, doc) {
				return false
			}
		}
		return true
	case "or":
		for _, s := range q.Subs {
			if satFilter(s, lbl, doc) {
				return true
			}
		}
		return false
	}
	return false
}

func (w *rworld) flatOracle(q *RQ, rows []rrow) (string, string) {
	type cand struct {
		l string
		d float32
	}
	var cs []cand
	for l, d := range w.docs {
		arr, ok := d["v"].([]any)
		if !ok || !satFilter(q.Filter, l, d) {
			continue
		}
		dx, dy := float32(arr[0].(int64))-float32(q.X), float32(arr[1].(int64))-float32(q.Y)
		cs = append(cs, cand{l, dx*dx + dy*dy})
	}
	sort.Slice(cs, func(i, j int) bool { return cs[i].d < cs[j].d })
	want := min(q.Limit, len(cs))
	if len(rows) != want {
		return "count", fmt.Sprintf("returns %d rows, there are %d candidates and the limit is %d", len(rows), len(cs), q.Limit)
	}
	seen := map[string]bool{}
	for i, r := range rows {
		var c *cand
		for k := range cs {
			if cs[k].l == r.label {
				c = &cs[k]
			}
		}
		if c == nil || seen[r.label] {
			return "candidate", fmt.Sprintf("row %d (%s) is not a candidate (has the vector field, satisfies the filter), or is repeated", i, r.label)
		}
		seen[r.label] = true
		if r.dist == nil || *r.dist != c.d {
			return "distance", fmt.Sprintf("row %d (%s) reports a distance other than %v", i, r.label, c.d)
		}
		if *r.dist != cs[i].d {
			return "nearest", fmt.Sprintf("row %d (%s) is at distance %v, the %d-th smallest candidate distance is %v", i, r.label, *r.dist, i+1, cs[i].d)
		}
		if h := -1 * q.W * c.d; normBits(r.hybrid) != normBits(h) {
			return "hybrid", fmt.Sprintf("row %d (%s) has hybrid score %v, not -weight*distance = %v", i, r.label, r.hybrid, h)
		}
	}
	return "", ""
}

// ---------------------------------------------------------------------------------- generator

type rgen struct {
	r    *vh.Rng
	w    *rworld
	o    *vh.Out // the rank stream
	main *vh.Out // oracle failures go to the check's stats.json
	sigs map[string]bool
}

var rankWords = []string{"red", "green", "fox", "Fox", "the", "running", "dog", "dogs", "RED", "red"}
var rankWeights = []float32{1, 1, 2, 0.5, 0, -1, 3}

func (g *rgen) emit(kind, line, ans string, nontrivial bool) {
	g.o.Emit(kind, line, ans, nontrivial)
	g.w.hist = append(g.w.hist, line)
}

func (g *rgen) tok(s string) {
	if g.w.toks[s] {
		return
	}
	g.w.toks[s] = true
	ts := rankAnalyse(s)
	t := []string{"tok", hx(s), strconv.Itoa(len(ts))}
	for _, x := range ts {
		t = append(t, hx(x))
	}
	g.emit("tok", strings.Join(t, " "), "ok", false)
}

func (g *rgen) genText() string {
	n := g.r.Intn(4)
	if g.r.Chance(10) {
		return vh.Pick(g.r, []string{"", "the", "a the and", "!!"}) // analyses to zero tokens
	}
	ws := make([]string, 0, n+1)
	for i := 0; i <= n; i++ {
		ws = append(ws, vh.Pick(g.r, rankWords))
	}
	return strings.Join(ws, " ")
}

func (g *rgen) genDoc(full bool) map[string]any {
	d := map[string]any{}
	if g.r.Chance(85) {
		d["n"] = int64(g.r.Intn(6))
	}
	if g.r.Chance(80) {
		d["v"] = []any{int64(g.r.Intn(5) - 2), int64(g.r.Intn(5) - 2)}
	}
	if g.r.Chance(75) {
		s := g.genText()
		g.tok(s)
		d["t"] = s
	}
	if full && g.r.Chance(30) {
		d["extra"] = int64(g.r.Intn(100))
	}
	return d
}

func (g *rgen) live() []string {
	ls := make([]string, 0, len(g.w.docs))
	for l := range g.w.docs {
		ls = append(ls, l)
	}
	sort.Strings(ls)
	return ls
}

func (g *rgen) batch() {
	live := g.live()
	c := g.r.Intn(100)
	switch {
	case c < 40 || len(live) == 0 || (len(live) < 7 && c < 75):
		var pts []Pt
		used := map[string]bool{}
		for i, n := 0, 2+g.r.Intn(4); i < n; i++ {
			l := label(g.r.Intn(nLabels))
			if _, ok := g.w.docs[l]; ok || used[l] {
				continue
			}
			used[l] = true
			pts = append(pts, Pt{Label: l, Doc: g.genDoc(true)})
		}
		if len(pts) == 0 {
			return
		}
		ans := g.w.insert(pts)
		g.emit("insert", ptsLine("insert", pts, true), ans, true)
	case c < 80:
		var pts []Pt
		for i, n := 0, 1+g.r.Intn(3); i < n; i++ {
			l := vh.Pick(g.r, live)
			if g.r.Chance(8) {
				l = label(g.r.Intn(nLabels)) // possibly unknown: skipped
			}
			d := map[string]any{}
			for _, k := range []string{"n", "v", "t"} {
				switch c := g.r.Intn(10); {
				case c < 4:
					for kk, vv := range g.genDoc(false) {
						if kk == k {
							d[k] = vv
						}
					}
				case c < 6:
					d[k] = shard.DELETEVALUE // the point loses the field
				}
			}
			if len(d) == 0 {
				d["extra"] = int64(g.r.Intn(100))
			}
			pts = append(pts, Pt{Label: l, Doc: d})
		}
		// a point named twice in one batch: the second change sees the first (the repaired analyser keeps their order)
		ans := g.w.update(pts)
		g.emit("update", ptsLine("update", pts, false), ans, true)
	default:
		var ls []string
		for i, n := 0, 1+g.r.Intn(2); i < n; i++ {
			ls = append(ls, vh.Pick(g.r, live))
		}
		ans := g.w.delete(ls)
		g.emit("delete", "delete "+strconv.Itoa(len(ls))+" "+strings.Join(ls, " "), ans, true)
	}
	g.emit("fdump", "fdump", g.w.fdump(), true)
	g.emit("tdump", "tdump", g.w.tdump(), true)
}

func (g *rgen) genFilter() *Q {
	live := g.live()
	leaf := func() *Q {
		if g.r.Chance(70) || len(live) == 0 {
			return &Q{Kind: "int", Path: "n", Op: vh.Pick(g.r, []string{models.OperatorEquals, models.OperatorNotEquals, models.OperatorGreaterOrEq, models.OperatorLessOrEq, models.OperatorGreaterThan, models.OperatorInRange}),
				I: int64(g.r.Intn(6)), IE: int64(3 + g.r.Intn(3))}
		}
		ls := []string{label(g.r.Intn(nLabels))}
		for _, l := range live {
			if g.r.Chance(50) {
				ls = append(ls, l)
			}
		}
		return &Q{Kind: "idany", Labels: ls}
	}
	switch g.r.Intn(5) {
	case 0:
		return &Q{Kind: "or", Subs: []*Q{leaf(), leaf()}}
	case 1:
		return &Q{Kind: "and", Subs: []*Q{leaf(), leaf()}}
	default:
		return leaf()
	}
}

func (g *rgen) genLeafRQ(composite bool) *RQ {
	var f *Q
	if g.r.Chance(35) {
		f = g.genFilter()
	}
	lim := 1 + g.r.Intn(6)
	if g.r.Chance(15) {
		lim = 20
	}
	w := vh.Pick(g.r, rankWeights)
	var q *RQ
	if g.r.Chance(55) {
		q = &RQ{Kind: "flat", X: g.r.Intn(5) - 2, Y: g.r.Intn(5) - 2, Limit: lim, W: w, Filter: f}
	} else {
		// at most two distinct terms: float32 addition is commutative, so the Go map order of the term set cannot show
		s := vh.Pick(g.r, rankWords)
		if g.r.Chance(50) {
			s += " " + vh.Pick(g.r, rankWords)
		}
		if g.r.Chance(5) {
			s = "the"
		}
		g.tok(s)
		q = &RQ{Kind: "text", Text: s, All: g.r.Chance(40), Limit: lim, W: w, Filter: f}
	}
	if composite {
		g.disambiguate(q)
	}
	return q
}

// inside a composite tree a leaf limit must not cut through a tie: raise it until it does not
func (g *rgen) disambiguate(q *RQ) {
	full := *q
	full.Limit = 64
	rows, err := g.w.run(&full)
	if err != nil {
		return
	}
	key := func(r rrow) float32 {
		if q.Kind == "flat" {
			return *r.dist
		}
		return *r.score
	}
	for q.Limit < len(rows) && key(rows[q.Limit-1]) == key(rows[q.Limit]) {
		q.Limit++
	}
}

func (g *rgen) genTree(depth int) *RQ {
	n := 2 + g.r.Intn(2)
	if g.r.Chance(10) {
		n = 1
	}
	q := &RQ{Kind: vh.Pick(g.r, []string{"and", "or", "or"})}
	for i := 0; i < n; i++ {
		switch c := g.r.Intn(100); {
		case c < 55:
			q.Subs = append(q.Subs, g.genLeafRQ(true))
		case c < 85 || depth == 0:
			q.Subs = append(q.Subs, &RQ{Kind: "filt", Filter: g.genFilterLeaf()})
		default:
			q.Subs = append(q.Subs, g.genTree(depth-1))
		}
	}
	return q
}

func (g *rgen) genFilterLeaf() *Q {
	for {
		f := g.genFilter()
		if f.Kind != "and" && f.Kind != "or" {
			return f
		}
	}
}

func (g *rgen) search() {
	var q *RQ
	kind := "searchr:plain"
	if g.r.Chance(55) {
		q = g.genLeafRQ(false)
	} else {
		q = g.genTree(1)
		kind = "searchr:tree"
	}
	if q.model().Validate() != nil {
		return
	}
	rows, err := g.w.run(q)
	ans := "error"
	if err == nil {
		ans = canonRows(q, rows)
	}
	g.emit(kind+":"+q.Kind, q.Line(), ans, err == nil && len(rows) > 0)
	if err == nil && q.Kind == "flat" {
		if what, detail := g.w.flatOracle(q, rows); what != "" {
			sig := "compose-rank:flat-" + what
			if !g.sigs[sig] {
				g.sigs[sig] = true
				g.main.Fail(sig, fmt.Sprintf("request %q: %s", q.Line(), detail), strings.Join(g.w.hist, "\n"))
			}
		}
	}
}

func runRank(seed uint64, dir, tmp string, histories, batches, searches int, main *vh.Out) {
	o := vh.NewOut(filepath.Join(dir, "rank"))
	g := &rgen{r: vh.NewRng(mixSeed(seed ^ 0x72616e6b)), w: &rworld{dir: tmp}, o: o, main: main, sigs: map[string]bool{}}
	// the idf table: float32(math.Log10(float64(N)/float64(df+1))) as text.go computes it
	var idf []string
	for n := 0; n <= nLabels+1; n++ {
		for df := 0; df <= n; df++ {
			v := float32(math.Log10(float64(uint64(n)) / float64(uint64(df)+1)))
			idf = append(idf, fmt.Sprintf("idf %d %d %08x", n, df, math.Float32bits(v)))
		}
	}
	// the analyser table and the idf table are kept by the driver across histories
	g.w.toks = map[string]bool{}
	for _, l := range idf {
		g.o.Emit("idf", l, "ok", false)
	}
	for h := 0; h < histories; h++ {
		backend := "mem"
		if g.r.Chance(50) {
			backend = "bolt"
		}
		g.w.open(backend)
		g.emit("rschema", "rschema "+backend+" n v t", "ok", false)
		for b := 0; b < batches; b++ {
			g.batch()
			for s := 0; s < searches; s++ {
				g.search()
			}
		}
	}
	g.w.close()
	o.Close(map[string]any{"rule": "distinct op lines that are write batches, index dumps, or ranking requests with a non-empty answer"})
}

// replay of rank lines (the real answers)
func (w *rworld) replayLine(line string) string {
	ts := strings.Fields(line)
	if len(ts) == 0 {
		return "bad-op"
	}
	pts := func(withNode bool) ([]Pt, bool) {
		if len(ts) < 2 {
			return nil, false
		}
		n, err := strconv.Atoi(ts[1])
		if err != nil {
			return nil, false
		}
		rest := ts[2:]
		var out []Pt
		for i := 0; i < n; i++ {
			if len(rest) == 0 {
				return nil, false
			}
			p := Pt{Label: rest[0]}
			rest = rest[1:]
			if withNode {
				if len(rest) == 0 {
					return nil, false
				}
				rest = rest[1:]
			}
			v, r2, err := parseVal(rest)
			if err != nil {
				return nil, false
			}
			m, ok := v.(map[string]any)
			if !ok {
				return nil, false
			}
			p.Doc, rest = m, r2
			out = append(out, p)
		}
		return out, true
	}
	if ts[0] == "rschema" && len(ts) >= 2 {
		w.open(ts[1])
		return "ok"
	}
	if ts[0] == "tok" || ts[0] == "idf" {
		return "ok"
	}
	if w.sh == nil {
		return "bad-op"
	}
	switch ts[0] {
	case "insert":
		if p, ok := pts(true); ok {
			return w.insert(p)
		}
	case "update":
		if p, ok := pts(false); ok {
			return w.update(p)
		}
	case "delete":
		if len(ts) >= 2 {
			return w.delete(ts[2:])
		}
	case "fdump":
		return w.fdump()
	case "tdump":
		return w.tdump()
	case "searchr":
		q, _, err := parseRQ(ts[1:])
		if err != nil {
			return "bad-op"
		}
		rows, err := w.run(q)
		if err != nil {
			return "error"
		}
		ans := canonRows(q, rows)
		if q.Kind == "flat" {
			if what, detail := w.flatOracle(q, rows); what != "" {
				ans += "   !! " + detail + " [compose-rank:flat-" + what + "]"
			}
		}
		return ans
	}
	return "bad-op"
}
